(* ReopenLemmas.v -- order, table-map and catalog-reader lemmas used by ReopenProofs.v (C01 at package level):
   strictly sorted lists are determined by their elements, tables_insert keeps the BTreeMap order,
   and the catalog readers of pkg_open (read_table_names, read_columns_rows, read_validation_rows, build_tables)
   over the rows of SEVERAL tables. *)
From Coq Require Import ZifyBool ZifyNat ZifyN Lia Sorting.Sorted Permutation.
From MsiModel Require Import Base Sexp Value Expr Category Column ColumnProofs CategoryProofs CodePage Pool Table Container StreamName
  Propset Summary Query Package PoolProofs TableProofs QueryProofs DbInv CatalogProofs.
From MsiGen Require Import GenConsts GenCatalog GenStreamName.
Open Scope N_scope.
Arguments N.add : simpl never.
Arguments N.mul : simpl never.
Arguments N.sub : simpl never.

(* ====================================================================== *)
(* strictly sorted lists                                                   *)
(* ====================================================================== *)
Section SortedEq.
  Context {A : Type} (R : A -> A -> Prop).
  Hypothesis R_irrefl : forall a, ~ R a a.
  Hypothesis R_trans : forall a b c, R a b -> R b c -> R a c.

  (* a strictly sorted list is determined by its set of elements *)
  Lemma sorted_ext_eq : forall l1 l2, StronglySorted R l1 -> StronglySorted R l2 ->
    (forall x, In x l1 <-> In x l2) -> l1 = l2.
  Proof.
    induction l1 as [|a l1 IH]; intros l2 S1 S2 H.
    - destruct l2 as [|b l2]; [reflexivity|]. exfalso. apply (H b). left; reflexivity.
    - destruct l2 as [|b l2]. { exfalso. apply (H a). left; reflexivity. }
      inversion S1 as [|? ? S1' F1]; subst. inversion S2 as [|? ? S2' F2]; subst.
      rewrite Forall_forall in F1, F2.
      assert (E : a = b).
      { destruct (proj1 (H a) (or_introl eq_refl)) as [E|Ha]; [symmetry; exact E|].
        destruct (proj2 (H b) (or_introl eq_refl)) as [E|Hb]; [exact E|].
        exfalso. apply (R_irrefl a). eapply R_trans; [apply F1; exact Hb | apply F2; exact Ha]. }
      subst b. f_equal. apply IH; try assumption.
      intros x. split; intros Hx.
      + destruct (proj1 (H x) (or_intror Hx)) as [E|Hx']; [|exact Hx'].
        subst x. exfalso. apply (R_irrefl a). apply F1. exact Hx.
      + destruct (proj2 (H x) (or_intror Hx)) as [E|Hx']; [|exact Hx'].
        subst x. exfalso. apply (R_irrefl a). apply F2. exact Hx.
  Qed.

  (* the lemma the proof sketch asks for: a permutation of a strictly sorted list that is itself strictly sorted is equal *)
  Lemma sorted_perm_eq : forall l1 l2, StronglySorted R l1 -> StronglySorted R l2 -> Permutation l1 l2 -> l1 = l2.
  Proof.
    intros l1 l2 S1 S2 P. apply sorted_ext_eq; try assumption.
    intros x. split; intros Hx; [eapply Permutation_in; eassumption|].
    eapply Permutation_in; [apply Permutation_sym; exact P | exact Hx].
  Qed.

  Lemma SS_app : forall l1 l2, StronglySorted R l1 -> StronglySorted R l2 ->
    (forall x y, In x l1 -> In y l2 -> R x y) -> StronglySorted R (l1 ++ l2).
  Proof.
    induction l1 as [|a l1 IH]; intros l2 S1 S2 H; cbn [app]; [exact S2|].
    inversion S1 as [|? ? S1' F1]; subst. constructor.
    - apply IH; try assumption. intros x y Hx Hy. apply H; [right; exact Hx | exact Hy].
    - apply Forall_app. split; [exact F1|]. apply Forall_forall. intros y Hy. apply H; [left; reflexivity | exact Hy].
  Qed.

  Lemma SS_concat : forall bs : list (list A), Forall (StronglySorted R) bs ->
    StronglySorted (fun b1 b2 => forall x y, In x b1 -> In y b2 -> R x y) bs ->
    StronglySorted R (List.concat bs).
  Proof.
    induction bs as [|b bs IH]; intros F S; cbn [List.concat]; [constructor|].
    inversion F as [|? ? Fb Fbs]; subst. inversion S as [|? ? S' FS]; subst.
    apply SS_app; [exact Fb | apply IH; assumption |].
    intros x y Hx Hy. apply in_concat in Hy as (b2 & Hb2 & Hy).
    rewrite Forall_forall in FS. exact (FS b2 Hb2 x y Hx Hy).
  Qed.

  Lemma SS_filter (f : A -> bool) : forall l, StronglySorted R l -> StronglySorted R (filter f l).
  Proof.
    induction 1 as [|a l S IH F]; cbn [filter]; [constructor|].
    destruct (f a); [|exact IH]. constructor; [exact IH|].
    rewrite Forall_forall in *. intros x Hx. apply filter_In in Hx as [Hx _]. apply F. exact Hx.
  Qed.
End SortedEq.

Lemma SS_map_in {A B} (R : A -> A -> Prop) (R' : B -> B -> Prop) (f : A -> B) : forall l,
  (forall a b, In a l -> In b l -> R a b -> R' (f a) (f b)) ->
  StronglySorted R l -> StronglySorted R' (map f l).
Proof.
  induction l as [|a l IH]; intros H S; cbn [map]; [constructor|].
  inversion S as [|? ? S' F]; subst. constructor.
  - apply IH; [|exact S']. intros x y Hx Hy. apply H; right; assumption.
  - rewrite Forall_forall in *. intros y Hy. apply in_map_iff in Hy as (x & <- & Hx).
    apply H; [left; reflexivity | right; exact Hx | apply F; exact Hx].
Qed.

Lemma SS_unmap {A B} (R' : B -> B -> Prop) (f : A -> B) : forall l,
  StronglySorted R' (map f l) -> StronglySorted (fun a b => R' (f a) (f b)) l.
Proof.
  induction l as [|a l IH]; intros S; [constructor|].
  cbn [map] in S. inversion S as [|? ? S' F]; subst. constructor; [apply IH; exact S'|].
  rewrite Forall_forall in *. intros x Hx. apply F. apply in_map. exact Hx.
Qed.

(* ====================================================================== *)
(* the table map                                                           *)
(* ====================================================================== *)
Definition tlt (a b : str * table) : Prop := str_cmp (fst a) (fst b) = Lt.

Lemma tlt_irrefl a : ~ tlt a a.
Proof. unfold tlt. rewrite str_cmp_refl. discriminate. Qed.
Lemma tlt_trans a b c : tlt a b -> tlt b c -> tlt a c.
Proof. unfold tlt. apply str_cmp_trans. Qed.

Lemma str_cmp_lt_neq a b : str_cmp a b = Lt -> a <> b.
Proof. intros H E. subst b. rewrite str_cmp_refl in H. discriminate. Qed.

Lemma tables_insert_in l n t x : In x (tables_insert l n t) -> x = (n, t) \/ In x l.
Proof.
  induction l as [|[m u] r IH]; cbn [tables_insert].
  - intros [<-|[]]. left; reflexivity.
  - destruct (str_cmp n m).
    + intros [<-|H]; [left; reflexivity | right; right; exact H].
    + intros [<-|H]; [left; reflexivity | right; exact H].
    + intros [<-|H]; [right; left; reflexivity|]. destruct (IH H) as [E|Hr]; [left; exact E | right; right; exact Hr].
Qed.

Lemma tables_insert_new l n t : In (n, t) (tables_insert l n t).
Proof.
  induction l as [|[m u] r IH]; cbn [tables_insert]; [left; reflexivity|].
  destruct (str_cmp n m); [left; reflexivity | left; reflexivity | right; exact IH].
Qed.

Lemma tables_insert_keep l n t x : In x l -> fst x <> n -> In x (tables_insert l n t).
Proof.
  induction l as [|[m u] r IH]; intros Hin Hne; [destruct Hin|].
  cbn [tables_insert]. destruct (str_cmp n m) eqn:E.
  - apply str_cmp_eq in E. subst m. destruct Hin as [<-|Hin]; [exfalso; apply Hne; reflexivity | right; exact Hin].
  - right. exact Hin.
  - destruct Hin as [<-|Hin]; [left; reflexivity | right; apply IH; assumption].
Qed.

Lemma tables_insert_sorted l n t : StronglySorted tlt l -> StronglySorted tlt (tables_insert l n t).
Proof.
  induction 1 as [|[m u] r S IH F]; cbn [tables_insert]; [constructor; constructor|].
  destruct (str_cmp n m) eqn:E.
  - apply str_cmp_eq in E. subst m. constructor; [exact S | exact F].
  - constructor; [constructor; assumption|]. constructor; [exact E|].
    rewrite Forall_forall in *. intros x Hx. eapply tlt_trans; [|apply F; exact Hx]. exact E.
  - constructor; [exact IH|]. rewrite Forall_forall in *. intros x Hx.
    apply tables_insert_in in Hx as [->|Hx]; [|apply F; exact Hx].
    unfold tlt. cbn [fst]. rewrite str_cmp_antisym, E. reflexivity.
Qed.

Lemma find_table_in l n t : find_table l n = Some t -> In (n, t) l.
Proof.
  induction l as [|[m u] r IH]; cbn [find_table]; [discriminate|].
  destruct (str_eqb m n) eqn:E.
  - apply str_eqb_spec in E. subst m. intros H. inversion H. left; reflexivity.
  - intros H. right. apply IH. exact H.
Qed.

Lemma sorted_find l n t : StronglySorted tlt l -> In (n, t) l -> find_table l n = Some t.
Proof.
  induction 1 as [|[m u] r S IH F]; intros Hin; [destruct Hin|].
  cbn [find_table]. destruct Hin as [E|Hin].
  - inversion E; subst. rewrite str_eqb_refl. reflexivity.
  - rewrite Forall_forall in F. specialize (F _ Hin). unfold tlt in F. cbn [fst] in F.
    rewrite (str_eqb_neq m n (str_cmp_lt_neq _ _ F)). apply IH. exact Hin.
Qed.

Lemma sorted_names_nodup l : StronglySorted tlt l -> NoDup (map fst l).
Proof.
  induction 1 as [|a r S IH F]; cbn [map]; constructor; [|exact IH].
  intros Hin. apply in_map_iff in Hin as (x & E & Hx).
  rewrite Forall_forall in F. specialize (F x Hx). unfold tlt in F. rewrite E, str_cmp_refl in F. discriminate.
Qed.

Definition ins_all (U : tables) (acc : tables) : tables := fold_left (fun a e => tables_insert a (fst e) (snd e)) U acc.

Lemma ins_all_sorted U : forall acc, StronglySorted tlt acc -> StronglySorted tlt (ins_all U acc).
Proof.
  induction U as [|e U IH]; intros acc S; [exact S|]. cbn [ins_all fold_left]. apply IH. apply tables_insert_sorted. exact S.
Qed.

Lemma ins_all_in U : forall acc x, In x (ins_all U acc) -> In x acc \/ In x U.
Proof.
  induction U as [|e U IH]; intros acc x H; [left; exact H|].
  cbn [ins_all fold_left] in H. apply IH in H as [H|H]; [|right; right; exact H].
  apply tables_insert_in in H as [->|H]; [right; left; destruct e; reflexivity | left; exact H].
Qed.

Lemma ins_all_has U : forall acc x, NoDup (map fst U) ->
  (In x acc /\ ~ In (fst x) (map fst U)) \/ In x U -> In x (ins_all U acc).
Proof.
  induction U as [|e U IH]; intros acc x ND H.
  - destruct H as [[H _]|[]]. exact H.
  - cbn [map] in ND. inversion ND as [|? ? Hn ND']; subst.
    cbn [ins_all fold_left]. apply IH; [exact ND'|].
    destruct H as [[Hacc Hnot]|[<-|HU]].
    + left. split.
      * apply tables_insert_keep; [exact Hacc|]. intros E. apply Hnot. left. symmetry. exact E.
      * intros Hin. apply Hnot. right. exact Hin.
    + left. split; [|exact Hn]. destruct e as [n t]. apply tables_insert_new.
    + right. exact HU.
Qed.

(* ====================================================================== *)
(* read_table_names                                                        *)
(* ====================================================================== *)
Lemma existsb_str_notin s l : ~ In s l -> existsb (str_eqb s) l = false.
Proof.
  intros H. destruct (existsb (str_eqb s) l) eqn:E; [|reflexivity].
  apply existsb_str_In in E. contradiction.
Qed.

Lemma read_table_names_spec : forall l seen, NoDup (seen ++ l) ->
  read_table_names (map (fun n => [VStr n]) l) seen = Ok (seen ++ l).
Proof.
  induction l as [|a l IH]; intros seen ND.
  - cbn. rewrite app_nil_r. reflexivity.
  - cbn [map read_table_names nth_opt unwrap rbind as_str_v].
    rewrite existsb_str_notin.
    + rewrite IH; rewrite <- app_assoc; [reflexivity | exact ND].
    + apply NoDup_remove_2 in ND. intros H. apply ND. apply in_or_app. left. exact H.
Qed.

(* ====================================================================== *)
(* read_columns_rows over the rows of several tables                       *)
(* ====================================================================== *)
Lemma filter_other (tn : str) (rest : list (str * list colspec)) :
  (forall e, In e rest -> fst e <> tn) -> filter (fun e => negb (str_eqb (fst e) tn)) rest = rest.
Proof.
  induction rest as [|a r IH]; intros H; [reflexivity|]. cbn [filter].
  rewrite (str_eqb_neq _ _ (H a (or_introl eq_refl))). cbn [negb]. rewrite IH; [reflexivity|].
  intros e He. apply H. right. exact He.
Qed.
Lemma find_other (tn : str) (rest : list (str * list colspec)) :
  (forall e, In e rest -> fst e <> tn) -> find (fun e => str_eqb (fst e) tn) rest = None.
Proof.
  induction rest as [|a r IH]; intros H; [reflexivity|]. cbn [find].
  rewrite (str_eqb_neq _ _ (H a (or_introl eq_refl))). apply IH. intros e He. apply H. right. exact He.
Qed.

Lemma rcr_block names tn : tn <> [] -> In tn names ->
  forall cols i pre rest more, Forall (fun c => c_name c <> []) cols ->
  (forall s, In s pre -> (fst (fst s) < i)%Z) ->
  (forall e, In e rest -> fst e <> tn) ->
  read_columns_rows names (stored (map (crow tn) (enumerate cols i)) ++ more) ((tn, pre) :: rest) =
  read_columns_rows names more ((tn, pre ++ map specf (enumerate cols i)) :: rest).
Proof.
  intros Htn Hin. induction cols as [|c r IH]; intros i pre rest more Hne Hpre Hrest.
  - cbn. rewrite app_nil_r. reflexivity.
  - inversion Hne as [|? ? Hc Hr]; subst.
    cbn [enumerate map stored crow fst snd app]. unfold stored in IH.
    rewrite !norm_str by assumption. cbn [normalize_value].
    cbn [read_columns_rows nth_opt unwrap rbind as_str_v as_int_v].
    rewrite (existsb_str_refl _ _ Hin). cbn [negb find fst snd].
    rewrite str_eqb_refl. cbn [snd].
    replace (existsb (fun s : Z * str * Z => (fst (fst s) =? i)%Z) pre) with false.
    2:{ symmetry. apply not_true_is_false. intros E. apply existsb_exists in E as (s & Hs & E).
        specialize (Hpre s Hs). lia. }
    cbn [filter fst negb]. rewrite str_eqb_refl. cbn [negb].
    rewrite (filter_other tn rest Hrest).
    rewrite IH; [| exact Hr | | exact Hrest].
    + rewrite <- app_assoc. reflexivity.
    + intros s Hs. apply in_app_or in Hs as [Hs|[<-|[]]]; [specialize (Hpre s Hs); lia | cbn; lia].
Qed.

Lemma rcr_table names tn cols acc more : tn <> [] -> In tn names -> cols <> [] ->
  Forall (fun c => c_name c <> []) cols -> (forall e, In e acc -> fst e <> tn) ->
  read_columns_rows names (stored (columns_rows tn cols) ++ more) acc =
  read_columns_rows names more ((tn, specs_of cols) :: acc).
Proof.
  intros Htn Hin Hne Hnm Hacc. rewrite columns_rows_eq, specs_of_eq.
  destruct cols as [|c r]; [congruence|]. inversion Hnm as [|? ? Hc Hr]; subst.
  cbn [enumerate map stored crow fst snd app].
  rewrite !norm_str by assumption. cbn [normalize_value].
  cbn [read_columns_rows nth_opt unwrap rbind as_str_v as_int_v].
  rewrite (existsb_str_refl _ _ Hin). cbn [negb].
  rewrite (find_other tn acc Hacc). cbn [existsb app].
  rewrite (filter_other tn acc Hacc).
  pose proof (rcr_block names tn Htn Hin r (1 + 1)%Z [(1%Z, c_name c, col_bits c)] acc more Hr) as H.
  unfold stored in H. etransitivity; [apply H; [| exact Hacc] | reflexivity].
  intros s [<-|[]]. cbn. lia.
Qed.

Definition spec_entry (e : str * table) : str * list colspec := (fst e, specs_of (t_cols (snd e))).

Lemma rcr_multi names : forall (U : tables) acc,
  NoDup (map fst U) ->
  (forall e, In e U -> fst e <> [] /\ In (fst e) names /\ t_cols (snd e) <> [] /\
                       Forall (fun c => c_name c <> []) (t_cols (snd e))) ->
  (forall e a, In e U -> In a acc -> fst a <> fst e) ->
  read_columns_rows names (List.concat (map (fun e => stored (columns_rows (fst e) (t_cols (snd e)))) U)) acc =
  Ok (rev (map spec_entry U) ++ acc).
Proof.
  induction U as [|e U IH]; intros acc ND HU Hacc; [reflexivity|].
  cbn [map] in ND. inversion ND as [|? ? Hn ND']; subst.
  destruct (HU e (or_introl eq_refl)) as (H1 & H2 & H3 & H4).
  cbn [map List.concat]. rewrite rcr_table; try assumption.
  2:{ intros a Ha. apply (Hacc e a (or_introl eq_refl) Ha). }
  rewrite IH; [| exact ND' | intros x Hx; apply HU; right; exact Hx |].
  - cbn [rev]. rewrite <- app_assoc. reflexivity.
  - intros x a Hx [<-|Ha].
    + cbn [fst]. intros E. apply Hn. rewrite E. apply in_map. exact Hx.
    + apply Hacc; [right; exact Hx | exact Ha].
Qed.

Lemma find_key_unique {B} (l : list (str * B)) k v : NoDup (map fst l) -> In (k, v) l ->
  find (fun e => str_eqb (fst e) k) l = Some (k, v).
Proof.
  induction l as [|[m u] r IH]; intros ND Hin; [destruct Hin|].
  cbn [map fst] in ND. inversion ND as [|? ? Hn ND']; subst. cbn [find fst].
  destruct Hin as [E|Hin].
  - inversion E; subst. rewrite str_eqb_refl. reflexivity.
  - rewrite str_eqb_neq; [apply IH; assumption|]. intros ->. apply Hn.
    change k with (fst (k, v)). apply in_map. exact Hin.
Qed.

(* ====================================================================== *)
(* read_validation_rows: any order of rows with distinct (table, column)   *)
(* ====================================================================== *)
Definition vkey (r : list value) : str * str :=
  match nth_opt r 0, nth_opt r 1 with
  | Some (VStr a), Some (VStr b) => (a, b)
  | _, _ => ([], [])
  end.
Definition vrow_ok (r : list value) : Prop :=
  exists a b, nth_opt r 0 = Some (VStr a) /\ nth_opt r 1 = Some (VStr b).
Definition vent (r : list value) : str * str * list value := (fst (vkey r), snd (vkey r), r).

Lemma vmatch_false tn cn (e : str * str * list value) : fst e <> (tn, cn) -> vmatch tn cn e = false.
Proof.
  destruct e as [[a b] r]. cbn [fst]. intros H. unfold vmatch. cbn [fst snd].
  destruct (str_eqb a tn) eqn:E1; [|reflexivity]. destruct (str_eqb b cn) eqn:E2; [|reflexivity].
  apply str_eqb_spec in E1, E2. subst. exfalso. apply H. reflexivity.
Qed.

Lemma rvr_gen : forall rows acc, Forall vrow_ok rows -> NoDup (map vkey rows) ->
  (forall r e, In r rows -> In e acc -> fst e <> vkey r) ->
  read_validation_rows rows acc = Ok (acc ++ map vent rows).
Proof.
  induction rows as [|r rows IH]; intros acc Hok ND Hacc.
  - cbn. rewrite app_nil_r. reflexivity.
  - inversion Hok as [|? ? (a & b & E0 & E1) Hok']; subst.
    cbn [map] in ND. inversion ND as [|? ? Hn ND']; subst.
    assert (Ek : vkey r = (a, b)). { unfold vkey. rewrite E0, E1. reflexivity. }
    cbn [read_validation_rows]. rewrite E0, E1. cbn [unwrap rbind as_str_v].
    change (fun e : str * str * list value => str_eqb (fst (fst e)) a && str_eqb (snd (fst e)) b)
      with (vmatch a b).
    replace (existsb (vmatch a b) acc) with false.
    2:{ symmetry. apply not_true_is_false. intros E. apply existsb_exists in E as (e & He & E).
        rewrite vmatch_false in E; [discriminate|]. rewrite <- Ek. apply (Hacc r e (or_introl eq_refl) He). }
    rewrite IH; [| exact Hok' | exact ND' |].
    + rewrite <- app_assoc. cbn [map app]. unfold vent at 2. rewrite Ek. reflexivity.
    + intros r' e Hr' He. apply in_app_or in He as [He|[<-|[]]].
      * apply Hacc; [right; exact Hr' | exact He].
      * cbn [fst]. rewrite <- Ek. intros E. apply Hn. rewrite E. apply in_map. exact Hr'.
Qed.

Lemma find_vent tn cn : forall rows r, NoDup (map vkey rows) -> In r rows -> vkey r = (tn, cn) ->
  find (vmatch tn cn) (map vent rows) = Some (vent r).
Proof.
  induction rows as [|x rows IH]; intros r ND Hin Ek; [destruct Hin|].
  cbn [map] in ND. inversion ND as [|? ? Hn ND']; subst. cbn [map find].
  destruct Hin as [->|Hin].
  - assert (E : vmatch tn cn (vent r) = true).
    { unfold vmatch, vent. cbn [fst snd]. rewrite Ek. cbn [fst snd]. rewrite !str_eqb_refl. reflexivity. }
    rewrite E. reflexivity.
  - rewrite vmatch_false; [apply IH; assumption|].
    unfold vent. cbn [fst]. rewrite <- surjective_pairing. rewrite <- Ek.
    intros E. apply Hn. rewrite E. apply in_map. exact Hin.
Qed.

Lemma vkey_nvrow tn c : tn <> [] -> c_name c <> [] -> vkey (nvrow tn c) = (tn, c_name c).
Proof.
  intros H1 H2. unfold vkey, nvrow, vrow. cbn [map nth_opt]. rewrite !norm_str by assumption. reflexivity.
Qed.
Lemma vrow_ok_nvrow tn c : tn <> [] -> c_name c <> [] -> vrow_ok (nvrow tn c).
Proof.
  intros H1 H2. exists tn, (c_name c). unfold nvrow, vrow. cbn [map nth_opt]. rewrite !norm_str by assumption. split; reflexivity.
Qed.
Lemma vent_nvrow tn c : tn <> [] -> c_name c <> [] -> vent (nvrow tn c) = valf tn c.
Proof. intros H1 H2. unfold vent. rewrite vkey_nvrow by assumption. reflexivity. Qed.

Lemma stored_validation_rows tn cols : stored (validation_rows tn cols) = map (nvrow tn) cols.
Proof. unfold stored. rewrite validation_rows_eq, map_map. reflexivity. Qed.

Lemma NoDup_app_intro {A} (l1 l2 : list A) : NoDup l1 -> NoDup l2 -> (forall x, In x l1 -> ~ In x l2) -> NoDup (l1 ++ l2).
Proof.
  induction l1 as [|a l1 IH]; intros N1 N2 H; cbn [app]; [exact N2|].
  inversion N1 as [|? ? Ha N1']; subst. constructor.
  - intros Hin. apply in_app_or in Hin as [Hin|Hin]; [contradiction|]. apply (H a (or_introl eq_refl) Hin).
  - apply IH; try assumption. intros x Hx. apply H. right. exact Hx.
Qed.

Definition vkeys_of (e : str * table) : list (str * str) := map (fun c => (fst e, c_name c)) (t_cols (snd e)).

Lemma vkeys_nodup : forall U : tables, NoDup (map fst U) ->
  (forall e, In e U -> NoDup (map c_name (t_cols (snd e)))) ->
  NoDup (List.concat (map vkeys_of U)).
Proof.
  induction U as [|e U IH]; intros ND H; [constructor|].
  cbn [map] in ND. inversion ND as [|? ? Hn ND']; subst. cbn [map List.concat].
  apply NoDup_app_intro.
  - unfold vkeys_of. specialize (H e (or_introl eq_refl)).
    induction (t_cols (snd e)) as [|c r IHc]; cbn [map] in *; [constructor|].
    inversion H as [|? ? Hc Hr]; subst. constructor; [|apply IHc; exact Hr].
    intros Hin. apply in_map_iff in Hin as (c' & E & Hc'). inversion E as [E']. apply Hc. rewrite <- E'. apply in_map. exact Hc'.
  - apply IH; [exact ND'|]. intros x Hx. apply H. right. exact Hx.
  - intros x Hx Hx2. apply in_concat in Hx2 as (l & Hl & Hx2). apply in_map_iff in Hl as (e' & <- & He').
    unfold vkeys_of in Hx, Hx2. apply in_map_iff in Hx as (c & <- & _). apply in_map_iff in Hx2 as (c' & E & _).
    inversion E as [[E1 E2]]. apply Hn. rewrite <- E1. apply in_map. exact He'.
Qed.

(* ====================================================================== *)
(* build_tables over several tables                                        *)
(* ====================================================================== *)
Lemma build_tables_multi cmap vals long : forall (U : tables) acc,
  (forall e, In e U ->
     find (fun x : str * list colspec => str_eqb (fst x) (fst e)) cmap = Some (spec_entry e) /\
     t_cols (snd e) <> [] /\ Forall col_storable (t_cols (snd e)) /\
     (forall c, In c (t_cols (snd e)) -> find (vmatch (fst e) (c_name c)) vals = Some (valf (fst e) c)) /\
     snd e = mktable (fst e) (t_cols (snd e)) long) ->
  build_tables (map fst U) cmap vals long acc = Ok (ins_all U acc).
Proof.
  induction U as [|e U IH]; intros acc H; [reflexivity|].
  destruct (H e (or_introl eq_refl)) as (Hf & Hne & Hst & Hv & Hsnd).
  cbn [map build_tables]. rewrite Hf. unfold spec_entry. cbn [snd]. rewrite sort_specs_id.
  rewrite specs_of_eq. rewrite (build_columns_gen (fst e) vals (t_cols (snd e)) Hst Hv 1%Z).
  destruct (enum_last (t_cols (snd e)) Hne 1%Z) as (n & b & pre & Hl). rewrite Hl.
  rewrite map_length, enumerate_length.
  cbn [ins_all fold_left].
  replace (tables_insert acc (fst e) (snd e)) with (tables_insert acc (fst e) (mktable (fst e) (t_cols (snd e)) long))
    by (f_equal; symmetry; exact Hsnd).
  destruct (t_cols (snd e)) as [|c r] eqn:Ec; [congruence|].
  cbn [enumerate map specf fst snd].
  replace ((1 =? 1)%Z && (1 + Z.of_nat (length (c :: r)) - 1 =? Z.of_nat (length (c :: r)))%Z) with true by lia.
  cbn [negb rbind]. apply IH. intros x Hx. apply H. right. exact Hx.
Qed.
