(* CodecPages.v -- the string pool codec and the property-set codec under a single-byte code page:
   proofs of the goals stated in CodecPagesSpec.v (all four exactly as stated).
   The code-page-independent lemmas of PoolProofs.v / PropsetCodecProofs.v are re-used; the lemmas that mention
   cp_utf8 there (encode_all_utf8, build_strings_write, read_header_utf8, value_roundtrip, vals_at, lookup_pairs,
   read_values_ok) are re-proved here with the code page a parameter. *)
From MsiModel Require Import Base CodePage CodePageProofs SingleByteSpec SingleByteProofs Pool PoolProofs Propset PropsetCodecProofs CodecPagesSpec.
From MsiModel Require Import CategoryProofs.
From MsiGen Require Import GenCodePage GenSingleByte GenConsts.
From Coq Require Import Lia ZArith NArith List Bool.
From Coq Require Import ZifyBool ZifyNat ZifyN.
Import ListNotations.
Open Scope N_scope.
Ltac Zify.zify_post_hook ::= Z.div_mod_to_equations.
Arguments N.add : simpl never.
Arguments N.mul : simpl never.
Arguments N.div : simpl never.
Arguments N.modulo : simpl never.
Arguments N.sub : simpl never.

(* ====================================================================== *)
(* encoded length                                                          *)
(* ====================================================================== *)
Lemma nlen_sb_encode t s : nlen (sb_encode t s) = nlen s.
Proof. unfold nlen, sb_encode. rewrite map_length. reflexivity. Qed.

Theorem sb_encoded_length : G_sb_encoded_length.
Proof. intros t s. apply nlen_sb_encode. Qed.

Lemma sb_encode_nil t s : sb_encode t s = [] <-> s = [].
Proof. unfold sb_encode. destruct s; cbn [map]; split; congruence. Qed.

(* ====================================================================== *)
(* the identifier of every page that has a table finds the page again      *)
(* ====================================================================== *)
Lemma assoc_SS_in k l v : assoc_SS k l = Some v -> In (k, v) l.
Proof.
  induction l as [|[a b] r IH]; cbn [assoc_SS]; [discriminate|].
  destruct (str_eqb a k) eqn:E.
  - apply str_eqb_spec in E. intros H. injection H as <-. subst a. left. reflexivity.
  - intros H. right. apply IH, H.
Qed.

Definition sb_ids_ok : bool :=
  forallb (fun p : str * str =>
             match sb_table (fst p) with
             | Some _ =>
                 match cp_from_id (Z.of_N (cp_id (fst p))) with
                 | Some v => str_eqb v (fst p)
                 | None => false
                 end && (cp_id (fst p) <? 2147483648)
             | None => true
             end) CP_ENCODING.
Lemma sb_ids : sb_ids_ok = true.
Proof. vm_compute. reflexivity. Qed.

Lemma sb_cp_id c t : sb_table c = Some t ->
  cp_from_id (Z.of_N (cp_id c)) = Some c /\ cp_id c < 2147483648.
Proof.
  intros Ht. pose proof Ht as Ht'. unfold sb_table in Ht'.
  destruct (cp_encoding_label c) as [l|] eqn:El; [|discriminate].
  unfold cp_encoding_label in El. apply assoc_SS_in in El.
  pose proof sb_ids as F. unfold sb_ids_ok in F. rewrite forallb_forall in F.
  specialize (F _ El). cbn [fst] in F. rewrite Ht in F.
  apply andb_true_iff in F as [F1 F2].
  destruct (cp_from_id (Z.of_N (cp_id c))) as [v|]; [|discriminate].
  apply str_eqb_spec in F1. subst v. split; [reflexivity|]. apply N.ltb_lt. exact F2.
Qed.

(* ====================================================================== *)
(* string pool                                                             *)
(* ====================================================================== *)
Definition enc_entry_sb (t : list N) (e : str * N) : bytes * N := (sb_encode t (fst e), snd e).

Lemma encode_all_sb c t l : cp_single c t -> encode_all c l = Some (map (enc_entry_sb t) l).
Proof.
  intros (Ht & _ & Ha & Hu). destruct (cp_sb c t Ht Ha Hu) as [He _].
  induction l as [|[s rc] l IH]; cbn [encode_all map]; [reflexivity|].
  rewrite He, IH. reflexivity.
Qed.

Lemma enc_entry_sb_wf t e : entry_wf_sb t e -> bentry_wf (enc_entry_sb t e).
Proof.
  destruct e as [s rc]. unfold entry_wf_sb, bentry_wf, enc_entry_sb. cbn [fst snd].
  intros (W1 & W2 & W3 & W4). split; [assumption|]. split.
  - rewrite sb_encode_nil. assumption.
  - rewrite nlen_sb_encode. assumption.
Qed.

Lemma build_strings_write_sb c t : cp_single c t -> forall l,
  Forall (entry_wf_sb t) l ->
  build_strings c (map (fun e => (nlen (fst e), snd e)) (map (enc_entry_sb t) l))
                (flat_map fst (map (enc_entry_sb t) l)) = Ok l.
Proof.
  intros (Ht & Hok & Ha & Hu). destruct (cp_sb c t Ht Ha Hu) as [_ Hd].
  induction l as [|[s rc] l IH]; intros Hwf; [reflexivity|].
  inversion Hwf as [|? ? (W1 & W2 & W3 & W4) Hwf']; subst. cbn [fst snd] in *.
  cbn [map flat_map enc_entry_sb fst snd build_strings].
  rewrite take_bytes_N_eq, PoolProofs.take_bytes_app, Hd.
  rewrite (sb_roundtrip t s Hok W3).
  rewrite (IH Hwf'). reflexivity.
Qed.

Lemma read_header_sb c t (long : bool) body : sb_table c = Some t ->
  read_pool_header (put32 (cp_id c + (if long then LONG_STRING_REFS_BIT else 0)) ++ body)
  = (es <- read_entries (length body) body ;; Ok {| pb_cp := c; pb_long := long; pb_entries := es |}).
Proof.
  intros Ht. destruct (sb_cp_id c t Ht) as [Hfrom Hlt].
  unfold read_pool_header, LONG_STRING_REFS_BIT.
  destruct long.
  - rewrite PoolProofs.get32_put32 by lia. cbv zeta.
    replace (2147483648 <=? cp_id c + 2147483648) with true by lia.
    replace ((cp_id c + 2147483648) mod 2147483648) with (cp_id c) by lia.
    rewrite Hfrom. reflexivity.
  - rewrite PoolProofs.get32_put32 by lia. cbv zeta.
    replace (2147483648 <=? cp_id c + 0) with false by lia.
    replace ((cp_id c + 0) mod 2147483648) with (cp_id c) by lia.
    rewrite Hfrom. reflexivity.
Qed.

Theorem pool_roundtrip_sb : G_pool_roundtrip_sb.
Proof.
  intros [cp l long m] c t Hs Hcp Hwf. unfold pool_wf_sb in Hwf. cbn [p_strings p_cp] in *. subst cp.
  unfold write_pool, write_data, pool_mark_unmodified. cbn [p_strings p_cp p_long].
  rewrite (encode_all_sb c t l Hs).
  eexists; eexists. split; [reflexivity|]. split; [reflexivity|].
  unfold read_pool. rewrite (read_header_sb c t) by apply Hs.
  rewrite read_entries_write.
  - cbn [rbind pb_cp pb_entries pb_long]. rewrite (build_strings_write_sb c t Hs) by assumption. reflexivity.
  - clear - Hwf. induction Hwf; constructor; auto using enc_entry_sb_wf.
  - apply flat_map_entries_len.
Qed.

(* ====================================================================== *)
(* property sets: one value                                                *)
(* ====================================================================== *)
Lemma value_roundtrip_sb c t v b rest :
  cp_single c t -> val_ok_sb t v -> write_value c v = Some b -> read_value c (b ++ rest) = Ok v.
Proof.
  intros Hs Hv Hw.
  destruct v; cbn [write_value val_ok_sb val_ok] in *.
  - apply some_inj in Hw; subst b. unfold read_value. rewrite get32_put32 by lia. reflexivity.
  - apply some_inj in Hw; subst b. unfold read_value. rewrite get32_put32 by lia. reflexivity.
  - apply some_inj in Hw; subst b. unfold read_value. rewrite <- app_assoc, get32_put32 by lia.
    cbn [N.eqb Pos.eqb app get8]. f_equal. f_equal.
    destruct (Z.to_N (z mod 256) <? 128) eqn:E; lia.
  - apply some_inj in Hw; subst b. unfold read_value. rewrite <- !app_assoc, get32_put32 by lia.
    cbn [N.eqb Pos.eqb]. rewrite get16_put16 by lia. f_equal. f_equal.
    unfold of_u16, wrap16. lia.
  - apply some_inj in Hw; subst b. unfold read_value. rewrite <- !app_assoc, get32_put32 by lia.
    cbn [N.eqb Pos.eqb]. rewrite get32_put32 by lia. f_equal. f_equal.
    unfold of_u32, wrap32. lia.
  - destruct Hs as (Ht & Hok & Ha & Hu). destruct (cp_sb c t Ht Ha Hu) as [He Hd].
    rewrite He in Hw. apply some_inj in Hw; subst b. destruct Hv as [Hr Hl].
    unfold read_value. rewrite <- !app_assoc, get32_put32 by lia.
    cbn [N.eqb Pos.eqb]. rewrite nlen_sb_encode.
    rewrite N.mod_small by lia. rewrite get32_put32 by lia.
    replace (nlen s + 1 =? 0) with false by lia.
    replace (nlen s + 1 - 1) with (nlen (sb_encode t s)) by (rewrite nlen_sb_encode; lia).
    rewrite take_bytes_N_eq, to_nat_nlen, PropsetCodecProofs.take_bytes_app. cbn [app get8].
    rewrite Hd, (sb_roundtrip t s Hok Hr). reflexivity.
  - apply some_inj in Hw; subst b. unfold read_value. rewrite <- !app_assoc, get32_put32 by lia.
    cbn [N.eqb Pos.eqb]. rewrite get64_put64 by lia. reflexivity.
Qed.

(* reading a 16-bit integer does not consult the code page *)
Lemma read_value_pi2_indep c c' b z : read_value c b = Ok (PI2 z) -> read_value c' b = Ok (PI2 z).
Proof.
  unfold read_value. destruct (get32 b) as [[ty r]|]; [|discriminate].
  destruct (ty =? 0); [trivial|]. destruct (ty =? 1); [trivial|]. destruct (ty =? 2); [trivial|].
  destruct (ty =? 3); [trivial|]. destruct (ty =? 16); [trivial|].
  destruct (ty =? 30); [|trivial].
  intros H. exfalso.
  destruct (get32 r) as [[len r2]|]; [|discriminate]. cbv zeta in H.
  destruct (take_bytes_N (if len =? 0 then 0 else len - 1) r2) as [[body r3]|]; [|discriminate].
  destruct (get8 r3) as [[[|p] r4]|]; try discriminate.
  destruct (cp_decode c body); discriminate.
Qed.

(* ====================================================================== *)
(* property sets: the whole set                                            *)
(* ====================================================================== *)
Lemma vals_at_sb c t : cp_single c t -> forall (props : list (N * propval)) enc pre start,
  omap (fun p => write_value c (snd p)) props = Some enc ->
  Forall (fun p => val_ok_sb t (snd p)) props ->
  nlen pre = 48 + start ->
  Forall (fun po : po_t => read_value c (seek (pre ++ List.concat enc) (48 + snd po)) = Ok (snd (fst po)))
         (combine props (offsets_from start (map nlen enc))).
Proof.
  intros Hs.
  induction props as [|[k v] r IH]; intros enc pre start He Hv Hpre.
  - constructor.
  - apply omap_cons_inv in He as (e & es & -> & He & Hr). cbn [snd] in He.
    inversion Hv as [|? ? Hv1 Hv2]; subst. cbn [snd] in Hv1.
    cbn [map offsets_from combine List.concat]. constructor.
    + cbn [fst snd]. rewrite seek_exact by exact Hpre.
      apply (value_roundtrip_sb c t v e (List.concat es) Hs Hv1 He).
    + specialize (IH es (pre ++ e) (start + nlen e) Hr Hv2).
      rewrite <- app_assoc in IH. apply IH. rewrite nlen_app. lia.
Qed.

Section ReadCp.
  Variable c : codepage.
  Variable b : bytes.
  Let P (po : po_t) : Prop := read_value c (seek b (48 + snd po)) = Ok (snd (fst po)).

  Lemma lookup_pairs_cp k : forall l : list po_t, Forall P l ->
    match lookup_off k (pairs l) with
    | Some off => exists v, ps_lookup k (map fst l) = Some v /\ read_value c (seek b (48 + off)) = Ok v
    | None => ps_lookup k (map fst l) = None
    end.
  Proof.
    induction l as [|[[k' v] o] l IH]; intros H; [reflexivity|].
    inversion H as [|? ? H1 H2]; subst. cbn [pairs map fst snd lookup_off ps_lookup]. fold (pairs l).
    destruct (k =? k').
    - exists v. split; [reflexivity|]. exact H1.
    - apply IH. exact H2.
  Qed.

  Lemma read_values_ok_cp version : forall l : list po_t, Forall P l ->
    Forall (fun po : po_t => min_version (snd (fst po)) <= version) l ->
    read_values c version b 48 (pairs l) = Ok (map fst l).
  Proof.
    induction l as [|[[k v] o] l IH]; intros H Hm; [reflexivity|].
    inversion H as [|? ? H1 H2]; subst. inversion Hm as [|? ? Hm1 Hm2]; subst.
    cbn [pairs map fst snd read_values]. fold (pairs l). unfold P in H1. cbn [fst snd] in H1, Hm1.
    rewrite H1. cbn [rbind]. replace (version <? min_version v) with false by lia.
    rewrite IH by assumption. reflexivity.
  Qed.
End ReadCp.

Lemma omap_write_sb c t (props : list (N * propval)) : cp_single c t ->
  exists enc, omap (fun p => write_value c (snd p)) props = Some enc.
Proof.
  intros (Ht & _ & Ha & Hu). destruct (cp_sb c t Ht Ha Hu) as [He _].
  induction props as [|[k v] r [es IH]]; [eexists; reflexivity|].
  cbn [omap snd]. rewrite IH.
  destruct v; cbn [write_value]; try rewrite He; eexists; reflexivity.
Qed.

Theorem ps_roundtrip_sb : G_ps_roundtrip_sb.
Proof.
  intros t [os osv clsid fmtid cp props].
  unfold ps_ok_sb, cp_consistent, sizes_ok. cbn [ps_cp ps_props ps_os ps_os_version ps_clsid ps_fmtid].
  intros (Hs & Hcons & Hasc & Hvals & Hsz & Hos & Hosv & Hc & Hf).
  destruct (omap_write_sb cp t props Hs) as [enc Henc]. specialize (Hsz enc Henc).
  unfold ps_write. cbn [ps_cp ps_props ps_os ps_os_version ps_clsid ps_fmtid]. rewrite Henc.
  change PROPSET_OFFSETS_FROM_ENCODED with true. cbv beta iota zeta.
  fold (max_version props).
  set (start := 8 + 8 * nlen props).
  set (offs := offsets_from start (map nlen enc)).
  set (l := combine props offs).
  change (flat_map (fun po : N * propval * N => put32 (fst (fst po)) ++ put32 (snd po mod 4294967296)) l) with (tbl l).
  eexists. split; [reflexivity|].
  pose proof (omap_length _ _ _ Henc) as Hlen.
  assert (Hlo : length offs = length props)
    by (subst offs; rewrite offsets_length, map_length; exact Hlen).
  assert (Hfst : map fst l = props) by (apply map_fst_combine; exact Hlo).
  assert (Hll : length l = length props) by (rewrite <- (map_length fst l), Hfst; reflexivity).
  assert (Hnl : nlen l = nlen props) by (unfold nlen; rewrite Hll; reflexivity).
  erewrite ps_read_shape; [|reflexivity|apply max_version_le1|exact Hosv|exact Hos|exact Hc|exact Hf| |].
  2:{ apply N.mod_lt. lia. }
  2:{ lia. }
  (* the offsets table *)
  assert (Hdiv : nlen (tbl l ++ List.concat enc) / 8 <? nlen props = false).
  { rewrite nlen_app, nlen_tbl, Hnl. lia. }
  rewrite Hdiv.
  rewrite to_nat_nlen, <- Hll.
  rewrite read_offsets_ok.
  2:{ rewrite Hfst. exact Hasc. }
  2:{ subst l. apply (Forall_snd_combine (fun o => o < 4294967296)). subst offs. apply offsets_bound. subst start. lia. }
  2:{ intros p q []. }
  cbn [app rbind].
  (* every offset points at its value *)
  match goal with |- context [read_values _ _ ?bb _ _] => set (b := bb) end.
  assert (HP : Forall (fun po : po_t => read_value cp (seek b (48 + snd po)) = Ok (snd (fst po))) l).
  { subst b l offs.
    replace (put16 BYTE_ORDER_MARK ++ put16 (max_version props) ++ put16 osv ++ put16 os ++ clsid ++ put32 1 ++
             fmtid ++ put32 48 ++ put32 (fold_left N.add (map nlen enc) start mod 4294967296) ++ put32 (nlen props) ++
             tbl (combine props (offsets_from start (map nlen enc))) ++ List.concat enc)
      with ((put16 BYTE_ORDER_MARK ++ put16 (max_version props) ++ put16 osv ++ put16 os ++ clsid ++ put32 1 ++
             fmtid ++ put32 48 ++ put32 (fold_left N.add (map nlen enc) start mod 4294967296) ++ put32 (nlen props) ++
             tbl (combine props (offsets_from start (map nlen enc)))) ++ List.concat enc)
      by (rewrite <- !app_assoc; reflexivity).
    apply (vals_at_sb cp t Hs); [exact Henc|exact Hvals|].
    rewrite !nlen_app, !nlen_put16, !nlen_put32, nlen_tbl.
    rewrite Hnl. unfold nlen at 1 2. rewrite Hc, Hf. subst start. lia. }
  assert (Hm : Forall (fun po : po_t => min_version (snd (fst po)) <= max_version props) l).
  { apply (Forall_map fst (fun p : N * propval => min_version (snd p) <= max_version props) l).
    rewrite Hfst. apply max_version_ge. }
  (* the code page property: present, because the page is not UTF-8 *)
  pose proof (lookup_pairs_cp cp b PROPERTY_CODEPAGE l HP) as Hlk. rewrite Hfst in Hlk.
  destruct (lookup_off PROPERTY_CODEPAGE (pairs l)) as [off|].
  - destruct Hlk as (v & Hlk & Hrd). rewrite Hlk in Hcons.
    destruct v; try contradiction.
    rewrite (read_value_pi2_indep cp cp_utf8 _ _ Hrd). cbn [rbind].
    rewrite Hcons. cbn [rbind].
    rewrite sort_pairs by (rewrite Hfst; exact Hasc).
    rewrite (read_values_ok_cp cp b) ; [|exact HP|].
    + cbn [rbind]. rewrite Hfst. reflexivity.
    + exact Hm.
  - exfalso. rewrite Hlk in Hcons. destruct Hs as (_ & _ & _ & Hu).
    apply str_eqb_spec in Hcons. rewrite Hcons in Hu. discriminate.
Qed.

(* ====================================================================== *)
(* non-vacuity                                                             *)
(* ====================================================================== *)
Definition sb_repr_b (t : list N) (c : N) : bool :=
  (c <? 128) || (negb (c =? 0) && existsb (N.eqb c) t).
Lemma sb_repr_b_sound t c : sb_repr_b t c = true -> sb_repr t c.
Proof.
  unfold sb_repr_b, sb_repr. intros H. apply orb_true_iff in H as [H|H].
  - left. apply N.ltb_lt. exact H.
  - apply andb_true_iff in H as [H1 H2]. right. split.
    + intros E. subst c. discriminate.
    + apply existsb_exists in H2 as (x & Hx & E). apply N.eqb_eq in E. subst x. exact Hx.
Qed.
Lemma sb_repr_all t s : forallb (sb_repr_b t) s = true -> Forall (sb_repr t) s.
Proof.
  intros H. apply Forall_forall. intros c Hc. apply sb_repr_b_sound.
  rewrite forallb_forall in H. apply H, Hc.
Qed.

Definition t1252 : list N := match sb_table cp_1252 with Some t => t | None => [] end.

Theorem codec_pages_example : G_codec_pages_example.
Proof.
  unfold G_codec_pages_example. exists t1252.
  assert (HT : sb_table cp_1252 = Some t1252) by (vm_compute; reflexivity).
  assert (Hok : sb_table_ok t1252 = true) by (vm_compute; reflexivity).
  assert (Hs : cp_single cp_1252 t1252).
  { split; [exact HT|]. split; [exact Hok|]. split; reflexivity. }
  assert (E : forall s rc, rc < 65536 -> (rc = 0 <-> s = []) -> forallb (sb_repr_b t1252) s = true ->
              nlen s < 4294967296 -> entry_wf_sb t1252 (s, rc)).
  { intros s rc H1 H2 H3 H4. unfold entry_wf_sb. cbn [fst snd].
    split; [exact H1|]. split; [exact H2|]. split; [apply sb_repr_all; exact H3 | exact H4]. }
  split; [exact Hs|]. split.
  - unfold pool_wf_sb. cbn [p_strings].
    apply Forall_cons.
    { apply E; [reflexivity | split; intros; discriminate | vm_compute; reflexivity | reflexivity]. }
    apply Forall_cons.
    { apply E; [reflexivity | split; intros; reflexivity | vm_compute; reflexivity | reflexivity]. }
    apply Forall_cons.
    { apply E; [reflexivity | split; intros; discriminate | vm_compute; reflexivity | reflexivity]. }
    apply Forall_nil.
  - unfold ps_ok_sb. cbn [ps_cp ps_props ps_os ps_os_version ps_clsid ps_fmtid].
    split; [exact Hs|].
    split. { unfold cp_consistent. vm_compute. reflexivity. }
    split. { cbn [ids_ascending]. repeat split; reflexivity. }
    split.
    { apply Forall_cons. { cbn [snd val_ok_sb val_ok]. lia. }
      apply Forall_cons.
      { cbn [snd val_ok_sb]. split; [apply sb_repr_all; vm_compute; reflexivity | reflexivity]. }
      apply Forall_cons.
      { cbn [snd val_ok_sb]. split; [apply sb_repr_all; vm_compute; reflexivity | reflexivity]. }
      apply Forall_nil. }
    split.
    { unfold sizes_ok. cbn [ps_cp ps_props]. intros enc H.
      vm_compute in H. apply some_inj in H. subst enc. vm_compute. reflexivity. }
    split; [cbn; lia|]. split; [reflexivity|]. split; reflexivity.
Qed.

Print Assumptions pool_roundtrip_sb.
Print Assumptions sb_encoded_length.
Print Assumptions ps_roundtrip_sb.
Print Assumptions codec_pages_example.
