(* Container.v -- abstract model of the cfb crate as rust-msi uses it: a root storage
   holding named streams.  Modelled, not verified (DESIGN 2.3): names are compared
   case-insensitively (ASCII case only in this executable model; the generators keep
   cased non-ASCII letters out of compared names), every name is a single path
   component (guaranteed by the name checks in front of every call). *)
From MsiModel Require Import Base.
Open Scope N_scope.

Record container := mkct { ct_clsid : bytes; ct_entries : list (str * bytes) }.

Definition upper_ascii (c : N) : N := if (97 <=? c) && (c <=? 122) then c - 32 else c.
Definition name_key (s : str) : str := map upper_ascii s.
Definition name_eqb (a b : str) : bool := str_eqb (name_key a) (name_key b).

Fixpoint ct_find (l : list (str * bytes)) (n : str) : option bytes :=
  match l with
  | [] => None
  | (m, b) :: r => if name_eqb m n then Some b else ct_find r n
  end.
Definition ct_exists (c : container) (n : str) : bool :=
  match ct_find (ct_entries c) n with Some _ => true | None => false end.
(* open_stream + read to end; a missing stream is an error *)
Definition ct_read (c : container) (n : str) : res bytes := of_opt (ct_find (ct_entries c) n).

Fixpoint ct_put (l : list (str * bytes)) (n : str) (b : bytes) : list (str * bytes) :=
  match l with
  | [] => [(n, b)]
  | (m, x) :: r => if name_eqb m n then (m, b) :: r else (m, x) :: ct_put r n b
  end.
(* create_stream (truncating an existing one, keeping its stored name) + write_all *)
Definition ct_write (c : container) (n : str) (b : bytes) : container :=
  mkct (ct_clsid c) (ct_put (ct_entries c) n b).
Definition ct_remove (c : container) (n : str) : res container :=
  if ct_exists c n then Ok (mkct (ct_clsid c) (filter (fun e => negb (name_eqb (fst e) n)) (ct_entries c)))
  else Err.
Definition ct_names (c : container) : list str := map fst (ct_entries c).
