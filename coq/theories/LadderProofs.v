(* LadderProofs.v -- C19 (expressions): what the printer emits, read with the
   grammar's ladder, is the expression that was printed. *)
From MsiModel Require Import Base Value Expr Ladder.
From MsiGen Require Import GenExpr.
From Coq Require Import ZifyBool ZifyNat ZifyN.

(* printer precedence (the integers in expr.rs) -> grammar level *)
Definition G (p : N) : nat := if (p <=? 2)%N then N.to_nat p else S (N.to_nat p).

Lemma lev_G b : lev b = G (bop_prec b).
Proof. destruct b as [| |[]]; reflexivity. Qed.
Lemma G_unary : G PREC_UNARY_ARG = UNARY_LEVEL.
Proof. reflexivity. Qed.
Lemma G_mono p q : (p <= q)%N -> (G p <= G q)%nat.
Proof. unfold G. intros H. destruct (p <=? 2)%N eqn:E1, (q <=? 2)%N eqn:E2; lia. Qed.
Lemma G_succ q : (S (G q) <= G (q + 1))%nat.
Proof. unfold G. destruct (q <=? 2)%N eqn:E1, (q + 1 <=? 2)%N eqn:E2; lia. Qed.
Lemma G_not p : (PREC_NOT_PAREN_ABOVE <? p)%N = false -> (G p <= 2)%nat.
Proof. unfold G, PREC_NOT_PAREN_ABOVE. intros H. destruct (p <=? 2)%N eqn:E; lia. Qed.

(* the source's three binary arms all use op_prec / op_prec + 1 / op_prec < parent_prec *)
Lemma printer_shape_pinned : PRINTER_SHAPE = [6; 3; 3]%N.
Proof. reflexivity. Qed.

(* ---- unfolding and fuel monotonicity --------------------------------------- *)
Lemma parse_S f m ts :
  parse (S f) m ts =
  match ts with
  | TUn BoolNot :: r =>
      if Nat.leb m NOT_LEVEL then
        match parse f NOT_LEVEL r with
        | Some (x, r') => ploop f m (UnOp BoolNot x) r'
        | None => None
        end
      else None
  | TUn u :: r =>
      match parse f UNARY_LEVEL r with
      | Some (x, r') => ploop f m (UnOp u x) r'
      | None => None
      end
  | TLit v :: r => ploop f m (Lit v) r
  | TId s :: r => ploop f m (Col s) r
  | TLP :: r =>
      match parse f 0 r with
      | Some (x, TRP :: r') => ploop f m x r'
      | _ => None
      end
  | _ => None
  end.
Proof. reflexivity. Qed.
Lemma ploop_S f m lhs ts :
  ploop (S f) m lhs ts =
  match ts with
  | TB b :: r =>
      if Nat.leb m (lev b) then
        match parse f (S (lev b)) r with
        | Some (rhs, r') => ploop f m (mk b lhs rhs) r'
        | None => None
        end
      else Some (lhs, ts)
  | _ => Some (lhs, ts)
  end.
Proof. reflexivity. Qed.

Lemma mono_step f :
  (forall m ts x, parse f m ts = Some x -> parse (S f) m ts = Some x) /\
  (forall m l ts x, ploop f m l ts = Some x -> ploop (S f) m l ts = Some x).
Proof.
  induction f as [|f [IHp IHl]].
  - split; intros; discriminate.
  - split.
    + intros m ts x H. rewrite parse_S in H. rewrite parse_S.
      destruct ts as [|t r]; [discriminate|].
      destruct t as [v|s| | |u|b]; try discriminate.
      * apply IHl, H.
      * apply IHl, H.
      * destruct (parse f 0 r) as [[x0 [|t0 r0]]|] eqn:E; try discriminate.
        destruct t0; try discriminate.
        rewrite (IHp _ _ _ E). apply IHl, H.
      * destruct u.
        -- destruct (parse f UNARY_LEVEL r) as [[x0 r0]|] eqn:E; [|discriminate].
           rewrite (IHp _ _ _ E). apply IHl, H.
        -- destruct (parse f UNARY_LEVEL r) as [[x0 r0]|] eqn:E; [|discriminate].
           rewrite (IHp _ _ _ E). apply IHl, H.
        -- destruct (Nat.leb m NOT_LEVEL); [|discriminate].
           destruct (parse f NOT_LEVEL r) as [[x0 r0]|] eqn:E; [|discriminate].
           rewrite (IHp _ _ _ E). apply IHl, H.
    + intros m l ts x H. rewrite ploop_S in H. rewrite ploop_S.
      destruct ts as [|t r]; [exact H|].
      destruct t as [v|s| | |u|b]; try exact H.
      destruct (Nat.leb m (lev b)); [|exact H].
      destruct (parse f (S (lev b)) r) as [[rhs r0]|] eqn:E; [|discriminate].
      rewrite (IHp _ _ _ E). apply IHl, H.
Qed.

Lemma parse_mono f f' m ts x : (f <= f')%nat -> parse f m ts = Some x -> parse f' m ts = Some x.
Proof.
  intros Hle H. induction Hle as [|f' _ IH]; [exact H|]. apply (proj1 (mono_step f')), IH.
Qed.
Lemma ploop_mono f f' m l ts x : (f <= f')%nat -> ploop f m l ts = Some x -> ploop f' m l ts = Some x.
Proof.
  intros Hle H. induction Hle as [|f' _ IH]; [exact H|]. apply (proj2 (mono_step f')), IH.
Qed.

(* ---- the round trip ---------------------------------------------------------- *)
(* what may follow a sub-expression printed at precedence p: no binary operator
   that binds tighter than the context *)
Definition ok_follow (L : nat) (rest : list tok) : Prop :=
  match rest with TB b :: _ => (lev b <= L)%nat | _ => True end.

Lemma ok_follow_weaken L L' rest : (L <= L')%nat -> ok_follow L rest -> ok_follow L' rest.
Proof. destruct rest as [|[] ?]; simpl; auto. intros; lia. Qed.

Lemma ploop_stop m lhs rest : ok_follow (pred m) rest -> (0 < m)%nat -> ploop 1 m lhs rest = Some (lhs, rest).
Proof.
  intros H Hm. rewrite ploop_S. destruct rest as [|[] r]; try reflexivity.
  simpl in H. destruct (Nat.leb m (lev b)) eqn:E; [|reflexivity].
  apply Nat.leb_le in E. lia.
Qed.

Definition RT (e : ast) : Prop :=
  forall p m rest res f, (m <= G p)%nat -> ok_follow (G p) rest ->
    ploop f m e rest = Some res -> exists f', parse f' m (print p e ++ rest) = Some res.

(* a body that round-trips at its own precedence also does so in parentheses *)
Lemma parens_case e body q :
  (forall m rest res f, (m <= G q)%nat -> ok_follow (G q) rest ->
      ploop f m e rest = Some res -> exists f', parse f' m (body ++ rest) = Some res) ->
  forall m rest res f, ploop f m e rest = Some res ->
    exists f', parse f' m ((TLP :: body ++ [TRP]) ++ rest) = Some res.
Proof.
  intros NP m rest res f H.
  destruct (NP 0%nat (TRP :: rest) (e, TRP :: rest) 1%nat) as [f1 H1]; [lia | exact I | reflexivity |].
  exists (S (Nat.max f1 f)). rewrite parse_S. simpl app. rewrite <- app_assoc. simpl app.
  rewrite (parse_mono f1 _ _ _ _ (Nat.le_max_l _ _) H1).
  apply (ploop_mono f _ _ _ _ _ (Nat.le_max_r _ _) H).
Qed.

Lemma binary_case bb a b : RT a -> RT b ->
  forall p m rest res f, (m <= G p)%nat -> ok_follow (G p) rest ->
    ploop f m (mk bb a b) rest = Some res ->
    exists f', parse f' m (parens (bop_prec bb <? p)%N
                              (print (bop_prec bb) a ++ TB bb :: print (bop_prec bb + 1) b) ++ rest) = Some res.
Proof.
  intros IHa IHb.
  set (q := bop_prec bb).
  assert (NP : forall m rest res f, (m <= G q)%nat -> ok_follow (G q) rest ->
             ploop f m (mk bb a b) rest = Some res ->
             exists f', parse f' m ((print q a ++ TB bb :: print (q + 1) b) ++ rest) = Some res).
  { intros m rest res f Hm Hok H.
    rewrite <- app_assoc. simpl app.
    (* right operand *)
    destruct (IHb (q + 1)%N (S (lev bb)) rest (b, rest) 1%nat) as [fb Hb].
    - rewrite lev_G. apply G_succ.
    - eapply ok_follow_weaken; [|exact Hok]. pose proof (G_succ q). lia.
    - apply ploop_stop; [|lia]. simpl. rewrite lev_G. exact Hok.
    - (* left operand, followed by the operator *)
      apply (IHa q m (TB bb :: print (q + 1) b ++ rest) res (S (Nat.max fb f))).
      + exact Hm.
      + change (lev bb <= G q)%nat. rewrite lev_G. apply Nat.le_refl.
      + rewrite ploop_S. pose proof (lev_G bb) as Hlev. fold q in Hlev.
        destruct (Nat.leb m (lev bb)) eqn:E; [|apply Nat.leb_gt in E; lia].
        rewrite (parse_mono fb _ _ _ _ (Nat.le_max_l _ _) Hb).
        apply (ploop_mono f _ _ _ _ _ (Nat.le_max_r _ _) H). }
  intros p m rest res f Hm Hok H.
  unfold parens. destruct (q <? p)%N eqn:E.
  - eapply parens_case; [exact NP | exact H].
  - apply N.ltb_ge in E. apply (NP m rest res f).
    + pose proof (G_mono p q E). lia.
    + eapply ok_follow_weaken; [apply G_mono, E | exact Hok].
    + exact H.
Qed.

Lemma unary_case u a : RT a -> RT (UnOp u a).
Proof.
  intros IHa.
  assert (NP : forall L, (match u with BoolNot => L <= 2 | _ => True end)%nat ->
             forall m rest res f, (m <= L)%nat -> ok_follow L rest ->
             ploop f m (UnOp u a) rest = Some res ->
             exists f', parse f' m ((TUn u :: print PREC_UNARY_ARG a) ++ rest) = Some res).
  { intros L HL m rest res f Hm Hok H. simpl app.
    set (lvl := match u with BoolNot => NOT_LEVEL | _ => UNARY_LEVEL end).
    destruct (IHa PREC_UNARY_ARG lvl rest (a, rest) 1%nat) as [fa Ha].
    - rewrite G_unary. unfold lvl, NOT_LEVEL, UNARY_LEVEL. destruct u; lia.
    - rewrite G_unary. unfold UNARY_LEVEL. destruct rest as [|[] ?]; simpl; auto.
      destruct b as [| |[]]; simpl; lia.
    - apply ploop_stop.
      + unfold lvl. destruct u; simpl.
        * unfold UNARY_LEVEL. destruct rest as [|[] ?]; simpl; auto. destruct b as [| |[]]; simpl; lia.
        * unfold UNARY_LEVEL. destruct rest as [|[] ?]; simpl; auto. destruct b as [| |[]]; simpl; lia.
        * eapply ok_follow_weaken; [|exact Hok]. exact HL.
      + unfold lvl, NOT_LEVEL, UNARY_LEVEL. destruct u; lia.
    - exists (S (Nat.max fa f)). rewrite parse_S.
      destruct u.
      + rewrite (parse_mono fa _ _ _ _ (Nat.le_max_l _ _) Ha).
        apply (ploop_mono f _ _ _ _ _ (Nat.le_max_r _ _) H).
      + rewrite (parse_mono fa _ _ _ _ (Nat.le_max_l _ _) Ha).
        apply (ploop_mono f _ _ _ _ _ (Nat.le_max_r _ _) H).
      + destruct (Nat.leb m NOT_LEVEL) eqn:E; [|apply Nat.leb_gt in E; unfold NOT_LEVEL in E; lia].
        rewrite (parse_mono fa _ _ _ _ (Nat.le_max_l _ _) Ha).
        apply (ploop_mono f _ _ _ _ _ (Nat.le_max_r _ _) H). }
  intros p m rest res f Hm Hok H. simpl print.
  destruct u.
  - simpl parens. apply (NP (G p) I m rest res f Hm Hok H).
  - simpl parens. apply (NP (G p) I m rest res f Hm Hok H).
  - unfold parens. destruct (PREC_NOT_PAREN_ABOVE <? p)%N eqn:E.
    + eapply (parens_case (UnOp BoolNot a) _ 2%N); [|exact H].
      intros m0 rest0 res0 f0 Hm0 Hok0 H0. apply (NP (G 2) (Nat.le_refl _) m0 rest0 res0 f0 Hm0 Hok0 H0).
    + apply (NP (G p) (G_not p E) m rest res f Hm Hok H).
Qed.

Theorem print_parse_RT e : RT e.
Proof.
  induction e as [v|n|u a IHa|op a IHa b IHb|a IHa b IHb|a IHa b IHb].
  - intros p m rest res f _ _ H. exists (S f). exact H.
  - intros p m rest res f _ _ H. exists (S f). exact H.
  - apply unary_case, IHa.
  - exact (binary_case (BBin op) a b IHa IHb).
  - exact (binary_case BAnd a b IHa IHb).
  - exact (binary_case BOr a b IHa IHb).
Qed.

(* C19, expressions: the printed tokens parse back to the very same tree *)
Theorem c19_print_parse e : exists f, parse f 0 (print 0 e) = Some (e, []).
Proof.
  destruct (print_parse_RT e 0%N 0%nat [] (e, []) 1%nat) as [f H]; [lia | exact I | reflexivity |].
  exists f. rewrite app_nil_r in H. exact H.
Qed.

(* hence the re-read expression evaluates identically on every row *)
Corollary c19_same_meaning e : exists f e', parse f 0 (print 0 e) = Some (e', []) /\
  forall r, eval r e' = eval r e.
Proof. destruct (c19_print_parse e) as [f H]. exists f, e. split; [exact H | reflexivity]. Qed.
