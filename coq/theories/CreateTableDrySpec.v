(* CreateTableDrySpec.v -- create_table dry-runs its three catalog inserts (fix in /repo: Insert::check): statements.
   Proofs in CreateTableDry.v. *)
From MsiModel Require Import Base Sexp Value Expr Category Column CodePage Pool Table Container StreamName
  Propset Summary Query Package.
From MsiGen Require Import GenConsts GenCatalog GenStreamName.
Open Scope N_scope.

Definition s_Foo : str := [70; 111; 111].
Definition s_Bar : str := [66; 97; 114].
(* a _Validation row describing column Bar of a table Foo that does not exist (real-world packages describe every
   standard table in _Validation, present or not) *)
Definition orphan_row : list (list value) :=
  [[VStr s_Foo; VStr s_Bar; VStr [78]; VNull; VNull; VNull; VNull; VNull; VNull; VNull]].
Definition bar_col : column := mkcol s_Bar Int16 false false true None None None [].

(* the source has the dry runs *)
Definition G_dry_runs_now : Prop := CREATE_TABLE_DRY_RUNS = true.

(* with them the call is refused and NOTHING has changed *)
Definition G_orphan_refused : Prop :=
  exists k0 k1, pkg_create Debug Installer = Ok k0 /\
    pkg_insert Debug k0 VALIDATION_TABLE_NAME orphan_row = (k1, Ok tt) /\
    pkg_create_table_with true Debug k1 s_Foo [bar_col] = (k1, Err).

(* without them (the code before the fix) the call is refused too, but the table has been half-created *)
Definition G_orphan_before_fix : Prop :=
  exists k0 k1 k2, pkg_create Debug Installer = Ok k0 /\
    pkg_insert Debug k0 VALIDATION_TABLE_NAME orphan_row = (k1, Ok tt) /\
    pkg_create_table_with false Debug k1 s_Foo [bar_col] = (k2, Err) /\
    find_table (k_tabs k2) s_Foo <> None /\ k2 <> k1.

(* when the dry runs pass, the real inserts see the same checks: exec_insert cannot return Err for a reason that
   exec_insert_check tests (it can only fail later, in the pool) *)
Definition G_check_is_prefix : Prop := forall prof c p ts tn rows,
  exec_insert_check prof c p ts tn rows = Err -> exec_insert prof c p ts tn rows = Err.
Definition G_check_ok_prefix : Prop := forall prof c p ts tn rows cp',
  exec_insert prof c p ts tn rows = Ok cp' -> exec_insert_check prof c p ts tn rows = Ok tt.
