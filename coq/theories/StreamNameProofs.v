(* StreamNameProofs.v -- C11 (codec part): the stream-name packing is invertible on
   accepted names and never produces a protected entry name. *)
From MsiModel Require Import Base StreamName.
From MsiGen Require Import GenStreamName.
From Coq Require Import ZifyBool ZifyNat ZifyN.
Ltac Zify.zify_post_hook ::= Z.div_mod_to_equations.
Open Scope N_scope.

Lemma sn_constants_pinned :
  TABLE_PREFIX = 18496 /\ SN_PAIR_LO = 14336 /\ SN_PAIR_HI = 18432 /\ SN_SINGLE_LO = 18432 /\ SN_SINGLE_HI = 18496 /\
  SN_ENC_PAIR_BASE = 14336 /\ SN_ENC_SHIFT = 6 /\ SN_ENC_SINGLE_BASE = 18432 /\ SN_MAX_UNITS = 31.
Proof. repeat split. Qed.
(* is_valid refuses the characters the packing itself produces and the ones the container reserves *)
Lemma sn_reserved_pinned :
  SN_RESERVED_RANGES = [(14336, 18496)] /\ SN_RESERVED_CHARS = [47; 92; 58; 33].
Proof. split; reflexivity. Qed.

Definition safe (c : N) : Prop := ~ (14336 <= c <= 18496).

Lemma some_inj {A} (a b : A) : Some a = Some b -> a = b.
Proof. congruence. Qed.

Lemma to_from_b64 c v : to_b64 c = Some v -> v < 64 /\ from_b64 v = c.
Proof.
  unfold to_b64, from_b64. intros H.
  destruct ((48 <=? c) && (c <=? 57)) eqn:E1; [apply some_inj in H; subst v; split; [lia|]; destruct (c - 48 <? 10) eqn:?; lia|].
  destruct ((65 <=? c) && (c <=? 90)) eqn:E2.
  { apply some_inj in H; subst v. split; [lia|]. destruct (10 + c - 65 <? 10) eqn:?; [lia|]. destruct (10 + c - 65 <? 36) eqn:?; lia. }
  destruct ((97 <=? c) && (c <=? 122)) eqn:E3.
  { apply some_inj in H; subst v. split; [lia|]. destruct (36 + c - 97 <? 10) eqn:?; [lia|]. destruct (36 + c - 97 <? 36) eqn:?; [lia|].
    destruct (36 + c - 97 <? 62) eqn:?; lia. }
  destruct (c =? 46) eqn:E4; [apply some_inj in H; subst v; split; [lia|]; apply N.eqb_eq in E4; subst; reflexivity|].
  destruct (c =? 95) eqn:E5; [apply some_inj in H; subst v; split; [lia|]; apply N.eqb_eq in E5; subst; reflexivity|].
  discriminate.
Qed.

Lemma to_b64_safe c v : to_b64 c = Some v -> safe c.
Proof.
  unfold to_b64, safe. intros H Hr.
  destruct ((48 <=? c) && (c <=? 57)) eqn:E1; [lia|].
  destruct ((65 <=? c) && (c <=? 90)) eqn:E2; [lia|].
  destruct ((97 <=? c) && (c <=? 122)) eqn:E3; [lia|].
  destruct (c =? 46) eqn:E4; [lia|]. destruct (c =? 95) eqn:E5; [lia|]. discriminate.
Qed.

Lemma decode_pair v1 v2 : v1 < 64 -> v2 < 64 ->
  decode_char (SN_ENC_PAIR_BASE + v2 * 2 ^ SN_ENC_SHIFT + v1) = [from_b64 v1; from_b64 v2].
Proof.
  intros H1 H2. unfold decode_char.
  change SN_ENC_PAIR_BASE with 14336. change (2 ^ SN_ENC_SHIFT) with 64. change SN_PAIR_LO with 14336. change SN_PAIR_HI with 18432.
  destruct ((14336 <=? 14336 + v2 * 64 + v1) && (14336 + v2 * 64 + v1 <? 18432)) eqn:E; [|lia].
  replace (14336 + v2 * 64 + v1 - 14336) with (v2 * 64 + v1) by lia.
  replace ((v2 * 64 + v1) mod 64) with v1 by lia. replace ((v2 * 64 + v1) / 64) with v2 by lia. reflexivity.
Qed.
Lemma decode_single v1 : v1 < 64 -> decode_char (SN_ENC_SINGLE_BASE + v1) = [from_b64 v1].
Proof.
  intros H1. unfold decode_char.
  change SN_ENC_SINGLE_BASE with 18432. change SN_PAIR_LO with 14336. change SN_PAIR_HI with 18432.
  change SN_SINGLE_LO with 18432. change SN_SINGLE_HI with 18496.
  destruct ((14336 <=? 18432 + v1) && (18432 + v1 <? 18432)) eqn:E; [lia|].
  destruct ((18432 <=? 18432 + v1) && (18432 + v1 <? 18496)) eqn:E2; [|lia].
  replace (18432 + v1 - 18432) with v1 by lia. reflexivity.
Qed.
Lemma decode_safe c : safe c -> decode_char c = [c].
Proof.
  unfold safe, decode_char. intros H.
  change SN_PAIR_LO with 14336. change SN_PAIR_HI with 18432. change SN_SINGLE_LO with 18432. change SN_SINGLE_HI with 18496.
  destruct ((14336 <=? c) && (c <? 18432)) eqn:E; [lia|].
  destruct ((18432 <=? c) && (c <? 18496)) eqn:E2; [lia|]. reflexivity.
Qed.

Lemma list_ind2 {A} (P : list A -> Prop) :
  P [] -> (forall a, P [a]) -> (forall a b l, P l -> P (b :: l) -> P (a :: b :: l)) -> forall l, P l.
Proof.
  intros H0 H1 H2. assert (forall l, P l /\ forall a, P (a :: l)) as H.
  { induction l as [|b l [IH1 IH2]]; [split; [exact H0 | exact H1]|].
    split; [apply IH2|]. intros a. apply H2; [exact IH1 | apply IH2]. }
  intros l. apply H.
Qed.

Lemma encode_chars_cons2 a b l :
  encode_chars (a :: b :: l) =
  match to_b64 a with
  | Some v1 => match to_b64 b with
               | Some v2 => (SN_ENC_PAIR_BASE + v2 * 2 ^ SN_ENC_SHIFT + v1) :: encode_chars l
               | None => (SN_ENC_SINGLE_BASE + v1) :: encode_chars (b :: l)
               end
  | None => a :: encode_chars (b :: l)
  end.
Proof. reflexivity. Qed.

Lemma decode_encode_chars n : Forall safe n -> flat_map decode_char (encode_chars n) = n.
Proof.
  induction n as [|a|a b l IH1 IH2] using list_ind2; intros Hs.
  - reflexivity.
  - inversion Hs; subst. cbn [encode_chars]. destruct (to_b64 a) as [v|] eqn:E.
    + destruct (to_from_b64 _ _ E) as [Hv Hf]. cbn [flat_map]. rewrite decode_single by exact Hv. rewrite Hf. reflexivity.
    + cbn [flat_map]. rewrite decode_safe by assumption. reflexivity.
  - inversion Hs as [|? ? Ha Hbl]; subst. inversion Hbl as [|? ? Hb Hl]; subst.
    rewrite encode_chars_cons2. destruct (to_b64 a) as [v1|] eqn:E1.
    + destruct (to_from_b64 _ _ E1) as [Hv1 Hf1].
      destruct (to_b64 b) as [v2|] eqn:E2.
      * destruct (to_from_b64 _ _ E2) as [Hv2 Hf2]. cbn [flat_map].
        rewrite decode_pair by assumption. rewrite Hf1, Hf2, (IH1 Hl). reflexivity.
      * cbn [flat_map]. rewrite decode_single by assumption. rewrite Hf1.
        rewrite (IH2 Hbl). reflexivity.
    + cbn [flat_map]. rewrite decode_safe by assumption. rewrite (IH2 Hbl). reflexivity.
Qed.

Lemma cons_hd {A} (a b : A) l m : a :: l = b :: m -> a = b.
Proof. congruence. Qed.

(* no encoded character is the table marker, nor a packable character, nor unsafe-but-raw *)
Lemma encode_chars_head n c r : Forall safe n -> encode_chars n = c :: r -> c <> TABLE_PREFIX.
Proof.
  intros Hs. destruct n as [|a l]; [discriminate|]. inversion Hs as [|? ? Ha Hl]; subst.
  cbn [encode_chars]. change TABLE_PREFIX with 18496.
  destruct (to_b64 a) as [v1|] eqn:E1.
  - destruct (to_from_b64 _ _ E1) as [Hv1 _]. destruct l as [|b l2].
    + intros E; apply cons_hd in E; subst c. change SN_ENC_SINGLE_BASE with 18432. lia.
    + destruct (to_b64 b) as [v2|] eqn:E2.
      * destruct (to_from_b64 _ _ E2) as [Hv2 _]. intros E; apply cons_hd in E; subst c.
        change SN_ENC_PAIR_BASE with 14336. change (2 ^ SN_ENC_SHIFT) with 64. lia.
      * intros E; apply cons_hd in E; subst c. change SN_ENC_SINGLE_BASE with 18432. lia.
  - intros E; apply cons_hd in E; subst c. unfold safe in Ha. lia.
Qed.

(* C11 codec: decoding an encoded accepted name gives the name and the table flag back *)
Theorem sn_decode_encode n b : Forall safe n -> n <> [] -> sn_decode (sn_encode n b) = (n, b).
Proof.
  intros Hs Hne. unfold sn_encode, sn_decode. destruct b.
  - cbn [app]. rewrite N.eqb_refl. rewrite decode_encode_chars by exact Hs. reflexivity.
  - cbn [app]. destruct (encode_chars n) as [|c r] eqn:E.
    + destruct n as [|a l]; [congruence|]. cbn [encode_chars] in E.
      destruct (to_b64 a); [destruct l as [|b l2]; [discriminate | destruct (to_b64 b); discriminate] | discriminate].
    + pose proof (encode_chars_head n c r Hs E) as Hc. apply N.eqb_neq in Hc. rewrite Hc.
      rewrite <- E. rewrite decode_encode_chars by exact Hs. reflexivity.
Qed.

Corollary sn_encode_injective n1 b1 n2 b2 : Forall safe n1 -> Forall safe n2 -> n1 <> [] -> n2 <> [] ->
  sn_encode n1 b1 = sn_encode n2 b2 -> n1 = n2 /\ b1 = b2.
Proof.
  intros H1 H2 N1 N2 E. pose proof (sn_decode_encode n1 b1 H1 N1) as D1.
  rewrite E, (sn_decode_encode n2 b2 H2 N2) in D1. inversion D1. split; reflexivity.
Qed.

(* what is_valid accepts is safe *)
Lemma valid_is_safe n b : sn_is_valid n b = true -> Forall safe n /\ n <> [].
Proof.
  unfold sn_is_valid. destruct n as [|c r]; [discriminate|]. intros H.
  destruct (negb b && (c =? TABLE_PREFIX)); [discriminate|].
  destruct (existsb reserved_char (c :: r)) eqn:E; [discriminate|].
  split; [|discriminate]. apply Forall_forall. intros x Hx Hr.
  assert (existsb reserved_char (c :: r) = true); [|congruence].
  apply existsb_exists. exists x. split; [exact Hx|].
  unfold reserved_char, in_ranges. destruct sn_reserved_pinned as [-> _]. simpl. lia.
Qed.

Theorem sn_roundtrip_valid n b : sn_is_valid n b = true -> sn_decode (sn_encode n b) = (n, b).
Proof. intros H. destruct (valid_is_safe n b H) as [Hs Hne]. apply sn_decode_encode; assumption. Qed.

(* encoded names contain no packable character at all: every letter, digit, '.', '_' is packed *)
Lemma encode_chars_no_packable n : Forall safe n -> Forall (fun c => to_b64 c = None) (encode_chars n).
Proof.
  induction n as [|a|a b l IH1 IH2] using list_ind2; intros Hs.
  - constructor.
  - cbn [encode_chars]. destruct (to_b64 a) as [v|] eqn:E.
    + destruct (to_from_b64 _ _ E) as [Hv _]. constructor; [|constructor].
      change SN_ENC_SINGLE_BASE with 18432. unfold to_b64.
      repeat (match goal with |- context [if ?b then _ else _] => destruct b eqn:? end; try lia). reflexivity.
    + constructor; [exact E | constructor].
  - inversion Hs as [|? ? Ha Hbl]; subst. inversion Hbl as [|? ? Hb Hl]; subst.
    rewrite encode_chars_cons2. destruct (to_b64 a) as [v1|] eqn:E1.
    + destruct (to_from_b64 _ _ E1) as [Hv1 _]. destruct (to_b64 b) as [v2|] eqn:E2.
      * destruct (to_from_b64 _ _ E2) as [Hv2 _]. constructor; [|apply IH1, Hl].
        change SN_ENC_PAIR_BASE with 14336. change (2 ^ SN_ENC_SHIFT) with 64. unfold to_b64.
        repeat (match goal with |- context [if ?b then _ else _] => destruct b eqn:? end; try lia). reflexivity.
      * constructor; [|apply IH2, Hbl].
        change SN_ENC_SINGLE_BASE with 18432. unfold to_b64.
        repeat (match goal with |- context [if ?b then _ else _] => destruct b eqn:? end; try lia). reflexivity.
    + constructor; [exact E1 | apply IH2, Hbl].
Qed.

(* the protected entries: table streams (marker first) and the four \005-prefixed names *)
Definition protected_names : list str :=
  [SUMMARY_INFO_STREAM_NAME; DOCUMENT_SUMMARY_INFO_STREAM_NAME; DIGITAL_SIGNATURE_STREAM_NAME;
   MSI_DIGITAL_SIGNATURE_EX_STREAM_NAME].
Lemma protected_have_letters : forallb (fun p => existsb (fun c => match to_b64 c with Some _ => true | None => false end) p)
                                       protected_names = true.
Proof. vm_compute. reflexivity. Qed.

Theorem sn_never_protected n : sn_is_valid n false = true ->
  ~ In (sn_encode n false) protected_names /\
  (forall c r, sn_encode n false = c :: r -> c <> TABLE_PREFIX) /\
  ~ In 47 (sn_encode n false).
Proof.
  intros Hv. destruct (valid_is_safe n false Hv) as [Hs Hne]. unfold sn_encode. cbn [app].
  pose proof (encode_chars_no_packable n Hs) as Hnp. split; [|split].
  - intros Hin. pose proof protected_have_letters as P. rewrite forallb_forall in P.
    specialize (P _ Hin). apply existsb_exists in P as (c & Hc & Hp).
    rewrite Forall_forall in Hnp. rewrite (Hnp c Hc) in Hp. discriminate.
  - intros c r E. eapply encode_chars_head; eauto.
  - (* no '/' : it is refused by is_valid and never produced by the packing *)
    intros Hin.
    assert (forall m, Forall safe m -> ~ In 47 m -> ~ In 47 (encode_chars m)) as Hno.
    { induction m as [|a|a b l IH1 IH2] using list_ind2; intros Hsm Hm.
      - intros [].
      - cbn [encode_chars]. destruct (to_b64 a) as [v|] eqn:E.
        + destruct (to_from_b64 _ _ E) as [Hv' _]. change SN_ENC_SINGLE_BASE with 18432. intros [H|[]]; lia.
        + intros [H|[]]. apply Hm. left. exact H.
      - inversion Hsm as [|? ? Ha Hbl]; subst. inversion Hbl as [|? ? Hb Hl]; subst.
        rewrite encode_chars_cons2. destruct (to_b64 a) as [v1|] eqn:E1.
        + destruct (to_from_b64 _ _ E1) as [Hv1 _]. destruct (to_b64 b) as [v2|] eqn:E2.
          * destruct (to_from_b64 _ _ E2) as [Hv2 _]. change SN_ENC_PAIR_BASE with 14336. change (2 ^ SN_ENC_SHIFT) with 64.
            intros [H|H]; [lia|]. apply (IH1 Hl); [|exact H]. intros Hx. apply Hm. right. right. exact Hx.
          * change SN_ENC_SINGLE_BASE with 18432. intros [H|H]; [lia|].
            apply (IH2 Hbl); [|exact H]. intros Hx. apply Hm. right. exact Hx.
        + intros [H|H]; [apply Hm; left; exact H|]. apply (IH2 Hbl); [|exact H]. intros Hx. apply Hm. right. exact Hx. }
    apply (Hno n Hs); [|exact Hin].
    intros H47. unfold sn_is_valid in Hv. destruct n as [|c r]; [discriminate|].
    destruct (negb false && (c =? TABLE_PREFIX)); [discriminate|].
    destruct (existsb reserved_char (c :: r)) eqn:E; [discriminate|].
    assert (existsb reserved_char (c :: r) = true); [|congruence].
    apply existsb_exists. exists 47. split; [exact H47|].
    unfold reserved_char. destruct sn_reserved_pinned as [_ ->]. apply orb_true_iff. right. reflexivity.
Qed.
