(* ReopenPages.v -- C01 under a single-byte database code page: proofs of the statements of ReopenPagesSpec.v.
   All three goals are proved exactly as stated.
   Method: PInvQ is PkgInv.PInv with the conjunct about the pool's code page made a parameter Q; PInv is PInvQ at
   "the code page is UTF-8", PInvP c t is PInvQ at "the code page is c and every pool string is representable in t".
   The ReopenProofs development is replayed for PInvQ / PInvP; the only places where the code page matters are
   open_poolP and flush_totalP, which use CodecPages.pool_roundtrip_sb where the UTF-8 proofs use pool_roundtrip. *)
From Coq Require Import ZifyBool ZifyNat ZifyN Lia ZArith NArith List Sorting.Sorted Permutation.
From MsiModel Require Import Base Sexp Value Expr Category Column ColumnProofs CategoryProofs CodePage CodePageProofs
  SingleByteSpec SingleByteProofs Pool Table Container
  StreamName StreamNameProofs Propset Summary Query Package PoolProofs TableProofs QueryProofs DbInv CatalogProofs
  PropsetCodecProofs CodecPagesSpec CodecPages PackageProofs StreamProofs DeleteRefine PkgInv PkgInv2 CreateTableProofs
  ReopenLemmas ReopenProofs Reach ReopenPagesSpec.
From MsiGen Require Import GenConsts GenCatalog GenStreamName GenCodePage GenSingleByte.
Import ListNotations.
Open Scope N_scope.
Arguments N.add : simpl never.
Arguments N.mul : simpl never.
Arguments N.sub : simpl never.

(* ====================================================================== *)
(* the invariant with the code-page conjunct as a parameter                *)
(* ====================================================================== *)
Definition PInvQ (Q : pool -> Prop) (prof : profile) (k : pkg) : Prop :=
  Inv (the_db k) /\
  Q (k_pool k) /\
  ps_ok (k_sum k) /\ ps_fmtid (k_sum k) = FMTID /\
  tabs_wf k /\ catalog_ok prof k /\ tables_sorted_valid prof k /\ disk_ok k /\ flags_ok k.

Definition Qutf8 (p : pool) : Prop := p_cp p = cp_utf8.
Definition Qsb (c : codepage) (t : list N) (p : pool) : Prop := p_cp p = c /\ pool_repr t p.
Definition PInvP (c : codepage) (t : list N) (prof : profile) (k : pkg) : Prop := PInvQ (Qsb c t) prof k.

Lemma PInv_Q prof k : PInv prof k -> PInvQ Qutf8 prof k.
Proof. intros H. exact H. Qed.

(* ====================================================================== *)
(* representable strings                                                   *)
(* ====================================================================== *)
Lemma nlen_le_utf8 (s : str) : nlen s <= utf8_len s.
Proof.
  induction s as [|c s IH]; [cbn; lia|]. change (utf8_len (c :: s)) with (utf8_len1 c + utf8_len s).
  rewrite QueryProofs.nlen_cons. unfold utf8_len1. destruct (c <? 128); [lia|]. destruct (c <? 2048); [lia|].
  destruct (c <? 65536); lia.
Qed.

Lemma wf_sb t p : pool_wf p -> pool_repr t p -> pool_wf_sb t p.
Proof.
  unfold pool_wf, pool_repr, pool_wf_sb. intros H1 H2. rewrite Forall_forall in *. intros e He.
  destruct (H1 e He) as (A & B & C & D). refine (conj A (conj B (conj (H2 e He) _))).
  pose proof (nlen_le_utf8 (fst e)). lia.
Qed.

(* ====================================================================== *)
(* the catalog part of pkg_open (ReopenProofs.open_catalog, same script)   *)
(* ====================================================================== *)
Theorem open_catalogQ : forall Q prof k, PInvQ Q prof k ->
  exists trows crows vrows cmap vals,
    tvals prof (the_db k) (tables_table (p_long (k_pool k))) = Ok trows /\
    read_table_names trows [] = Ok (map fst (user_tabs k)) /\
    tvals prof (the_db k) (columns_table (p_long (k_pool k))) = Ok crows /\
    read_columns_rows (map fst (user_tabs k)) crows [] = Ok cmap /\
    tvals prof (the_db k) (validation_table (p_long (k_pool k))) = Ok vrows /\
    read_validation_rows vrows [] = Ok vals /\
    build_tables (map fst (user_tabs k)) cmap vals (p_long (k_pool k)) (base_tabs (p_long (k_pool k))) = Ok (k_tabs k).
Proof.
  intros Q prof k (HInv & Hcp & Hps & Hfmt & Htw & Hcat & Hsv & Hdisk & Hflags).
  destruct (user_facts k Htw) as (HUs & HU).
  pose proof Htw as (HS & HfT & HfC & HfV & _).
  destruct Hcat as (trows & crows & vrows & Ht & Pt & Hc & Pc & Hv & Pv).
  unfold tables_sorted_valid in Hsv. rewrite Forall_forall in Hsv.
  set (long := p_long (k_pool k)) in *. set (U := user_tabs k) in *.
  assert (HUne : forall e, In e U -> fst e <> []). { intros e He. apply (HU e He). }
  assert (HUnd : NoDup (map fst U)) by (apply sorted_names_nodup; exact HUs).
  assert (Et : trows = map (fun e => [VStr (fst e)]) U).
  { apply (sorted_perm_eq (Rt long) (Rt_irrefl long) (Rt_trans long)); [| apply trows_sorted; exact HUs | exact Pt].
    destruct (Hsv _ (find_table_in _ _ _ HfT)) as (vals & A & B & _). cbn [snd] in A, B.
    rewrite Ht in A. inversion A; subst vals. apply (SS_unmap key_lt (key_of (tables_table long))). exact B. }
  assert (Ec : crows = List.concat (map (fun e => stored (columns_rows (fst e) (t_cols (snd e)))) U)).
  { apply (sorted_perm_eq (Rc long) (Rc_irrefl long) (Rc_trans long)); [| apply crows_sorted; assumption | exact Pc].
    destruct (Hsv _ (find_table_in _ _ _ HfC)) as (vals & A & B & _). cbn [snd] in A, B.
    rewrite Hc in A. inversion A; subst vals. apply (SS_unmap key_lt (key_of (columns_table long))). exact B. }
  assert (HVok : Forall vrow_ok vrows).
  { apply Forall_forall. intros r Hr. apply (Permutation_in _ Pv) in Hr.
    apply in_validation_rows in Hr as (e & c & He & Hcc & ->).
    destruct (HU e He) as (_ & _ & Hn & _ & Hst & _). apply vrow_ok_nvrow; [exact Hn|].
    rewrite Forall_forall in Hst. apply (Hst c Hcc). }
  assert (HVnd : NoDup (map vkey vrows)).
  { eapply Permutation_NoDup; [apply Permutation_map, Permutation_sym, Pv|].
    rewrite map_vkey_validation.
    - apply vkeys_nodup; [exact HUnd|]. intros e He. apply (HU e He).
    - intros e He. destruct (HU e He) as (_ & _ & Hn & _ & Hst & _). split; [exact Hn | apply storable_names; exact Hst]. }
  exists trows, crows, vrows, (rev (map spec_entry U) ++ []), ([] ++ map vent vrows).
  split; [exact Ht|]. split.
  { rewrite Et, <- (map_map fst (fun n => [VStr n])). apply (read_table_names_spec (map fst U) []). exact HUnd. }
  split; [exact Hc|]. split.
  { rewrite Ec. apply rcr_multi; [exact HUnd | | intros ? ? ? []].
    intros e He. destruct (HU e He) as (_ & _ & Hn & Hcols & Hst & _).
    split; [exact Hn|]. split; [apply in_map; exact He|]. split; [exact Hcols | apply storable_names; exact Hst]. }
  split; [exact Hv|]. split.
  { apply rvr_gen; [exact HVok | exact HVnd | intros ? ? ? []]. }
  rewrite build_tables_multi.
  2:{ intros e He. destruct (HU e He) as (_ & _ & Hn & Hcols & Hst & Hnd & Esnd).
      split; [|split; [exact Hcols | split; [exact Hst | split; [|exact Esnd]]]].
      - rewrite app_nil_r. unfold spec_entry at 2. apply find_key_unique.
        + rewrite map_rev, map_map. apply NoDup_rev. exact HUnd.
        + apply -> in_rev. change (fst e, specs_of (t_cols (snd e))) with (spec_entry e). apply in_map. exact He.
      - intros c Hcc. cbn [app]. rewrite Forall_forall in Hst.
        assert (Hcn : c_name c <> []) by apply (Hst c Hcc).
        rewrite <- (vent_nvrow (fst e) c Hn Hcn). apply find_vent; [exact HVnd | | apply vkey_nvrow; assumption].
        apply (Permutation_in _ (Permutation_sym Pv)). apply in_validation_rows. exists e, c. auto. }
  f_equal. rewrite base_tabs_eq.
  apply (sorted_ext_eq tlt tlt_irrefl tlt_trans).
  - apply ins_all_sorted. repeat constructor.
  - exact HS.
  - intros x. split.
    + intros Hx. apply ins_all_in in Hx as [[<-|[<-|[]]]|Hx].
      * apply find_table_in. exact HfC.
      * apply find_table_in. exact HfT.
      * apply (HU x Hx).
    + intros Hx. apply ins_all_has; [exact HUnd|].
      destruct (is_core (fst x)) eqn:Ecore.
      * left. split.
        -- destruct x as [n t]. pose proof (sorted_find _ _ _ HS Hx) as Hf. cbn [fst] in Ecore.
           unfold is_core in Ecore. apply orb_true_iff in Ecore as [E|E]; apply str_eqb_spec in E; subst n.
           ++ rewrite HfT in Hf. inversion Hf. right. left. reflexivity.
           ++ rewrite HfC in Hf. inversion Hf. left. reflexivity.
        -- intros Hin. apply in_map_iff in Hin as (e & Ee & He). destruct (HU e He) as (_ & Hc' & _).
           rewrite Ee, Ecore in Hc'. discriminate.
      * right. unfold U, user_tabs. apply filter_In. split; [exact Hx|]. rewrite Ecore. reflexivity.
Qed.

(* ====================================================================== *)
(* open_saved for a single-byte pool                                       *)
(* ====================================================================== *)
Lemma open_summaryQ Q prof k : PInvQ Q prof k -> k_sum_mod k = false ->
  exists sb, ct_read (k_cont k) SUMMARY_INFO_STREAM_NAME = Ok sb /\ summary_read sb = Ok (k_sum k).
Proof.
  intros (_ & _ & Hps & Hfmt & _ & _ & _ & (_ & _ & Hds) & _) Hsm.
  destruct (Hds Hsm) as (Hfs & _). destruct (ps_roundtrip _ Hps) as (sb & Hsb & Hrs).
  exists sb. split.
  - unfold ct_read. rewrite Hfs, Hsb. reflexivity.
  - unfold summary_read. rewrite Hrs. cbn [rbind]. rewrite Hfmt, fmtid_eqb. reflexivity.
Qed.

Lemma open_poolP c t prof k : cp_single c t -> PInvP c t prof k -> p_mod (k_pool k) = false ->
  exists pb db, ct_read (k_cont k) (sn_encode STRING_POOL_TABLE_NAME true) = Ok pb /\
                ct_read (k_cont k) (sn_encode STRING_DATA_TABLE_NAME true) = Ok db /\
                read_pool pb db = Ok (k_pool k).
Proof.
  intros Hs ((Hwf & _) & (Hcp & Hrep) & _ & _ & _ & _ & _ & (_ & Hdp & _) & _) Hpm.
  destruct (Hdp Hpm) as (Hfp & Hfd & _). unfold pool_stream in Hfp. unfold data_stream in Hfd.
  cbn [the_db d_pool] in Hwf.
  destruct (pool_roundtrip_sb (k_pool k) c t Hs Hcp (wf_sb t _ Hwf Hrep)) as (pb & db & Hpb & Hdb & Hrp).
  exists pb, db. unfold ct_read. rewrite Hfp, Hfd, Hpb, Hdb. repeat split; try reflexivity.
  rewrite Hrp, (mark_unmod_id _ Hpm). reflexivity.
Qed.

Theorem open_savedP : forall c t prof k, cp_single c t ->
  PInvP c t prof k -> k_fin k = false -> k_sum_mod k = false -> p_mod (k_pool k) = false ->
  exists k2, pkg_open prof (k_cont k) = Ok k2 /\
    k_cont k2 = k_cont k /\ k_type k2 = k_type k /\ k_sum k2 = k_sum k /\ k_pool k2 = k_pool k /\ k_tabs k2 = k_tabs k /\
    k_fin k2 = false /\ k_sum_mod k2 = false.
Proof.
  intros c t prof k Hs HP Hfin Hsm Hpm.
  destruct (open_summaryQ _ prof k HP Hsm) as (sb & Hsb & Hrs).
  destruct (open_poolP c t prof k Hs HP Hpm) as (pb & db & Hpb & Hdb & Hrp).
  destruct (open_catalogQ _ prof k HP) as (trows & crows & vrows & cmap & vals & Ht & Hn & Hc & Hm & Hv & Hl & Hb).
  pose proof HP as (_ & _ & _ & _ & _ & _ & _ & (Hcls & _) & _).
  exists (mkpkg (k_cont k) (k_type k) (k_sum k) false (k_pool k) (k_tabs k) false).
  split; [|cbn; repeat split; reflexivity].
  unfold pkg_open. rewrite Hcls, ptype_roundtrip. cbn [of_opt rbind].
  rewrite Hsb. cbn [rbind]. rewrite Hrs. cbn [rbind].
  rewrite Hpb. cbn [rbind]. rewrite Hdb. cbn [rbind]. rewrite Hrp. cbn [rbind]. cbv zeta.
  rewrite !rows_values_tvals.
  rewrite Ht. cbn [rbind]. rewrite Hn. cbn [rbind].
  rewrite Hc. cbn [rbind]. rewrite Hm. cbn [rbind].
  rewrite Hv. cbn [rbind]. rewrite Hl. cbn [rbind].
  fold (base_tabs (p_long (k_pool k))). rewrite Hb. reflexivity.
Qed.

(* ====================================================================== *)
(* the frame theorem, from any code-page conjunct to any other             *)
(* ====================================================================== *)
Lemma frame_invQ (Q Q' : pool -> Prop) prof k k' :
  PInvQ Q prof k -> k_type k' = k_type k -> k_sum k' = k_sum k -> k_tabs k' = k_tabs k ->
  p_strings (k_pool k') = p_strings (k_pool k) -> p_long (k_pool k') = p_long (k_pool k) ->
  cont_frame (k_cont k) (k_cont k') -> Q' (k_pool k') ->
  disk_ok k' -> flags_ok k' ->
  PInvQ Q' prof k' /\ (p_cp (k_pool k') = p_cp (k_pool k) -> same_obs prof k k').
Proof.
  intros HP Ety Es Ets Pst Plg (Fcl & Ffind & Fnames) HQ' Hdisk' Hflags'.
  destruct HP as (HInv & Hcp & Hps & Hfmt & Htw & Hcat & Hsv & Hdisk & Hflags).
  assert (Hsp : forall e, In e (k_tabs k) -> special3 (stream_name_of (snd e))).
  { destruct Htw as (_ & _ & _ & _ & F1 & _). rewrite Forall_forall in F1. intros e He.
    destruct (F1 e He) as (V & R & Esnd). rewrite Esnd. unfold stream_name_of. cbn [t_name].
    apply table_stream_special3; assumption. }
  assert (Htv : forall e, In e (k_tabs k) -> tvals prof (the_db k') (snd e) = tvals prof (the_db k) (snd e)).
  { intros e He. unfold the_db. apply tvals_frame; [exact Pst | apply Ffind, Hsp, He]. }
  assert (Hlr : forall e, In e (k_tabs k) -> load_rows (k_cont k') (snd e) = load_rows (k_cont k) (snd e)).
  { intros e He. unfold load_rows. rewrite (Ffind _ (Hsp e He)). reflexivity. }
  pose proof Htw as (_ & HfT & HfC & HfV & _).
  split.
  - refine (conj _ (conj HQ' (conj _ (conj _ (conj _ (conj _ (conj _ (conj Hdisk' Hflags')))))))).
    + destruct HInv as (Hwf & Hnd & Htok & Hrc). unfold Inv, the_db in *. cbn [d_pool d_tabs d_cont] in *.
      rewrite Ets. refine (conj _ (conj Hnd (conj _ _))).
      * unfold pool_wf. rewrite Pst. exact Hwf.
      * rewrite Forall_forall in *. intros e He. destruct (Htok e He) as (A & B & C & rows & D & E).
        unfold table_ok. refine (conj A (conj B (conj _ _))); [rewrite Plg; exact C|].
        exists rows. rewrite (Hlr e He). split; assumption.
      * intros r Hr. unfold refcount. rewrite Pst. fold (refcount (k_pool k) r). rewrite (Hrc r Hr). f_equal.
        symmetry. apply all_rows_ext. intros e He. unfold rows_of. rewrite (Hlr e He). reflexivity.
    + rewrite Es. exact Hps.
    + rewrite Es. exact Hfmt.
    + unfold tabs_wf, user_tabs in *. rewrite Ets, Plg. exact Htw.
    + destruct Hcat as (tr & cr & vr & H1 & P1 & H2 & P2 & H3 & P3). exists tr, cr, vr.
      unfold user_tabs in *. rewrite Ets, Plg.
      pose proof (Htv _ (find_table_in _ _ _ HfT)) as E1. pose proof (Htv _ (find_table_in _ _ _ HfC)) as E2.
      pose proof (Htv _ (find_table_in _ _ _ HfV)) as E3. cbn [snd] in E1, E2, E3. rewrite E1, E2, E3.
      repeat split; assumption.
    + unfold tables_sorted_valid in *. rewrite Ets. rewrite Forall_forall in *. intros e He.
      destruct (Hsv e He) as (vals & A & B & C). exists vals. rewrite (Htv e He). repeat split; assumption.
  - intros Pcp. unfold same_obs. refine (conj Ety (conj Pcp (conj Es (conj Ets (conj Htv (conj _ _)))))).
    + intros n V. apply Ffind. apply user_stream_special3. exact V.
    + rewrite !pkg_streams_eq. exact Fnames.
Qed.

(* ---- switching the database code page ------------------------------------------------------------------- *)
Lemma set_cp_inv prof k c t : PInv prof k -> pool_repr t (k_pool k) -> PInvP c t prof (pkg_set_db_codepage k c).
Proof.
  intros HP Hrep. pose proof HP as (_ & _ & _ & _ & _ & _ & _ & (Dcl & _ & Ds) & _).
  apply (frame_invQ Qutf8 (Qsb c t) prof k (pkg_set_db_codepage k c) (PInv_Q _ _ HP)); try reflexivity.
  - apply cont_frame_refl.
  - split; [reflexivity | exact Hrep].
  - unfold disk_ok, pkg_set_db_codepage, pool_set_cp. cbn [k_cont k_type k_sum k_sum_mod k_pool p_mod].
    split; [exact Dcl|]. split; [intros H; discriminate H | exact Ds].
  - apply fin_flags_ok. reflexivity.
Qed.

(* ====================================================================== *)
(* saving                                                                  *)
(* ====================================================================== *)
Theorem flush_specP : forall c t prof k k1, PInvP c t prof k -> pkg_flush k = Some k1 ->
  PInvP c t prof k1 /\ same_obs prof k k1 /\ k_pool k1 = pool_mark_unmodified (k_pool k) /\
  k_fin k1 = false /\ k_sum_mod k1 = false /\ p_mod (k_pool k1) = false.
Proof.
  intros cpg tb prof k k1 HP Hf.
  pose proof HP as (HInv & (Hcp & Hrep) & Hps & Hfmt & Htw & Hcat & Hsv & Hdisk & Hflags).
  destruct saved_distinct as (Nsp & Nsd & Nps & Npd & Nds & Ndp).
  destruct k as [c ty s sm p ts f].
  apply flush_cases in Hf as [[-> ->] | (-> & c0 & c1 & p1 & -> & Hsum & Hpool)].
  - destruct (Hflags eq_refl) as [Hsm Hpm]. cbn [k_sum_mod k_pool] in Hsm, Hpm.
    assert (Hobs : PInvQ (Qsb cpg tb) prof (mkpkg c ty s sm p ts false) /\
                   (p_cp (k_pool (mkpkg c ty s sm p ts false)) = p_cp (k_pool (mkpkg c ty s sm p ts false)) ->
                    same_obs prof (mkpkg c ty s sm p ts false) (mkpkg c ty s sm p ts false))).
    { apply (frame_invQ (Qsb cpg tb) (Qsb cpg tb)); try reflexivity; try assumption.
      - apply cont_frame_refl.
      - split; assumption. }
    destruct Hobs as [_ Hobs]. specialize (Hobs eq_refl). cbn [k_pool k_fin k_sum_mod].
    refine (conj HP (conj Hobs (conj _ (conj eq_refl (conj Hsm Hpm))))).
    symmetry. apply mark_unmod_id. exact Hpm.
  - cbn [k_pool k_fin k_sum_mod k_cont k_type k_sum k_tabs] in *.
    destruct Hdisk as (Dcl & Dp & Ds). cbn [k_pool k_fin k_sum_mod k_cont k_type k_sum k_tabs] in Dcl, Dp, Ds.
    assert (F0 : cont_frame c c0 /\
                 ct_find (ct_entries c0) SUMMARY_INFO_STREAM_NAME = ps_write s /\ ps_write s <> None /\
                 ct_find (ct_entries c0) pool_stream = ct_find (ct_entries c) pool_stream /\
                 ct_find (ct_entries c0) data_stream = ct_find (ct_entries c) data_stream).
    { destruct sm.
      - destruct Hsum as (b & Eb & ->). split; [apply cont_frame_write; left; reflexivity|].
        rewrite !find_write, name_eqb_refl, Nsp, Nsd, Eb. repeat split. discriminate.
      - subst c0. destruct (Ds eq_refl) as [A B]. split; [apply cont_frame_refl|]. repeat split; assumption. }
    destruct F0 as (Fr0 & S0 & S0' & P0 & D0).
    assert (F1 : cont_frame c0 c1 /\ pool_same p p1 /\ p_mod p1 = false /\ p1 = pool_mark_unmodified p /\
                 ct_find (ct_entries c1) SUMMARY_INFO_STREAM_NAME = ct_find (ct_entries c0) SUMMARY_INFO_STREAM_NAME /\
                 ct_find (ct_entries c1) pool_stream = write_pool p1 /\
                 ct_find (ct_entries c1) data_stream = write_data p1 /\ write_pool p1 <> None).
    { destruct (p_mod p) eqn:Pm.
      - destruct Hpool as (pb & db & Epb & Edb & -> & ->). split.
        { eapply cont_frame_trans; apply cont_frame_write; [right; left; reflexivity | right; right; left; reflexivity]. }
        split; [repeat split|]. split; [reflexivity|]. split; [reflexivity|].
        rewrite !find_write, !name_eqb_refl, Nds, Nps, Ndp.
        change (write_pool (pool_mark_unmodified p)) with (write_pool p).
        change (write_data (pool_mark_unmodified p)) with (write_data p).
        rewrite Epb, Edb. repeat split. discriminate.
      - destruct Hpool as [-> ->]. destruct (Dp eq_refl) as (A & B & C).
        split; [apply cont_frame_refl|]. split; [repeat split|]. split; [exact Pm|].
        split; [symmetry; apply mark_unmod_id; exact Pm|]. split; [reflexivity|].
        rewrite P0, D0. repeat split; assumption. }
    destruct F1 as (Fr1 & (Pcp & Pst & Plg) & Pm1 & Ep1 & S1 & P1 & D1 & P1').
    assert (Hobs : PInvQ (Qsb cpg tb) prof (mkpkg c1 ty s false p1 ts false) /\
                   (p_cp (k_pool (mkpkg c1 ty s false p1 ts false)) = p_cp (k_pool (mkpkg c ty s sm p ts true)) ->
                    same_obs prof (mkpkg c ty s sm p ts true) (mkpkg c1 ty s false p1 ts false))).
    { apply (frame_invQ (Qsb cpg tb) (Qsb cpg tb)); try reflexivity; try assumption.
      - eapply cont_frame_trans; eassumption.
      - cbn [k_pool]. split; [rewrite Pcp; exact Hcp|]. unfold pool_repr. rewrite Pst. exact Hrep.
      - unfold disk_ok. cbn [k_pool k_fin k_sum_mod k_cont k_type k_sum k_tabs].
        destruct Fr0 as (C0 & _). destruct Fr1 as (C1 & _). split; [congruence|]. split.
        + intros _. repeat split; assumption.
        + intros _. rewrite S1, S0. split; [reflexivity | exact S0'].
      - intros _. cbn [k_pool k_sum_mod]. split; [reflexivity | exact Pm1]. }
    destruct Hobs as [HP1 Hobs]. specialize (Hobs Pcp).
    refine (conj HP1 (conj Hobs (conj Ep1 (conj eq_refl (conj eq_refl Pm1))))).
Qed.

Theorem flush_totalP : forall c t prof k, cp_single c t -> PInvP c t prof k -> exists k1, pkg_flush k = Some k1.
Proof.
  intros cpg tb prof k Hs ((Hwf & _) & (Hcp & Hrep) & Hps & _).
  destruct (ps_roundtrip _ Hps) as (sb & Hsb & _).
  cbn [the_db d_pool] in Hwf.
  destruct (pool_roundtrip_sb _ cpg tb Hs Hcp (wf_sb tb _ Hwf Hrep)) as (pb & db & Hpb & Hdb & _).
  destruct k as [c ty s sm p ts f]. cbn [k_sum k_pool the_db d_pool] in *.
  unfold pkg_flush. cbn [k_cont k_type k_sum k_sum_mod k_pool k_tabs k_fin].
  destruct f; [|eexists; reflexivity].
  unfold pkg_finish. cbn [k_cont k_type k_sum k_sum_mod k_pool k_tabs k_fin].
  destruct sm; rewrite ?Hsb; cbn [k_cont k_type k_sum k_sum_mod k_pool k_tabs k_fin];
    destruct (p_mod p); rewrite ?Hpb, ?Hdb; eexists; reflexivity.
Qed.

Lemma open_flushedP c t prof k k1 : cp_single c t -> PInvP c t prof k -> pkg_flush k = Some k1 ->
  pkg_open prof (k_cont k1) = Ok k1 /\ PInvP c t prof k1 /\ same_obs prof k k1.
Proof.
  intros Hs HP Hf. destruct (flush_specP c t prof k k1 HP Hf) as (HP1 & Hobs & _ & F1 & F2 & F3).
  destruct (open_savedP c t prof k1 Hs HP1 F1 F2 F3) as (k2 & Ho & A & B & C & D & E & F & G).
  assert (k2 = k1) by (apply pkg_eta; congruence). subst k2. auto.
Qed.

(* ====================================================================== *)
(* the goals                                                               *)
(* ====================================================================== *)
Theorem reopen_roundtrip_pages : G_reopen_roundtrip_pages.
Proof.
  intros prof k c t HP Hs Hrep.
  pose proof (set_cp_inv prof k c t HP Hrep) as HPs.
  destruct (flush_totalP c t prof _ Hs HPs) as (k1 & Hf).
  destruct (open_flushedP c t prof _ k1 Hs HPs Hf) as (Ho & HP1 & Hobs).
  exists k1, k1. refine (conj Hf (conj Ho (conj Hobs (conj Hobs (conj _ _))))).
  - destruct HP1 as (_ & (Hcp & _) & _). exact Hcp.
  - eapply flush_idempotent. exact Hf.
Qed.

Theorem reachable_roundtrip_pages : G_reachable_roundtrip_pages.
Proof.
  intros prof k c t Hre Hs Hrep. destruct (reachable_inv prof k Hre) as [[HP _] _].
  exact (reopen_roundtrip_pages prof k c t HP Hs Hrep).
Qed.

Lemma small_repr t (s : str) : forallb (fun c => c <? 128) s = true -> Forall (sb_repr t) s.
Proof.
  intros H. apply Forall_forall. intros c Hc. rewrite forallb_forall in H. specialize (H c Hc). left. lia.
Qed.

Definition pool_small (p : pool) : bool := forallb (fun e => forallb (fun c => c <? 128) (fst e)) (p_strings p).

Lemma pool_small_repr t p : pool_small p = true -> pool_repr t p.
Proof.
  unfold pool_small, pool_repr. intros H. apply Forall_forall. intros e He. rewrite forallb_forall in H.
  apply small_repr. apply H. exact He.
Qed.

Theorem fresh_pool_repr : G_fresh_pool_repr.
Proof.
  intros prof ty k t H _. apply pool_small_repr.
  assert (E : match pkg_create prof ty with Ok k0 => pool_small (k_pool k0) | _ => true end = true)
    by (destruct prof, ty; vm_compute; reflexivity).
  rewrite H in E. exact E.
Qed.

Print Assumptions reopen_roundtrip_pages.
Print Assumptions reachable_roundtrip_pages.
Print Assumptions fresh_pool_repr.
