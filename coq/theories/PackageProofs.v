(* PackageProofs.v -- the package state machine of Package.v: finisher / modified flags
   (C01 idempotence of saving, C04 rejected operations change nothing, C16 read-only sessions,
   C04/C20 argument checks of create_table / drop_table precede the first change). *)
From MsiModel Require Import Base Sexp Value Expr Category Column CodePage Pool Table Container StreamName
  Propset Summary Query Package.
From MsiGen Require Import GenConsts GenCatalog GenStreamName.
Open Scope N_scope.

(* package state machine: finisher / modified flags (C01 idempotence, C04, C16) *)
(* nothing is pending unless the finisher is set *)
Definition flags_ok (k : pkg) : Prop := k_fin k = false -> k_sum_mod k = false /\ p_mod (k_pool k) = false.
(* what a save writes *)
Definition saved (k : pkg) : option container := option_map k_cont (pkg_flush k).
Definition same_state (k k' : pkg) : Prop :=
  k_cont k' = k_cont k /\ k_type k' = k_type k /\ k_sum k' = k_sum k /\ k_sum_mod k' = k_sum_mod k /\
  k_pool k' = k_pool k /\ k_tabs k' = k_tabs k.

(* ---- helpers ------------------------------------------------------------------------------ *)
Ltac disc := let H := fresh in intros H; cbv beta iota in H; discriminate H.
Lemma rbind_ok {A B} (e : res A) (f : A -> res B) b :
  rbind e f = Ok b -> exists a, e = Ok a /\ f a = Ok b.
Proof. destruct e; simpl; intros H; try discriminate; eauto. Qed.

Lemma read_pool_unmod a b p : read_pool a b = Ok p -> p_mod p = false.
Proof.
  unfold read_pool. intros H.
  apply rbind_ok in H. destruct H as [pb [_ H]].
  apply rbind_ok in H. destruct H as [l [_ H]].
  inversion H. reflexivity.
Qed.

Lemma fin_flags_ok k : k_fin k = true -> flags_ok k.
Proof. unfold flags_ok. intros H H'. congruence. Qed.

(* ---- open ----------------------------------------------------------------------------------- *)
Lemma open_shape prof c k : pkg_open prof c = Ok k ->
  exists t s p tabs, k = mkpkg c t s false p tabs false /\ p_mod p = false.
Proof.
  unfold pkg_open. intros H.
  apply rbind_ok in H. destruct H as [t [_ H]].
  apply rbind_ok in H. destruct H as [sb [_ H]].
  apply rbind_ok in H. destruct H as [s [_ H]].
  apply rbind_ok in H. destruct H as [pb [_ H]].
  apply rbind_ok in H. destruct H as [db [_ H]].
  apply rbind_ok in H. destruct H as [p [Hp H]].
  cbv zeta in H.
  apply rbind_ok in H. destruct H as [trows [_ H]].
  apply rbind_ok in H. destruct H as [names [_ H]].
  apply rbind_ok in H. destruct H as [crows [_ H]].
  apply rbind_ok in H. destruct H as [cmap [_ H]].
  apply rbind_ok in H. destruct H as [vrows [_ H]].
  apply rbind_ok in H. destruct H as [vals [_ H]].
  apply rbind_ok in H. destruct H as [tabs [_ H]].
  inversion H.
  exists t, s, p, tabs. split; [reflexivity|]. eapply read_pool_unmod; eassumption.
Qed.

Theorem open_clean : forall prof c k, pkg_open prof c = Ok k ->
  k_cont k = c /\ k_fin k = false /\ k_sum_mod k = false /\ p_mod (k_pool k) = false.
Proof.
  intros prof c k H. apply open_shape in H. destruct H as [t [s [p [tabs [-> Hp]]]]].
  cbn [k_cont k_fin k_sum_mod k_pool]. auto.
Qed.

(* C16: a session that only opens and reads, then closes, leaves the container identical *)
Theorem readonly_close : forall prof c k, pkg_open prof c = Ok k -> pkg_flush k = Some k /\ saved k = Some c.
Proof.
  intros prof c k H. apply open_shape in H. destruct H as [t [s [p [tabs [-> Hp]]]]].
  unfold saved, pkg_flush. cbn [k_fin k_cont option_map]. auto.
Qed.

Theorem open_flags : forall prof c k, pkg_open prof c = Ok k -> flags_ok k.
Proof.
  intros prof c k H. apply open_clean in H. destruct H as [_ [_ [H1 H2]]].
  intros _. auto.
Qed.

(* ---- flush ---------------------------------------------------------------------------------- *)
Lemma finish_shape k k' : pkg_finish k = Some k' ->
  k_fin k' = k_fin k /\ k_sum_mod k' = false /\ p_mod (k_pool k') = false.
Proof.
  destruct k as [c ty s sm p ts f]. unfold pkg_finish.
  cbn [k_cont k_type k_sum k_sum_mod k_pool k_tabs k_fin].
  destruct sm.
  - destruct (ps_write s) as [b|]; [|disc].
    cbn [k_cont k_type k_sum k_sum_mod k_pool k_tabs k_fin].
    destruct (p_mod p) eqn:P.
    + destruct (write_pool p) as [pb|]; [|disc].
      destruct (write_data p) as [db|]; [|disc].
      intros H. inversion H. cbn. auto.
    + intros H. inversion H. cbn. auto.
  - cbv beta iota. cbn [k_cont k_type k_sum k_sum_mod k_pool k_tabs k_fin].
    destruct (p_mod p) eqn:P.
    + destruct (write_pool p) as [pb|]; [|disc].
      destruct (write_data p) as [db|]; [|disc].
      intros H. inversion H. cbn. auto.
    + intros H. inversion H. cbn. auto.
Qed.

Lemma flush_fin k k' : pkg_flush k = Some k' -> k_fin k' = false.
Proof.
  unfold pkg_flush. destruct (k_fin k) eqn:F.
  - destruct (pkg_finish _) as [k1|] eqn:E; [|disc].
    intros H. inversion H. subst k1. apply finish_shape in E. cbn [k_fin] in E. tauto.
  - intros H. inversion H. subst. assumption.
Qed.

Lemma flush_armed_clean k k' : k_fin k = true -> pkg_flush k = Some k' ->
  k_fin k' = false /\ k_sum_mod k' = false /\ p_mod (k_pool k') = false.
Proof.
  intros F. unfold pkg_flush. rewrite F.
  destruct (pkg_finish _) as [k1|] eqn:E; [|disc].
  intros H. inversion H. subst k1. apply finish_shape in E. cbn [k_fin] in E. tauto.
Qed.

(* C01: a flushed package has nothing pending.
   MODIFIED: the hypothesis [flags_ok k] was added.  Without it the statement is false: for
   k = mkpkg c ty s true p ts false (summary modified, finisher not armed) pkg_flush k = Some k
   and k_sum_mod k = true. *)
Theorem flush_clean : forall k k', flags_ok k -> pkg_flush k = Some k' ->
  k_fin k' = false /\ k_sum_mod k' = false /\ p_mod (k_pool k') = false /\ flags_ok k'.
Proof.
  intros k k' Hok H.
  assert (G : k_fin k' = false /\ k_sum_mod k' = false /\ p_mod (k_pool k') = false).
  { destruct (k_fin k) eqn:F.
    - eapply flush_armed_clean; eassumption.
    - unfold pkg_flush in H. rewrite F in H. inversion H. subst k'.
      destruct (Hok F). auto. }
  destruct G as [G1 [G2 G3]]. repeat split; auto.
Qed.

(* the counterexample to the unmodified statement, for the record *)
Lemma flush_clean_needs_flags_ok c ty s p ts :
  let k := mkpkg c ty s true p ts false in pkg_flush k = Some k /\ k_sum_mod k = true.
Proof. cbn. auto. Qed.

Theorem flush_idempotent : forall k k', pkg_flush k = Some k' -> pkg_flush k' = Some k'.
Proof.
  intros k k' H. apply flush_fin in H. unfold pkg_flush. rewrite H. reflexivity.
Qed.

(* ---- the DML wrappers ------------------------------------------------------------------------- *)
Lemma insert_fin prof k t rows k' r : pkg_insert prof k t rows = (k', r) -> k_fin k' = true.
Proof.
  unfold pkg_insert, op_res.
  destruct (exec_insert _ _ _ _ _ _) as [[c p]| |]; intros H; inversion H; reflexivity.
Qed.
Lemma delete_fin prof k t cond k' r : pkg_delete prof k t cond = (k', r) -> k_fin k' = true.
Proof.
  unfold pkg_delete, op_res.
  destruct (exec_delete _ _ _ _ _ _) as [[c p]| |]; intros H; inversion H; reflexivity.
Qed.
Lemma update_fin prof k t ups cond k' r : pkg_update prof k t ups cond = (k', r) -> k_fin k' = true.
Proof.
  unfold pkg_update, op_res.
  destruct (exec_update _ _ _ _ _ _ _) as [[c p]| |]; intros H; inversion H; reflexivity.
Qed.

Theorem set_finisher_same : forall k, same_state k (set_finisher k).
Proof. intros k. unfold same_state, set_finisher. cbn. repeat split. Qed.

Lemma set_finisher_saved k : flags_ok k -> saved (set_finisher k) = saved k.
Proof.
  destruct k as [c ty s sm p ts f]. unfold flags_ok, saved, pkg_flush, set_finisher.
  cbn [k_cont k_type k_sum k_sum_mod k_pool k_tabs k_fin].
  destruct f; [reflexivity|].
  intros H. destruct (H eq_refl) as [H1 H2]. subst sm.
  unfold pkg_finish. cbn [k_cont k_type k_sum k_sum_mod k_pool k_tabs k_fin].
  rewrite H2. reflexivity.
Qed.

Lemma insert_err prof k t rows k' : pkg_insert prof k t rows = (k', Err) -> k' = set_finisher k.
Proof.
  unfold pkg_insert, op_res.
  destruct (exec_insert _ _ _ _ _ _) as [[c p]| |]; intros H; inversion H; reflexivity.
Qed.
Lemma delete_err prof k t cond k' : pkg_delete prof k t cond = (k', Err) -> k' = set_finisher k.
Proof.
  unfold pkg_delete, op_res.
  destruct (exec_delete _ _ _ _ _ _) as [[c p]| |]; intros H; inversion H; reflexivity.
Qed.
Lemma update_err prof k t ups cond k' : pkg_update prof k t ups cond = (k', Err) -> k' = set_finisher k.
Proof.
  unfold pkg_update, op_res.
  destruct (exec_update _ _ _ _ _ _ _) as [[c p]| |]; intros H; inversion H; reflexivity.
Qed.

(* C04 for the data-manipulation calls *)
Theorem dml_err_noop : forall prof k, flags_ok k ->
  (forall t rows k', pkg_insert prof k t rows = (k', Err) -> same_state k k' /\ saved k' = saved k) /\
  (forall t cond k', pkg_delete prof k t cond = (k', Err) -> same_state k k' /\ saved k' = saved k) /\
  (forall t ups cond k', pkg_update prof k t ups cond = (k', Err) -> same_state k k' /\ saved k' = saved k).
Proof.
  intros prof k Hok. split; [|split].
  - intros t rows k' H. apply insert_err in H. subst k'.
    split; [apply set_finisher_same | apply set_finisher_saved; assumption].
  - intros t cond k' H. apply delete_err in H. subst k'.
    split; [apply set_finisher_same | apply set_finisher_saved; assumption].
  - intros t ups cond k' H. apply update_err in H. subst k'.
    split; [apply set_finisher_same | apply set_finisher_saved; assumption].
Qed.

(* ---- create_table / drop_table ------------------------------------------------------------------- *)
Ltac early := let H := fresh in intros H; inversion H; left; split; [reflexivity | discriminate].
Ltac late := let H := fresh in intros H; inversion H; subst; right;
  cbn [with_tabs with_cont with_cp set_finisher k_fin]; solve [assumption | reflexivity].

(* either an early exit (the package itself, not Ok) or the finisher is armed *)
Lemma create_table_shape prof k tn cols k' r :
  pkg_create_table prof k tn cols = (k', r) ->
  (k' = k /\ r <> Ok tt) \/ k_fin k' = true.
Proof.
  unfold pkg_create_table, pkg_create_table_with.
  destruct (negb (is_valid_tname tn)); [early|].
  destruct (existsb (str_eqb tn) CREATE_TABLE_EXTRA_RESERVED); [early|].
  destruct cols as [|c0 cols0]; [early|].
  remember (c0 :: cols0) as cols eqn:Ecols. clear Ecols.
  destruct (MAX_NUM_TABLE_COLUMNS <? nlen cols); [early|].
  destruct (negb (existsb c_pk cols)); [early|].
  destruct (negb (first_dup_or_bad cols [])); [early|].
  destruct (find_table (k_tabs k) tn); [early|].
  cbv zeta.
  destruct (rows_fit (find_table (k_tabs k) COLUMNS_TABLE_NAME) _) as [[|]| |];
  try (destruct (rows_fit (find_table (k_tabs k) TABLES_TABLE_NAME) _) as [[|]| |]);
  try (destruct (vrows_fit tn (find_table (k_tabs k) VALIDATION_TABLE_NAME) _) as [[|]| |]);
  try early.
  destruct (if CREATE_TABLE_DRY_RUNS then _ else _) as [ud| |]; [|early|early].
  destruct (pkg_insert prof k COLUMNS_TABLE_NAME _) as [k1 r1] eqn:E1.
  apply insert_fin in E1.
  destruct r1 as [u1| |]; [|late|late].
  destruct (pkg_insert prof k1 TABLES_TABLE_NAME _) as [k2 r2] eqn:E2.
  apply insert_fin in E2.
  destruct r2 as [u2| |]; [|late|late].
  destruct (find_table _ VALIDATION_TABLE_NAME).
  - intros H. right. eapply insert_fin. exact H.
  - late.
Qed.

Lemma drop_table_shape prof k tn k' r :
  pkg_drop_table prof k tn = (k', r) ->
  (k' = k /\ r <> Ok tt) \/ k_fin k' = true.
Proof.
  unfold pkg_drop_table.
  destruct (is_reserved tn); [early|].
  destruct (negb (is_valid_tname tn)); [early|].
  destruct (find_table (k_tabs k) tn) as [t|]; [|early].
  destruct (pkg_delete prof k tn None) as [k0 r0] eqn:E0.
  apply delete_fin in E0.
  destruct r0 as [u0| |]; [|late|late].
  destruct (if ct_exists (k_cont k0) (stream_name_of t) then _ else _) as [c1| |]; [|late|late].
  cbv zeta.
  assert (F1 : k_fin (with_cont k0 c1) = true) by (cbn; assumption).
  remember (with_cont k0 c1) as k1 eqn:Ek1. clear Ek1.
  set (m := match find_table (k_tabs k1) VALIDATION_TABLE_NAME with
            | Some _ => pkg_delete prof k1 VALIDATION_TABLE_NAME (table_eq_cond s_Table tn)
            | None => (set_finisher k1, Ok tt)
            end).
  assert (G : forall k2 r2, m = (k2, r2) -> k_fin k2 = true).
  { intros k2 r2. subst m. destruct (find_table (k_tabs k1) VALIDATION_TABLE_NAME).
    - apply delete_fin.
    - intros H. inversion H. reflexivity. }
  clearbody m. destruct m as [k2 r2]. specialize (G _ _ eq_refl). rename G into E2.
  destruct r2 as [u2| |]; [|late|late].
  destruct (pkg_delete prof k2 COLUMNS_TABLE_NAME _) as [k3 r3] eqn:E3.
  apply delete_fin in E3.
  destruct r3 as [u3| |]; [|late|late].
  destruct (pkg_delete prof k3 TABLES_TABLE_NAME _) as [k4 r4] eqn:E4.
  apply delete_fin in E4.
  destruct r4 as [u4| |]; late.
Qed.

Theorem ops_flags : forall prof k, flags_ok k ->
  (forall t rows, flags_ok (fst (pkg_insert prof k t rows))) /\
  (forall t cond, flags_ok (fst (pkg_delete prof k t cond))) /\
  (forall t ups cond, flags_ok (fst (pkg_update prof k t ups cond))) /\
  (forall t cols, flags_ok (fst (pkg_create_table prof k t cols))) /\
  (forall t, flags_ok (fst (pkg_drop_table prof k t))) /\
  (forall f, flags_ok (fst (pkg_summary_mut k f))) /\
  (forall cp, flags_ok (pkg_set_db_codepage k cp)).
Proof.
  intros prof k Hok. split; [|split; [|split; [|split; [|split; [|split]]]]].
  - intros t rows. destruct (pkg_insert prof k t rows) as [k' r] eqn:E.
    apply fin_flags_ok. eapply insert_fin; exact E.
  - intros t cond. destruct (pkg_delete prof k t cond) as [k' r] eqn:E.
    apply fin_flags_ok. eapply delete_fin; exact E.
  - intros t ups cond. destruct (pkg_update prof k t ups cond) as [k' r] eqn:E.
    apply fin_flags_ok. eapply update_fin; exact E.
  - intros t cols. destruct (pkg_create_table prof k t cols) as [k' r] eqn:E.
    apply create_table_shape in E. destruct E as [[-> _]|F]; cbn [fst]; [assumption|].
    apply fin_flags_ok; assumption.
  - intros t. destruct (pkg_drop_table prof k t) as [k' r] eqn:E.
    apply drop_table_shape in E. destruct E as [[-> _]|F]; cbn [fst]; [assumption|].
    apply fin_flags_ok; assumption.
  - intros f. apply fin_flags_ok. unfold pkg_summary_mut.
    destruct (f (k_sum k)); reflexivity.
  - intros cp. apply fin_flags_ok. reflexivity.
Qed.

Theorem create_flags : forall prof t k, pkg_create prof t = Ok k -> flags_ok k /\ k_fin k = false.
Proof.
  intros prof t k. unfold pkg_create. intros H.
  apply rbind_ok in H. destruct H as [s0 [_ H]].
  cbv zeta in H.
  destruct (pkg_create_table prof _ VALIDATION_TABLE_NAME validation_columns) as [k1 r] eqn:E.
  apply rbind_ok in H. destruct H as [u [Hr H]]. subst r.
  destruct (pkg_flush k1) as [k2|] eqn:F; [|cbv beta iota in H; discriminate H].
  inversion H. subst k2.
  apply create_table_shape in E. destruct E as [[_ E]|E].
  - exfalso. apply E. destruct u. reflexivity.
  - destruct (flush_armed_clean _ _ E F) as [G1 [G2 G3]].
    split; [|assumption]. intros _. auto.
Qed.

(* C04 / C20 for create_table and drop_table: every argument check precedes the first change *)
Theorem create_table_arg_errors : forall prof k tn cols,
  (is_valid_tname tn = false \/ existsb (str_eqb tn) CREATE_TABLE_EXTRA_RESERVED = true \/ cols = [] \/
   MAX_NUM_TABLE_COLUMNS < nlen cols \/ existsb c_pk cols = false \/ first_dup_or_bad cols [] = false \/
   find_table (k_tabs k) tn <> None) ->
  pkg_create_table prof k tn cols = (k, Err).
Proof.
  intros prof k tn cols H. unfold pkg_create_table, pkg_create_table_with.
  destruct (is_valid_tname tn) eqn:E1; cbn [negb]; [|reflexivity].
  destruct (existsb (str_eqb tn) CREATE_TABLE_EXTRA_RESERVED) eqn:E2; [reflexivity|].
  destruct cols as [|c0 cols0]; [reflexivity|].
  remember (c0 :: cols0) as cols eqn:Ecols.
  destruct (MAX_NUM_TABLE_COLUMNS <? nlen cols) eqn:E3; [reflexivity|].
  destruct (existsb c_pk cols) eqn:E4; cbn [negb]; [|reflexivity].
  destruct (first_dup_or_bad cols []) eqn:E5; cbn [negb]; [|reflexivity].
  destruct (find_table (k_tabs k) tn) eqn:E6; [reflexivity|].
  exfalso. apply N.ltb_ge in E3.
  destruct H as [H|[H|[H|[H|[H|[H|H]]]]]]; try discriminate.
  - subst cols. discriminate.
  - apply N.lt_nge in H. apply H. exact E3.
  - apply H. reflexivity.
Qed.

Theorem drop_table_arg_errors : forall prof k tn,
  (is_reserved tn = true \/ is_valid_tname tn = false \/ find_table (k_tabs k) tn = None) ->
  pkg_drop_table prof k tn = (k, Err).
Proof.
  intros prof k tn H. unfold pkg_drop_table.
  destruct (is_reserved tn) eqn:E1; [reflexivity|].
  destruct (is_valid_tname tn) eqn:E2; cbn [negb]; [|reflexivity].
  destruct (find_table (k_tabs k) tn) eqn:E3; [|reflexivity].
  exfalso. destruct H as [H|[H|H]]; discriminate.
Qed.

Print Assumptions open_clean.
Print Assumptions readonly_close.
Print Assumptions flush_clean.
Print Assumptions flush_idempotent.
Print Assumptions create_flags.
Print Assumptions open_flags.
Print Assumptions ops_flags.
Print Assumptions dml_err_noop.
Print Assumptions create_table_arg_errors.
Print Assumptions drop_table_arg_errors.
Print Assumptions set_finisher_same.
