(* WithChain.v -- Select / Update / Delete::with: a query accumulates its restrictions by conjunction
   (`Some(expr.and(condition))`, else `Some(condition)`); a row is kept iff it satisfies EVERY restriction given, each
   judged by the documented truthiness on its own -- a restriction that is true without being 1 stays true.
   That the three with() methods of the source have that body is regenerated from it (MsiGen.GenIo.QUERY_WITH_CONJOINS). *)
From MsiModel Require Import Base Value Expr.
From MsiGen Require Import GenIo.
Open Scope Z_scope.

Definition q_with (c : option ast) (e : ast) : option ast :=
  match c with Some x => Some (And x e) | None => Some e end.
Definition q_withs (c : option ast) (es : list ast) : option ast := fold_left q_with es c.

(* does the row pass an optional restriction? (Panic / Err as eval gives them) *)
Definition sat (r : row) (c : option ast) : res bool :=
  match c with None => Ok true | Some e => v <- eval r e ;; Ok (to_bool v) end.

Lemma to_from_bool' b : to_bool (from_bool b) = b.
Proof. destruct b; reflexivity. Qed.

Lemma sat_with r c e bc be :
  sat r c = Ok bc -> sat r (Some e) = Ok be -> sat r (q_with c e) = Ok (bc && be).
Proof.
  destruct c as [x|]; cbn [sat q_with].
  - intros Hx He. cbn [eval].
    destruct (eval r x) as [vx| |] eqn:Ex; cbn in Hx; try discriminate. injection Hx as <-.
    cbn. destruct (to_bool vx) eqn:Tx.
    + destruct (eval r e) as [ve| |] eqn:Ee; cbn in He; try discriminate. injection He as <-.
      cbn. rewrite to_from_bool'. reflexivity.
    + cbn. reflexivity.
  - intros H He. injection H as <-. exact He.
Qed.

Theorem with_chain : forall r es c bc bs,
  sat r c = Ok bc -> Forall2 (fun e b => sat r (Some e) = Ok b) es bs ->
  sat r (q_withs c es) = Ok (bc && forallb (fun b => b) bs).
Proof.
  intros r es. induction es as [|e es IH]; intros c bc bs Hc HF; inversion HF; subst; cbn [q_withs fold_left forallb].
  - rewrite andb_true_r. exact Hc.
  - match goal with H : sat r (Some e) = Ok ?y |- _ => rename H into He; rename y into be end.
    match goal with H : Forall2 _ es ?l |- _ => rename H into Hrest end.
    fold (q_withs (q_with c e) es).
    rewrite (IH (q_with c e) (bc && be)%bool _ (sat_with _ _ _ _ _ Hc He) Hrest).
    rewrite andb_assoc. reflexivity.
Qed.

(* the order of the restrictions does not matter for the verdict, when all of them can be evaluated *)
Corollary with_two r a b ba bb :
  sat r (Some a) = Ok ba -> sat r (Some b) = Ok bb -> sat r (q_withs None [a; b]) = Ok (ba && bb).
Proof.
  intros Ha Hb.
  assert (H : sat r (q_withs None [a; b]) = Ok (true && forallb (fun x => x) [ba; bb])).
  { apply (with_chain r [a; b] None true [ba; bb]); [reflexivity|]. repeat constructor; assumption. }
  rewrite H. cbn [forallb andb]. rewrite andb_true_r. reflexivity.
Qed.

(* a first restriction that is true without being 1: F = 2, then K < 4 *)
Example with_truthy_not_one :
  sat [([70%N], VInt 2); ([75%N], VInt 1)] (q_withs None [Col [70%N]; BinOp OLt (Col [75%N]) (Lit (VInt 4))]) = Ok true.
Proof. vm_compute. reflexivity. Qed.
(* joining the two with the bitwise operator instead is a different query *)
Theorem with_bitand_differs : exists r a b,
  sat r (Some (BinOp OBitAnd a b)) <> sat r (q_with (Some a) b).
Proof.
  exists [([70%N], VInt 2); ([75%N], VInt 1)], (Col [70%N]), (BinOp OLt (Col [75%N]) (Lit (VInt 4))).
  vm_compute. discriminate.
Qed.
(* keeping only the first restriction is a different query too *)
Theorem with_first_only_differs : exists r a b,
  sat r (Some a) <> sat r (q_with (Some a) b).
Proof.
  exists [([75%N], VInt 7)], (Lit (VInt 1)), (BinOp OLt (Col [75%N]) (Lit (VInt 4))).
  vm_compute. discriminate.
Qed.

Theorem with_conjoins_now : QUERY_WITH_CONJOINS = true.
Proof. reflexivity. Qed.
