(* SelectTotal.v -- P3c: SELECT / JOIN execution never panics, whatever the container holds
   (stream bytes < 256), whatever the string pool, the table map and the query tree are,
   in both build profiles; unknown names are reported as errors. *)
From Coq Require Import ZifyBool ZifyNat ZifyN Lia.
From MsiModel Require Import Base Sexp Value Expr Category Column CodePage Pool Table Container StreamName Propset Summary Query Package.
From MsiGen Require Import GenConsts.
Open Scope N_scope.
Ltac Zify.zify_post_hook ::= Z.div_mod_to_equations.
Arguments N.add : simpl never.
Arguments N.mul : simpl never.
Arguments N.sub : simpl never.
Arguments N.div : simpl never.
Arguments N.modulo : simpl never.

(* P3c: SELECT / JOIN never panic, whatever the container holds and whatever the query names *)
Definition bytes_ok (c : container) : Prop := Forall (fun e => Forall (fun x => x < 256) (snd e)) (ct_entries c).
Definition ref_ok (v : vref) : Prop := match v with RStr n => 0 < n /\ n <= MAX_STRING_REF | _ => True end.
Definition rows_shaped (t : table) (rows : list (list vref)) : Prop :=
  Forall (fun r => length r = length (t_cols t) /\ Forall ref_ok r) rows.

(* ---- reading cells, columns and rows --------------------------------------------------- *)
Definition small (b : bytes) : Prop := Forall (fun x => x < 256) b.

Lemma small_tl x b : small (x :: b) -> small b.
Proof. intro H; inversion H; assumption. Qed.
Lemma small_hd x b : small (x :: b) -> x < 256.
Proof. intro H; inversion H; assumption. Qed.

Lemma read_ref_ok long b o r :
  small b -> read_ref long b = Ok (o, r) ->
  small r /\ match o with Some n => 0 < n /\ n <= MAX_STRING_REF | None => True end.
Proof.
  unfold read_ref, get16, get8, MAX_STRING_REF. intros Hb H.
  destruct b as [|b0 [|b1 r0]]; try discriminate.
  pose proof (small_hd _ _ Hb) as H0. apply small_tl in Hb.
  pose proof (small_hd _ _ Hb) as H1. apply small_tl in Hb.
  destruct long.
  - destruct r0 as [|b2 r1]; try discriminate.
    pose proof (small_hd _ _ Hb) as H2. apply small_tl in Hb.
    cbv zeta in H. injection H as <- <-. split; [assumption|].
    destruct (N.eqb_spec (b0 + 256 * b1 + 65536 * b2) 0); [exact I | lia].
  - injection H as <- <-. split; [assumption|].
    destruct (N.eqb_spec (b0 + 256 * b1) 0); [exact I | lia].
Qed.

Lemma read_cell_ok ty long b v r :
  small b -> read_cell ty long b = Ok (v, r) -> small r /\ ref_ok v.
Proof.
  intros Hb H. destruct ty; cbn [read_cell] in H.
  - unfold get16 in H. destruct b as [|b0 [|b1 r0]]; try discriminate.
    injection H as <- <-. split.
    + apply small_tl in Hb. apply small_tl in Hb. assumption.
    + destruct (_ =? _); exact I.
  - unfold get32 in H. destruct b as [|b0 [|b1 [|b2 [|b3 r0]]]]; try discriminate.
    injection H as <- <-. split.
    + do 4 apply small_tl in Hb. assumption.
    + destruct (_ =? _); exact I.
  - destruct (read_ref long b) as [[o r']| |] eqn:E; cbn [rbind] in H; try discriminate.
    injection H as <- <-. destruct (read_ref_ok _ _ _ _ Hb E) as [Hs Ho].
    split; [assumption|]. destruct o; [exact Ho | exact I].
Qed.

Lemma read_cell_no_panic ty long b : read_cell ty long b <> Panic.
Proof.
  destruct ty; cbn [read_cell].
  - destruct (get16 b) as [[w r]|]; discriminate.
  - destruct (get32 b) as [[w r]|]; discriminate.
  - unfold read_ref. destruct (get16 b) as [[lo r]|]; cbn [rbind]; try discriminate.
    destruct long; cbn [rbind]; try discriminate.
    destruct (get8 r) as [[hi r']|]; cbn [rbind]; discriminate.
Qed.

Lemma read_column_ok ty long n : forall b vs r,
  small b -> read_column ty long n b = Ok (vs, r) -> small r /\ Forall ref_ok vs.
Proof.
  induction n as [|n IH]; intros b vs r Hb H; cbn [read_column] in H.
  - injection H as <- <-. split; [assumption | constructor].
  - destruct (read_cell ty long b) as [[v r1]| |] eqn:E; cbn [rbind] in H; try discriminate.
    destruct (read_cell_ok _ _ _ _ _ Hb E) as [Hr1 Hv].
    destruct (read_column ty long n r1) as [[vs' r2]| |] eqn:E2; cbn [rbind] in H; try discriminate.
    injection H as <- <-. destruct (IH _ _ _ Hr1 E2) as [Hr2 Hvs].
    split; [assumption | constructor; assumption].
Qed.

Lemma read_column_no_panic ty long n : forall b, read_column ty long n b <> Panic.
Proof.
  induction n as [|n IH]; intros b; cbn [read_column]; try discriminate.
  pose proof (read_cell_no_panic ty long b) as Hc.
  destruct (read_cell ty long b) as [[v r1]| |]; cbn [rbind]; try discriminate; try congruence.
  specialize (IH r1).
  destruct (read_column ty long n r1) as [[vs' r2]| |]; cbn [rbind]; try discriminate; congruence.
Qed.

Lemma read_columns_ok long n : forall cs b cols,
  small b -> read_columns cs long n b = Ok cols ->
  length cols = length cs /\ Forall (Forall ref_ok) cols.
Proof.
  induction cs as [|c cs IH]; intros b cols Hb H; cbn [read_columns] in H.
  - injection H as <-. split; [reflexivity | constructor].
  - destruct (read_column (c_type c) long n b) as [[col r]| |] eqn:E; cbn [rbind] in H; try discriminate.
    destruct (read_column_ok _ _ _ _ _ _ Hb E) as [Hr Hcol].
    destruct (read_columns cs long n r) as [rest| |] eqn:E2; cbn [rbind] in H; try discriminate.
    injection H as <-. destruct (IH _ _ Hr E2) as [Hl Hrest].
    split; [cbn [length]; congruence | constructor; assumption].
Qed.

Lemma read_columns_no_panic long n : forall cs b, read_columns cs long n b <> Panic.
Proof.
  induction cs as [|c cs IH]; intros b; cbn [read_columns]; try discriminate.
  pose proof (read_column_no_panic (c_type c) long n b) as Hc.
  destruct (read_column (c_type c) long n b) as [[col r]| |]; cbn [rbind]; try discriminate; try congruence.
  specialize (IH r).
  destruct (read_columns cs long n r) as [rest| |]; cbn [rbind]; try discriminate; congruence.
Qed.

Lemma transpose_shape n : forall cols,
  Forall (Forall ref_ok) cols ->
  Forall (fun r => length r = length cols /\ Forall ref_ok r) (transpose n cols).
Proof.
  induction n as [|n IH]; intros cols H; cbn [transpose]; constructor.
  - split; [apply map_length|].
    apply Forall_forall. intros v Hv. apply in_map_iff in Hv as [col [<- Hin]].
    rewrite Forall_forall in H. specialize (H _ Hin).
    destruct col as [|x col]; [exact I | inversion H; assumption].
  - set (cols' := map (fun c => match c with _ :: r => r | [] => [] end) cols).
    assert (Hl : length cols' = length cols) by apply map_length.
    rewrite <- Hl. apply IH. unfold cols'.
    apply Forall_forall. intros v Hv. apply in_map_iff in Hv as [col [<- Hin]].
    rewrite Forall_forall in H. specialize (H _ Hin).
    destruct col as [|x col]; [constructor | inversion H; assumption].
Qed.

Lemma read_rows_shape t b rows : small b -> read_rows t b = Ok rows -> rows_shaped t rows.
Proof.
  unfold read_rows. intros Hb H. cbv zeta in H.
  destruct (MAX_ROWS_READ <? _); try discriminate.
  destruct (read_columns _ _ _ _) as [cols| |] eqn:E; cbn [rbind] in H; try discriminate.
  injection H as <-. destruct (read_columns_ok _ _ _ _ _ Hb E) as [Hl Hc].
  unfold rows_shaped. rewrite <- Hl. apply transpose_shape; assumption.
Qed.

Lemma read_rows_no_panic t b : read_rows t b <> Panic.
Proof.
  unfold read_rows. cbv zeta. destruct (MAX_ROWS_READ <? _); try discriminate.
  match goal with |- context [read_columns ?a ?b ?c ?d] =>
    pose proof (read_columns_no_panic b c a d) as Hc; destruct (read_columns a b c d) end;
  cbn [rbind]; try discriminate; congruence.
Qed.

Lemma ct_find_small : forall l n b,
  Forall (fun e : str * bytes => small (snd e)) l -> ct_find l n = Some b -> small b.
Proof.
  induction l as [|[m x] l IH]; intros n b Hl H; cbn [ct_find] in H; try discriminate.
  inversion Hl as [|? ? Hx Hl']; subst. destruct (name_eqb m n).
  - injection H as <-. exact Hx.
  - eapply IH; eassumption.
Qed.

Theorem load_rows_shape : forall c t rows, bytes_ok c -> load_rows c t = Ok rows -> rows_shaped t rows.
Proof.
  intros c t rows Hc H. unfold load_rows in H.
  destruct (ct_find (ct_entries c) (stream_name_of t)) as [b|] eqn:E.
  - eapply read_rows_shape; [|exact H]. eapply ct_find_small; [exact Hc | exact E].
  - injection H as <-. constructor.
Qed.

Theorem load_rows_total : forall c t, load_rows c t <> Panic.
Proof.
  intros c t. unfold load_rows. destruct (ct_find _ _); [apply read_rows_no_panic | discriminate].
Qed.

(* ---- values of a row --------------------------------------------------------------------- *)
Lemma to_value_total prof p v : ref_ok v -> exists x, to_value prof p v = Ok x.
Proof.
  destruct v as [|z|n]; cbn [to_value ref_ok]; intros H; eauto.
  unfold pool_get. rewrite nth_opt_N_eq. destruct H as [H1 H2].
  assert (E : (0 <? n) && (n <=? MAX_STRING_REF) = true) by (unfold MAX_STRING_REF in *; lia).
  rewrite E. destruct prof; cbn [rbind];
    destruct (nth_opt (p_strings p) (N.to_nat (n - 1))) as [[s rc]|]; cbn [rbind]; eauto.
Qed.

Theorem row_to_values_total : forall prof p r, Forall ref_ok r ->
  exists vals, row_to_values prof p r = Ok vals /\ length vals = length r.
Proof.
  intros prof p r H. induction H as [|v r Hv Hr IH]; cbn [row_to_values].
  - exists []. split; reflexivity.
  - destruct (to_value_total prof p v Hv) as [x ->]. destruct IH as [xs [-> Hl]]. cbn [rbind].
    exists (x :: xs). split; [reflexivity | cbn [length]; congruence].
Qed.

(* ---- evaluating a condition -------------------------------------------------------------- *)
Lemma lookup_combine : forall cols vals n i j,
  length vals = length cols -> index_of_col cols n i = Some j ->
  exists v, lookup (combine (map c_name cols) vals) n = Some v.
Proof.
  induction cols as [|c cols IH]; intros vals n i j Hl H; cbn [index_of_col] in H; try discriminate.
  destruct vals as [|v vals]; cbn [length] in Hl; try discriminate.
  cbn [map combine lookup]. destruct (str_eqb (c_name c) n).
  - eauto.
  - eapply IH; [|exact H]. congruence.
Qed.

Lemma eval_total env : forall e,
  (forall n, In n (cols_of e) -> exists v, lookup env n = Some v) -> exists v, eval env e = Ok v.
Proof.
  induction e as [v|n|op a IHa|op a IHa b IHb|a IHa b IHb|a IHa b IHb]; intros H; cbn [eval cols_of] in *.
  - eauto.
  - destruct (H n) as [v ->]; [left; reflexivity|]. cbn [unwrap]. eauto.
  - destruct (IHa H) as [v ->]. cbn [rbind]. eauto.
  - destruct IHa as [v1 ->]; [intros; apply H; apply in_or_app; auto|].
    destruct IHb as [v2 ->]; [intros; apply H; apply in_or_app; auto|]. cbn [rbind]. eauto.
  - destruct IHa as [v1 ->]; [intros; apply H; apply in_or_app; auto|].
    destruct IHb as [v2 E2]; [intros; apply H; apply in_or_app; auto|]. cbn [rbind].
    destruct (to_bool v1); [rewrite E2; cbn [rbind]|]; eauto.
  - destruct IHa as [v1 ->]; [intros; apply H; apply in_or_app; auto|].
    destruct IHb as [v2 E2]; [intros; apply H; apply in_or_app; auto|]. cbn [rbind].
    destruct (to_bool v1); [|rewrite E2; cbn [rbind]]; eauto.
Qed.

Lemma cols_ok_in t : forall names n, cols_ok t names = true -> In n names -> has_col t n = true.
Proof.
  induction names as [|m names IH]; intros n H Hin; [destruct Hin|].
  cbn [cols_ok] in H. apply andb_true_iff in H as [H1 H2].
  destruct Hin as [<-|Hin]; [assumption | apply IH; assumption].
Qed.

Theorem cond_holds_total : forall prof p t cond r,
  length r = length (t_cols t) -> Forall ref_ok r -> cond_ok t cond = true ->
  exists b, cond_holds prof p t cond r = Ok b.
Proof.
  intros prof p t cond r Hl Hr Hc. destruct cond as [e|]; cbn [cond_holds cond_ok] in *; [|eauto].
  destruct (row_to_values_total prof p r Hr) as [vals [-> Hv]]. cbn [rbind].
  destruct (eval_total (row_env t vals) e) as [v ->]; [|cbn [rbind]; eauto].
  intros n Hin. pose proof (cols_ok_in _ _ _ Hc Hin) as Hh.
  unfold has_col, col_index in Hh. destruct (index_of_col (t_cols t) n 0) as [j|] eqn:E; try discriminate.
  unfold row_env. eapply lookup_combine; [|exact E]. congruence.
Qed.

(* ---- filter, projection, join -------------------------------------------------------------- *)
Lemma filter_rows_total prof p t cond : forall rows,
  rows_shaped t rows -> cond_ok t cond = true ->
  exists rows', filter_rows prof p t cond rows = Ok rows' /\ rows_shaped t rows'.
Proof.
  intros rows H Hc. induction H as [|r rows [Hl Hr] Hrows IH]; cbn [filter_rows].
  - exists []. split; [reflexivity | constructor].
  - destruct (cond_holds_total prof p t cond r Hl Hr Hc) as [b ->]. destruct IH as [rest [-> Hrest]].
    cbn [rbind]. eexists; split; [reflexivity|].
    destruct b; [constructor; [split|]|]; assumption.
Qed.

Lemma select_nth_total {A} (l : list A) : forall idx,
  Forall (fun i => (i < length l)%nat) idx ->
  exists xs, select_nth l idx = Ok xs /\ length xs = length idx /\ forall P, Forall P l -> Forall P xs.
Proof.
  assert (Hn : forall (l : list A) i, (i < length l)%nat -> exists x, nth_opt l i = Some x /\ In x l).
  { clear l. induction l as [|a l IH]; intros i Hi; cbn [length] in Hi; [lia|].
    destruct i as [|i]; cbn [nth_opt].
    - exists a. split; [reflexivity | left; reflexivity].
    - destruct (IH i) as [x [E Hin]]; [lia|]. exists x. split; [assumption | right; assumption]. }
  intros idx H. induction H as [|i idx Hi Hidx IH]; cbn [select_nth].
  - exists []. repeat split. intros; constructor.
  - destruct (Hn l i Hi) as [x [-> Hin]]. destruct IH as [xs [-> [Hl HP]]]. cbn [unwrap rbind].
    exists (x :: xs). repeat split; [cbn [length]; congruence|].
    intros P HPl. constructor; [|apply HP; assumption]. rewrite Forall_forall in HPl. apply HPl; assumption.
Qed.

Lemma index_of_col_range : forall cols n i j,
  index_of_col cols n i = Some j -> (i <= j /\ j < i + length cols)%nat.
Proof.
  induction cols as [|c cols IH]; intros n i j H; cbn [index_of_col] in H; try discriminate.
  cbn [length]. destruct (str_eqb (c_name c) n).
  - injection H as <-. lia.
  - apply IH in H. lia.
Qed.

Lemma indices_of_range t : forall names idx,
  indices_of t names = Some idx ->
  Forall (fun i => (i < length (t_cols t))%nat) idx /\ length idx = length names.
Proof.
  induction names as [|n names IH]; intros idx H; cbn [indices_of] in H.
  - injection H as <-. split; [constructor | reflexivity].
  - destruct (col_index t n) as [i|] eqn:E; try discriminate.
    destruct (indices_of t names) as [is'|]; try discriminate. injection H as <-.
    destruct (IH _ eq_refl) as [Hf Hl]. split; [|cbn [length]; congruence].
    constructor; [|assumption]. unfold col_index in E. apply index_of_col_range in E. lia.
Qed.

Lemma project_rows_total (t : table) idx : forall rows,
  Forall (fun i => (i < length (t_cols t))%nat) idx -> rows_shaped t rows ->
  exists rows2, rmapM (fun r => select_nth r idx) rows = Ok rows2 /\
                Forall (fun r => length r = length idx /\ Forall ref_ok r) rows2.
Proof.
  intros rows Hidx H. induction H as [|r rows [Hl Hr] Hrows IH]; cbn [rmapM].
  - exists []. split; [reflexivity | constructor].
  - destruct (select_nth_total r idx) as [xs [-> [Hxl HP]]]; [rewrite Hl; assumption|].
    destruct IH as [rest [-> Hrest]]. cbn [rbind]. eexists; split; [reflexivity|].
    constructor; [split; [assumption | apply HP; assumption] | assumption].
Qed.

Lemma repeat_null_ok n : Forall ref_ok (repeat RNull n).
Proof. induction n; cbn [repeat]; constructor; [exact I | assumption]. Qed.

Lemma join_rows_total prof p jt on left n2 (t1 t2 : table) rows2 :
  length (t_cols jt) = (length (t_cols t1) + length (t_cols t2))%nat ->
  n2 = length (t_cols t2) ->
  cols_ok jt (cols_of on) = true ->
  rows_shaped t2 rows2 ->
  forall rows1, rows_shaped t1 rows1 ->
  exists rows, join_rows prof p jt on left n2 rows1 rows2 = Ok rows /\ rows_shaped jt rows.
Proof.
  intros Hjt Hn2 Hon H2 rows1 H1. induction H1 as [|r1 rows1 [Hl1 Hr1] Hrows1 IH]; cbn [join_rows].
  - exists []. split; [reflexivity | constructor].
  - assert (Hm : rows_shaped jt (map (fun r2 => r1 ++ r2) rows2)).
    { unfold rows_shaped in *. apply Forall_forall. intros r Hin.
      apply in_map_iff in Hin as [r2 [<- Hin]]. rewrite Forall_forall in H2. destruct (H2 _ Hin) as [Hl2 Hr2].
      split; [rewrite app_length; lia | apply Forall_app; split; assumption]. }
    destruct (filter_rows_total prof p jt (Some on) _ Hm Hon) as [matched [-> Hmatched]].
    destruct IH as [rest [-> Hrest]]. cbn [rbind]. eexists; split; [reflexivity|].
    unfold rows_shaped in *. apply Forall_app; split; [|assumption].
    destruct matched as [|m ms]; [destruct left|]; try assumption.
    constructor; [|constructor]. split.
    + rewrite app_length, repeat_length. lia.
    + apply Forall_app; split; [assumption | apply repeat_null_ok].
Qed.

(* ---- the mutual induction --------------------------------------------------------------------- *)
Definition sel_good (prof : profile) (c : container) (p : pool) (ts : tables) (s : sel) : Prop :=
  exec_select prof c p ts s <> Panic /\
  forall t rows, exec_select prof c p ts s = Ok (t, rows) -> rows_shaped t rows.
Definition join_good (prof : profile) (c : container) (p : pool) (ts : tables) (j : join) : Prop :=
  exec_join prof c p ts j <> Panic /\
  forall t rows, exec_join prof c p ts j = Ok (t, rows) -> rows_shaped t rows.

Lemma good_table prof c p ts name : bytes_ok c -> join_good prof c p ts (JTable name).
Proof.
  intros Hc. unfold join_good. cbn [exec_join].
  destruct (find_table ts name) as [t|]; cbn [of_opt rbind]; [|split; [discriminate | intros; discriminate]].
  pose proof (load_rows_total c t) as Hp. pose proof (load_rows_shape c t) as Hs.
  destruct (load_rows c t) as [rows| |]; cbn [rbind]; try congruence.
  - split; [discriminate|]. intros t' rows' E. injection E as <- <-. apply Hs; auto.
  - split; [discriminate | intros; discriminate].
Qed.

Lemma good_join_gen prof c p ts a b on left (f : str -> column -> column) :
  (forall s col, c_name (f s col) = c_name (with_prefix s col)) ->
  sel_good prof c p ts a -> sel_good prof c p ts b ->
  forall r : res (table * list (list vref)),
  r = ('(t1, rows1) <- exec_select prof c p ts a ;;
       '(t2, rows2) <- exec_select prof c p ts b ;;
       let jt := mktable [] (map (with_prefix (t_name t1)) (t_cols t1) ++ map (f (t_name t2)) (t_cols t2)) (p_long p) in
       if negb (cols_ok jt (cols_of on)) then Err else
       rows <- join_rows prof p jt on left (length (t_cols t2)) rows1 rows2 ;;
       Ok (jt, rows)) ->
  r <> Panic /\ forall t rows, r = Ok (t, rows) -> rows_shaped t rows.
Proof.
  intros _ [Pa Sa] [Pb Sb] r ->.
  destruct (exec_select prof c p ts a) as [[t1 rows1]| |]; cbn [rbind]; try congruence;
    [|split; [discriminate | intros; discriminate]].
  destruct (exec_select prof c p ts b) as [[t2 rows2]| |]; cbn [rbind]; try congruence;
    [|split; [discriminate | intros; discriminate]].
  cbv zeta.
  set (jt := mktable [] _ (p_long p)).
  destruct (cols_ok jt (cols_of on)) eqn:Hon; cbn [negb]; [|split; [discriminate | intros; discriminate]].
  destruct (join_rows_total prof p jt on left (length (t_cols t2)) t1 t2 rows2) with (rows1 := rows1)
    as [rows [-> Hrows]]; auto.
  { unfold jt. cbn [t_cols]. rewrite app_length, !map_length. reflexivity. }
  cbn [rbind]. split; [discriminate|]. intros t rows' E. injection E as <- <-. assumption.
Qed.

Lemma good_inner prof c p ts a b on :
  sel_good prof c p ts a -> sel_good prof c p ts b -> join_good prof c p ts (JInner a b on).
Proof.
  intros Ha Hb. unfold join_good.
  apply (good_join_gen prof c p ts a b on false with_prefix); auto.
Qed.

Lemma good_left prof c p ts a b on :
  sel_good prof c p ts a -> sel_good prof c p ts b -> join_good prof c p ts (JLeft a b on).
Proof.
  intros Ha Hb. unfold join_good.
  apply (good_join_gen prof c p ts a b on true (fun s col => but_nullable (with_prefix s col))); auto.
Qed.

Lemma good_sel prof c p ts from names cond :
  join_good prof c p ts from -> sel_good prof c p ts (Sel from names cond).
Proof.
  intros [Pj Sj]. unfold sel_good. cbn [exec_select].
  destruct (exec_join prof c p ts from) as [[t rows]| |]; cbn [rbind]; try congruence;
    [|split; [discriminate | intros; discriminate]].
  specialize (Sj _ _ eq_refl).
  destruct (indices_of t names) as [idx|] eqn:Ei; [|split; [discriminate | intros; discriminate]].
  destruct (cond_ok t cond) eqn:Ec; cbn [negb]; [|split; [discriminate | intros; discriminate]].
  destruct (filter_rows_total prof p t cond rows Sj Ec) as [rows1 [-> H1]]. cbn [rbind].
  destruct (indices_of_range _ _ _ Ei) as [Hidx _].
  destruct (select_nth_total (t_cols t) idx Hidx) as [cols [Ecols [Hcl _]]].
  destruct (project_rows_total t idx rows1 Hidx H1) as [rows2 [Erows2 H2]].
  destruct idx as [|i idx'].
  - split; [discriminate|]. intros t' rows' E. injection E as <- <-. assumption.
  - rewrite Ecols, Erows2. cbn [rbind]. split; [discriminate|].
    intros t' rows' E. injection E as <- <-. unfold rows_shaped. cbn [t_cols]. rewrite Hcl. assumption.
Qed.

Scheme sel_mut := Induction for sel Sort Prop
  with join_mut := Induction for join Sort Prop.

Lemma sel_all_good prof c p ts : bytes_ok c -> forall s, sel_good prof c p ts s.
Proof.
  intros Hc.
  apply (sel_mut (fun s => sel_good prof c p ts s) (fun j => join_good prof c p ts j)).
  - intros; apply good_sel; assumption.
  - intros; apply good_table; assumption.
  - intros; apply good_inner; assumption.
  - intros; apply good_left; assumption.
Qed.

Lemma join_all_good prof c p ts : bytes_ok c -> forall j, join_good prof c p ts j.
Proof.
  intros Hc [name|a b on|a b on].
  - apply good_table; assumption.
  - apply good_inner; apply sel_all_good; assumption.
  - apply good_left; apply sel_all_good; assumption.
Qed.

Theorem select_shape : forall prof c p ts s t rows,
  bytes_ok c -> exec_select prof c p ts s = Ok (t, rows) -> rows_shaped t rows.
Proof. intros prof c p ts s t rows Hc. apply (sel_all_good prof c p ts Hc s). Qed.

Theorem select_total : forall prof c p ts s, bytes_ok c -> exec_select prof c p ts s <> Panic.
Proof. intros prof c p ts s Hc. apply (sel_all_good prof c p ts Hc s). Qed.

Theorem join_total : forall prof c p ts j, bytes_ok c -> exec_join prof c p ts j <> Panic.
Proof. intros prof c p ts j Hc. apply (join_all_good prof c p ts Hc j). Qed.

(* a join yields well-shaped rows too (not part of the goal list; used nowhere else) *)
Theorem join_shape : forall prof c p ts j t rows,
  bytes_ok c -> exec_join prof c p ts j = Ok (t, rows) -> rows_shaped t rows.
Proof. intros prof c p ts j t rows Hc. apply (join_all_good prof c p ts Hc j). Qed.

Theorem pkg_select_total : forall prof k s, bytes_ok (k_cont k) -> pkg_select prof k s <> Panic.
Proof.
  intros prof k s Hc. unfold pkg_select.
  pose proof (select_total prof (k_cont k) (k_pool k) (k_tabs k) s Hc) as Hp.
  pose proof (select_shape prof (k_cont k) (k_pool k) (k_tabs k) s) as Hs.
  destruct (exec_select prof (k_cont k) (k_pool k) (k_tabs k) s) as [[t rows]| |]; cbn [rbind];
    try congruence; try discriminate.
  specialize (Hs _ _ Hc eq_refl). clear Hp.
  assert (H : exists vals, rmapM (row_to_values prof (k_pool k)) rows = Ok vals).
  { induction Hs as [|r rows [_ Hr] _ IH]; cbn [rmapM]; [eauto|].
    destruct (row_to_values_total prof (k_pool k) r Hr) as [v [-> _]]. destruct IH as [vs ->].
    cbn [rbind]. eauto. }
  destruct H as [vals ->]. cbn [rbind]. discriminate.
Qed.

(* ---- unknown names are errors -------------------------------------------------------------------- *)
Theorem select_unknown_table : forall prof c p ts tn names cond,
  find_table ts tn = None -> exec_select prof c p ts (Sel (JTable tn) names cond) = Err.
Proof. intros prof c p ts tn names cond H. cbn [exec_select exec_join]. rewrite H. reflexivity. Qed.

Theorem join_unknown_on_column : forall prof c p ts a b on t1 r1 t2 r2,
  exec_select prof c p ts a = Ok (t1, r1) -> exec_select prof c p ts b = Ok (t2, r2) ->
  cols_ok (mktable [] (map (with_prefix (t_name t1)) (t_cols t1) ++ map (with_prefix (t_name t2)) (t_cols t2)) (p_long p)) (cols_of on) = false ->
  exec_join prof c p ts (JInner a b on) = Err.
Proof.
  intros prof c p ts a b on t1 r1 t2 r2 Ha Hb H. cbn [exec_join]. rewrite Ha, Hb. cbn [rbind].
  cbv zeta. rewrite H. reflexivity.
Qed.
