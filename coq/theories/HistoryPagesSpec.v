(* HistoryPagesSpec.v -- histories performed AFTER Package::set_database_codepage(c), c a single-byte page: statements
   (proofs in HistoryPages.v).  No operation of the package model other than flush / open reads the pool's code page, so
   a history of such operations commutes with switching the code page; with ReopenPages this gives the save / reopen
   round trip for histories that run entirely under the single-byte page. *)
From MsiModel Require Import Base Value CodePage CodePageProofs SingleByteSpec SingleByteProofs Pool PoolProofs Propset
  PropsetCodecProofs CodecPagesSpec CodecPages Table Container Package PkgInv PkgInv2 CreateTableProofs ReopenLemmas ReopenProofs Reach
  ReopenPagesSpec ReopenPages.
From MsiGen Require Import GenCodePage GenSingleByte GenConsts.
Open Scope N_scope.

(* operations that neither save nor change the code page *)
Definition cp_free (o : op) : Prop :=
  match o with OFlush | OReopen | OSetDbCodepageUtf8 => False | _ => True end.

(* a history commutes with the switch of the code page: same answers, same resulting state up to the code page *)
Definition G_run_commutes : Prop := forall prof c k ops, Forall cp_free ops ->
  run prof (pkg_set_db_codepage k c) ops = option_map (fun k' => pkg_set_db_codepage k' c) (run prof k ops).

(* create; set_database_codepage(c); any admissible history; save; reopen *)
Definition G_history_after_switch : Prop := forall prof ty k0 c t ops k',
  pkg_create prof ty = Ok k0 -> Forall op_ok ops -> Forall cp_free ops -> cp_single c t ->
  run prof (pkg_set_db_codepage k0 c) ops = Some k' -> pool_repr t (k_pool k') ->
  exists k1 k2, pkg_flush k' = Some k1 /\ pkg_open prof (k_cont k1) = Ok k2 /\
    same_obs prof k' k2 /\ same_obs prof k' k1 /\ p_cp (k_pool k2) = c /\ pkg_flush k2 = Some k2.
