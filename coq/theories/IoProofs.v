(* IoProofs.v -- C15: a successful flush means the data reached the medium, for every fault schedule. *)
From MsiModel Require Import Base Io.
From MsiGen Require Import GenIo.
Open Scope N_scope.

Opaque CAP.

(* ---- the medium and the buffered stream -------------------------------- *)
Lemma sink_write_spec sch s b s' ok :
  sink_write sch s b = (s', ok) ->
  (ok = true /\ landed s' = landed s ++ b) \/ (ok = false /\ landed s' = landed s).
Proof.
  unfold sink_write. destruct (sch (calls s)); intro H; inversion H; subst; simpl; auto.
Qed.

Lemma bs_spill_spec sch s buf s' buf' ok :
  bs_spill sch s buf = (s', buf', ok) ->
  (ok = true /\ buf' = [] /\ landed s' = landed s ++ buf) \/
  (ok = false /\ buf' = buf /\ landed s' = landed s).
Proof.
  unfold bs_spill. destruct buf as [|x r].
  - intro H; inversion H; subst. left. rewrite app_nil_r. auto.
  - destruct (sink_write sch s (x :: r)) as [s1 ok1] eqn:E.
    intro H; inversion H; subst. apply sink_write_spec in E.
    destruct E as [[-> E]|[-> E]]; auto.
Qed.

Lemma bs_write_spec sch s buf data s' buf' ok :
  bs_write sch s buf data = (s', buf', ok) ->
  exists more, landed s' = landed s ++ more /\ (ok = true -> more ++ buf' = buf ++ data).
Proof.
  unfold bs_write. destruct (Nat.leb CAP (length (buf ++ data))) eqn:E.
  - intro H. apply bs_spill_spec in H. destruct H as [(-> & -> & H)|(-> & -> & H)].
    + exists (buf ++ data). split; [assumption|]. intros _. apply app_nil_r.
    + exists []. split; [rewrite app_nil_r; assumption | discriminate].
  - intro H; inversion H; subst. exists []. split; [rewrite app_nil_r; reflexivity|]. reflexivity.
Qed.

Lemma write_chunks_spec sch chunks : forall s buf s' buf' ok,
  write_chunks sch s buf chunks = (s', buf', ok) ->
  exists more, landed s' = landed s ++ more /\ (ok = true -> more ++ buf' = buf ++ List.concat chunks).
Proof.
  induction chunks as [|c r IH]; intros s buf s' buf' ok; simpl.
  - intro H; inversion H; subst. exists []. rewrite !app_nil_r. auto.
  - destruct (bs_write sch s buf c) as [[s1 buf1] ok1] eqn:E.
    apply bs_write_spec in E. destruct E as (m1 & L1 & B1).
    destruct ok1.
    + intro H. apply IH in H. destruct H as (m2 & L2 & B2).
      exists (m1 ++ m2). split.
      * rewrite L2, L1, app_assoc. reflexivity.
      * intro Hok. specialize (B1 eq_refl). specialize (B2 Hok).
        rewrite <- app_assoc, B2, app_assoc, B1, <- app_assoc. reflexivity.
    + intro H; inversion H; subst. exists m1. split; [assumption | discriminate].
Qed.

Lemma bs_drop_spec sch s buf :
  landed (bs_drop sch s buf) = landed s ++ buf \/ landed (bs_drop sch s buf) = landed s.
Proof.
  unfold bs_drop, bs_flush. destruct (bs_spill sch s buf) as [[s' buf'] ok] eqn:E. simpl.
  apply bs_spill_spec in E. destruct E as [(_ & _ & H)|(_ & _ & H)]; auto.
Qed.

Lemma bs_drop_nil sch s : bs_drop sch s [] = s.
Proof. reflexivity. Qed.

(* ---- one write path ------------------------------------------------------ *)
Theorem write_path_durable : forall sch s chunks s',
  write_path true sch s chunks = (s', true) -> landed s' = landed s ++ List.concat chunks.
Proof.
  intros sch s chunks s'. unfold write_path.
  destruct (write_chunks sch s [] chunks) as [[s1 buf1] ok] eqn:E.
  apply write_chunks_spec in E. destruct E as (more & L & B).
  destruct ok; simpl; [|discriminate].
  specialize (B eq_refl). simpl in B.
  unfold bs_flush. destruct (bs_spill sch s1 buf1) as [[s2 buf2] ok2] eqn:F.
  apply bs_spill_spec in F. intro H; inversion H; subst.
  destruct F as [(_ & -> & F)|(F & _)]; [|discriminate].
  rewrite bs_drop_nil, F, L, <- app_assoc, B. reflexivity.
Qed.

Theorem write_path_extends : forall fl sch s chunks s' ok,
  write_path fl sch s chunks = (s', ok) -> exists more, landed s' = landed s ++ more.
Proof.
  intros fl sch s chunks s' ok. unfold write_path.
  destruct (write_chunks sch s [] chunks) as [[s1 buf1] ok1] eqn:E.
  apply write_chunks_spec in E. destruct E as (more & L & _).
  assert (D : forall s0 b, (exists m, landed s0 = landed s ++ m) ->
                           exists m, landed (bs_drop sch s0 b) = landed s ++ m).
  { intros s0 b [m Hm]. destruct (bs_drop_spec sch s0 b) as [H|H]; rewrite H, Hm.
    - exists (m ++ b). rewrite app_assoc. reflexivity.
    - exists m. reflexivity. }
  destruct ok1; simpl.
  - destruct fl.
    + unfold bs_flush. destruct (bs_spill sch s1 buf1) as [[s2 buf2] ok2] eqn:F.
      apply bs_spill_spec in F. intro H; inversion H; subst. apply D.
      destruct F as [(_ & _ & F)|(_ & _ & F)]; rewrite F, L.
      * exists (more ++ buf1). rewrite app_assoc. reflexivity.
      * exists more. reflexivity.
    + intro H; inversion H; subst. apply D. exists more. assumption.
  - intro H; inversion H; subst. apply D. exists more. assumption.
Qed.

Lemma CAP_gt_1 : Nat.leb CAP 1 = false.
Proof. vm_compute. reflexivity. Qed.

Theorem write_path_unflushed_loses : forall s,
  exists sch chunks s', chunks <> [] /\ List.concat chunks <> [] /\
    write_path false sch s chunks = (s', true) /\ landed s' = landed s.
Proof.
  intro s. exists (fun _ => true), [[1]], (mksink (landed s) (S (calls s))).
  split; [discriminate|]. split; [simpl; discriminate|].
  split; [|reflexivity].
  unfold write_path. simpl. unfold bs_write. simpl. rewrite CAP_gt_1. reflexivity.
Qed.

(* ---- fault-free schedule -------------------------------------------------- *)
Lemma bs_spill_ff s buf s' buf' ok :
  bs_spill (fun _ => false) s buf = (s', buf', ok) ->
  ok = true /\ buf' = [] /\ landed s' = landed s ++ buf.
Proof.
  intro H. assert (ok = true).
  { unfold bs_spill, sink_write in H. destruct buf; inversion H; reflexivity. }
  subst. apply bs_spill_spec in H. destruct H as [H|(H & _)]; [assumption | discriminate].
Qed.

Lemma write_chunks_ff chunks : forall s buf s' buf' ok,
  write_chunks (fun _ => false) s buf chunks = (s', buf', ok) ->
  ok = true /\ landed s' ++ buf' = landed s ++ buf ++ List.concat chunks.
Proof.
  induction chunks as [|c r IH]; intros s buf s' buf' ok; simpl.
  - intro H; inversion H; subst. rewrite app_nil_r. auto.
  - destruct (bs_write (fun _ => false) s buf c) as [[s1 buf1] ok1] eqn:E.
    assert (E1 : ok1 = true /\ landed s1 ++ buf1 = landed s ++ buf ++ c).
    { unfold bs_write in E. destruct (Nat.leb CAP (length (buf ++ c))).
      - apply bs_spill_ff in E. destruct E as (-> & -> & E). rewrite app_nil_r. auto.
      - inversion E; subst. auto. }
    destruct E1 as [-> E1]. intro H. apply IH in H. destruct H as [-> H].
    split; [reflexivity|]. rewrite H, !app_assoc. f_equal. rewrite <- app_assoc. exact E1.
Qed.

Lemma sink_eta s : s = mksink (landed s) (calls s).
Proof. destruct s; reflexivity. Qed.

Lemma write_path_ff fl s chunks :
  snd (write_path fl (fun _ => false) s chunks) = true /\
  landed (fst (write_path fl (fun _ => false) s chunks)) = landed s ++ List.concat chunks.
Proof.
  unfold write_path.
  destruct (write_chunks (fun _ => false) s [] chunks) as [[s1 buf1] ok] eqn:E.
  apply write_chunks_ff in E. destruct E as [-> E]. simpl in E. simpl negb. cbv iota.
  assert (D : landed (bs_drop (fun _ => false) s1 buf1) = landed s ++ List.concat chunks).
  { unfold bs_drop, bs_flush. destruct (bs_spill (fun _ => false) s1 buf1) as [[s2 buf2] ok2] eqn:F.
    apply bs_spill_ff in F. destruct F as (_ & _ & F). simpl. rewrite F. exact E. }
  destruct fl.
  - unfold bs_flush. destruct (bs_spill (fun _ => false) s1 buf1) as [[s2 buf2] ok2] eqn:F.
    apply bs_spill_ff in F. destruct F as (-> & -> & F). simpl.
    split; [reflexivity|]. rewrite bs_drop_nil, F. exact E.
  - simpl. split; [reflexivity | exact D].
Qed.

Theorem write_path_fault_free : forall fl s chunks,
  write_path fl (fun _ => false) s chunks = (mksink (landed s ++ List.concat chunks) (calls (fst (write_path fl (fun _ => false) s chunks))), true).
Proof.
  intros fl s chunks. destruct (write_path_ff fl s chunks) as [H1 H2].
  destruct (write_path fl (fun _ => false) s chunks) as [s' ok]. simpl in *. subst.
  rewrite <- H2. f_equal. apply sink_eta.
Qed.

(* ---- a whole save --------------------------------------------------------- *)
Theorem write_all_durable :
  IO_WRITE_ROWS_FLUSHES = true -> IO_WRITE_POOL_FLUSHES = true -> IO_WRITE_DATA_FLUSHES = true -> IO_PROPSET_WRITE_FLUSHES = true ->
  forall sch s ws s', write_all sch s ws = (s', true) -> landed s' = landed s ++ all_bytes ws.
Proof.
  intros H1 H2 H3 H4 sch s ws. revert s.
  induction ws as [|[k chunks] r IH]; intros s s'; simpl.
  - intro H; inversion H; subst. unfold all_bytes. simpl. rewrite app_nil_r. reflexivity.
  - assert (F : flushes_of k = true) by (destruct k; simpl; assumption).
    rewrite F. destruct (write_path true sch s chunks) as [s1 ok] eqn:E.
    destruct ok; [|discriminate].
    apply write_path_durable in E. intro H. apply IH in H.
    rewrite H, E. unfold all_bytes. simpl. rewrite <- app_assoc. reflexivity.
Qed.

Lemma write_all_ff ws : forall s,
  snd (write_all (fun _ => false) s ws) = true /\
  landed (fst (write_all (fun _ => false) s ws)) = landed s ++ all_bytes ws.
Proof.
  induction ws as [|[k chunks] r IH]; intro s; simpl.
  - unfold all_bytes. simpl. rewrite app_nil_r. auto.
  - destruct (write_path_ff (flushes_of k) s chunks) as [P1 P2].
    destruct (write_path (flushes_of k) (fun _ => false) s chunks) as [s1 ok]. simpl in P1, P2. subst ok.
    destruct (IH s1) as [Q1 Q2]. split; [assumption|].
    rewrite Q2, P2. unfold all_bytes. simpl. rewrite <- app_assoc. reflexivity.
Qed.

Theorem write_all_same_as_fault_free :
  IO_WRITE_ROWS_FLUSHES = true -> IO_WRITE_POOL_FLUSHES = true -> IO_WRITE_DATA_FLUSHES = true -> IO_PROPSET_WRITE_FLUSHES = true ->
  forall sch s ws s', write_all sch s ws = (s', true) ->
    landed s' = landed (fst (write_all (fun _ => false) s ws)).
Proof.
  intros H1 H2 H3 H4 sch s ws s' H.
  rewrite (write_all_durable H1 H2 H3 H4 _ _ _ _ H).
  symmetry. apply write_all_ff.
Qed.

Theorem discipline_now :
  IO_WRITE_ROWS_FLUSHES = true /\ IO_WRITE_POOL_FLUSHES = true /\ IO_WRITE_DATA_FLUSHES = true /\
  IO_PROPSET_WRITE_FLUSHES = true /\ IO_FINISH_PROPAGATES = true /\ IO_FLUSH_PROPAGATES = true /\ IO_EXEC_PROPAGATES = true.
Proof. repeat split; reflexivity. Qed.

(* Package::create ends with a save of its own (catalog tables, pool, summary): its error is returned to the caller.
   (A swallowed error there is not repaired by a later flush: the failed flush has consumed the deferred write-back.) *)
Theorem create_propagates_now : IO_CREATE_PROPAGATES = true.
Proof. reflexivity. Qed.
