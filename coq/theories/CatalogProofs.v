(* CatalogProofs.v -- C06 (catalog part): what create_table writes into _Columns/_Validation
   is what open rebuilds, and create_table refuses what the format cannot represent. *)
From Coq Require Import ZifyBool ZifyNat ZifyN Lia.
From MsiModel Require Import Base Sexp Value Expr Category Column ColumnProofs CategoryProofs CodePage Pool Table Container StreamName
  Propset Summary Query Package.
From MsiGen Require Import GenConsts GenCatalog.
Open Scope N_scope.
Arguments N.add : simpl never.
Arguments N.mul : simpl never.
Arguments N.sub : simpl never.

(* P4: the catalog codec -- what create_table writes into _Columns/_Validation is what open rebuilds *)
Definition col_storable (c : column) : Prop :=
  storable_type (c_type c) = true /\
  c_name c <> [] /\
  Forall (fun v => v <> [] /\ ~ In 59 v) (c_enum c) /\
  (match c_fk c with Some (t, _) => t <> [] | None => True end).
Definition specs_of (cols : list column) : list colspec :=
  map (fun ic => (fst ic, c_name (snd ic), col_bits (snd ic))) (enumerate cols 1%Z).
(* rows as they come back from the tables: the empty string is stored as null *)
Definition stored (rows : list (list value)) : list (list value) := map (map normalize_value) rows.
Definition vals_of (tn : str) (cols : list column) : list (str * str * list value) :=
  map (fun cr => (tn, c_name (fst cr), snd cr)) (combine cols (stored (validation_rows tn cols))).

(* ---- helpers ---------------------------------------------------------------------------- *)
Definition specf (ic : Z * column) : colspec := (fst ic, c_name (snd ic), col_bits (snd ic)).
Definition crow (tn : str) (ic : Z * column) : list value :=
  [VStr tn; VInt (fst ic); VStr (c_name (snd ic)); VInt (col_bits (snd ic))].
Definition vrow (tn : str) (c : column) : list value :=
  [VStr tn; VStr (c_name c); VStr (if c_null c then [89] else [78]);
   opt_value (fun r => VInt (fst r)) (c_range c); opt_value (fun r => VInt (snd r)) (c_range c);
   opt_value (fun f => VStr (fst f)) (c_fk c); opt_value (fun f => VInt (snd f)) (c_fk c);
   opt_value (fun k => VStr (cat_as_str k)) (c_cat c);
   (match c_enum c with [] => VNull | l => VStr (join_sep 59 l) end);
   VNull].
Definition nvrow (tn : str) (c : column) : list value := map normalize_value (vrow tn c).
Definition valf (tn : str) (c : column) : str * str * list value := (tn, c_name c, nvrow tn c).

Lemma specs_of_eq cols : specs_of cols = map specf (enumerate cols 1%Z).
Proof. reflexivity. Qed.
Lemma columns_rows_eq tn cols : columns_rows tn cols = map (crow tn) (enumerate cols 1%Z).
Proof. reflexivity. Qed.
Lemma validation_rows_eq tn cols : validation_rows tn cols = map (vrow tn) cols.
Proof. reflexivity. Qed.
Lemma combine_map_r {A B} (f : A -> B) l : combine l (map f l) = map (fun x => (x, f x)) l.
Proof. induction l as [|x l IH]; simpl; [reflexivity|]. rewrite IH. reflexivity. Qed.
Lemma vals_of_eq tn cols : vals_of tn cols = map (valf tn) cols.
Proof.
  unfold vals_of, stored. rewrite validation_rows_eq, map_map, combine_map_r, map_map. reflexivity.
Qed.

Lemma str_eqb_refl s : str_eqb s s = true.
Proof. apply str_eqb_spec. reflexivity. Qed.
Lemma str_eqb_neq a b : a <> b -> str_eqb a b = false.
Proof. intros H. destruct (str_eqb a b) eqn:E; [|reflexivity]. apply str_eqb_spec in E. contradiction. Qed.
Lemma norm_str s : s <> [] -> normalize_value (VStr s) = VStr s.
Proof. destruct s; [congruence|reflexivity]. Qed.

(* ---- sort_specs -------------------------------------------------------------------------- *)
Lemma sort_enum cols : forall i, sort_specs (map specf (enumerate cols i)) = map specf (enumerate cols i).
Proof.
  induction cols as [|c r IH]; intros i; [reflexivity|].
  cbn [enumerate map]. unfold sort_specs in *. cbn [fold_right]. rewrite IH.
  destruct r as [|c2 r2]; [reflexivity|].
  cbn [enumerate map insert_spec specf fst snd].
  replace (i <? i + 1)%Z with true by lia. reflexivity.
Qed.
Theorem sort_specs_id : forall cols, sort_specs (specs_of cols) = specs_of cols.
Proof. intros cols. rewrite specs_of_eq. apply sort_enum. Qed.

(* ---- builder_from_validation --------------------------------------------------------------- *)
Lemma cat_from_as_eq k : cat_from_str (cat_as_str k) = Some k.
Proof. destruct k; vm_compute; reflexivity. Qed.
Lemma cat_as_str_nonempty k : cat_as_str k <> [].
Proof. destruct k; vm_compute; discriminate. Qed.
Lemma join_nonempty c p r : p <> [] -> join_sep c (p :: r) <> [].
Proof. intros Hp. destruct p; [congruence|]. destruct r; simpl; discriminate. Qed.

Definition rng_of (x y : value) : res (option (Z * Z)) :=
  match x, y with
  | VNull, _ | _, VNull => Ok None
  | a, b => lo <- as_int_v a ;; hi <- as_int_v b ;; Ok (Some (lo, hi))
  end.
Definition fk_of (x y : value) : res (option (str * Z)) :=
  match x, y with
  | VNull, _ | _, VNull => Ok None
  | a, b => t <- as_str_v a ;; i <- as_int_v b ;; Ok (Some (t, i))
  end.
Definition cat_of (x : value) : res (option category) :=
  match x with
  | VNull => Ok None
  | x => s <- as_str_v x ;; Ok (cat_from_str s)
  end.
Definition en_of (x : value) : res (list str) :=
  match x with
  | VNull => Ok []
  | x => s <- as_str_v x ;; Ok (split_on 59 s)
  end.
Lemma builder_ten cn v0 v1 v2 v3 v4 v5 v6 v7 v8 v9 :
  builder_from_validation cn (Some [v0; v1; v2; v3; v4; v5; v6; v7; v8; v9]) =
  (nul <- as_str_v v2 ;; rng <- rng_of v3 v4 ;; fk <- fk_of v5 v6 ;; cat <- cat_of v7 ;; en <- en_of v8 ;;
   Ok (mkcol cn Int16 false (str_eqb nul [89]) false rng fk cat en)).
Proof. destruct v3, v4, v5, v6, v7, v8; reflexivity. Qed.

Lemma builder_row tn c : col_storable c ->
  builder_from_validation (c_name c) (Some (nvrow tn c)) =
  Ok (mkcol (c_name c) Int16 false (c_null c) false (c_range c) (c_fk c) (c_cat c) (c_enum c)).
Proof.
  intros (Hs & Hn & He & Hf).
  unfold nvrow, vrow. cbn [map]. rewrite builder_ten.
  assert (E2 : as_str_v (normalize_value (VStr (if c_null c then [89] else [78]))) = Ok (if c_null c then [89] else [78])).
  { destruct (c_null c); reflexivity. }
  assert (E3 : rng_of (normalize_value (opt_value (fun r => VInt (fst r)) (c_range c)))
                      (normalize_value (opt_value (fun r => VInt (snd r)) (c_range c))) = Ok (c_range c)).
  { destruct (c_range c) as [[lo hi]|]; reflexivity. }
  assert (E5 : fk_of (normalize_value (opt_value (fun f => VStr (fst f)) (c_fk c)))
                     (normalize_value (opt_value (fun f => VInt (snd f)) (c_fk c))) = Ok (c_fk c)).
  { destruct (c_fk c) as [[t i]|]; [|reflexivity]. cbn [opt_value fst snd].
    rewrite norm_str by exact Hf. reflexivity. }
  assert (E7 : cat_of (normalize_value (opt_value (fun k => VStr (cat_as_str k)) (c_cat c))) = Ok (c_cat c)).
  { destruct (c_cat c) as [k|]; [|reflexivity]. cbn [opt_value].
    rewrite norm_str by apply cat_as_str_nonempty. cbn [cat_of as_str_v rbind]. rewrite cat_from_as_eq. reflexivity. }
  assert (E8 : en_of (normalize_value (match c_enum c with [] => VNull | l => VStr (join_sep 59 l) end)) = Ok (c_enum c)).
  { destruct (c_enum c) as [|v l] eqn:Een; [reflexivity|].
    inversion He as [|? ? [Hv1 Hv2] Hl]; subst.
    rewrite norm_str by (apply join_nonempty; exact Hv1). cbn [en_of as_str_v rbind].
    rewrite split_join; [reflexivity | discriminate |].
    constructor; [exact Hv2|]. eapply Forall_impl; [|exact Hl]. intros a [_ H]; exact H. }
  rewrite E2, E3, E5, E7, E8. cbn [rbind].
  destruct (c_null c); reflexivity.
Qed.

Theorem builder_roundtrip : forall tn c,
  col_storable c ->
  exists b, builder_from_validation (c_name c)
              (Some (map normalize_value (nth 0 (validation_rows tn [c]) []))) = Ok b /\
    c_name b = c_name c /\ c_null b = c_null c /\ c_range b = c_range c /\ c_fk b = c_fk c /\
    c_cat b = c_cat c /\ c_enum b = c_enum c.
Proof.
  intros tn c H. eexists. split.
  - change (nth 0 (validation_rows tn [c]) []) with (vrow tn c). apply (builder_row tn c H).
  - cbn. repeat split; reflexivity.
Qed.

(* ---- build_columns ---------------------------------------------------------------------------- *)
Definition vmatch (tn cn : str) (e : str * str * list value) : bool :=
  str_eqb (fst (fst e)) tn && str_eqb (snd (fst e)) cn.

Lemma find_valf tn cols : NoDup (map c_name cols) ->
  forall c, In c cols -> find (vmatch tn (c_name c)) (map (valf tn) cols) = Some (valf tn c).
Proof.
  induction cols as [|a r IH]; intros Hnd c Hin; [destruct Hin|].
  cbn [map] in Hnd. inversion Hnd as [|? ? Hna Hr]; subst.
  cbn [map find]. unfold vmatch at 1. cbn [valf fst snd]. rewrite str_eqb_refl. cbn [andb].
  destruct Hin as [->|Hin].
  - rewrite str_eqb_refl. reflexivity.
  - rewrite str_eqb_neq; [apply IH; assumption|].
    intros E. apply Hna. rewrite E. apply in_map. exact Hin.
Qed.

Lemma col_with_bits_builder c : storable_type (c_type c) = true ->
  col_with_bits (mkcol (c_name c) Int16 false (c_null c) false (c_range c) (c_fk c) (c_cat c) (c_enum c)) (col_bits c) = Ok c.
Proof.
  intros Hs. destruct (col_bits_roundtrip c Hs) as (c' & H & Ht & Hl & Hn & Hp & _).
  unfold col_with_bits in *. destruct (ct_of_bits (col_bits c)) as [t| |]; cbn [rbind] in *; try discriminate.
  injection H as H. subst c'. cbn in Ht, Hl, Hn, Hp. cbn [c_name c_null c_range c_fk c_cat c_enum].
  rewrite Ht, Hl, Hn, Hp. destruct c; reflexivity.
Qed.

Lemma build_columns_gen tn vals cols : Forall col_storable cols ->
  (forall c, In c cols -> find (vmatch tn (c_name c)) vals = Some (valf tn c)) ->
  forall i, build_columns tn (map specf (enumerate cols i)) vals = Ok cols.
Proof.
  induction cols as [|c r IH]; intros Hst Hf i; [reflexivity|].
  inversion Hst as [|? ? Hc Hr]; subst.
  cbn [enumerate map specf fst snd build_columns].
  change (fun e : str * str * list value => str_eqb (fst (fst e)) tn && str_eqb (snd (fst e)) (c_name c))
    with (vmatch tn (c_name c)).
  rewrite (Hf c (or_introl eq_refl)). cbn [valf snd].
  rewrite (builder_row tn c Hc). cbn [rbind].
  rewrite col_with_bits_builder by apply Hc. cbn [rbind].
  rewrite IH; [reflexivity | exact Hr |]. intros c0 H0. apply Hf. right. exact H0.
Qed.

Theorem build_columns_roundtrip : forall tn cols,
  Forall col_storable cols -> NoDup (map c_name cols) ->
  build_columns tn (specs_of cols) (vals_of tn cols) = Ok cols.
Proof.
  intros tn cols Hst Hnd. rewrite specs_of_eq, vals_of_eq.
  apply build_columns_gen; [exact Hst|]. apply find_valf. exact Hnd.
Qed.

(* ---- read_columns_rows ------------------------------------------------------------------------- *)
Lemma existsb_str_refl tn names : In tn names -> existsb (str_eqb tn) names = true.
Proof. intros H. apply existsb_exists. exists tn. split; [exact H | apply str_eqb_refl]. Qed.

Lemma read_columns_gen names tn : tn <> [] -> In tn names ->
  forall cols i pre, Forall (fun c => c_name c <> []) cols ->
  (forall s, In s pre -> (fst (fst s) < i)%Z) ->
  read_columns_rows names (stored (map (crow tn) (enumerate cols i))) [(tn, pre)] =
  Ok [(tn, pre ++ map specf (enumerate cols i))].
Proof.
  intros Htn Hin. induction cols as [|c r IH]; intros i pre Hne Hpre.
  - cbn. rewrite app_nil_r. reflexivity.
  - inversion Hne as [|? ? Hc Hr]; subst.
    cbn [enumerate map stored crow fst snd]. unfold stored in IH.
    rewrite !norm_str by assumption. cbn [normalize_value].
    cbn [read_columns_rows nth_opt unwrap rbind as_str_v as_int_v].
    rewrite (existsb_str_refl _ _ Hin). cbn [negb find fst snd].
    rewrite str_eqb_refl. cbn [snd].
    replace (existsb (fun s : Z * str * Z => (fst (fst s) =? i)%Z) pre) with false.
    2:{ symmetry. apply not_true_is_false. intros E. apply existsb_exists in E as (s & Hs & E).
        specialize (Hpre s Hs). lia. }
    cbn [filter fst negb]. rewrite str_eqb_refl. cbn [negb].
    rewrite IH; [| exact Hr |].
    + rewrite <- app_assoc. reflexivity.
    + intros s Hs. apply in_app_or in Hs as [Hs|[<-|[]]]; [specialize (Hpre s Hs); lia | cbn; lia].
Qed.

(* CHANGED: the draft lacked the hypothesis that every column name is non-empty; an empty name
   is stored as null and read_columns_rows answers Err (e.g. a single Int32 column named ""). *)
Theorem read_columns_rows_spec : forall tn cols names,
  tn <> [] -> In tn names -> cols <> [] -> Forall (fun c => c_name c <> []) cols ->
  read_columns_rows names (stored (columns_rows tn cols)) [] = Ok [(tn, specs_of cols)].
Proof.
  intros tn cols names Htn Hin Hne Hnm. rewrite columns_rows_eq, specs_of_eq.
  destruct cols as [|c r]; [congruence|]. inversion Hnm as [|? ? Hc Hr]; subst.
  cbn [enumerate map stored crow fst snd].
  rewrite !norm_str by assumption. cbn [normalize_value].
  cbn [read_columns_rows nth_opt unwrap rbind as_str_v as_int_v].
  rewrite (existsb_str_refl _ _ Hin). cbn [negb find existsb filter app].
  pose proof (read_columns_gen names tn Htn Hin r (1 + 1)%Z [(1%Z, c_name c, col_bits c)] Hr) as H.
  unfold stored in H. etransitivity; [apply H | reflexivity].
  intros s [<-|[]]. cbn. lia.
Qed.

(* the counterexample behind the added hypothesis: an empty column name comes back as null *)
Example read_columns_rows_empty_name :
  read_columns_rows [[84]] (stored (columns_rows [84] [mkcol [] Int32 false true true None None None []])) [] = Err.
Proof. vm_compute. reflexivity. Qed.

(* ---- read_validation_rows ----------------------------------------------------------------------- *)
Lemma read_validation_gen tn : tn <> [] ->
  forall cols acc, Forall (fun c => c_name c <> []) cols -> NoDup (map c_name cols) ->
  (forall c e, In c cols -> In e acc -> vmatch tn (c_name c) e = false) ->
  read_validation_rows (stored (map (vrow tn) cols)) acc = Ok (acc ++ map (valf tn) cols).
Proof.
  intros Htn. induction cols as [|c r IH]; intros acc Hne Hnd Hacc.
  - cbn. rewrite app_nil_r. reflexivity.
  - inversion Hne as [|? ? Hc Hr]; subst. cbn [map] in Hnd. inversion Hnd as [|? ? Hna Hndr]; subst.
    unfold stored in *. cbn [map]. fold (nvrow tn c).
    cbn [read_validation_rows].
    assert (E0 : nth_opt (nvrow tn c) 0 = Some (VStr tn)).
    { unfold nvrow, vrow. cbn [map nth_opt]. rewrite norm_str by assumption. reflexivity. }
    assert (E1 : nth_opt (nvrow tn c) 1 = Some (VStr (c_name c))).
    { unfold nvrow, vrow. cbn [map nth_opt]. rewrite norm_str by assumption. reflexivity. }
    rewrite E0, E1. cbn [unwrap rbind as_str_v].
    change (fun e : str * str * list value => str_eqb (fst (fst e)) tn && str_eqb (snd (fst e)) (c_name c))
      with (vmatch tn (c_name c)).
    replace (existsb (vmatch tn (c_name c)) acc) with false.
    2:{ symmetry. apply not_true_is_false. intros E. apply existsb_exists in E as (e & He & E).
        rewrite (Hacc c e (or_introl eq_refl) He) in E. discriminate. }
    rewrite IH; [| exact Hr | exact Hndr |].
    + rewrite <- app_assoc. reflexivity.
    + intros c0 e H0 He. apply in_app_or in He as [He|[<-|[]]].
      * apply Hacc; [right; exact H0 | exact He].
      * unfold vmatch. cbn [fst snd]. rewrite str_eqb_refl. cbn [andb].
        apply str_eqb_neq. intros E. apply Hna. rewrite E. apply in_map. exact H0.
Qed.

Lemma storable_names cols : Forall col_storable cols -> Forall (fun c => c_name c <> []) cols.
Proof. intros H. eapply Forall_impl; [|exact H]. intros c Hc. apply Hc. Qed.

Theorem read_validation_rows_spec : forall tn cols,
  tn <> [] -> Forall col_storable cols -> NoDup (map c_name cols) ->
  read_validation_rows (stored (validation_rows tn cols)) [] = Ok (vals_of tn cols).
Proof.
  intros tn cols Htn Hst Hnd. rewrite validation_rows_eq, vals_of_eq.
  rewrite (read_validation_gen tn Htn cols [] (storable_names _ Hst) Hnd); [reflexivity|].
  intros c e _ [].
Qed.

(* ---- the whole catalog path for one table -------------------------------------------------------- *)
Lemma enumerate_length {A} (l : list A) : forall i, length (enumerate l i) = length l.
Proof. induction l as [|x l IH]; intros i; cbn; [reflexivity|]. rewrite IH. reflexivity. Qed.

Lemma enum_last cols : cols <> [] -> forall i, exists n b pre,
  rev (map specf (enumerate cols i)) = ((i + Z.of_nat (length cols) - 1)%Z, n, b) :: pre.
Proof.
  induction cols as [|c r IH]; intros Hne i; [congruence|].
  destruct r as [|c2 r2].
  - exists (c_name c), (col_bits c), []. cbn [enumerate map rev app specf fst snd length].
    replace (i + Z.of_nat 1 - 1)%Z with i by lia. reflexivity.
  - destruct (IH ltac:(discriminate) (i + 1)%Z) as (n & b & pre & H).
    exists n, b, (pre ++ [specf (i, c)]).
    change (enumerate (c :: c2 :: r2) i) with ((i, c) :: enumerate (c2 :: r2) (i + 1)%Z).
    cbn [map rev]. rewrite H. cbn [app].
    change (length (c :: c2 :: r2)) with (S (length (c2 :: r2))).
    replace (i + 1 + Z.of_nat (length (c2 :: r2)) - 1)%Z with (i + Z.of_nat (S (length (c2 :: r2))) - 1)%Z by lia.
    reflexivity.
Qed.

Lemma build_tables_one tn cols long :
  cols <> [] -> Forall col_storable cols -> NoDup (map c_name cols) ->
  build_tables [tn] [(tn, specs_of cols)] (vals_of tn cols) long [] = Ok [(tn, mktable tn cols long)].
Proof.
  intros Hne Hst Hnd.
  cbn [build_tables find fst]. rewrite str_eqb_refl. cbn [snd]. rewrite sort_specs_id.
  rewrite (build_columns_roundtrip tn cols Hst Hnd).
  rewrite specs_of_eq.
  destruct (enum_last cols Hne 1%Z) as (n & b & pre & Hl). rewrite Hl.
  rewrite map_length, enumerate_length.
  destruct cols as [|c r]; [congruence|].
  cbn [enumerate map specf fst snd].
  replace ((1 =? 1)%Z && (1 + Z.of_nat (length (c :: r)) - 1 =? Z.of_nat (length (c :: r)))%Z) with true by lia.
  reflexivity.
Qed.

Theorem catalog_roundtrip : forall tn cols long,
  tn <> [] -> cols <> [] -> Forall col_storable cols -> NoDup (map c_name cols) ->
  (cmap <- read_columns_rows [tn] (stored (columns_rows tn cols)) [] ;;
   vals <- read_validation_rows (stored (validation_rows tn cols)) [] ;;
   build_tables [tn] cmap vals long []) = Ok [(tn, mktable tn cols long)].
Proof.
  intros tn cols long Htn Hne Hst Hnd.
  rewrite (read_columns_rows_spec tn cols [tn] Htn (or_introl eq_refl) Hne (storable_names _ Hst)).
  rewrite (read_validation_rows_spec tn cols Htn Hst Hnd). cbn [rbind].
  apply build_tables_one; assumption.
Qed.

(* ---- what create_table refuses -------------------------------------------------------------------- *)
Definition col_bad (c : column) : Prop :=
  match c_type c with Str w => 255 < w | _ => False end \/
  exists v, In v (c_enum c) /\ (v = [] \/ In 59 v).

Lemma first_dup_or_bad_false cols : (exists c, In c cols /\ col_bad c) ->
  forall seen, first_dup_or_bad cols seen = false.
Proof.
  induction cols as [|a r IH]; intros (c & Hin & Hbad) seen; [destruct Hin|].
  cbn [first_dup_or_bad]. destruct Hin as [->|Hin].
  - destruct Hbad as [Hw|(v & Hv & Hbad)].
    + destruct (c_type c) as [| |w]; try contradiction.
      unfold CREATE_TABLE_MAX_STRING_WIDTH. replace (w <=? 255) with false by lia.
      rewrite andb_false_r. reflexivity.
    + unfold CREATE_TABLE_CHECKS_ENUM_VALUES.
      assert (E : existsb (fun v => match v with [] => true | _ => existsb (N.eqb 59) v end) (c_enum c) = true).
      { apply existsb_exists. exists v. split; [exact Hv|].
        destruct v as [|x v']; [reflexivity|]. destruct Hbad as [Hbad|Hbad]; [discriminate|].
        apply existsb_exists. exists 59. split; [exact Hbad | reflexivity]. }
      rewrite E. cbn [negb]. rewrite andb_false_r. reflexivity.
  - rewrite IH; [apply andb_false_r|]. exists c. split; assumption.
Qed.

Theorem create_table_refuses : forall prof k tn cols,
  (MAX_NUM_TABLE_COLUMNS < nlen cols \/ cols = [] \/ existsb c_pk cols = false \/
   (exists c, In c cols /\ match c_type c with Str w => 255 < w | _ => False end) \/
   (exists c v, In c cols /\ In v (c_enum c) /\ (v = [] \/ In 59 v))) ->
  pkg_create_table prof k tn cols = (k, Err).
Proof.
  intros prof k tn cols H. unfold pkg_create_table, pkg_create_table_with.
  destruct (negb (is_valid_tname tn)); [reflexivity|].
  destruct (existsb (str_eqb tn) CREATE_TABLE_EXTRA_RESERVED); [reflexivity|].
  destruct cols as [|c0 r0] eqn:Ec; [reflexivity|]. rewrite <- Ec in *.
  destruct (MAX_NUM_TABLE_COLUMNS <? nlen cols) eqn:E1; [reflexivity|].
  destruct (negb (existsb c_pk cols)) eqn:E2; [reflexivity|].
  assert (first_dup_or_bad cols [] = false) as ->; [|reflexivity].
  destruct H as [H|[H|[H|[H|H]]]].
  - apply N.ltb_ge in E1. lia.
  - congruence.
  - rewrite H in E2. discriminate.
  - apply first_dup_or_bad_false. destruct H as (c & Hin & Hw). exists c. split; [exact Hin | left; exact Hw].
  - apply first_dup_or_bad_false. destruct H as (c & v & Hin & Hv & Hb). exists c. split; [exact Hin|].
    right. exists v. split; assumption.
Qed.


(* ---- strengthening: everything create_table accepts is storable ------------------------------------ *)
(* the checks of create_table (first_dup_or_bad) plus the _Validation fit check (rows_fit, which
   rejects an empty KeyTable because that column is an Identifier) imply the hypotheses of the
   round-trip theorems, so no attribute of an accepted column is lost by the catalog *)
Lemma first_dup_or_bad_true cols : forall seen, first_dup_or_bad cols seen = true ->
  Forall (fun c => storable_type (c_type c) = true /\ c_name c <> [] /\
                   Forall (fun v => v <> [] /\ ~ In 59 v) (c_enum c)) cols /\
  NoDup (map c_name cols) /\ (forall c, In c cols -> ~ In (c_name c) seen).
Proof.
  induction cols as [|a r IH]; intros seen H.
  - repeat split; [constructor | constructor | intros c []].
  - cbn [first_dup_or_bad] in H.
    apply andb_true_iff in H as [H HR]. apply andb_true_iff in H as [H HE].
    apply andb_true_iff in H as [H HW]. apply andb_true_iff in H as [HA HB].
    destruct (IH _ HR) as (F & ND & NS).
    assert (Hseen : ~ In (c_name a) seen).
    { intros Hin. apply existsb_str_In in Hin. rewrite Hin in HB. discriminate. }
    assert (Hnr : ~ In (c_name a) (map c_name r)).
    { intros Hin. apply in_map_iff in Hin as (c & E & Hc). apply (NS c Hc). left. symmetry. exact E. }
    split; [|split].
    + constructor; [|exact F]. split; [|split].
      * unfold CREATE_TABLE_MAX_STRING_WIDTH in HW. unfold storable_type. destruct (c_type a); auto.
      * intros E. unfold is_valid_cname in HA. rewrite E in HA. discriminate.
      * unfold CREATE_TABLE_CHECKS_ENUM_VALUES in HE. apply negb_true_iff in HE.
        rewrite <- not_true_iff_false in HE.
        apply Forall_forall. intros v Hv. split.
        -- intros ->. apply HE. apply existsb_exists. exists []. split; [exact Hv | reflexivity].
        -- intros H59. apply HE. apply existsb_exists. exists v. split; [exact Hv|].
           destruct v as [|x v']; [reflexivity|]. apply existsb_exists. exists 59. split; [exact H59 | reflexivity].
    + cbn [map]. constructor; assumption.
    + intros c [<-|Hc]; [exact Hseen|]. intros Hin. apply (NS c Hc). right. exact Hin.
Qed.

Lemma validation_rejects_empty_keytable v0 v1 v2 v3 v4 rest :
  all_valid validation_columns (v0 :: v1 :: v2 :: v3 :: v4 :: VStr [] :: rest) <> Ok true.
Proof.
  remember validation_columns as vc eqn:E. vm_compute in E. subst vc.
  cbn [all_valid].
  repeat (match goal with |- (b <- is_valid_value ?c ?v ;; _) <> _ =>
            lazymatch v with
            | VStr [] => fail
            | _ => destruct (is_valid_value c v) as [[|]| |]; cbn [rbind]; try discriminate
            end
          end).
Qed.

Lemma rows_fit_fk tn long cols :
  rows_fit (Some (validation_table long)) (validation_rows tn cols) = Ok true ->
  Forall (fun c => match c_fk c with Some (t, _) => t <> [] | None => True end) cols.
Proof.
  rewrite validation_rows_eq. unfold rows_fit. induction cols as [|c r IH]; intros H; [constructor|].
  cbn [map validate_new_rows] in H.
  destruct (negb (length (vrow tn c) =? length (t_cols (validation_table long)))%nat); [discriminate|].
  change (t_cols (validation_table long)) with validation_columns in H.
  destruct (all_valid validation_columns (vrow tn c)) as [[|]| |] eqn:E; cbn [rbind] in H; try discriminate.
  constructor; [|apply IH; exact H].
  destruct (c_fk c) as [[t i]|] eqn:Ef; [|exact I]. intros ->.
  unfold vrow in E. rewrite Ef in E. cbn [opt_value fst] in E.
  exact (validation_rejects_empty_keytable _ _ _ _ _ _ E).
Qed.

Theorem accepted_cols_storable : forall tn long cols,
  first_dup_or_bad cols [] = true ->
  rows_fit (Some (validation_table long)) (validation_rows tn cols) = Ok true ->
  Forall col_storable cols /\ NoDup (map c_name cols).
Proof.
  intros tn long cols H1 H2. destruct (first_dup_or_bad_true cols [] H1) as (F & ND & _).
  split; [|exact ND]. pose proof (rows_fit_fk tn long cols H2) as Fk.
  rewrite Forall_forall in *. intros c Hc. destruct (F c Hc) as (A & B & C).
  unfold col_storable. repeat split; try assumption. apply (Fk c Hc).
Qed.

(* C06 for the catalog path: a table create_table accepts (into a package that has _Validation)
   reopens with exactly the column list it was created with *)
Theorem accepted_table_reopens : forall tn cols long long',
  is_valid_tname tn = true -> cols <> [] ->
  first_dup_or_bad cols [] = true ->
  rows_fit (Some (validation_table long')) (validation_rows tn cols) = Ok true ->
  (cmap <- read_columns_rows [tn] (stored (columns_rows tn cols)) [] ;;
   vals <- read_validation_rows (stored (validation_rows tn cols)) [] ;;
   build_tables [tn] cmap vals long []) = Ok [(tn, mktable tn cols long)].
Proof.
  intros tn cols long long' Hv Hne H1 H2.
  destruct (accepted_cols_storable tn long' cols H1 H2) as [Hst Hnd].
  apply catalog_roundtrip; try assumption.
  intros ->. discriminate Hv.
Qed.
