(* Reach.v -- the assembly: every package that a sequence of admissible API calls produces from pkg_create satisfies
   the invariant PInv3 (PInv2 plus "no table stream without a table"), whatever each call answered; and what follows
   from that for every reachable package (save / reopen round trip C01, sorted and valid tables C05, exact string
   accounting and catalog C08, no orphan table streams).
   The per-operation theorems live in CreateTableProofs, DmlPkgProofs, DropTableProofs, MiscOpsProofs, ReopenProofs;
   what is added here is the preservation of no_orphans by the operations whose theorems speak about PInv2 only. *)
From Coq Require Import Sorting.Sorted Permutation.
From MsiModel Require Import Base Sexp Value Expr Category Column CodePage Pool Table Container StreamName
  Propset Summary Query Package PoolProofs TableProofs QueryProofs DbInv CatalogProofs PropsetCodecProofs PackageProofs
  StreamProofs PkgInv UpdateRefine PkgInv2 InsertRefine DeleteRefine ReopenLemmas DmlPkgProofs DropTableProofs MiscOpsProofs
  ReopenProofs
  CreateTableLemmas CreateTableProofs.
From MsiGen Require Import GenConsts GenCatalog GenStreamName.
Open Scope N_scope.

(* ---- histories of API calls -------------------------------------------------------------------------------- *)
Inductive op :=
| OInsert (tn : str) (rows : list (list value))
| ODelete (tn : str) (cond : option ast)
| OUpdate (tn : str) (ups : list (str * value)) (cond : option ast)
| OCreateTable (tn : str) (cols : list column)
| ODropTable (tn : str)
| OWriteStream (n : str) (b : bytes)
| ORemoveStream (n : str)
| ORemoveSignature
| OSummary (f : propset -> res propset)
| OSetDbCodepageUtf8
| OFlush
| OReopen.

(* the state after a call, whatever it answered (Ok or Err); None when the call panicked or a save is outside the model *)
Definition after {A} (r : pkg * res A) : option pkg := match snd r with Panic => None | _ => Some (fst r) end.
Definition step (prof : profile) (k : pkg) (o : op) : option pkg :=
  match o with
  | OInsert tn rows => after (pkg_insert prof k tn rows)
  | ODelete tn cond => after (pkg_delete prof k tn cond)
  | OUpdate tn ups cond => after (pkg_update prof k tn ups cond)
  | OCreateTable tn cols => after (pkg_create_table prof k tn cols)
  | ODropTable tn => after (pkg_drop_table prof k tn)
  | OWriteStream n b => after (pkg_write_stream k n b)
  | ORemoveStream n => after (pkg_remove_stream k n)
  | ORemoveSignature => Some (pkg_remove_signature k)
  | OSummary f => after (pkg_summary_mut k f)
  | OSetDbCodepageUtf8 => Some (pkg_set_db_codepage k cp_utf8)
  | OFlush => pkg_flush k
  | OReopen => match pkg_flush k with
               | Some k1 => match pkg_open prof (k_cont k1) with Ok k2 => Some k2 | _ => None end
               | None => None
               end
  end.
Fixpoint run (prof : profile) (k : pkg) (ops : list op) : option pkg :=
  match ops with
  | [] => Some k
  | o :: r => match step prof k o with Some k' => run prof k' r | None => None end
  end.

(* what the theorems quantify over: every call is one a Rust caller can make (values are i32 / scalar strings), the
   database stays in UTF-8 (representability), and -- the known finding catalog_dml -- INSERT / UPDATE / DELETE do not
   name a catalog table directly *)
Definition op_ok (o : op) : Prop :=
  match o with
  | OInsert tn rows => user_table_name tn /\ Forall (Forall value_storable) rows
  | ODelete tn _ => user_table_name tn
  | OUpdate tn ups _ => user_table_name tn /\ ups_wf ups
  | OCreateTable _ cols => enums_scalar cols
  | OSummary f => forall s s', ps_ok s -> ps_fmtid s = FMTID -> f s = Ok s' -> ps_ok s' /\ ps_fmtid s' = FMTID
  | _ => True
  end.
Definition reachable (prof : profile) (k : pkg) : Prop :=
  exists t k0 ops, pkg_create prof t = Ok k0 /\ Forall op_ok ops /\ run prof k0 ops = Some k.

(* ====================================================================== *)
(* 1. no_orphans across a change that keeps the table map                  *)
(* ====================================================================== *)
Lemma no_orphans_frame k k' :
  k_tabs k' = k_tabs k ->
  (forall n, is_valid_tname n = true -> ~ In n CREATE_TABLE_EXTRA_RESERVED -> find_table (k_tabs k) n = None ->
     ct_find (ct_entries (k_cont k')) (sn_encode n true) = ct_find (ct_entries (k_cont k)) (sn_encode n true)) ->
  no_orphans k -> no_orphans k'.
Proof.
  intros Et Hf Hno n V R Hn. rewrite Et in Hn. rewrite (Hf n V R Hn). apply Hno; assumption.
Qed.

Lemma same_obs_tabs prof k k' : same_obs prof k k' -> k_tabs k' = k_tabs k.
Proof. intros (_ & _ & _ & E & _). exact E. Qed.

(* a rejected call: the container and the table map are the ones before the call *)
Lemma no_orphans_same k k' : k_tabs k' = k_tabs k -> k_cont k' = k_cont k -> no_orphans k -> no_orphans k'.
Proof. intros Et Ec. apply no_orphans_frame; [exact Et|]. intros n _ _ _. rewrite Ec. reflexivity. Qed.

(* ====================================================================== *)
(* 2. INSERT / DELETE / UPDATE                                             *)
(* ====================================================================== *)
(* a successful statement rewrites the stream of a table that is in the table map; a name that is not in the map
   is a different name, and different table names have different stream names *)
Lemma dml_no_orphans prof k tn t bs p' :
  PInv2 prof k -> find_table (k_tabs k) tn = Some t -> no_orphans k ->
  no_orphans (with_cp (set_finisher k) (ct_write (k_cont k) (stream_name_of t) bs) p').
Proof.
  intros [HP _] Hfind Hno.
  pose proof HP as (_ & _ & _ & _ & (_ & _ & _ & _ & F1 & _) & _).
  pose proof (find_table_in _ _ _ Hfind) as Hin.
  rewrite Forall_forall in F1. destruct (F1 _ Hin) as (Vtn & _ & Et). cbn [fst snd] in Vtn, Et.
  assert (Esn : stream_name_of t = sn_encode tn true) by (rewrite Et; reflexivity).
  apply (no_orphans_frame k); [reflexivity | | exact Hno].
  intros n V R Hn. cbn [with_cp k_cont]. rewrite find_write, Esn.
  rewrite (table_streams_distinct tn n Vtn V); [reflexivity|]. intros ->. congruence.
Qed.

Lemma after_cases {A} (k1 : pkg) (r : res A) k' : after (k1, r) = Some k' -> k1 = k' /\ r <> Panic.
Proof. unfold after. cbn [fst snd]. destruct r; intros H; inversion H; split; [reflexivity|discriminate|reflexivity|discriminate]. Qed.

Lemma step_insert_inv prof k tn rows k' :
  PInv3 prof k -> user_table_name tn -> Forall (Forall value_storable) rows ->
  after (pkg_insert prof k tn rows) = Some k' -> PInv3 prof k'.
Proof.
  intros [HP Hno] Hu Hst H. destruct (pkg_insert prof k tn rows) as [k1 r] eqn:E.
  apply after_cases in H as [-> Hr]. destruct r as [[]| |]; [| |exfalso; apply Hr; reflexivity].
  - destruct (pkg_insert_ok_inv _ _ _ _ _ E) as (c' & p' & Ex & Ek).
    destruct (DmlPkgProofs.exec_insert_shape _ _ _ _ _ _ _ _ Ex) as (t & bs & Hfind & Ec & _).
    destruct (pkg_insert_ok prof k tn t rows k' HP Hu Hfind Hst E) as (HP' & _).
    split; [exact HP'|]. subst k' c'. exact (dml_no_orphans prof k tn t bs p' HP Hfind Hno).
  - destruct (pkg_dml_err prof k HP) as (A & _ & _). destruct (A _ _ _ E) as (HP' & Hobs & Ec & _).
    split; [exact HP'|]. apply (no_orphans_same k); [eapply same_obs_tabs; exact Hobs | exact Ec | exact Hno].
Qed.

Lemma step_delete_inv prof k tn cond k' :
  PInv3 prof k -> user_table_name tn ->
  after (pkg_delete prof k tn cond) = Some k' -> PInv3 prof k'.
Proof.
  intros [HP Hno] Hu H. destruct (pkg_delete prof k tn cond) as [k1 r] eqn:E.
  apply after_cases in H as [-> Hr]. destruct r as [[]| |]; [| |exfalso; apply Hr; reflexivity].
  - destruct (pkg_delete_ok_inv _ _ _ _ _ E) as (c' & p' & Ex & Ek).
    destruct (DmlPkgProofs.exec_delete_shape _ _ _ _ _ _ _ _ Ex) as ((t & bs & Hfind & Ec & _) & _).
    destruct (pkg_delete_ok prof k tn t cond k' HP Hu Hfind E) as (HP' & _).
    split; [exact HP'|]. subst k' c'. exact (dml_no_orphans prof k tn t bs p' HP Hfind Hno).
  - destruct (pkg_dml_err prof k HP) as (_ & A & _). destruct (A _ _ _ E) as (HP' & Hobs & Ec & _).
    split; [exact HP'|]. apply (no_orphans_same k); [eapply same_obs_tabs; exact Hobs | exact Ec | exact Hno].
Qed.

Lemma step_update_inv prof k tn ups cond k' :
  PInv3 prof k -> user_table_name tn -> ups_wf ups ->
  after (pkg_update prof k tn ups cond) = Some k' -> PInv3 prof k'.
Proof.
  intros [HP Hno] Hu Hups H. destruct (pkg_update prof k tn ups cond) as [k1 r] eqn:E.
  apply after_cases in H as [-> Hr]. destruct r as [[]| |]; [| |exfalso; apply Hr; reflexivity].
  - destruct (pkg_update_ok_inv _ _ _ _ _ _ E) as (c' & p' & Ex & Ek).
    destruct (DmlPkgProofs.exec_update_shape _ _ _ _ _ _ _ _ _ Ex) as (t & bs & Hfind & Ec & _).
    destruct (pkg_update_ok prof k tn t ups cond k' HP Hu Hfind Hups E) as (HP' & _).
    split; [exact HP'|]. subst k' c'. exact (dml_no_orphans prof k tn t bs p' HP Hfind Hno).
  - destruct (pkg_dml_err prof k HP) as (_ & _ & A). destruct (A _ _ _ _ E) as (HP' & Hobs & Ec & _).
    split; [exact HP'|]. apply (no_orphans_same k); [eapply same_obs_tabs; exact Hobs | exact Ec | exact Hno].
Qed.

(* ====================================================================== *)
(* 3. create_table / drop_table                                            *)
(* ====================================================================== *)
Lemma step_create_table_inv prof k tn cols k' :
  PInv3 prof k -> enums_scalar cols ->
  after (pkg_create_table prof k tn cols) = Some k' -> PInv3 prof k'.
Proof.
  intros HP Hen H. destruct (pkg_create_table prof k tn cols) as [k1 r] eqn:E.
  apply after_cases in H as [-> Hr]. destruct r as [[]| |]; [| |exfalso; apply Hr; reflexivity].
  - apply (create_table_ok prof k tn cols k' HP Hen E).
  - apply (create_table_err3 prof k tn cols k' HP E).
Qed.

(* drop_table rewrites the stream of the dropped table (and removes it) and the streams of the three catalog
   tables; all four belong to tables of the map, so no table stream appears for a name outside the map, and the
   name that leaves the map loses its stream *)
Lemma drop_no_orphans prof k tn k' :
  PInv2 prof k -> no_orphans k -> pkg_drop_table prof k tn = (k', Ok tt) -> no_orphans k'.
Proof.
  intros HP Hno Hdrop.
  assert (Hres : is_reserved tn = false).
  { destruct (is_reserved tn) eqn:E; [|reflexivity].
    rewrite (drop_table_arg_errors prof k tn) in Hdrop by (left; exact E). discriminate. }
  destruct (find_table (k_tabs k) tn) as [t|] eqn:Hfind.
  2:{ rewrite (drop_table_arg_errors prof k tn) in Hdrop by (right; right; exact Hfind). discriminate. }
  pose proof (PInv2_MInv prof k HP) as HM.
  destruct (drop_chain prof k tn t HM Hres Hfind) as (k4 & E & _ & F4 & _ & Hnone & _ & _ & _ & _ & Hfr).
  rewrite E in Hdrop. injection Hdrop as Ek'. subst k'. clear E.
  destruct F4 as (Ets & _).
  destruct HP as [(HInv & _ & _ & _ & Htw & _) _].
  pose proof Htw as (_ & HfT & HfC & HfV & F1 & _).
  pose proof (find_table_in _ _ _ Hfind) as Hin.
  rewrite Forall_forall in F1. destruct (F1 _ Hin) as (Vtn & _ & Et). cbn [fst snd] in Vtn, Et.
  assert (Htn : stream_name_of t = sn_encode tn true) by (rewrite Et; reflexivity).
  destruct catalog_names_valid as (VT & VC & VV).
  intros n V R Hn. cbn [with_tabs k_tabs k_cont] in *. rewrite Ets in Hn.
  destruct (list_eq_dec N.eq_dec n tn) as [->|Hne].
  - rewrite <- Htn. exact Hnone.
  - rewrite (find_remove_other _ _ _ Hne) in Hn.
    rewrite Hfr; [apply Hno; assumption | | | |].
    + rewrite Htn. apply table_streams_distinct; assumption.
    + change (stream_name_of (validation_table (p_long (k_pool k)))) with (sn_encode VALIDATION_TABLE_NAME true).
      apply table_streams_distinct; [exact V | exact VV |]. intros ->. congruence.
    + change (stream_name_of (columns_table (p_long (k_pool k)))) with (sn_encode COLUMNS_TABLE_NAME true).
      apply table_streams_distinct; [exact V | exact VC |]. intros ->. congruence.
    + change (stream_name_of (tables_table (p_long (k_pool k)))) with (sn_encode TABLES_TABLE_NAME true).
      apply table_streams_distinct; [exact V | exact VT |]. intros ->. congruence.
Qed.

Lemma step_drop_table_inv prof k tn k' :
  PInv3 prof k -> after (pkg_drop_table prof k tn) = Some k' -> PInv3 prof k'.
Proof.
  intros [HP Hno] H.
  destruct (drop_table_cases prof k tn HP) as [[E _] | [k1 E]]; rewrite E in H; apply after_cases in H as [-> _].
  - split; assumption.
  - destruct (drop_table_ok prof k tn k' HP E) as (HP' & _). split; [exact HP'|].
    exact (drop_no_orphans prof k tn k' HP Hno E).
Qed.

(* ====================================================================== *)
(* 4. streams, signature, summary, code page                               *)
(* ====================================================================== *)
Lemma step_write_stream_inv prof k n b k' :
  PInv3 prof k -> after (pkg_write_stream k n b) = Some k' -> PInv3 prof k'.
Proof.
  intros [HP Hno] H. destruct (pkg_write_stream k n b) as [k1 r] eqn:E.
  apply after_cases in H as [-> Hr].
  destruct (write_stream_inv prof k n b k' r HP E) as (HP' & (Ets & _) & _). split; [exact HP'|].
  destruct r as [[]| |].
  - apply (no_orphans_frame k); [exact Ets | | exact Hno]. intros m _ _ _.
    apply (stream_ops_frame k n b k'); [left; exact E | right; exists m; reflexivity].
  - unfold pkg_write_stream in E. destruct (negb (sn_is_valid n false)); inversion E. subst k'. exact Hno.
  - exfalso. apply Hr. reflexivity.
Qed.

Lemma step_remove_stream_inv prof k n k' :
  PInv3 prof k -> after (pkg_remove_stream k n) = Some k' -> PInv3 prof k'.
Proof.
  intros [HP Hno] H. destruct (pkg_remove_stream k n) as [k1 r] eqn:E.
  apply after_cases in H as [-> Hr].
  destruct (remove_stream_inv prof k n k' r HP E) as (HP' & (Ets & _) & _). split; [exact HP'|].
  destruct r as [[]| |].
  - apply (no_orphans_frame k); [exact Ets | | exact Hno]. intros m _ _ _.
    apply (stream_ops_frame k n [] k'); [right; exact E | right; exists m; reflexivity].
  - unfold pkg_remove_stream in E. destruct (negb (sn_is_valid n false)); [inversion E; subst k'; exact Hno|].
    destruct (ct_remove (k_cont k) (sn_encode n false)); inversion E; subst k'; exact Hno.
  - exfalso. apply Hr. reflexivity.
Qed.

Lemma step_remove_signature_inv prof k : PInv3 prof k -> PInv3 prof (pkg_remove_signature k).
Proof.
  intros [HP Hno]. destruct (remove_signature_inv prof k HP) as (HP' & (Ets & _) & _). split; [exact HP'|].
  apply (no_orphans_frame k); [exact Ets | | exact Hno]. intros m _ _ _.
  destruct (table_stream_not_sig m) as [N1 N2]. apply remove_signature_frame; assumption.
Qed.

Lemma step_summary_inv prof k f k' :
  PInv3 prof k ->
  (forall s s', ps_ok s -> ps_fmtid s = FMTID -> f s = Ok s' -> ps_ok s' /\ ps_fmtid s' = FMTID) ->
  after (pkg_summary_mut k f) = Some k' -> PInv3 prof k'.
Proof.
  intros [HP Hno] Hf H. destruct (pkg_summary_mut k f) as [k1 r] eqn:E.
  apply after_cases in H as [-> _].
  destruct (summary_mut_inv prof k f k' r HP Hf E) as (HP' & (Ets & _) & Ec & _). split; [exact HP'|].
  apply (no_orphans_same k); assumption.
Qed.

Lemma step_set_db_codepage_inv prof k : PInv3 prof k -> PInv3 prof (pkg_set_db_codepage k cp_utf8).
Proof.
  intros [HP Hno]. destruct (set_db_codepage_inv prof k HP) as (HP' & Ets & Ec & _). split; [exact HP'|].
  apply (no_orphans_same k); assumption.
Qed.

(* ====================================================================== *)
(* 5. flush / reopen                                                       *)
(* ====================================================================== *)
(* a save writes the summary stream and the two pool streams; the names of the latter are the reserved table names
   that no_orphans does not speak about *)
Lemma flush_no_orphans k k1 : pkg_flush k = Some k1 -> no_orphans k -> no_orphans k1.
Proof.
  intros Ef Hno. destruct k as [c ty s sm p ts f].
  apply flush_cases in Ef as [[_ ->]|(_ & c0 & c1 & p1 & -> & Hsum & Hpl)]; [exact Hno|].
  apply (no_orphans_frame (mkpkg c ty s sm p ts f)); [reflexivity | | exact Hno].
  intros n Vn Rn _. cbn [k_cont].
  destruct (table_stream_special3 n Vn Rn) as (S1 & S2 & S3).
  assert (E0 : ct_find (ct_entries c0) (sn_encode n true) = ct_find (ct_entries c) (sn_encode n true)).
  { destruct sm; [|subst c0; reflexivity]. destruct Hsum as (b & _ & ->). rewrite find_write.
    rewrite StreamProofs.name_eqb_sym, S1. reflexivity. }
  rewrite <- E0. destruct (p_mod p); [|destruct Hpl as [-> _]; reflexivity].
  destruct Hpl as (pb & db & _ & _ & -> & _). rewrite !find_write.
  rewrite (StreamProofs.name_eqb_sym data_stream), S3, (StreamProofs.name_eqb_sym pool_stream), S2. reflexivity.
Qed.

Lemma flush_tabs k k1 : pkg_flush k = Some k1 -> k_tabs k1 = k_tabs k.
Proof.
  intros Ef. destruct k as [c ty s sm p ts f].
  apply flush_cases in Ef as [[_ ->]|(_ & c0 & c1 & p1 & -> & _)]; reflexivity.
Qed.

Lemma step_flush_inv prof k k' : PInv3 prof k -> pkg_flush k = Some k' -> PInv3 prof k'.
Proof.
  intros [HP Hno] H.
  destruct (reopen_roundtrip2 prof k HP) as (k1 & k2 & Hf & _ & _ & _ & _ & HP1 & _).
  rewrite Hf in H. inversion H; subst k1. split; [exact HP1|]. eapply flush_no_orphans; eassumption.
Qed.

Lemma reopen_inv3 prof k k1 k2 :
  PInv3 prof k -> pkg_flush k = Some k1 -> pkg_open prof (k_cont k1) = Ok k2 -> PInv3 prof k2.
Proof.
  intros [HP Hno] Hf Ho.
  destruct (reopen_roundtrip2 prof k HP) as (k1' & k2' & Hf' & Ho' & Hobs & HP2 & Ec & _ & _).
  rewrite Hf in Hf'. inversion Hf'; subst k1'. rewrite Ho in Ho'. inversion Ho'; subst k2'.
  split; [exact HP2|].
  apply (no_orphans_same k1).
  - rewrite (same_obs_tabs _ _ _ Hobs). symmetry. apply flush_tabs. exact Hf.
  - exact Ec.
  - eapply flush_no_orphans; eassumption.
Qed.

Lemma step_reopen_inv prof k k' : PInv3 prof k -> step prof k OReopen = Some k' -> PInv3 prof k'.
Proof.
  intros HP H. cbn [step] in H.
  destruct (pkg_flush k) as [k1|] eqn:Hf; [|discriminate H].
  destruct (pkg_open prof (k_cont k1)) as [k2| |] eqn:Ho; try discriminate H.
  inversion H; subst k2. eapply reopen_inv3; eassumption.
Qed.

(* ====================================================================== *)
(* 6. every step, every history                                            *)
(* ====================================================================== *)
Theorem step_inv : forall prof k o k', PInv3 prof k -> op_ok o -> step prof k o = Some k' -> PInv3 prof k'.
Proof.
  intros prof k o k' HP Hok H. destruct o; cbn [step op_ok] in H, Hok.
  - destruct Hok as [Hu Hst]. eapply step_insert_inv; eassumption.
  - eapply step_delete_inv; eassumption.
  - destruct Hok as [Hu Hups]. eapply step_update_inv; eassumption.
  - eapply step_create_table_inv; eassumption.
  - eapply step_drop_table_inv; eassumption.
  - eapply step_write_stream_inv; eassumption.
  - eapply step_remove_stream_inv; eassumption.
  - inversion H; subst k'. apply step_remove_signature_inv. exact HP.
  - eapply step_summary_inv; eassumption.
  - inversion H; subst k'. apply step_set_db_codepage_inv. exact HP.
  - eapply step_flush_inv; eassumption.
  - eapply step_reopen_inv; eassumption.
Qed.

Lemma run_inv prof : forall ops k k', PInv3 prof k -> Forall op_ok ops -> run prof k ops = Some k' -> PInv3 prof k'.
Proof.
  induction ops as [|o r IH]; intros k k' HP Hok H; cbn [run] in H.
  - inversion H; subst k'. exact HP.
  - inversion Hok as [|? ? Ho Hr]; subst.
    destruct (step prof k o) as [k1|] eqn:E; [|discriminate H].
    apply (IH k1 k'); [eapply step_inv; eassumption | exact Hr | exact H].
Qed.

Lemma run_app prof : forall a b k,
  run prof k (a ++ b) = match run prof k a with Some k' => run prof k' b | None => None end.
Proof.
  induction a as [|o r IH]; intros b k; cbn [run app]; [reflexivity|].
  destruct (step prof k o) as [k1|]; [apply IH | reflexivity].
Qed.

Theorem reachable_inv : forall prof k, reachable prof k -> PInv3 prof k.
Proof.
  intros prof k (t & k0 & ops & Hc & Hok & Hr).
  apply (run_inv prof ops k0 k); [apply (create_inv3 prof t k0 Hc) | exact Hok | exact Hr].
Qed.

(* one more admissible call *)
Lemma reachable_step prof k o k' : reachable prof k -> op_ok o -> step prof k o = Some k' -> reachable prof k'.
Proof.
  intros (t & k0 & ops & Hc & Hok & Hr) Ho Hs. exists t, k0, (ops ++ [o]).
  split; [exact Hc|]. split.
  - apply Forall_app. split; [exact Hok|]. constructor; [exact Ho | constructor].
  - rewrite run_app, Hr. cbn [run]. rewrite Hs. reflexivity.
Qed.

(* ====================================================================== *)
(* 7. what every reachable package satisfies                               *)
(* ====================================================================== *)
(* C01 *)
Theorem reachable_roundtrip : forall prof k, reachable prof k ->
  exists k1 k2, pkg_flush k = Some k1 /\ pkg_open prof (k_cont k1) = Ok k2 /\ same_obs prof k k2 /\ same_obs prof k k1 /\
    reachable prof k2 /\ pkg_flush k2 = Some k2.
Proof.
  intros prof k Hre. destruct (reachable_inv prof k Hre) as [HP _].
  destruct (reopen_roundtrip2 prof k HP) as (k1 & k2 & Hf & Ho & Hobs2 & _ & _ & _ & Hobs1).
  exists k1, k2. refine (conj Hf (conj Ho (conj Hobs2 (conj Hobs1 (conj _ _))))).
  - apply (reachable_step prof k OReopen k2 Hre I). cbn [step]. rewrite Hf, Ho. reflexivity.
  - apply (readonly_close prof (k_cont k1) k2 Ho).
Qed.

(* C05 *)
Theorem reachable_sorted_valid : forall prof k, reachable prof k -> tables_sorted_valid prof k.
Proof.
  intros prof k Hre. destruct (reachable_inv prof k Hre) as [[HP _] _].
  destruct HP as (_ & _ & _ & _ & _ & _ & Hsv & _). exact Hsv.
Qed.

(* C08 *)
Theorem reachable_accounting : forall prof k, reachable prof k ->
  pool_wf (k_pool k) /\
  (forall r, 0 < r -> refcount (k_pool k) r = occ r (all_rows (k_cont k) (k_tabs k))) /\
  catalog_ok prof k.
Proof.
  intros prof k Hre. destruct (reachable_inv prof k Hre) as [[HP _] _].
  destruct HP as ((Hwf & _ & _ & Hacc) & _ & _ & _ & _ & Hcat & _).
  split; [exact Hwf|]. split; [exact Hacc | exact Hcat].
Qed.

(* a reachable package never holds a table stream without a table (what drop_table leaves behind: nothing) *)
Theorem reachable_no_orphans : forall prof k, reachable prof k -> no_orphans k.
Proof. intros prof k Hre. apply (reachable_inv prof k Hre). Qed.

(* ---- the goal statements, verbatim -------------------------------------------------------------------------- *)
Definition G_step_inv : Prop := forall prof k o k', PInv3 prof k -> op_ok o -> step prof k o = Some k' -> PInv3 prof k'.
Definition G_reachable_inv : Prop := forall prof k, reachable prof k -> PInv3 prof k.
Definition G_reachable_roundtrip : Prop := forall prof k, reachable prof k ->
  exists k1 k2, pkg_flush k = Some k1 /\ pkg_open prof (k_cont k1) = Ok k2 /\ same_obs prof k k2 /\ same_obs prof k k1 /\
    reachable prof k2 /\ pkg_flush k2 = Some k2.
Definition G_reachable_sorted_valid : Prop := forall prof k, reachable prof k -> tables_sorted_valid prof k.
Definition G_reachable_accounting : Prop := forall prof k, reachable prof k ->
  pool_wf (k_pool k) /\
  (forall r, 0 < r -> refcount (k_pool k) r = occ r (all_rows (k_cont k) (k_tabs k))) /\
  catalog_ok prof k.
Definition G_reachable_no_orphans : Prop := forall prof k, reachable prof k -> no_orphans k.

Lemma G_step_inv_holds : G_step_inv.  Proof. exact step_inv. Qed.
Lemma G_reachable_inv_holds : G_reachable_inv.  Proof. exact reachable_inv. Qed.
Lemma G_reachable_roundtrip_holds : G_reachable_roundtrip.  Proof. exact reachable_roundtrip. Qed.
Lemma G_reachable_sorted_valid_holds : G_reachable_sorted_valid.  Proof. exact reachable_sorted_valid. Qed.
Lemma G_reachable_accounting_holds : G_reachable_accounting.  Proof. exact reachable_accounting. Qed.
Lemma G_reachable_no_orphans_holds : G_reachable_no_orphans.  Proof. exact reachable_no_orphans. Qed.

Print Assumptions step_inv.
Print Assumptions reachable_inv.
Print Assumptions reachable_roundtrip.
Print Assumptions reachable_sorted_valid.
Print Assumptions reachable_accounting.
Print Assumptions reachable_no_orphans.
