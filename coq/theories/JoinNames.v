(* JoinNames.v -- how Join::exec names and types its result columns (Column::with_name_prefix / but_nullable). *)
From MsiModel Require Import Base Value Expr Category Column CodePage Pool Table Container Query.
Open Scope N_scope.

Definition prefixed (p : str) (c : column) : str :=
  match p with [] => c_name c | _ => p ++ 46 :: c_name c end.

Lemma with_prefix_name p c : c_name (with_prefix p c) = prefixed p c.
Proof. destruct p; reflexivity. Qed.

Theorem join_result_names : forall prof c p ts a b on t1 r1 t2 r2,
  exec_select prof c p ts a = Ok (t1, r1) -> exec_select prof c p ts b = Ok (t2, r2) ->
  (forall jt rows, exec_join prof c p ts (JInner a b on) = Ok (jt, rows) ->
     t_name jt = [] /\
     map c_name (t_cols jt) = map (prefixed (t_name t1)) (t_cols t1) ++ map (prefixed (t_name t2)) (t_cols t2) /\
     map c_null (t_cols jt) = map c_null (t_cols t1) ++ map c_null (t_cols t2)) /\
  (forall jt rows, exec_join prof c p ts (JLeft a b on) = Ok (jt, rows) ->
     t_name jt = [] /\
     map c_name (t_cols jt) = map (prefixed (t_name t1)) (t_cols t1) ++ map (prefixed (t_name t2)) (t_cols t2) /\
     map c_null (t_cols jt) = map c_null (t_cols t1) ++ map (fun _ => true) (t_cols t2)).
Proof.
  intros prof c p ts a b on t1 r1 t2 r2 Ha Hb. split; intros jt rows H; cbn [exec_join] in H;
    rewrite Ha, Hb in H; cbn [rbind] in H;
    match type of H with context [if negb ?x then _ else _] => destruct x end; cbn [negb] in H; try discriminate;
    match type of H with context [join_rows ?a1 ?a2 ?a3 ?a4 ?a5 ?a6 ?a7 ?a8] =>
      destruct (join_rows a1 a2 a3 a4 a5 a6 a7 a8) end; cbn [rbind] in H; try discriminate;
    inversion H; subst; cbn [t_name t_cols]; (split; [reflexivity|]); rewrite !map_app, !map_map; split;
    try (f_equal; apply map_ext; intros x; try apply with_prefix_name; destruct (t_name t1), (t_name t2); reflexivity).
Qed.
