(* QueryProofs.v -- P3: keys, ordering, INSERT / SELECT / JOIN specification *)
From Coq Require Import ZifyBool ZifyNat ZifyN Lia Sorting.Sorted Permutation.
From MsiModel Require Import Base Value Expr Category Column CodePage Pool Table Container Query.
From MsiModel Require Import CategoryProofs.
From MsiGen Require Import GenConsts.
Open Scope N_scope.

Arguments N.add : simpl never.
Arguments N.mul : simpl never.
Arguments N.sub : simpl never.

Definition key_lt (a b : list value) : Prop := key_cmp a b = Lt.
Definition keyed_sorted (m : keyed) : Prop := StronglySorted (fun a b => key_lt (fst a) (fst b)) m.

Definition holds_v (t : table) (cond : option ast) (vals : list value) : bool :=
  match cond with
  | None => true
  | Some e => match eval (row_env t vals) e with Ok v => to_bool v | _ => false end
  end.
Definition project (idx : list nat) (r : list value) : list value :=
  flat_map (fun i => match nth_opt r i with Some v => [v] | None => [] end) idx.
Definition pair_holds (prof : profile) (p : pool) (jt : table) (on : ast) (r : list vref) : bool :=
  match cond_holds prof p jt (Some on) r with Ok b => b | _ => false end.

(* ---- str_cmp is a strict total order ------------------------------------------------ *)
Lemma str_cmp_refl a : str_cmp a a = Eq.
Proof. apply str_cmp_eq. reflexivity. Qed.
Lemma str_cmp_antisym a b : str_cmp b a = CompOpp (str_cmp a b).
Proof.
  revert b; induction a as [|x a IH]; intros [|y b]; simpl; try reflexivity.
  rewrite (N.compare_antisym x y). destruct (x ?= y); simpl; auto.
Qed.
Lemma str_cmp_trans a b c : str_cmp a b = Lt -> str_cmp b c = Lt -> str_cmp a c = Lt.
Proof.
  revert b c; induction a as [|x a IH]; intros [|y b] [|z c]; simpl; try discriminate; try reflexivity.
  destruct (x ?= y) eqn:E1; try discriminate; destruct (y ?= z) eqn:E2; try discriminate; intros H1 H2.
  - apply N.compare_eq in E1, E2. subst. rewrite N.compare_refl. eauto.
  - apply N.compare_eq in E1. subst. rewrite E2. reflexivity.
  - apply N.compare_eq in E2. subst. rewrite E1. reflexivity.
  - rewrite N.compare_lt_iff in E1, E2. assert (E : (x ?= z) = Lt) by (apply N.compare_lt_iff; lia).
    rewrite E. reflexivity.
Qed.

(* ---- value order ---------------------------------------------------------------------- *)
Theorem value_cmp_refl : forall v, value_cmp v v = Eq.
Proof. intros [|z|s]; simpl; [reflexivity | apply Z.compare_refl | apply str_cmp_refl]. Qed.
Theorem value_cmp_eq : forall a b, value_cmp a b = Eq -> a = b.
Proof.
  intros [|x|x] [|y|y]; simpl; intro H; try discriminate; try reflexivity.
  - apply Z.compare_eq in H. congruence.
  - apply str_cmp_eq in H. congruence.
Qed.
Theorem value_cmp_antisym : forall a b, value_cmp b a = CompOpp (value_cmp a b).
Proof.
  intros [|x|x] [|y|y]; simpl; try reflexivity.
  - apply Z.compare_antisym.
  - apply str_cmp_antisym.
Qed.
Theorem value_cmp_trans : forall a b c, value_cmp a b = Lt -> value_cmp b c = Lt -> value_cmp a c = Lt.
Proof.
  intros [|x|x] [|y|y] [|z|z]; simpl; try discriminate; try reflexivity.
  - rewrite !Z.compare_lt_iff. lia.
  - apply str_cmp_trans.
Qed.

(* ---- key order ------------------------------------------------------------------------ *)
Theorem key_cmp_eq : forall a b, key_cmp a b = Eq <-> a = b.
Proof.
  induction a as [|x a IH]; intros [|y b]; simpl; split; intro H; try reflexivity; try discriminate.
  - destruct (value_cmp x y) eqn:E; try discriminate.
    apply value_cmp_eq in E. apply IH in H. congruence.
  - inversion H; subst. rewrite value_cmp_refl. apply IH. reflexivity.
Qed.
Theorem key_cmp_antisym : forall a b, key_cmp b a = CompOpp (key_cmp a b).
Proof.
  induction a as [|x a IH]; intros [|y b]; simpl; try reflexivity.
  rewrite (value_cmp_antisym x y). destruct (value_cmp x y); simpl; auto.
Qed.
Theorem key_lt_trans : forall a b c, key_lt a b -> key_lt b c -> key_lt a c.
Proof.
  unfold key_lt.
  induction a as [|x a IH]; intros [|y b] [|z c]; simpl; try discriminate; try reflexivity.
  destruct (value_cmp x y) eqn:E1; try discriminate; destruct (value_cmp y z) eqn:E2; try discriminate; intros H1 H2.
  - apply value_cmp_eq in E1, E2. subst. rewrite value_cmp_refl. eauto.
  - apply value_cmp_eq in E1. subst. rewrite E2. reflexivity.
  - apply value_cmp_eq in E2. subst. rewrite E1. reflexivity.
  - rewrite (value_cmp_trans _ _ _ E1 E2). reflexivity.
Qed.
Theorem key_lt_irrefl : forall a, ~ key_lt a a.
Proof. intros a H. unfold key_lt in H. rewrite (proj2 (key_cmp_eq a a) eq_refl) in H. discriminate. Qed.

Lemma key_eqb_spec a b : key_eqb a b = true <-> a = b.
Proof.
  unfold key_eqb. rewrite <- key_cmp_eq. destruct (key_cmp a b); split; intro; try discriminate; reflexivity.
Qed.
Lemma key_cmp_gt_lt a b : key_cmp a b = Gt -> key_lt b a.
Proof. intro H. unfold key_lt. rewrite key_cmp_antisym, H. reflexivity. Qed.

(* ---- the BTreeMap model ----------------------------------------------------------------- *)
Theorem keyed_mem_iff : forall m k, keyed_mem m k = true <-> In k (map fst m).
Proof.
  induction m as [|[k' r] m IH]; intro k; simpl.
  - split; [discriminate | tauto].
  - rewrite orb_true_iff, key_eqb_spec, IH. tauto.
Qed.

Lemma keyed_insert_in m k row x : In x (keyed_insert m k row) -> x = (k, row) \/ In x m.
Proof.
  induction m as [|[k' r'] m IH]; simpl.
  - intros [H|[]]; auto.
  - destruct (key_cmp k k'); simpl; intros [H|H]; auto.
    destruct (IH H); auto.
Qed.

Theorem keyed_insert_sorted : forall m k row, keyed_sorted m -> keyed_sorted (keyed_insert m k row).
Proof.
  unfold keyed_sorted. induction m as [|[k' r'] m IH]; intros k row Hs; simpl.
  - constructor; constructor.
  - apply StronglySorted_inv in Hs as [Hs Hf].
    destruct (key_cmp k k') eqn:E.
    + apply key_cmp_eq in E. subst k'. constructor; assumption.
    + constructor; [constructor; assumption|].
      constructor; [exact E|]. simpl in *.
      eapply Forall_impl; [|exact Hf]. intros a Ha. simpl in *. eapply key_lt_trans; eassumption.
    + constructor; [apply IH; assumption|].
      apply Forall_forall. intros x Hx. apply keyed_insert_in in Hx as [->|Hx]; simpl.
      * apply key_cmp_gt_lt. exact E.
      * rewrite Forall_forall in Hf. apply (Hf x Hx).
Qed.

Lemma keyed_insert_perm' m k row : ~ In k (map fst m) -> Permutation (keyed_insert m k row) ((k, row) :: m).
Proof.
  induction m as [|[k' r'] m IH]; simpl; intro Hn.
  - reflexivity.
  - destruct (key_cmp k k') eqn:E.
    + apply key_cmp_eq in E. subst. tauto.
    + reflexivity.
    + rewrite IH by tauto. apply perm_swap.
Qed.
Theorem keyed_insert_perm : forall m k row, keyed_sorted m -> ~ In k (map fst m) ->
  Permutation (keyed_insert m k row) ((k, row) :: m).
Proof. intros. apply keyed_insert_perm'. assumption. Qed.

Theorem sorted_nodup : forall m, keyed_sorted m -> NoDup (map fst m).
Proof.
  unfold keyed_sorted. induction m as [|[k r] m IH]; intro Hs; simpl.
  - constructor.
  - apply StronglySorted_inv in Hs as [Hs Hf]. constructor; [|auto].
    intro Hin. apply in_map_iff in Hin as [[k' r'] [E Hin]]. simpl in E. subst k'.
    rewrite Forall_forall in Hf. apply (key_lt_irrefl k). apply (Hf _ Hin).
Qed.

Lemma nlen_cons {A} (x : A) l : nlen (x :: l) = 1 + nlen l.
Proof. unfold nlen. simpl length. lia. Qed.
Lemma nlen_perm {A} (a b : list A) : Permutation a b -> nlen a = nlen b.
Proof. intro H. unfold nlen. rewrite (Permutation_length H). reflexivity. Qed.
Lemma nlen_map {A B} (f : A -> B) l : nlen (map f l) = nlen l.
Proof. unfold nlen. rewrite map_length. reflexivity. Qed.

(* ---- INSERT ------------------------------------------------------------------------- *)
Lemma not_mem_not_in m k : keyed_mem m k = false -> ~ In k (map fst m).
Proof. intros H Hin. apply keyed_mem_iff in Hin. congruence. Qed.

Theorem load_keyed_spec : forall prof p kidx rows m0 m,
  keyed_sorted m0 -> load_keyed prof p kidx rows m0 = Ok m ->
  keyed_sorted m /\ Permutation (map snd m) (map snd m0 ++ rows).
Proof.
  intros prof p kidx. induction rows as [|r rs IH]; intros m0 m Hs H; simpl in H.
  - inversion H; subst. split; [assumption|]. rewrite app_nil_r. reflexivity.
  - destruct (select_nth r kidx) as [kr| |]; cbn [rbind] in H; try discriminate.
    destruct (row_to_values prof p kr) as [k| |]; cbn [rbind] in H; try discriminate.
    destruct (keyed_mem m0 k) eqn:Em; try discriminate.
    apply IH in H as [H1 H2]; [|apply keyed_insert_sorted; assumption].
    split; [assumption|]. rewrite H2.
    rewrite (Permutation_map snd (keyed_insert_perm' m0 k r (not_mem_not_in _ _ Em))). simpl.
    apply Permutation_middle.
Qed.

Lemma insert_new_gen prof kidx m : forall rows seen p m2 p' m',
  (forall k, In k (map fst m2) -> In k (map fst m) \/ In k seen) ->
  keyed_sorted m2 -> check_new_keys kidx m seen rows = Ok tt ->
  insert_new prof p kidx m2 rows = Ok (p', m') ->
  keyed_sorted m' /\ nlen m' = nlen m2 + nlen rows /\ (forall kr, In kr m2 -> In kr m').
Proof.
  induction rows as [|r rs IH]; intros seen p m2 p' m' Hinv Hs Hc Hi; simpl in Hc, Hi.
  - inversion Hi; subst. split; [assumption|]. split; [unfold nlen; simpl; lia | auto].
  - destruct (select_nth r kidx) as [k| |]; cbn [rbind] in Hc, Hi; try discriminate.
    destruct (create_refs prof p r) as [[p1 refs]| |]; cbn [rbind] in Hi; try discriminate.
    destruct (keyed_mem m k) eqn:Em; try discriminate.
    destruct (existsb (key_eqb k) seen) eqn:Es; try discriminate.
    assert (Hn : ~ In k (map fst m2)).
    { intro Hin. apply Hinv in Hin as [Hin|Hin].
      - apply keyed_mem_iff in Hin. congruence.
      - assert (existsb (key_eqb k) seen = true); [|congruence].
        apply existsb_exists. exists k. split; [assumption | apply key_eqb_spec; reflexivity]. }
    pose proof (keyed_insert_perm' m2 k refs Hn) as Hp.
    eapply IH in Hi; [| |apply keyed_insert_sorted; assumption|exact Hc].
    + destruct Hi as (H1 & H2 & H3). split; [assumption|]. split.
      * rewrite H2, (nlen_perm _ _ Hp), !nlen_cons. lia.
      * intros kr Hkr. apply H3. apply (Permutation_in _ (Permutation_sym Hp)). right. assumption.
    + intros k0 Hk0. apply (Permutation_in _ (Permutation_map fst Hp)) in Hk0. simpl in Hk0.
      destruct Hk0 as [<-|Hk0]; [right; left; reflexivity|].
      destruct (Hinv _ Hk0); [left | right; right]; assumption.
Qed.

Theorem insert_new_spec : forall prof p kidx m rows p' m',
  keyed_sorted m -> check_new_keys kidx m [] rows = Ok tt ->
  insert_new prof p kidx m rows = Ok (p', m') ->
  keyed_sorted m' /\ nlen m' = nlen m + nlen rows /\
  (forall kr, In kr m -> In kr m').
Proof.
  intros prof p kidx m rows p' m' Hs Hc Hi.
  eapply (insert_new_gen prof kidx m rows [] p m p' m'); auto.
Qed.

Lemma keyed_sorted_nil : keyed_sorted [].
Proof. constructor. Qed.

Theorem exec_insert_sorted : forall prof c p ts tn rows c' p',
  exec_insert prof c p ts tn rows = Ok (c', p') ->
  exists t old m', find_table ts tn = Some t /\ load_rows c t = Ok old /\
    keyed_sorted m' /\ nlen m' = nlen old + nlen rows /\ nlen m' <= 65536 /\
    (forall r, In r old -> In r (map snd m')) /\
    store_rows prof c t (map snd m') = Ok c'.
Proof.
  intros prof c p ts tn rows c' p' H. unfold exec_insert in H.
  destruct (find_table ts tn) as [t|]; cbn [of_opt rbind] in H; try discriminate.
  destruct (validate_new_rows t rows) as [[]| |]; cbn [rbind] in H; try discriminate.
  destruct (load_rows c t) as [old| |] eqn:El; cbn [rbind] in H; try discriminate.
  destruct (load_keyed prof p (pk_indices t) old []) as [m| |] eqn:Ek; cbn [rbind] in H; try discriminate.
  destruct (check_new_keys (pk_indices t) m [] (map (map normalize_value) rows)) as [[]| |] eqn:Ec;
    cbn [rbind] in H; try discriminate.
  unfold MAX_ROWS_INSERT in H.
  destruct (65536 <? nlen m + nlen (map (map normalize_value) rows)) eqn:Eb; cbn [rbind] in H; try discriminate.
  destruct (insert_new prof p (pk_indices t) m (map (map normalize_value) rows)) as [[p1 m']| |] eqn:Ei;
    cbn [rbind] in H; try discriminate.
  destruct (store_rows prof c t (map snd m')) as [c1| |] eqn:Es; cbn [rbind] in H; try discriminate.
  inversion H; subst c1 p1. clear H.
  apply load_keyed_spec in Ek as [Hs Hp]; [|apply keyed_sorted_nil]. simpl in Hp.
  apply insert_new_spec in Ei as (H1 & H2 & H3); try assumption.
  rewrite nlen_map in H2, Eb.
  assert (Hl : nlen m = nlen old) by (rewrite <- (nlen_perm _ _ Hp); symmetry; apply nlen_map).
  exists t, old, m'. repeat split; try assumption; try reflexivity.
  - lia.
  - apply N.ltb_ge in Eb. lia.
  - intros r Hr. apply (Permutation_in _ (Permutation_sym Hp)) in Hr.
    apply in_map_iff in Hr as [kr [E Hkr]]. apply in_map_iff. exists kr. split; [assumption | auto].
Qed.

(* ---- rejected INSERTs ------------------------------------------------------------------ *)
Theorem exec_insert_err_unknown : forall prof c p ts tn rows,
  find_table ts tn = None -> exec_insert prof c p ts tn rows = Err.
Proof. intros. unfold exec_insert. rewrite H. reflexivity. Qed.

Lemma all_valid_total cols vals : exists b, all_valid cols vals = Ok b.
Proof.
  revert vals; induction cols as [|c cs IH]; intros [|v vs]; simpl; try (eexists; reflexivity).
  destruct (is_valid_value_total c v) as [b ->]. cbn [rbind]. destruct b; [apply IH | eexists; reflexivity].
Qed.
Lemma validate_new_rows_arity t rows r : In r rows -> length r <> length (t_cols t) ->
  validate_new_rows t rows = Err.
Proof.
  induction rows as [|r0 rs IH]; simpl; intros Hin Hl; [tauto|].
  destruct (Nat.eqb (length r0) (length (t_cols t))) eqn:E; simpl; [|reflexivity].
  destruct (all_valid_total (t_cols t) r0) as [b ->]. cbn [rbind]. destruct b; [|reflexivity].
  destruct Hin as [->|Hin]; [|auto]. apply Nat.eqb_eq in E. contradiction.
Qed.
Theorem exec_insert_err_arity : forall prof c p ts tn t rows r,
  find_table ts tn = Some t -> In r rows -> length r <> length (t_cols t) ->
  exec_insert prof c p ts tn rows <> Panic /\ is_ok (exec_insert prof c p ts tn rows) = false.
Proof.
  intros prof c p ts tn t rows r Hf Hin Hl. unfold exec_insert. rewrite Hf. cbn [of_opt rbind].
  rewrite (validate_new_rows_arity t rows r Hin Hl). cbn [rbind is_ok]. split; [discriminate | reflexivity].
Qed.

(* ---- SELECT ------------------------------------------------------------------------------ *)
Lemma cond_holds_ok prof p t cond r b vs :
  row_to_values prof p r = Ok vs -> cond_holds prof p t cond r = Ok b -> holds_v t cond vs = b.
Proof.
  intros Hv Hc. destruct cond as [e|]; simpl in *.
  - rewrite Hv in Hc. cbn [rbind] in Hc.
    destruct (eval (row_env t vs) e) as [v| |]; cbn [rbind] in Hc; try discriminate. congruence.
  - congruence.
Qed.

Theorem filter_rows_spec : forall prof p t cond rows vals out,
  rmapM (row_to_values prof p) rows = Ok vals ->
  filter_rows prof p t cond rows = Ok out ->
  rmapM (row_to_values prof p) out = Ok (filter (holds_v t cond) vals).
Proof.
  intros prof p t cond. induction rows as [|r rs IH]; intros vals out Hv Hf; simpl in Hv, Hf.
  - inversion Hv; inversion Hf; subst. reflexivity.
  - destruct (row_to_values prof p r) as [v| |] eqn:Er; cbn [rbind] in Hv; try discriminate.
    destruct (rmapM (row_to_values prof p) rs) as [vs| |] eqn:Ers; cbn [rbind] in Hv; try discriminate.
    destruct (cond_holds prof p t cond r) as [b| |] eqn:Ec; cbn [rbind] in Hf; try discriminate.
    destruct (filter_rows prof p t cond rs) as [rest| |] eqn:Ef; cbn [rbind] in Hf; try discriminate.
    inversion Hv; inversion Hf; subst. clear Hv Hf.
    specialize (IH vs rest eq_refl eq_refl).
    cbn [filter]. rewrite (cond_holds_ok _ _ _ _ _ _ _ Er Ec).
    destruct b; [|exact IH]. cbn [rmapM]. rewrite Er, IH. reflexivity.
Qed.

Lemma nth_opt_values prof p : forall r i x vs, nth_opt r i = Some x -> row_to_values prof p r = Ok vs ->
  exists v, to_value prof p x = Ok v /\ nth_opt vs i = Some v.
Proof.
  induction r as [|y r IH]; intros i x vs Hn Hv; simpl in Hn, Hv; [destruct i; discriminate|].
  destruct (to_value prof p y) as [v| |] eqn:Ey; cbn [rbind] in Hv; try discriminate.
  destruct (row_to_values prof p r) as [vs'| |] eqn:Er; cbn [rbind] in Hv; try discriminate.
  inversion Hv; subst. destruct i as [|i]; simpl in *.
  - inversion Hn; subst. eauto.
  - eapply IH; eauto.
Qed.

Lemma select_nth_values prof p r vs : row_to_values prof p r = Ok vs ->
  forall idx r', select_nth r idx = Ok r' -> row_to_values prof p r' = Ok (project idx vs).
Proof.
  intro Hv. induction idx as [|i idx IH]; intros r' Hs; simpl in Hs.
  - inversion Hs. reflexivity.
  - destruct (nth_opt r i) as [x|] eqn:En; cbn [unwrap rbind] in Hs; try discriminate.
    destruct (select_nth r idx) as [xs| |]; cbn [rbind] in Hs; try discriminate.
    inversion Hs; subst. destruct (nth_opt_values _ _ _ _ _ _ En Hv) as [v [E1 E2]].
    unfold project. cbn [flat_map row_to_values]. rewrite E1, E2. cbn [rbind].
    fold (project idx vs). rewrite (IH xs eq_refl). reflexivity.
Qed.

Lemma select_rows_values prof p idx : forall rows1 rows2 vs,
  rmapM (fun r => select_nth r idx) rows1 = Ok rows2 ->
  rmapM (row_to_values prof p) rows1 = Ok vs ->
  rmapM (row_to_values prof p) rows2 = Ok (map (project idx) vs).
Proof.
  induction rows1 as [|r rs IH]; intros rows2 vs Hs Hv; simpl in Hs, Hv.
  - inversion Hs; inversion Hv. reflexivity.
  - destruct (select_nth r idx) as [r'| |] eqn:Es; cbn [rbind] in Hs; try discriminate.
    destruct (rmapM (fun r => select_nth r idx) rs) as [rs'| |] eqn:Ers; cbn [rbind] in Hs; try discriminate.
    destruct (row_to_values prof p r) as [v| |] eqn:Er; cbn [rbind] in Hv; try discriminate.
    destruct (rmapM (row_to_values prof p) rs) as [vs'| |] eqn:Evs; cbn [rbind] in Hv; try discriminate.
    inversion Hs; inversion Hv; subst. cbn [rmapM map].
    rewrite (select_nth_values _ _ _ _ Er _ _ Es), (IH _ _ eq_refl eq_refl). reflexivity.
Qed.

Lemma index_of_col_nth cols n : forall i0 i, index_of_col cols n i0 = Some i ->
  exists j c, i = (i0 + j)%nat /\ nth_opt cols j = Some c /\ c_name c = n.
Proof.
  induction cols as [|c cols IH]; intros i0 i H; simpl in H; [discriminate|].
  destruct (str_eqb (c_name c) n) eqn:E.
  - inversion H; subst. apply str_eqb_spec in E. exists 0%nat, c. repeat split; auto.
  - apply IH in H as (j & c' & H1 & H2 & H3). exists (S j), c'. repeat split; auto. lia.
Qed.

Lemma indices_of_names t : forall names idx cols, indices_of t names = Some idx ->
  select_nth (t_cols t) idx = Ok cols -> map c_name cols = names.
Proof.
  induction names as [|n names IH]; intros idx cols Hi Hs; simpl in Hi.
  - inversion Hi; subst. simpl in Hs. inversion Hs. reflexivity.
  - destruct (col_index t n) as [i|] eqn:Ec; try discriminate.
    destruct (indices_of t names) as [is'|]; try discriminate.
    inversion Hi; subst. simpl in Hs.
    apply index_of_col_nth in Ec as (j & c & H1 & H2 & H3). simpl in H1. subst j.
    rewrite H2 in Hs. cbn [unwrap rbind] in Hs.
    destruct (select_nth (t_cols t) is') as [cs| |] eqn:Ecs; cbn [rbind] in Hs; try discriminate.
    inversion Hs; subst. simpl. f_equal. eapply IH; eauto.
Qed.

Lemma indices_of_nil t names : indices_of t names = Some [] -> names = [].
Proof.
  destruct names as [|n names]; simpl; [reflexivity|].
  destruct (col_index t n); [destruct (indices_of t names)|]; discriminate.
Qed.

Theorem select_table_spec : forall prof c p ts tn names cond t' out all t,
  find_table ts tn = Some t ->
  rows_all <- load_rows c t ;; rmapM (row_to_values prof p) rows_all = Ok all ->
  exec_select prof c p ts (Sel (JTable tn) names cond) = Ok (t', out) ->
  exists idx, indices_of t names = Some idx /\
    rmapM (row_to_values prof p) out =
      Ok (map (fun r => match idx with [] => r | _ => project idx r end) (filter (holds_v t cond) all)) /\
    map c_name (t_cols t') = match names with [] => map c_name (t_cols t) | _ => names end.
Proof.
  intros prof c p ts tn names cond t' out all t Hf Hall H.
  cbn [exec_select exec_join] in H. rewrite Hf in H. cbn [of_opt rbind] in H.
  destruct (load_rows c t) as [rows| |]; cbn [rbind] in H, Hall; try discriminate.
  destruct (indices_of t names) as [idx|] eqn:Ei; try discriminate.
  exists idx. split; [reflexivity|].
  destruct (negb (cond_ok t cond)); try discriminate.
  destruct (filter_rows prof p t cond rows) as [rows1| |] eqn:Efl; cbn [rbind] in H; try discriminate.
  pose proof (filter_rows_spec _ _ _ _ _ _ _ Hall Efl) as Hv.
  destruct idx as [|i idx].
  - inversion H; subst. apply indices_of_nil in Ei. subst names. rewrite map_id. auto.
  - destruct (select_nth (t_cols t) (i :: idx)) as [cols| |] eqn:Ec; cbn [rbind] in H; try discriminate.
    destruct (rmapM (fun r => select_nth r (i :: idx)) rows1) as [rows2| |] eqn:Er; cbn [rbind] in H; try discriminate.
    inversion H; subst. split.
    + eapply select_rows_values; eauto.
    + cbn [t_cols]. rewrite (indices_of_names _ _ _ _ Ei Ec).
      destruct names; [discriminate | reflexivity].
Qed.

Lemma read_cell_no_panic ty long b : read_cell ty long b <> Panic.
Proof.
  destruct ty; simpl.
  - destruct (get16 b) as [[w r]|]; discriminate.
  - destruct (get32 b) as [[w r]|]; discriminate.
  - unfold read_ref. destruct (get16 b) as [[lo r]|]; cbn [rbind]; try discriminate.
    destruct long; cbn [rbind]; try discriminate.
    destruct (get8 r) as [[hi r']|]; cbn [rbind]; discriminate.
Qed.
Lemma read_column_no_panic ty long : forall n b, read_column ty long n b <> Panic.
Proof.
  induction n as [|n IH]; intro b; simpl; [discriminate|].
  pose proof (read_cell_no_panic ty long b) as Hc.
  destruct (read_cell ty long b) as [[v r]| |]; cbn [rbind]; try discriminate; try contradiction.
  specialize (IH r). destruct (read_column ty long n r) as [[vs r']| |]; cbn [rbind]; try discriminate; contradiction.
Qed.
Lemma read_columns_no_panic long n : forall cols b, read_columns cols long n b <> Panic.
Proof.
  induction cols as [|c cs IH]; intro b; simpl; [discriminate|].
  pose proof (read_column_no_panic (c_type c) long n b) as Hc.
  destruct (read_column (c_type c) long n b) as [[col r]| |]; cbn [rbind]; try discriminate; try contradiction.
  specialize (IH r). destruct (read_columns cs long n r) as [rest| |]; cbn [rbind]; try discriminate; contradiction.
Qed.
Lemma load_rows_no_panic c t : load_rows c t <> Panic.
Proof.
  unfold load_rows. destruct (ct_find (ct_entries c) (stream_name_of t)) as [b|]; [|discriminate].
  unfold read_rows.
  match goal with |- (if ?x then _ else _) <> _ => destruct x end; [discriminate|].
  match goal with |- (rbind ?x _) <> _ => pose proof (read_columns_no_panic (t_long t) _ (t_cols t) b : x <> Panic) as Hc;
    destruct x end; cbn [rbind]; try discriminate; contradiction.
Qed.

Lemma indices_of_unknown t : forall names, (exists n, In n names /\ has_col t n = false) -> indices_of t names = None.
Proof.
  induction names as [|n names IH]; intros [n0 [Hin Hc]]; simpl in *; [tauto|].
  destruct Hin as [->|Hin].
  - unfold has_col in Hc. destruct (col_index t n0); [discriminate | reflexivity].
  - rewrite IH by eauto. destruct (col_index t n); reflexivity.
Qed.

Theorem select_unknown_column : forall prof c p ts tn names cond t,
  find_table ts tn = Some t -> (exists n, In n names /\ has_col t n = false) ->
  exec_select prof c p ts (Sel (JTable tn) names cond) <> Panic /\
  is_ok (exec_select prof c p ts (Sel (JTable tn) names cond)) = false.
Proof.
  intros prof c p ts tn names cond t Hf Hn.
  cbn [exec_select exec_join]. rewrite Hf. cbn [of_opt rbind].
  pose proof (load_rows_no_panic c t) as Hl.
  destruct (load_rows c t) as [rows| |]; cbn [rbind is_ok]; try contradiction.
  - rewrite (indices_of_unknown t names Hn). split; [discriminate | reflexivity].
  - split; [discriminate | reflexivity].
Qed.

(* ---- JOIN -------------------------------------------------------------------------------- *)
Lemma filter_rows_filter prof p t cond : forall rows out,
  filter_rows prof p t cond rows = Ok out ->
  out = filter (fun r => match cond_holds prof p t cond r with Ok b => b | _ => false end) rows.
Proof.
  induction rows as [|r rs IH]; intros out H; simpl in H.
  - inversion H. reflexivity.
  - destruct (cond_holds prof p t cond r) as [b| |] eqn:Ec; cbn [rbind] in H; try discriminate.
    destruct (filter_rows prof p t cond rs) as [rest| |]; cbn [rbind] in H; try discriminate.
    inversion H; subst. cbn [filter]. rewrite Ec, <- (IH rest eq_refl). destruct b; reflexivity.
Qed.

Theorem join_rows_spec : forall prof p jt on left n2 rows1 rows2 out,
  join_rows prof p jt on left n2 rows1 rows2 = Ok out ->
  out = flat_map (fun r1 =>
          match filter (pair_holds prof p jt on) (map (fun r2 => r1 ++ r2) rows2), left with
          | [], true => [r1 ++ repeat RNull n2]
          | l, _ => l
          end) rows1.
Proof.
  intros prof p jt on left n2. induction rows1 as [|r1 rs1 IH]; intros rows2 out H; simpl in H.
  - inversion H. reflexivity.
  - destruct (filter_rows prof p jt (Some on) (map (fun r2 => r1 ++ r2) rows2)) as [matched| |] eqn:Ef;
      cbn [rbind] in H; try discriminate.
    destruct (join_rows prof p jt on left n2 rs1 rows2) as [rest| |] eqn:Ej; cbn [rbind] in H; try discriminate.
    inversion H; subst. cbn [flat_map]. rewrite <- (IH rows2 rest Ej).
    apply filter_rows_filter in Ef. fold (pair_holds prof p jt on) in Ef. rewrite <- Ef.
    destruct matched, left; reflexivity.
Qed.
