(* ExprText.v -- text form of printed expressions (Display) and a lexer for it.
   The operator spellings come from the source (the TEXT_ constants of GenExpr). *)
From MsiModel Require Import Base Value Expr Language.
From MsiGen Require Import GenExpr.
Open Scope N_scope.

Definition z_decimal (z : Z) : str :=
  match z with
  | Z0 => [48]
  | Zpos p => decimal (Npos p)
  | Zneg p => 45 :: decimal (Npos p)
  end.

(* fmt::Display for Value; strings use {:?}.  Only escape-free strings are in
   scope (C19 quantifies over literals without characters needing escapes):
   a quote or backslash is rendered with a backslash, everything else verbatim. *)
Definition debug_char (c : N) : str :=
  if (c =? 34) || (c =? 92) then [92; c] else [c].
Definition value_text (v : value) : str :=
  match v with
  | VNull => [78; 85; 76; 76]
  | VInt z => z_decimal z
  | VStr s => 34 :: flat_map debug_char s ++ [34]
  end.

Definition binop_text (op : binop) : str :=
  match op with
  | OEq => TEXT_Eq | ONe => TEXT_Ne | OLt => TEXT_Lt | OLe => TEXT_Le | OGt => TEXT_Gt | OGe => TEXT_Ge
  | OAdd => TEXT_Add | OSub => TEXT_Sub | OMul => TEXT_Mul | ODiv => TEXT_Div
  | OBitAnd => TEXT_BitAnd | OBitOr => TEXT_BitOr | OBitXor => TEXT_BitXor
  | OShl => TEXT_Shl | OShr => TEXT_Shr
  end.
Definition tok_text (t : tok) : str :=
  match t with
  | TLit v => value_text v
  | TId s => s
  | TLP => [40]
  | TRP => [41]
  | TUn Neg => TEXT_NEG
  | TUn BitNot => TEXT_BITNOT
  | TUn BoolNot => TEXT_NOT
  | TB BOr => TEXT_OR
  | TB BAnd => TEXT_AND
  | TB (BBin op) => binop_text op
  end.
Definition render (ts : list tok) : str := flat_map tok_text ts.
Definition expr_text (e : ast) : str := render (print 0 e).

(* ---- lexer ------------------------------------------------------------------ *)
Definition is_digit (c : N) : bool := (48 <=? c) && (c <=? 57).
Definition is_alpha (c : N) : bool :=
  ((65 <=? c) && (c <=? 90)) || ((97 <=? c) && (c <=? 122)) || (c =? 95).
Definition is_idchar (c : N) : bool := is_alpha c || is_digit c || (c =? 46).

Fixpoint span (p : N -> bool) (s : str) : str * str :=
  match s with
  | c :: r => if p c then let '(a, b) := span p r in (c :: a, b) else ([], s)
  | [] => ([], [])
  end.
Definition digits_value (ds : str) : Z :=
  fold_left (fun acc d => (acc * 10 + Z.of_N (d - 48))%Z) ds 0%Z.

Definition keyword (w : str) : tok :=
  if str_eqb w [65; 78; 68] then TB BAnd
  else if str_eqb w [79; 82] then TB BOr
  else if str_eqb w [78; 79; 84] then TUn BoolNot
  else if str_eqb w [78; 85; 76; 76] then TLit VNull
  else TId w.

Fixpoint lex (fuel : nat) (s : str) : option (list tok) :=
  match fuel with
  | O => None
  | S f =>
      match s with
      | [] => Some []
      | c :: r =>
          let cons t rest := match lex f rest with Some ts => Some (t :: ts) | None => None end in
          if c =? 32 then lex f r
          else if c =? 40 then cons TLP r
          else if c =? 41 then cons TRP r
          else if c =? 126 then cons (TUn BitNot) r
          else if c =? 45 then
            match r with
            | d :: _ =>
                if is_digit d then
                  let '(ds, rest) := span is_digit r in cons (TLit (VInt (- digits_value ds))) rest
                else if d =? 32 then cons (TB (BBin OSub)) r
                else cons (TUn Neg) r
            | [] => None
            end
          else if is_digit c then
            let '(ds, rest) := span is_digit s in cons (TLit (VInt (digits_value ds))) rest
          else if c =? 34 then
            let '(body, rest) := span (fun x => negb (x =? 34)) r in
            if existsb (fun x => x =? 92) body then None
            else match rest with
                 | _ :: rest' => cons (TLit (VStr body)) rest'
                 | [] => None
                 end
          else if is_alpha c then
            let '(w, rest) := span is_idchar s in cons (keyword w) rest
          else if c =? 61 then cons (TB (BBin OEq)) r
          else if c =? 33 then
            match r with 61 :: r' => cons (TB (BBin ONe)) r' | _ => None end
          else if c =? 60 then
            match r with
            | 61 :: r' => cons (TB (BBin OLe)) r'
            | 60 :: r' => cons (TB (BBin OShl)) r'
            | _ => cons (TB (BBin OLt)) r
            end
          else if c =? 62 then
            match r with
            | 61 :: r' => cons (TB (BBin OGe)) r'
            | 62 :: r' => cons (TB (BBin OShr)) r'
            | _ => cons (TB (BBin OGt)) r
            end
          else if c =? 43 then cons (TB (BBin OAdd)) r
          else if c =? 42 then cons (TB (BBin OMul)) r
          else if c =? 47 then cons (TB (BBin ODiv)) r
          else if c =? 38 then cons (TB (BBin OBitAnd)) r
          else if c =? 124 then cons (TB (BBin OBitOr)) r
          else if c =? 94 then cons (TB (BBin OBitXor)) r
          else None
      end
  end.
Definition lex_text (s : str) : option (list tok) := lex (S (length s)) s.
