(* Language.v -- model of src/internal/language.rs over the generated table. *)
From MsiModel Require Import Base.
From MsiGen Require Import GenLanguage.
Open Scope N_scope.

Definition sub_entry := (N * str)%type.
Definition lang_entry := (N * str * list sub_entry)%type.

(* Language::new(lang, sublang): lang | (sublang << SUBLANG_SHIFT) on u16; the
   shift drops the bits that leave the 16-bit word (no overflow check on the
   value, only on the shift amount, which is the constant 10). *)
Definition mk_code (lang sub : N) : N :=
  N.lor lang ((N.shiftl sub SUBLANG_SHIFT) mod 65536).

(* tag.splitn(2, '-'): first part, and whether a second part exists *)
Fixpoint split_dash (s : str) : str * bool :=
  match s with
  | [] => ([], false)
  | c :: r => if c =? 45 then ([], true)
              else let '(h, d) := split_dash r in (c :: h, d)
  end.

Fixpoint find_sub (tag : str) (subs : list sub_entry) : option N :=
  match subs with
  | [] => None
  | (sc, st) :: r => if str_eqb st tag then Some sc else find_sub tag r
  end.

Fixpoint from_tag_in (tbl : list lang_entry) (tag first : str) (dash : bool) : N :=
  match tbl with
  | [] => mk_code LANG_NEUTRAL SUBLANG_NEUTRAL
  | (lc, lt, subs) :: r =>
      if str_eqb lt first then
        if dash then
          match find_sub tag subs with
          | Some sc => mk_code lc sc
          | None => mk_code lc SUBLANG_FALLBACK
          end
        else mk_code lc SUBLANG_NEUTRAL
      else from_tag_in r tag first dash
  end.

Definition from_tag (tag : str) : N :=
  let '(first, dash) := split_dash tag in from_tag_in LANGUAGES tag first dash.

(* binary_search_by_key on a table sorted by distinct keys = first match
   (sortedness is a proof obligation: LanguageProofs.table_sorted) *)
Fixpoint find_lang (tbl : list lang_entry) (lc : N) : option lang_entry :=
  match tbl with
  | [] => None
  | (c, t, s) :: r => if c =? lc then Some (c, t, s) else find_lang r lc
  end.
Fixpoint find_sub_code (subs : list sub_entry) (sc : N) : option str :=
  match subs with
  | [] => None
  | (c, t) :: r => if c =? sc then Some t else find_sub_code r sc
  end.

Definition und : str := [117; 110; 100].
Definition tag_of (code : N) : str :=
  match find_lang LANGUAGES (N.land code LANG_MASK) with
  | Some (_, lt, subs) =>
      match find_sub_code subs (N.shiftr code SUBLANG_SHIFT) with
      | Some t => t
      | None => lt
      end
  | None => und
  end.

(* Value::from(Language) / Value::from(&[Language]): decimal codes joined by ',' *)
Fixpoint digits_fuel (fuel : nat) (n : N) (acc : str) : str :=
  match fuel with
  | O => acc
  | S f => let acc' := (48 + n mod 10) :: acc in
           if n / 10 =? 0 then acc' else digits_fuel f (n / 10) acc'
  end.
Definition decimal (n : N) : str := digits_fuel 40 n [].
