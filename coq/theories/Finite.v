(* Finite.v -- deciding statements over finite ranges by computation. *)
From MsiModel Require Import Base.
Open Scope N_scope.

Fixpoint nrange_nat (n : nat) : list N :=
  match n with O => [] | S k => nrange_nat k ++ [N.of_nat k] end.
(* tail-recursive variant used for computation *)
Fixpoint nrange_from (k : nat) (start : N) : list N :=
  match k with O => [] | S k' => start :: nrange_from k' (N.succ start) end.
Definition nrange (n : N) : list N := nrange_from (N.to_nat n) 0.

Lemma in_nrange_from k start x :
  In x (nrange_from k start) <-> start <= x < start + N.of_nat k.
Proof.
  revert start; induction k as [|k IH]; intros start; simpl nrange_from.
  - simpl. lia.
  - simpl In. rewrite IH. lia.
Qed.
Lemma in_nrange n x : In x (nrange n) <-> x < n.
Proof. unfold nrange. rewrite in_nrange_from. lia. Qed.

Lemma forall_below (P : N -> bool) (n : N) :
  forallb P (nrange n) = true -> forall x, x < n -> P x = true.
Proof. intros H x Hx. rewrite forallb_forall in H. apply H, in_nrange, Hx. Qed.

(* boolean NoDup on N keys *)
Fixpoint nodupb (l : list N) : bool :=
  match l with
  | [] => true
  | x :: r => negb (existsb (N.eqb x) r) && nodupb r
  end.
Lemma nodupb_NoDup l : nodupb l = true -> NoDup l.
Proof.
  induction l as [|x r IH]; simpl; intros H; constructor.
  - apply andb_true_iff in H as [H _]. intro Hin.
    apply negb_true_iff in H.
    assert (existsb (N.eqb x) r = true) by (apply existsb_exists; exists x; split; [assumption | apply N.eqb_refl]).
    congruence.
  - apply IH. apply andb_true_iff in H as [_ H]; exact H.
Qed.

Lemma NoDup_map_inj {A} (f : A -> N) (l : list A) x y :
  NoDup (map f l) -> In x l -> In y l -> f x = f y -> x = y.
Proof.
  induction l as [|a l IH]; simpl; intros ND Hx Hy E; [contradiction|].
  inversion ND as [|? ? Hn ND']; subst.
  destruct Hx as [->|Hx], Hy as [->|Hy]; auto.
  - exfalso. apply Hn. rewrite E. apply in_map, Hy.
  - exfalso. apply Hn. rewrite <- E. apply in_map, Hx.
Qed.

Lemma NoDup_app_disjoint {A} (l1 l2 : list A) x :
  NoDup (l1 ++ l2) -> In x l1 -> In x l2 -> False.
Proof.
  induction l1 as [|a l1 IH]; simpl; intros ND H1 H2; [contradiction|].
  inversion ND as [|? ? Hn ND']; subst.
  destruct H1 as [->|H1].
  - apply Hn. apply in_or_app. right. exact H2.
  - apply IH; assumption.
Qed.
