(* MiscOpsProofs.v -- the stream operations, the summary mutation wrapper, the property-set setters, re-selecting the
   UTF-8 database code page and save / reopen, all with respect to the package invariant PkgInv2.PInv2.
     write_stream_inv, remove_stream_inv, remove_signature_inv   the container changes only at entries that are no
                                                                table stream, not the pool / data / summary stream
     summary_mut_inv, ps_set_ok, ps_remove_ok                   the summary setters
     set_db_codepage_inv                                        pool_set_cp with the page that is already selected
     reopen_roundtrip2                                          ReopenProofs.reopen_roundtrip for PInv2 *)
From Coq Require Import ZifyBool ZifyNat ZifyN Lia Sorting.Sorted Permutation.
From MsiModel Require Import Base Sexp Value Expr Category Column CodePage Pool Table Container StreamName StreamNameProofs
  Propset Summary Query Package PoolProofs TableProofs QueryProofs DbInv CatalogProofs SummaryProofs PropsetCodecProofs
  PackageProofs PkgInv UpdateRefine PkgInv2 StreamProofs DeleteRefine ReopenLemmas ReopenProofs.
From MsiGen Require Import GenConsts GenCatalog GenStreamName.
Open Scope N_scope.
Arguments N.add : simpl never.
Arguments N.mul : simpl never.
Arguments N.sub : simpl never.

(* ---- goal vocabulary (verbatim from the goal file) -------------------------------------------------------- *)
Definition tables_untouched (prof : profile) (k k' : pkg) : Prop :=
  k_tabs k' = k_tabs k /\ k_pool k' = k_pool k /\ k_type k' = k_type k /\
  (forall e, In e (k_tabs k) -> tvals prof (the_db k') (snd e) = tvals prof (the_db k) (snd e)).

(* ====================================================================== *)
(* the frame lemma                                                         *)
(* ====================================================================== *)
(* ReopenProofs.frame_inv asks for the stream listing to be unchanged and for every entry other than the three saved
   ones to be unchanged; the stream operations change the listing and one other entry.  What the invariant really
   needs: the table streams of the table map read the same, the pool keeps its strings, the new summary is
   well-formed; disk_ok and flags_ok are supplied by the caller. *)
Lemma frame_gen prof k k' :
  PInv2 prof k -> k_type k' = k_type k -> k_tabs k' = k_tabs k ->
  pool_same (k_pool k) (k_pool k') ->
  ps_ok (k_sum k') -> ps_fmtid (k_sum k') = FMTID ->
  (forall e, In e (k_tabs k) ->
     ct_find (ct_entries (k_cont k')) (stream_name_of (snd e)) = ct_find (ct_entries (k_cont k)) (stream_name_of (snd e))) ->
  disk_ok k' -> flags_ok k' ->
  PInv2 prof k' /\
  (forall e, In e (k_tabs k) -> tvals prof (the_db k') (snd e) = tvals prof (the_db k) (snd e)).
Proof.
  intros [HP Hlen] Ety Ets (Pcp & Pst & Plg) Hps' Hfmt' Ffind Hdisk' Hflags'.
  destruct HP as (HInv & Hcp & Hps & Hfmt & Htw & Hcat & Hsv & Hdisk & Hflags).
  assert (Htv : forall e, In e (k_tabs k) -> tvals prof (the_db k') (snd e) = tvals prof (the_db k) (snd e)).
  { intros e He. unfold the_db. apply tvals_frame; [exact Pst | apply Ffind, He]. }
  assert (Hlr : forall e, In e (k_tabs k) -> load_rows (k_cont k') (snd e) = load_rows (k_cont k) (snd e)).
  { intros e He. unfold load_rows. rewrite (Ffind _ He). reflexivity. }
  pose proof Htw as (_ & HfT & HfC & HfV & _).
  split; [|exact Htv]. split.
  - refine (conj _ (conj _ (conj Hps' (conj Hfmt' (conj _ (conj _ (conj _ (conj Hdisk' Hflags')))))))).
    + destruct HInv as (Hwf & Hnd & Htok & Hrc). unfold Inv, the_db in *. cbn [d_pool d_tabs d_cont] in *.
      rewrite Ets. refine (conj _ (conj Hnd (conj _ _))).
      * unfold pool_wf. rewrite Pst. exact Hwf.
      * rewrite Forall_forall in *. intros e He. destruct (Htok e He) as (A & B & C & rows & D & E).
        unfold table_ok. refine (conj A (conj B (conj _ _))); [rewrite Plg; exact C|].
        exists rows. rewrite (Hlr e He). split; assumption.
      * intros r Hr. unfold refcount. rewrite Pst. fold (refcount (k_pool k) r). rewrite (Hrc r Hr). f_equal.
        symmetry. apply all_rows_ext. intros e He. unfold rows_of. rewrite (Hlr e He). reflexivity.
    + rewrite Pcp. exact Hcp.
    + unfold tabs_wf, user_tabs in *. rewrite Ets, Plg. exact Htw.
    + destruct Hcat as (tr & cr & vr & H1 & P1 & H2 & P2 & H3 & P3). exists tr, cr, vr.
      unfold user_tabs in *. rewrite Ets, Plg.
      pose proof (Htv _ (find_table_in _ _ _ HfT)) as E1. pose proof (Htv _ (find_table_in _ _ _ HfC)) as E2.
      pose proof (Htv _ (find_table_in _ _ _ HfV)) as E3. cbn [snd] in E1, E2, E3. rewrite E1, E2, E3.
      repeat split; assumption.
    + unfold tables_sorted_valid in *. rewrite Ets. rewrite Forall_forall in *. intros e He.
      destruct (Hsv e He) as (vals & A & B & C). exists vals. rewrite (Htv e He). repeat split; assumption.
  - unfold pool_len_ok, the_db in *. cbn [d_pool] in *. rewrite Pst, Plg. exact Hlen.
Qed.

Lemma pool_same_refl p : pool_same p p.
Proof. repeat split. Qed.

(* a change of the container alone, at entries that are no table stream and none of the three saved streams *)
Definition quiet (s : str) : Prop :=
  (exists tn, s = sn_encode tn true) \/ s = SUMMARY_INFO_STREAM_NAME.

Lemma cont_only prof k c' :
  PInv2 prof k -> ct_clsid c' = ct_clsid (k_cont k) ->
  (forall s, quiet s -> ct_find (ct_entries c') s = ct_find (ct_entries (k_cont k)) s) ->
  PInv2 prof (with_cont k c') /\ tables_untouched prof k (with_cont k c') /\ k_sum (with_cont k c') = k_sum k.
Proof.
  intros HP Hcl Hq.
  pose proof HP as [(_ & _ & Hps & Hfmt & _ & _ & _ & (Dcl & Dp & Ds) & Hflags) _].
  assert (G : PInv2 prof (with_cont k c') /\
              (forall e, In e (k_tabs k) -> tvals prof (the_db (with_cont k c')) (snd e) = tvals prof (the_db k) (snd e))).
  { apply frame_gen; try reflexivity; try assumption.
    - apply pool_same_refl.
    - intros e _. cbn [with_cont with_cp k_cont]. apply Hq. left. exists (t_name (snd e)). reflexivity.
    - unfold disk_ok. cbn [with_cont with_cp k_cont k_type k_pool k_sum k_sum_mod].
      split; [rewrite Hcl; exact Dcl|]. split.
      + intros Hm. destruct (Dp Hm) as (A & B & C). unfold pool_stream, data_stream in *.
        rewrite !Hq by (left; eexists; reflexivity). repeat split; assumption.
      + intros Hm. destruct (Ds Hm) as (A & B). rewrite Hq by (right; reflexivity). split; assumption. }
  destruct G as [G1 G2]. split; [exact G1|]. split; [|reflexivity].
  unfold tables_untouched. cbn [with_cont with_cp k_tabs k_pool k_type]. repeat split. exact G2.
Qed.

(* ====================================================================== *)
(* write_stream / remove_stream                                            *)
(* ====================================================================== *)
Lemma valid_stream_quiet n s : sn_is_valid n false = true -> quiet s -> name_eqb (sn_encode n false) s = false.
Proof.
  intros V [[tn ->] | ->]; [apply stream_not_table; exact V|].
  apply stream_not_protected; [exact V | left; reflexivity].
Qed.

Lemma noop_inv prof k : PInv2 prof k -> PInv2 prof k /\ tables_untouched prof k k /\ k_sum k = k_sum k.
Proof. intros HP. split; [exact HP|]. split; [|reflexivity]. repeat split. Qed.

Theorem write_stream_inv : forall prof k n b k' r,
  PInv2 prof k -> pkg_write_stream k n b = (k', r) ->
  PInv2 prof k' /\ tables_untouched prof k k' /\ k_sum k' = k_sum k.
Proof.
  intros prof k n b k' r HP H. unfold pkg_write_stream in H.
  destruct (sn_is_valid n false) eqn:V; cbn [negb] in H; inversion H; subst k' r; [|apply noop_inv; exact HP].
  apply cont_only; [exact HP | reflexivity |].
  intros s Hs. rewrite find_write, (valid_stream_quiet n s V Hs). reflexivity.
Qed.

Theorem remove_stream_inv : forall prof k n k' r,
  PInv2 prof k -> pkg_remove_stream k n = (k', r) ->
  PInv2 prof k' /\ tables_untouched prof k k' /\ k_sum k' = k_sum k.
Proof.
  intros prof k n k' r HP H. unfold pkg_remove_stream in H.
  destruct (sn_is_valid n false) eqn:V; cbn [negb] in H; [|inversion H; subst k' r; apply noop_inv; exact HP].
  destruct (ct_remove (k_cont k) (sn_encode n false)) as [c| |] eqn:R; inversion H; subst k' r;
    try (apply noop_inv; exact HP).
  apply cont_only; [exact HP | |].
  - unfold ct_remove in R. destruct (ct_exists (k_cont k) (sn_encode n false)); inversion R. reflexivity.
  - intros s Hs. rewrite (find_remove _ _ _ s R), (valid_stream_quiet n s V Hs). reflexivity.
Qed.

(* ====================================================================== *)
(* remove_signature                                                        *)
(* ====================================================================== *)
Lemma table_stream_not_sig tn :
  name_eqb (sn_encode tn true) DIGITAL_SIGNATURE_STREAM_NAME = false /\
  name_eqb (sn_encode tn true) MSI_DIGITAL_SIGNATURE_EX_STREAM_NAME = false.
Proof.
  split; apply name_eqb_false_iff; unfold sn_encode, name_key; cbn [app map]; intros E; injection E as E1 _;
    vm_compute in E1; discriminate E1.
Qed.

Lemma quiet_not_sig s : quiet s ->
  name_eqb s DIGITAL_SIGNATURE_STREAM_NAME = false /\ name_eqb s MSI_DIGITAL_SIGNATURE_EX_STREAM_NAME = false.
Proof. intros [[tn ->] | ->]; [apply table_stream_not_sig | split; vm_compute; reflexivity]. Qed.

Lemma remove_or_not c n :
  let c' := match ct_remove c n with Ok c' => c' | _ => c end in
  ct_clsid c' = ct_clsid c /\
  (ct_entries c' = ct_entries c \/ ct_entries c' = filter (fun e => negb (name_eqb (fst e) n)) (ct_entries c)).
Proof.
  unfold ct_remove. destruct (ct_exists c n); cbn [ct_clsid ct_entries]; split; auto.
Qed.

(* the entries that removing the signature deletes are compared ignoring ASCII case, the listing skips the special
   names by exact comparison: the two agree when every entry that compares equal to a signature name is spelled
   like one of the special names *)
Definition sig_exact (c : container) : Prop :=
  forall m, In m (ct_names c) ->
    name_eqb m DIGITAL_SIGNATURE_STREAM_NAME = true \/ name_eqb m MSI_DIGITAL_SIGNATURE_EX_STREAM_NAME = true ->
    existsb (str_eqb m) special_names = true.

Lemma names_streams_filter (g : str * bytes -> bool) l :
  (forall e, In e l -> g e = false -> existsb (str_eqb (fst e)) special_names = true) ->
  names_streams (map fst (filter g l)) = names_streams (map fst l).
Proof.
  induction l as [|e l IH]; intros H; [reflexivity|]. cbn [filter].
  assert (IH' : names_streams (map fst (filter g l)) = names_streams (map fst l)).
  { apply IH. intros e' He'. apply H. right. exact He'. }
  destruct (g e) eqn:G.
  - cbn [map]. unfold names_streams in *. cbn [flat_map]. rewrite IH'. reflexivity.
  - cbn [map]. unfold names_streams in *. cbn [flat_map]. rewrite (H e (or_introl eq_refl) G), IH'. reflexivity.
Qed.

Lemma remove_or_not_streams c n :
  (forall m, In m (ct_names c) -> name_eqb m n = true -> existsb (str_eqb m) special_names = true) ->
  let c' := match ct_remove c n with Ok c' => c' | _ => c end in
  names_streams (ct_names c') = names_streams (ct_names c) /\ (forall m, In m (ct_names c') -> In m (ct_names c)).
Proof.
  intros H c'. destruct (remove_or_not c n) as [_ [E | E]]; fold c' in E; unfold ct_names; rewrite E.
  - split; [reflexivity | auto].
  - split.
    + apply names_streams_filter. intros e He G. apply negb_false_iff in G. apply H; [|exact G].
      unfold ct_names. apply in_map. exact He.
    + intros m Hm. apply in_map_iff in Hm as (e & <- & He). apply filter_In in He as [He _]. apply in_map. exact He.
Qed.

(* MODIFIED: the last conjunct (the listing is unchanged) carries the hypothesis [sig_exact (k_cont k)];
   see remove_signature_listing_counterexample below *)
Theorem remove_signature_inv : forall prof k,
  PInv2 prof k -> PInv2 prof (pkg_remove_signature k) /\ tables_untouched prof k (pkg_remove_signature k) /\
  k_sum (pkg_remove_signature k) = k_sum k /\
  (sig_exact (k_cont k) -> pkg_streams (pkg_remove_signature k) = pkg_streams k).
Proof.
  intros prof k HP.
  assert (G : PInv2 prof (pkg_remove_signature k) /\ tables_untouched prof k (pkg_remove_signature k) /\
              k_sum (pkg_remove_signature k) = k_sum k).
  { unfold pkg_remove_signature. cbv zeta. apply cont_only; [exact HP | |].
    - destruct (remove_or_not (k_cont k) DIGITAL_SIGNATURE_STREAM_NAME) as [A _].
      destruct (remove_or_not (match ct_remove (k_cont k) DIGITAL_SIGNATURE_STREAM_NAME with Ok c => c | _ => k_cont k end)
                              MSI_DIGITAL_SIGNATURE_EX_STREAM_NAME) as [B _].
      cbv zeta in A, B. rewrite B. exact A.
    - intros s Hs. destruct (quiet_not_sig s Hs) as [N1 N2].
      exact (remove_signature_frame k s N1 N2). }
  destruct G as (G1 & G2 & G3). refine (conj G1 (conj G2 (conj G3 _))).
  intros Hex. rewrite !pkg_streams_eq. unfold pkg_remove_signature. cbv zeta. cbn [with_cont with_cp k_cont].
  destruct (remove_or_not_streams (k_cont k) DIGITAL_SIGNATURE_STREAM_NAME) as [A1 A2].
  { intros m Hm E. apply (Hex m Hm). left. exact E. }
  cbv zeta in A1, A2.
  destruct (remove_or_not_streams (match ct_remove (k_cont k) DIGITAL_SIGNATURE_STREAM_NAME with Ok c => c | _ => k_cont k end)
                                  MSI_DIGITAL_SIGNATURE_EX_STREAM_NAME) as [B1 _].
  { intros m Hm E. apply (Hex m (A2 m Hm)). right. exact E. }
  cbv zeta in B1. rewrite B1. exact A1.
Qed.

(* ====================================================================== *)
(* the summary                                                             *)
(* ====================================================================== *)
Lemma sum_replaced prof k s' :
  PInv2 prof k -> ps_ok s' -> ps_fmtid s' = FMTID ->
  let k' := mkpkg (k_cont k) (k_type k) s' true (k_pool k) (k_tabs k) true in
  PInv2 prof k' /\ tables_untouched prof k k'.
Proof.
  intros HP Hok Hfmt k'.
  pose proof HP as [(_ & _ & _ & _ & _ & _ & _ & (Dcl & Dp & Ds) & _) _].
  assert (G : PInv2 prof k' /\
              (forall e, In e (k_tabs k) -> tvals prof (the_db k') (snd e) = tvals prof (the_db k) (snd e))).
  { apply frame_gen; try reflexivity; try assumption.
    - apply pool_same_refl.
    - unfold disk_ok, k'. cbn [k_cont k_type k_pool k_sum k_sum_mod].
      split; [exact Dcl|]. split; [exact Dp|]. intros Hm; discriminate Hm.
    - apply fin_flags_ok. reflexivity. }
  destruct G as [G1 G2]. split; [exact G1|]. unfold tables_untouched, k'. cbn [k_tabs k_pool k_type].
  repeat split; try exact G2.
Qed.

Theorem summary_mut_inv : forall prof k f k' r,
  PInv2 prof k ->
  (forall s s', ps_ok s -> ps_fmtid s = FMTID -> f s = Ok s' -> ps_ok s' /\ ps_fmtid s' = FMTID) ->
  pkg_summary_mut k f = (k', r) ->
  PInv2 prof k' /\ tables_untouched prof k k' /\ k_cont k' = k_cont k /\
  (forall s', f (k_sum k) = Ok s' -> k_sum k' = s') /\ (r <> Ok tt -> k_sum k' = k_sum k).
Proof.
  intros prof k f k' r HP Hf H.
  pose proof HP as [(_ & _ & Hps & Hfmt & _) _].
  unfold pkg_summary_mut in H. cbv zeta in H.
  destruct (f (k_sum k)) as [s1| |] eqn:Ef; inversion H; subst k' r; clear H.
  - destruct (Hf _ _ Hps Hfmt Ef) as [Hok1 Hfmt1].
    destruct (sum_replaced prof k s1 HP Hok1 Hfmt1) as [G1 G2]. cbv zeta in G1, G2.
    refine (conj G1 (conj G2 (conj eq_refl (conj _ _)))).
    + intros s' E. inversion E. reflexivity.
    + intros Hne. exfalso. apply Hne. reflexivity.
  - destruct (sum_replaced prof k (k_sum k) HP Hps Hfmt) as [G1 G2]. cbv zeta in G1, G2.
    refine (conj G1 (conj G2 (conj eq_refl (conj _ _)))).
    + intros s' E. discriminate E.
    + intros _. reflexivity.
  - destruct (sum_replaced prof k (k_sum k) HP Hps Hfmt) as [G1 G2]. cbv zeta in G1, G2.
    refine (conj G1 (conj G2 (conj eq_refl (conj _ _)))).
    + intros s' E. discriminate E.
    + intros _. reflexivity.
Qed.

(* ---- ps_set ------------------------------------------------------------------------------------------------ *)
Lemma insert_Forall (P : N * propval -> Prop) k v : P (k, v) -> forall l, Forall P l -> Forall P (ps_insert k v l).
Proof.
  intros Hkv. induction l as [|[k' v'] r IH]; intros Hl; cbn [ps_insert]; [constructor; [exact Hkv | constructor]|].
  inversion Hl as [|? ? H1 H2]; subst.
  destruct (k <? k'); [constructor; assumption|].
  destruct (k =? k'); constructor; auto.
Qed.

Theorem ps_set_ok : forall prof s id v,
  ps_ok s -> id < 4294967296 -> id <> PROPERTY_CODEPAGE -> val_ok v ->
  sizes_ok (ps_set prof s id v) ->
  ps_ok (ps_set prof s id v) /\ ps_fmtid (ps_set prof s id v) = ps_fmtid s.
Proof.
  intros prof s id v (Hcp & Hcc & Hasc & Hvals & Hsz & Hos & Hosv & Hcl & Hfm) Hid Hne Hv Hsz'.
  split; [|reflexivity].
  assert (Ecp : ps_cp (ps_set prof s id v) = ps_cp s) by (apply set_other_keeps_cp; exact Hne).
  unfold ps_ok. refine (conj _ (conj _ (conj _ (conj _ (conj Hsz' _))))).
  - rewrite Ecp. exact Hcp.
  - unfold PropsetCodecProofs.cp_consistent in *. rewrite Ecp.
    replace (ps_props (ps_set prof s id v)) with (ps_insert id v (ps_props s)) by reflexivity.
    rewrite lookup_insert_other by (intros E; apply Hne; symmetry; exact E). exact Hcc.
  - exact (insert_ascending id v (ps_props s) Hid Hasc).
  - replace (ps_props (ps_set prof s id v)) with (ps_insert id v (ps_props s)) by reflexivity.
    apply insert_Forall; assumption.
  - cbn [ps_set ps_os ps_os_version ps_clsid ps_fmtid]. repeat split; assumption.
Qed.

(* ---- ps_remove ---------------------------------------------------------------------------------------------- *)
Lemma nlen_concat_cons {A} (b : list A) t : nlen (List.concat (b :: t)) = nlen b + nlen (List.concat t).
Proof. cbn [List.concat]. unfold nlen. rewrite app_length. lia. Qed.

Lemma omap_filter_le {A B} (W : A -> option (list B)) (g : A -> bool) : forall l enc enc',
  omap W l = Some enc -> omap W (filter g l) = Some enc' ->
  nlen (filter g l) <= nlen l /\ nlen (List.concat enc') <= nlen (List.concat enc).
Proof.
  induction l as [|a l IH]; intros enc enc' H H'.
  - cbn in H, H'. inversion H; inversion H'; subst. unfold nlen. cbn. split; lia.
  - cbn [omap] in H. destruct (W a) as [b|] eqn:Wa; [|discriminate H].
    destruct (omap W l) as [t|] eqn:Ot; [|discriminate H]. inversion H; subst enc; clear H.
    cbn [filter] in *. destruct (g a).
    + cbn [omap] in H'. rewrite Wa in H'. destruct (omap W (filter g l)) as [t'|] eqn:Ot'; [|discriminate H'].
      inversion H'; subst enc'; clear H'. destruct (IH t t' eq_refl eq_refl) as [I1 I2].
      rewrite !nlen_concat_cons. unfold nlen in *. cbn [length]. split; lia.
    + destruct (IH t enc' eq_refl H') as [I1 I2]. rewrite nlen_concat_cons. unfold nlen in *. cbn [length]. split; lia.
Qed.

Theorem ps_remove_ok : forall s id,
  ps_ok s -> id <> PROPERTY_CODEPAGE -> ps_ok (ps_remove s id) /\ ps_fmtid (ps_remove s id) = ps_fmtid s.
Proof.
  intros s id (Hcp & Hcc & Hasc & Hvals & Hsz & Hos & Hosv & Hcl & Hfm) Hne.
  split; [|reflexivity].
  unfold ps_ok, ps_remove. cbn [ps_cp ps_props ps_os ps_os_version ps_clsid ps_fmtid].
  refine (conj Hcp (conj _ (conj _ (conj _ (conj _ (conj Hos (conj Hosv (conj Hcl Hfm)))))))).
  - unfold PropsetCodecProofs.cp_consistent in *. cbn [ps_cp ps_props].
    rewrite lookup_delete_other by (intros E; apply Hne; symmetry; exact E). exact Hcc.
  - exact (delete_ascending id (ps_props s) Hasc).
  - unfold ps_delete. rewrite Forall_forall in *. intros p Hp. apply filter_In in Hp as [Hp _]. exact (Hvals p Hp).
  - unfold sizes_ok in *. cbn [ps_cp ps_props]. intros enc' H'.
    rewrite Hcp in *. destruct (omap_write_utf8 (ps_props s)) as [enc Henc].
    specialize (Hsz enc Henc). unfold ps_delete in *.
    destruct (omap_filter_le _ _ _ _ _ Henc H') as [I1 I2]. lia.
Qed.

(* ====================================================================== *)
(* the database code page                                                  *)
(* ====================================================================== *)
Theorem set_db_codepage_inv : forall prof k,
  PInv2 prof k -> PInv2 prof (pkg_set_db_codepage k cp_utf8) /\
  k_tabs (pkg_set_db_codepage k cp_utf8) = k_tabs k /\ k_cont (pkg_set_db_codepage k cp_utf8) = k_cont k /\
  p_strings (k_pool (pkg_set_db_codepage k cp_utf8)) = p_strings (k_pool k).
Proof.
  intros prof k HP.
  pose proof HP as [(_ & Hcp & Hps & Hfmt & _ & _ & _ & (Dcl & Dp & Ds) & _) _].
  refine (conj _ (conj eq_refl (conj eq_refl eq_refl))).
  apply (frame_gen prof k (pkg_set_db_codepage k cp_utf8)); try reflexivity; try assumption.
  - unfold pkg_set_db_codepage, pool_set_cp, pool_same. cbn [k_pool p_cp p_strings p_long].
    repeat split. symmetry. exact Hcp.
  - unfold disk_ok, pkg_set_db_codepage, pool_set_cp. cbn [k_cont k_type k_pool k_sum k_sum_mod p_mod].
    split; [exact Dcl|]. split; [intros Hm; discriminate Hm | exact Ds].
  - apply fin_flags_ok. reflexivity.
Qed.

(* ====================================================================== *)
(* save / reopen                                                           *)
(* ====================================================================== *)
Theorem reopen_roundtrip2 : forall prof k, PInv2 prof k ->
  exists k1 k2, pkg_flush k = Some k1 /\ pkg_open prof (k_cont k1) = Ok k2 /\
    same_obs prof k k2 /\ PInv2 prof k2 /\ k_cont k2 = k_cont k1 /\ PInv2 prof k1 /\ same_obs prof k k1.
Proof.
  intros prof k [HP Hlen]. destruct (flush_total prof k HP) as (k1 & Hf).
  destruct (open_flushed prof k k1 HP Hf) as (Ho & HP1 & Hobs).
  destruct (flush_spec prof k k1 HP Hf) as (_ & _ & Ep & _).
  assert (HP2 : PInv2 prof k1).
  { split; [exact HP1|]. unfold pool_len_ok, the_db in *. cbn [d_pool] in *. rewrite Ep.
    cbn [pool_mark_unmodified p_strings p_long]. exact Hlen. }
  exists k1, k1. exact (conj Hf (conj Ho (conj Hobs (conj HP2 (conj eq_refl (conj HP2 Hobs)))))).
Qed.

(* ====================================================================== *)
(* why remove_signature_inv needs sig_exact for the listing                *)
(* ====================================================================== *)
(* Any state satisfying the invariant can be extended by one container entry spelled "\005DIGITALSIGNATURE"; the
   invariant still holds (it says nothing about entries that are neither table streams nor the saved streams), the
   listing shows the entry (it is not one of the special names under exact comparison), remove_signature deletes it
   (the container compares ignoring case), so the listing shrinks. *)
Definition sig_upper : str := name_key DIGITAL_SIGNATURE_STREAM_NAME.
Definition add_sig_upper (k : pkg) : pkg :=
  with_cont k (mkct (ct_clsid (k_cont k)) (ct_entries (k_cont k) ++ [(sig_upper, [])])).

Lemma ct_find_app_other l m b s : name_eqb m s = false -> ct_find (l ++ [(m, b)]) s = ct_find l s.
Proof.
  intros H. induction l as [|[m' x] r IH]; cbn [app ct_find]; [rewrite H; reflexivity|].
  rewrite IH. reflexivity.
Qed.
Lemma ct_find_app_same l m b s : name_eqb m s = true -> ct_find (l ++ [(m, b)]) s <> None.
Proof.
  intros H. induction l as [|[m' x] r IH]; cbn [app ct_find]; [rewrite H; discriminate|].
  destruct (name_eqb m' s); [discriminate | exact IH].
Qed.

Lemma quiet_not_sig_upper s : quiet s -> name_eqb sig_upper s = false.
Proof.
  intros [[tn ->] | ->]; [|vm_compute; reflexivity].
  apply name_eqb_false_iff. unfold sn_encode, name_key at 2. cbn [app map]. intros E.
  remember (name_key sig_upper) as q eqn:Eq. vm_compute in Eq. subst q.
  injection E as E1 _. vm_compute in E1. discriminate E1.
Qed.

Lemma names_streams_cons m r : names_streams (m :: r) = names_streams [m] ++ names_streams r.
Proof. unfold names_streams. cbn [flat_map]. rewrite app_nil_r. reflexivity. Qed.

Lemma ns_filter_le (g : str * bytes -> bool) l :
  (length (names_streams (map fst (filter g l))) <= length (names_streams (map fst l)))%nat.
Proof.
  induction l as [|e l IH]; [apply le_n|]. cbn [filter]. destruct (g e); cbn [map].
  - rewrite (names_streams_cons (fst e) (map fst (filter g l))), (names_streams_cons (fst e) (map fst l)), !app_length. lia.
  - rewrite (names_streams_cons (fst e) (map fst l)), app_length. lia.
Qed.
Lemma ns_filter_lt (g : str * bytes -> bool) l e :
  In e l -> g e = false -> names_streams [fst e] <> [] ->
  (length (names_streams (map fst (filter g l))) < length (names_streams (map fst l)))%nat.
Proof.
  intros Hin G Hne. induction l as [|e' l IH]; [destruct Hin|]. cbn [filter]. destruct Hin as [-> | Hin].
  - rewrite G. cbn [map]. rewrite (names_streams_cons (fst e) (map fst l)), app_length. pose proof (ns_filter_le g l).
    destruct (names_streams [fst e]); [exfalso; apply Hne; reflexivity|]. cbn [length]. lia.
  - specialize (IH Hin). destruct (g e'); cbn [map].
    + rewrite (names_streams_cons (fst e') (map fst (filter g l))), (names_streams_cons (fst e') (map fst l)), !app_length. lia.
    + rewrite (names_streams_cons (fst e') (map fst l)), app_length. lia.
Qed.

Theorem remove_signature_listing_counterexample : forall prof k, PInv2 prof k ->
  PInv2 prof (add_sig_upper k) /\
  pkg_streams (pkg_remove_signature (add_sig_upper k)) <> pkg_streams (add_sig_upper k).
Proof.
  intros prof k HP. split.
  - unfold add_sig_upper. apply cont_only; [exact HP | reflexivity |].
    intros s Hs. cbn [ct_entries]. apply ct_find_app_other. apply quiet_not_sig_upper. exact Hs.
  - intros E. apply (f_equal (@length str)) in E. revert E. rewrite !pkg_streams_eq.
    unfold pkg_remove_signature. cbv zeta. cbn [with_cont with_cp k_cont].
    set (c2 := k_cont (add_sig_upper k)).
    assert (Hin : In (sig_upper, []) (ct_entries c2)).
    { unfold c2, add_sig_upper. cbn [with_cont with_cp k_cont ct_entries]. apply in_or_app. right. left. reflexivity. }
    assert (R : ct_remove c2 DIGITAL_SIGNATURE_STREAM_NAME =
                Ok (mkct (ct_clsid c2) (filter (fun e => negb (name_eqb (fst e) DIGITAL_SIGNATURE_STREAM_NAME)) (ct_entries c2)))).
    { unfold ct_remove, ct_exists.
      destruct (ct_find (ct_entries c2) DIGITAL_SIGNATURE_STREAM_NAME) eqn:F; [reflexivity|]. exfalso. revert F.
      unfold c2, add_sig_upper. cbn [with_cont with_cp k_cont ct_entries]. apply ct_find_app_same.
      vm_compute. reflexivity. }
    rewrite R.
    set (c1 := mkct (ct_clsid c2) (filter (fun e => negb (name_eqb (fst e) DIGITAL_SIGNATURE_STREAM_NAME)) (ct_entries c2))).
    assert (L1 : (length (names_streams (ct_names c1)) < length (names_streams (ct_names c2)))%nat).
    { unfold c1, ct_names. cbn [ct_entries]. apply (ns_filter_lt _ _ (sig_upper, [])); [exact Hin | | ].
      - vm_compute. reflexivity.
      - vm_compute. discriminate. }
    assert (L2 : (length (names_streams (ct_names (match ct_remove c1 MSI_DIGITAL_SIGNATURE_EX_STREAM_NAME with Ok c => c | _ => c1 end)))
                  <= length (names_streams (ct_names c1)))%nat).
    { destruct (remove_or_not c1 MSI_DIGITAL_SIGNATURE_EX_STREAM_NAME) as [_ [E | E]]; cbv zeta in E;
        unfold ct_names at 1; rewrite E; [apply le_n | apply ns_filter_le]. }
    lia.
Qed.

(* ====================================================================== *)
(* the goal statements, verbatim, against the theorems                     *)
(* ====================================================================== *)
Module GoalCheck.
Definition G_write_stream_inv : Prop := forall prof k n b k' r,
  PInv2 prof k -> pkg_write_stream k n b = (k', r) ->
  PInv2 prof k' /\ tables_untouched prof k k' /\ k_sum k' = k_sum k.
Definition G_remove_stream_inv : Prop := forall prof k n k' r,
  PInv2 prof k -> pkg_remove_stream k n = (k', r) ->
  PInv2 prof k' /\ tables_untouched prof k k' /\ k_sum k' = k_sum k.
Definition G_summary_mut_inv : Prop := forall prof k f k' r,
  PInv2 prof k ->
  (forall s s', ps_ok s -> ps_fmtid s = FMTID -> f s = Ok s' -> ps_ok s' /\ ps_fmtid s' = FMTID) ->
  pkg_summary_mut k f = (k', r) ->
  PInv2 prof k' /\ tables_untouched prof k k' /\ k_cont k' = k_cont k /\
  (forall s', f (k_sum k) = Ok s' -> k_sum k' = s') /\ (r <> Ok tt -> k_sum k' = k_sum k).
Definition G_ps_set_ok : Prop := forall prof s id v,
  ps_ok s -> id < 4294967296 -> id <> PROPERTY_CODEPAGE -> val_ok v ->
  sizes_ok (ps_set prof s id v) ->
  ps_ok (ps_set prof s id v) /\ ps_fmtid (ps_set prof s id v) = ps_fmtid s.
Definition G_ps_remove_ok : Prop := forall s id,
  ps_ok s -> id <> PROPERTY_CODEPAGE -> ps_ok (ps_remove s id) /\ ps_fmtid (ps_remove s id) = ps_fmtid s.
Definition G_set_db_codepage_inv : Prop := forall prof k,
  PInv2 prof k -> PInv2 prof (pkg_set_db_codepage k cp_utf8) /\
  k_tabs (pkg_set_db_codepage k cp_utf8) = k_tabs k /\ k_cont (pkg_set_db_codepage k cp_utf8) = k_cont k /\
  p_strings (k_pool (pkg_set_db_codepage k cp_utf8)) = p_strings (k_pool k).
Definition G_reopen_roundtrip2 : Prop := forall prof k, PInv2 prof k ->
  exists k1 k2, pkg_flush k = Some k1 /\ pkg_open prof (k_cont k1) = Ok k2 /\
    same_obs prof k k2 /\ PInv2 prof k2 /\ k_cont k2 = k_cont k1 /\ PInv2 prof k1 /\ same_obs prof k k1.
(* as drafted; false (remove_signature_listing_counterexample), proved with sig_exact guarding the last conjunct *)
Definition G_remove_signature_inv : Prop := forall prof k,
  PInv2 prof k -> PInv2 prof (pkg_remove_signature k) /\ tables_untouched prof k (pkg_remove_signature k) /\
  k_sum (pkg_remove_signature k) = k_sum k /\
  (sig_exact (k_cont k) -> pkg_streams (pkg_remove_signature k) = pkg_streams k).

Goal G_write_stream_inv.  Proof. exact write_stream_inv. Qed.
Goal G_remove_stream_inv.  Proof. exact remove_stream_inv. Qed.
Goal G_remove_signature_inv.  Proof. exact remove_signature_inv. Qed.
Goal G_summary_mut_inv.  Proof. exact summary_mut_inv. Qed.
Goal G_ps_set_ok.  Proof. exact ps_set_ok. Qed.
Goal G_ps_remove_ok.  Proof. exact ps_remove_ok. Qed.
Goal G_set_db_codepage_inv.  Proof. exact set_db_codepage_inv. Qed.
Goal G_reopen_roundtrip2.  Proof. exact reopen_roundtrip2. Qed.
End GoalCheck.

Print Assumptions write_stream_inv.
Print Assumptions remove_stream_inv.
Print Assumptions remove_signature_inv.
Print Assumptions remove_signature_listing_counterexample.
Print Assumptions summary_mut_inv.
Print Assumptions ps_set_ok.
Print Assumptions ps_remove_ok.
Print Assumptions set_db_codepage_inv.
Print Assumptions reopen_roundtrip2.
