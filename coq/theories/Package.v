(* Package.v -- model of src/internal/package.rs (and stream.rs): the Package state machine. *)
From MsiModel Require Import Base Sexp Value Expr Category Column CodePage Pool Table Container StreamName
  Propset Summary Query.
From MsiGen Require Import GenConsts GenCatalog GenStreamName GenCategory.
Open Scope N_scope.

Inductive ptype := Installer | Patch | Transform.

Record pkg := mkpkg {
  k_cont : container;
  k_type : ptype;
  k_sum : propset;
  k_sum_mod : bool;
  k_pool : pool;
  k_tabs : tables;
  k_fin : bool;                   (* finisher is Some *)
}.

(* ---- constants from the source -------------------------------------------------------- *)
(* CLSID text "000C1084-0000-0000-C000-000000000046" -> the 16 bytes cfb stores (uuid bytes) *)
Definition clsid_of_text (t : str) : bytes :=
  match hex_pairs (filter (fun c => negb (c =? 45)) t) with Some b => b | None => [] end.
Definition ptype_clsid (t : ptype) : bytes :=
  clsid_of_text (match t with Installer => INSTALLER_PACKAGE_CLSID | Patch => PATCH_PACKAGE_CLSID
                            | Transform => TRANSFORM_PACKAGE_CLSID end).
Definition ptype_of_clsid (b : bytes) : option ptype :=
  if list_eqb N.eqb b (ptype_clsid Installer) then Some Installer
  else if list_eqb N.eqb b (ptype_clsid Patch) then Some Patch
  else if list_eqb N.eqb b (ptype_clsid Transform) then Some Transform
  else None.
Definition default_title (t : ptype) : str :=
  match t with Installer => DEFAULT_TITLE_Installer | Patch => DEFAULT_TITLE_Patch | Transform => DEFAULT_TITLE_Transform end.

Definition column_of_schema (s : schema_col) : column :=
  let '(name, ty, w, pk, nul, rg, cat, en) := s in
  mkcol name (if ty =? 0 then Int16 else if ty =? 1 then Int32 else Str w) false nul pk rg None
        (match cat with Some i => cat_of_ident i | None => None end)
        (match en with
         | SchemaEnumNone => []
         | SchemaEnumList l => l
         | SchemaEnumCategories => map cat_as_str all_categories
         end).
Definition tables_table (long : bool) : table := mktable TABLES_TABLE_NAME (map column_of_schema TABLES_SCHEMA) long.
Definition columns_table (long : bool) : table := mktable COLUMNS_TABLE_NAME (map column_of_schema COLUMNS_SCHEMA) long.
Definition validation_columns : list column := map column_of_schema VALIDATION_SCHEMA.
Definition validation_table (long : bool) : table := mktable VALIDATION_TABLE_NAME validation_columns long.

Definition is_reserved (n : str) : bool := existsb (str_eqb n) RESERVED_TABLE_NAMES.

Definition set_finisher (k : pkg) : pkg :=
  mkpkg (k_cont k) (k_type k) (k_sum k) (k_sum_mod k) (k_pool k) (k_tabs k) true.
Definition with_cp (k : pkg) (c : container) (p : pool) : pkg :=
  mkpkg c (k_type k) (k_sum k) (k_sum_mod k) p (k_tabs k) (k_fin k).
Definition with_tabs (k : pkg) (ts : tables) : pkg :=
  mkpkg (k_cont k) (k_type k) (k_sum k) (k_sum_mod k) (k_pool k) ts (k_fin k).
Definition with_cont (k : pkg) (c : container) : pkg := with_cp k c (k_pool k).

(* ---- DML wrappers: set_finisher, then exec; an error leaves comp/pool as exec left them,
   which for these operations means untouched (every failure precedes the first mutation,
   see QueryProofs) ----------------------------------------------------------------------- *)
Definition op_res (k : pkg) (r : res (container * pool)) : pkg * res unit :=
  match r with
  | Ok (c, p) => (with_cp k c p, Ok tt)
  | Err => (k, Err)
  | Panic => (k, Panic)
  end.
Definition pkg_insert (prof : profile) (k : pkg) (t : str) (rows : list (list value)) : pkg * res unit :=
  let k := set_finisher k in op_res k (exec_insert prof (k_cont k) (k_pool k) (k_tabs k) t rows).
Definition pkg_delete (prof : profile) (k : pkg) (t : str) (cond : option ast) : pkg * res unit :=
  let k := set_finisher k in op_res k (exec_delete prof (k_cont k) (k_pool k) (k_tabs k) t cond).
Definition pkg_update (prof : profile) (k : pkg) (t : str) (ups : list (str * value)) (cond : option ast) : pkg * res unit :=
  let k := set_finisher k in op_res k (exec_update prof (k_cont k) (k_pool k) (k_tabs k) t ups cond).
Definition pkg_select (prof : profile) (k : pkg) (s : sel) : res (table * list (list value)) :=
  '(t, rows) <- exec_select prof (k_cont k) (k_pool k) (k_tabs k) s ;;
  vals <- rmapM (row_to_values prof (k_pool k)) rows ;;
  Ok (t, vals).

(* ---- create_table ---------------------------------------------------------------------- *)
Fixpoint has_dup (l : list str) : bool :=
  match l with [] => false | x :: r => existsb (str_eqb x) r || has_dup r end.
Fixpoint first_dup_or_bad (cols : list column) (seen : list str) : bool :=
  match cols with
  | [] => true
  | c :: r =>
      is_valid_cname (c_name c) && negb (existsb (str_eqb (c_name c)) seen) &&
      (match CREATE_TABLE_MAX_STRING_WIDTH, c_type c with
       | Some lim, Str w => w <=? lim
       | _, _ => true
       end) &&
      (if CREATE_TABLE_CHECKS_ENUM_VALUES
       then negb (existsb (fun v => match v with [] => true | _ => existsb (N.eqb 59) v end) (c_enum c))
       else true) &&
      first_dup_or_bad r (c_name c :: seen)
  end.

Fixpoint enumerate {A} (l : list A) (i : Z) : list (Z * A) :=
  match l with [] => [] | x :: r => (i, x) :: enumerate r (i + 1)%Z end.

Definition columns_rows (tname : str) (cols : list column) : list (list value) :=
  map (fun ic => [VStr tname; VInt (fst ic); VStr (c_name (snd ic)); VInt (col_bits (snd ic))]) (enumerate cols 1%Z).
Definition opt_value {A} (f : A -> value) (o : option A) : value := match o with Some a => f a | None => VNull end.
Definition validation_rows (tname : str) (cols : list column) : list (list value) :=
  map (fun c =>
         [VStr tname; VStr (c_name c); VStr (if c_null c then [89] else [78]);
          opt_value (fun r => VInt (fst r)) (c_range c); opt_value (fun r => VInt (snd r)) (c_range c);
          opt_value (fun f => VStr (fst f)) (c_fk c); opt_value (fun f => VInt (snd f)) (c_fk c);
          opt_value (fun k => VStr (cat_as_str k)) (c_cat c);
          (match c_enum c with [] => VNull | l => VStr (join_sep 59 l) end);
          VNull]) cols.

Definition rows_fit (t : option table) (rows : list (list value)) : res bool :=
  match t with
  | None => Ok true
  | Some t => match validate_new_rows t rows with Ok _ => Ok true | Err => Ok false | Panic => Panic end
  end.

(* a package without a _Validation table has nowhere to record a range, foreign key, category or enumeration
   (cells 3..8 of the validation row): the repaired create_table refuses them (unless it is creating _Validation) *)
Definition needs_validation (vrow : list (list value)) : bool :=
  existsb (fun r => existsb (fun v => match v with VNull => false | _ => true end) (firstn 6 (skipn 3 r))) vrow.
Definition vrows_fit (tname : str) (t : option table) (vrow : list (list value)) : res bool :=
  match t with
  | Some _ => rows_fit t vrow
  | None => Ok (negb (CREATE_TABLE_REFUSES_UNRECORDABLE && negb (str_eqb tname VALIDATION_TABLE_NAME) && needs_validation vrow))
  end.

(* dry == CREATE_TABLE_DRY_RUNS: the repaired create_table first performs every check of the three catalog inserts
   (Insert::check: keys already present, e.g. _Validation rows describing a table that does not exist; a full catalog
   table) so that none of them can be refused once the first has gone through *)
Definition catalog_dry_run (prof : profile) (k : pkg) (name : str) (rows : list (list value)) : res unit :=
  match find_table (k_tabs k) name with
  | Some _ => exec_insert_check prof (k_cont k) (k_pool k) (k_tabs k) name rows
  | None => Ok tt
  end.
Definition pkg_create_table_with (dry : bool) (prof : profile) (k : pkg) (tname : str) (cols : list column) : pkg * res unit :=
  if negb (is_valid_tname tname) then (k, Err)
  else if existsb (str_eqb tname) CREATE_TABLE_EXTRA_RESERVED then (k, Err)
  else match cols with [] => (k, Err) | _ =>
  if MAX_NUM_TABLE_COLUMNS <? nlen cols then (k, Err)
  else if negb (existsb c_pk cols) then (k, Err)
  else if negb (first_dup_or_bad cols []) then (k, Err)
  else match find_table (k_tabs k) tname with Some _ => (k, Err) | None =>
    let crow := columns_rows tname cols in
    let trow := [[VStr tname]] in
    let vrow := validation_rows tname cols in
    (* the catalog tables must be able to describe the table before anything is changed *)
    match rows_fit (find_table (k_tabs k) COLUMNS_TABLE_NAME) crow,
          rows_fit (find_table (k_tabs k) TABLES_TABLE_NAME) trow,
          vrows_fit tname (find_table (k_tabs k) VALIDATION_TABLE_NAME) vrow with
    | Ok true, Ok true, Ok true =>
      match (if dry then (_ <- catalog_dry_run prof k COLUMNS_TABLE_NAME crow ;;
                          _ <- catalog_dry_run prof k TABLES_TABLE_NAME trow ;;
                          catalog_dry_run prof k VALIDATION_TABLE_NAME vrow)
             else Ok tt) with
      | Err => (k, Err)
      | Panic => (k, Panic)
      | Ok _ =>
        let '(k1, r1) := pkg_insert prof k COLUMNS_TABLE_NAME crow in
        match r1 with Ok _ =>
          let '(k2, r2) := pkg_insert prof k1 TABLES_TABLE_NAME trow in
          match r2 with Ok _ =>
            let k3 := with_tabs k2 (tables_insert (k_tabs k2) tname (mktable tname cols (p_long (k_pool k2)))) in
            match find_table (k_tabs k3) VALIDATION_TABLE_NAME with
            | Some _ => pkg_insert prof k3 VALIDATION_TABLE_NAME vrow
            | None => (k3, Ok tt)
            end
          | e => (k2, e) end
        | e => (k1, e) end
      end
    | Panic, _, _ | _, Panic, _ | _, _, Panic => (k, Panic)
    | _, _, _ => (k, Err)
    end
  end end.
Definition pkg_create_table := pkg_create_table_with CREATE_TABLE_DRY_RUNS.

(* ---- drop_table ------------------------------------------------------------------------ *)
Definition table_eq_cond (col : str) (tname : str) : option ast :=
  Some (mk_binop OEq (Col col) (Lit (VStr tname))).
Definition s_Table : str := [84; 97; 98; 108; 101].
Definition s_Name : str := [78; 97; 109; 101].

Definition pkg_drop_table (prof : profile) (k : pkg) (tname : str) : pkg * res unit :=
  if is_reserved tname then (k, Err)
  else if negb (is_valid_tname tname) then (k, Err)
  else match find_table (k_tabs k) tname with None => (k, Err) | Some t =>
    (* release the strings the table's rows hold *)
    let '(k0, r0) := pkg_delete prof k tname None in
    match r0 with Ok _ =>
      let sn := stream_name_of t in
      match (if ct_exists (k_cont k0) sn then ct_remove (k_cont k0) sn else Ok (k_cont k0)) with
      | Ok c1 =>
          let k1 := with_cont k0 c1 in
          let '(k2, r2) := match find_table (k_tabs k1) VALIDATION_TABLE_NAME with
                           | Some _ => pkg_delete prof k1 VALIDATION_TABLE_NAME (table_eq_cond s_Table tname)
                           | None => (set_finisher k1, Ok tt)
                           end in
          match r2 with Ok _ =>
            let '(k3, r3) := pkg_delete prof k2 COLUMNS_TABLE_NAME (table_eq_cond s_Table tname) in
            match r3 with Ok _ =>
              let '(k4, r4) := pkg_delete prof k3 TABLES_TABLE_NAME (table_eq_cond s_Name tname) in
              match r4 with Ok _ => (with_tabs k4 (tables_remove (k_tabs k4) tname), Ok tt) | e => (k4, e) end
            | e => (k3, e) end
          | e => (k2, e) end
      | Err => (k0, Err)
      | Panic => (k0, Panic)
      end
    | e => (k0, e) end
  end.

(* ---- streams ---------------------------------------------------------------------------- *)
Definition special_names : list str :=
  [DIGITAL_SIGNATURE_STREAM_NAME; MSI_DIGITAL_SIGNATURE_EX_STREAM_NAME; SUMMARY_INFO_STREAM_NAME;
   DOCUMENT_SUMMARY_INFO_STREAM_NAME].
(* Streams::next: entries other than the four special ones (exact comparison), decoded, tables skipped *)
Definition pkg_streams (k : pkg) : list str :=
  flat_map (fun n => if existsb (str_eqb n) special_names then []
                     else let '(d, is_table) := sn_decode n in if is_table then [] else [d])
           (ct_names (k_cont k)).
Definition pkg_has_stream (k : pkg) (n : str) : bool :=
  sn_is_valid n false && ct_exists (k_cont k) (sn_encode n false).
Definition pkg_read_stream (k : pkg) (n : str) : res bytes :=
  if negb (sn_is_valid n false) then Err
  else ct_read (k_cont k) (sn_encode n false).
Definition pkg_write_stream (k : pkg) (n : str) (b : bytes) : pkg * res unit :=
  if negb (sn_is_valid n false) then (k, Err)
  else (with_cont k (ct_write (k_cont k) (sn_encode n false) b), Ok tt).
Definition pkg_remove_stream (k : pkg) (n : str) : pkg * res unit :=
  if negb (sn_is_valid n false) then (k, Err)
  else match ct_remove (k_cont k) (sn_encode n false) with
       | Ok c => (with_cont k c, Ok tt)
       | _ => (k, Err)
       end.
Definition pkg_has_signature (k : pkg) : bool := ct_exists (k_cont k) DIGITAL_SIGNATURE_STREAM_NAME.
Definition pkg_remove_signature (k : pkg) : pkg :=
  let c1 := match ct_remove (k_cont k) DIGITAL_SIGNATURE_STREAM_NAME with Ok c => c | _ => k_cont k end in
  let c2 := match ct_remove c1 MSI_DIGITAL_SIGNATURE_EX_STREAM_NAME with Ok c => c | _ => c1 end in
  with_cont k c2.

(* ---- summary / code page ------------------------------------------------------------------ *)
Definition pkg_summary_mut (k : pkg) (f : propset -> res propset) : pkg * res unit :=
  let k1 := mkpkg (k_cont k) (k_type k) (k_sum k) true (k_pool k) (k_tabs k) true in
  match f (k_sum k) with
  | Ok s => (mkpkg (k_cont k) (k_type k) s true (k_pool k) (k_tabs k) true, Ok tt)
  | Err => (k1, Err)
  | Panic => (k1, Panic)
  end.
Definition pkg_set_db_codepage (k : pkg) (cp : codepage) : pkg :=
  mkpkg (k_cont k) (k_type k) (k_sum k) (k_sum_mod k) (pool_set_cp (k_pool k) cp) (k_tabs k) true.

(* ---- finish / flush ------------------------------------------------------------------------ *)
(* FinishImpl::finish; None = a code page outside the model would have to encode *)
Definition pkg_finish (k : pkg) : option pkg :=
  let step1 :=
    if k_sum_mod k then
      match ps_write (k_sum k) with
      | Some b => Some (mkpkg (ct_write (k_cont k) SUMMARY_INFO_STREAM_NAME b) (k_type k) (k_sum k) false (k_pool k) (k_tabs k) (k_fin k))
      | None => None
      end
    else Some k in
  match step1 with
  | None => None
  | Some k1 =>
      if p_mod (k_pool k1) then
        match write_pool (k_pool k1), write_data (k_pool k1) with
        | Some pb, Some db =>
            let c1 := ct_write (k_cont k1) (sn_encode STRING_POOL_TABLE_NAME true) pb in
            let c2 := ct_write c1 (sn_encode STRING_DATA_TABLE_NAME true) db in
            Some (mkpkg c2 (k_type k1) (k_sum k1) (k_sum_mod k1) (pool_mark_unmodified (k_pool k1)) (k_tabs k1) (k_fin k1))
        | _, _ => None
        end
      else Some k1
  end.
(* flush / into_inner / drop: run the finisher if one is set; on an infallible medium the three agree *)
Definition pkg_flush (k : pkg) : option pkg :=
  if k_fin k then
    match pkg_finish (mkpkg (k_cont k) (k_type k) (k_sum k) (k_sum_mod k) (k_pool k) (k_tabs k) false) with
    | Some k' => Some k'
    | None => None
    end
  else Some k.

(* ---- create ----------------------------------------------------------------------------------- *)
Definition pkg_create (prof : profile) (t : ptype) : res pkg :=
  s0 <- summary_new prof ;;
  let s1 := ps_set prof s0 PROPERTY_TITLE (PStr (default_title t)) in
  let pool0 := pool_new (ps_cp s1) in
  let tabs := tables_insert (tables_insert [] TABLES_TABLE_NAME (tables_table false)) COLUMNS_TABLE_NAME (columns_table false) in
  let k0 := mkpkg (mkct (ptype_clsid t) []) t s1 true pool0 tabs false in
  let '(k1, r) := pkg_create_table prof k0 VALIDATION_TABLE_NAME validation_columns in
  _ <- r ;;
  match pkg_flush k1 with Some k2 => Ok k2 | None => Err end.

(* ---- open ---------------------------------------------------------------------------------------- *)
(* a catalog cell of the wrong kind (in practice: null): unwrap() panics, the repaired reader reports InvalidData *)
Definition bad_cell {A} : res A := if OPEN_UNWRAPS_CATALOG_CELLS then Panic else Err.
Definition as_str_v (v : value) : res str := match v with VStr s => Ok s | _ => bad_cell end.
Definition as_int_v (v : value) : res Z := match v with VInt z => Ok z | _ => bad_cell end.

Fixpoint read_table_names (rows : list (list value)) (seen : list str) : res (list str) :=
  match rows with
  | [] => Ok seen
  | r :: rs =>
      v <- unwrap (nth_opt r 0) ;; n <- as_str_v v ;;
      if existsb (str_eqb n) seen then Err else read_table_names rs (seen ++ [n])
  end.

(* columns_map: table -> (index -> (name, bits)) *)
Definition colspec := (Z * str * Z)%type.
Fixpoint read_columns_rows (names : list str) (rows : list (list value)) (acc : list (str * list colspec))
  : res (list (str * list colspec)) :=
  match rows with
  | [] => Ok acc
  | r :: rs =>
      v0 <- unwrap (nth_opt r 0) ;; tn <- as_str_v v0 ;;
      if negb (existsb (str_eqb tn) names) then Err else
      v1 <- unwrap (nth_opt r 1) ;; idx <- as_int_v v1 ;;
      let cur := match find (fun e => str_eqb (fst e) tn) acc with Some e => snd e | None => [] end in
      if existsb (fun s => (fst (fst s) =? idx)%Z) cur then Err else
      v2 <- unwrap (nth_opt r 2) ;; cn <- as_str_v v2 ;;
      v3 <- unwrap (nth_opt r 3) ;; bits <- as_int_v v3 ;;
      let acc' := (tn, cur ++ [(idx, cn, bits)]) :: filter (fun e => negb (str_eqb (fst e) tn)) acc in
      read_columns_rows names rs acc'
  end.

Fixpoint read_validation_rows (rows : list (list value)) (acc : list (str * str * list value))
  : res (list (str * str * list value)) :=
  match rows with
  | [] => Ok acc
  | r :: rs =>
      v0 <- unwrap (nth_opt r 0) ;; tn <- as_str_v v0 ;;
      v1 <- unwrap (nth_opt r 1) ;; cn <- as_str_v v1 ;;
      if existsb (fun e => str_eqb (fst (fst e)) tn && str_eqb (snd (fst e)) cn) acc then Err
      else read_validation_rows rs (acc ++ [(tn, cn, r)])
  end.

Fixpoint insert_spec (s : colspec) (l : list colspec) : list colspec :=
  match l with
  | [] => [s]
  | x :: r => if (fst (fst s) <? fst (fst x))%Z then s :: l else x :: insert_spec s r
  end.
Definition sort_specs (l : list colspec) : list colspec := fold_right insert_spec [] l.

Definition builder_from_validation (cn : str) (v : option (list value)) : res column :=
  let base := mkcol cn Int16 false false false None None None [] in
  match v with
  | None => Ok base
  | Some r =>
      let g i := match nth_opt r i with Some x => x | None => VNull end in
      nul <- as_str_v (g 2%nat) ;;
      rng <- match g 3%nat, g 4%nat with
             | VNull, _ | _, VNull => Ok None
             | a, b => lo <- as_int_v a ;; hi <- as_int_v b ;; Ok (Some (lo, hi))
             end ;;
      fk <- match g 5%nat, g 6%nat with
            | VNull, _ | _, VNull => Ok None
            | a, b => t <- as_str_v a ;; i <- as_int_v b ;; Ok (Some (t, i))
            end ;;
      cat <- match g 7%nat with
             | VNull => Ok None
             | x => s <- as_str_v x ;; Ok (cat_from_str s)
             end ;;
      en <- match g 8%nat with
            | VNull => Ok []
            | x => s <- as_str_v x ;; Ok (split_on 59 s)
            end ;;
      Ok (mkcol cn Int16 false (str_eqb nul [89]) false rng fk cat en)
  end.

Fixpoint build_columns (tn : str) (specs : list colspec) (vals : list (str * str * list value)) : res (list column) :=
  match specs with
  | [] => Ok []
  | (_, cn, bits) :: r =>
      let v := match find (fun e => str_eqb (fst (fst e)) tn && str_eqb (snd (fst e)) cn) vals with
               | Some e => Some (snd e) | None => None end in
      b <- builder_from_validation cn v ;;
      c <- col_with_bits b bits ;;
      cs <- build_columns tn r vals ;;
      Ok (c :: cs)
  end.

Fixpoint build_tables (names : list str) (cmap : list (str * list colspec)) (vals : list (str * str * list value)) (long : bool)
         (acc : tables) : res tables :=
  match names with
  | [] => Ok acc
  | tn :: r =>
      let specs := sort_specs (match find (fun e => str_eqb (fst e) tn) cmap with Some e => snd e | None => [] end) in
      match specs with
      | [] => Err
      | (first, _, _) :: _ =>
          let n := Z.of_nat (length specs) in
          let last := match rev specs with (l, _, _) :: _ => l | [] => 0%Z end in
          if negb ((first =? 1)%Z && (last =? n)%Z) then Err else
          cols <- build_columns tn specs vals ;;
          build_tables r cmap vals long (tables_insert acc tn (mktable tn cols long))
      end
  end.

Definition rows_values (prof : profile) (c : container) (p : pool) (t : table) : res (list (list value)) :=
  rows <- load_rows c t ;; rmapM (row_to_values prof p) rows.

Definition pkg_open (prof : profile) (c : container) : res pkg :=
  t <- of_opt (ptype_of_clsid (ct_clsid c)) ;;
  sb <- ct_read c SUMMARY_INFO_STREAM_NAME ;;
  s <- summary_read sb ;;
  pb <- ct_read c (sn_encode STRING_POOL_TABLE_NAME true) ;;
  db <- ct_read c (sn_encode STRING_DATA_TABLE_NAME true) ;;
  p <- read_pool pb db ;;
  let long := p_long p in
  trows <- rows_values prof c p (tables_table long) ;;
  names <- read_table_names trows [] ;;
  crows <- rows_values prof c p (columns_table long) ;;
  cmap <- read_columns_rows names crows [] ;;
  vrows <- rows_values prof c p (validation_table long) ;;
  vals <- read_validation_rows vrows [] ;;
  let base := tables_insert (tables_insert [] TABLES_TABLE_NAME (tables_table long)) COLUMNS_TABLE_NAME (columns_table long) in
  tabs <- build_tables names cmap vals long base ;;
  Ok (mkpkg c t s false p tabs false).
