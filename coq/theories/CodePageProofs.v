(* CodePageProofs.v -- C14: identifiers, wiring, the encode loop, ASCII / UTF-8. *)
From MsiModel Require Import Base Sexp Finite CodePage.
From MsiGen Require Import GenCodePage.
From Coq Require Import ZifyBool ZifyNat ZifyN.
Open Scope N_scope.

(* ---- identifier lookup and reverse lookup are mutually inverse ----------------- *)
Definition ids_forward_ok : bool :=
  forallb (fun p : str * N => match cp_from_id (Z.of_N (snd p)) with
                              | Some v => str_eqb v (fst p) | None => false end) CP_ID.
Definition ids_backward_ok : bool :=
  forallb (fun p : N * str => (fst p =? 0) || (cp_id (snd p) =? fst p)) CP_FROM_ID.
Lemma ids_forward : ids_forward_ok = true.   Proof. vm_compute. reflexivity. Qed.
Lemma ids_backward : ids_backward_ok = true.  Proof. vm_compute. reflexivity. Qed.

Lemma assoc_N_in k l v : assoc_N k l = Some v -> In (k, v) l.
Proof.
  induction l as [|[a b] r IH]; simpl; [discriminate|].
  destruct (a =? k) eqn:E; [apply N.eqb_eq in E; intros [= <-]; subst; left; reflexivity | intros H; right; apply IH, H].
Qed.

Theorem cp_id_from_id v i : In (v, i) CP_ID -> cp_from_id (Z.of_N i) = Some v.
Proof.
  intros H. pose proof ids_forward as F. unfold ids_forward_ok in F. rewrite forallb_forall in F.
  specialize (F _ H). cbn [fst snd] in F. destruct (cp_from_id (Z.of_N i)) as [v'|]; [|discriminate].
  apply str_eqb_spec in F. subst. reflexivity.
Qed.
Theorem cp_from_id_id i v : (i <> 0)%Z -> cp_from_id i = Some v -> Z.of_N (cp_id v) = i.
Proof.
  unfold cp_from_id. intros Hi H. destruct (i <? 0)%Z eqn:E; [discriminate|].
  apply assoc_N_in in H. pose proof ids_backward as B. unfold ids_backward_ok in B. rewrite forallb_forall in B.
  specialize (B _ H). cbn [fst snd] in B. apply orb_true_iff in B as [B|B]; apply N.eqb_eq in B; lia.
Qed.
Theorem cp_zero_is_utf8 : cp_from_id 0 = Some cp_utf8.
Proof. reflexivity. Qed.

(* ---- each code page is wired to the encoding its identifier names (SPEC list) -- *)
Open Scope string_scope.
Definition reference_wiring : list (N * string) :=
  [ (932, "SHIFT_JIS"); (936, "GBK"); (949, "EUC_KR"); (950, "BIG5"); (951, "BIG5");
    (1250, "WINDOWS_1250"); (1251, "WINDOWS_1251"); (1252, "WINDOWS_1252"); (1253, "WINDOWS_1253");
    (1254, "WINDOWS_1254"); (1255, "WINDOWS_1255"); (1256, "WINDOWS_1256"); (1257, "WINDOWS_1257");
    (1258, "WINDOWS_1258"); (10000, "MACINTOSH"); (10007, "X_MAC_CYRILLIC");
    (28591, "WINDOWS_1252")   (* WHATWG: ISO-8859-1 is served by windows-1252 in encoding_rs *);
    (28592, "ISO_8859_2"); (28593, "ISO_8859_3"); (28594, "ISO_8859_4"); (28595, "ISO_8859_5");
    (28596, "ISO_8859_6"); (28597, "ISO_8859_7"); (28598, "ISO_8859_8"); (65001, "UTF_8") ]%N.
Close Scope string_scope.
Definition wiring_ok : bool :=
  forallb (fun p : N * string =>
             match cp_from_id (Z.of_N (fst p)) with
             | Some v => match cp_encoding_label v with
                         | Some l => str_eqb l (str_of_string (snd p))
                         | None => false
                         end
             | None => false
             end) reference_wiring
  && (length CP_ENCODING =? 25)%nat.
Theorem cp_wiring : wiring_ok = true.
Proof. vm_compute. reflexivity. Qed.

(* decoding does not treat any prefix specially *)
Theorem cp_no_bom_sniffing : CP_DECODE_SNIFFS_BOM = false.
Proof. reflexivity. Qed.
Theorem cp_loop_constants : CP_ENCODE_BUFFER = 1024 /\ CP_REPLACEMENT = 63.
Proof. split; reflexivity. Qed.

(* ---- the encode loop = per-character concatenation, for every length ------------ *)
Section LoopLaw.
  Variable enc1 : N -> option bytes.
  Variable room : N.
  Hypothesis room_pos : 0 < room.
  Hypothesis room_fits : room <= CP_ENCODE_BUFFER.
  Hypothesis enc1_small : forall c bs, enc1 c = Some bs -> nlen bs <= room.

  Definition tail_of (res : enc_result) (rest : str) : bytes :=
    match res with
    | InputEmpty => []
    | OutputFull => flat_map (enc_char enc1) rest
    | Unmappable => CP_REPLACEMENT :: flat_map (enc_char enc1) rest
    end.

  Lemma enc_call_spec s avail :
    let '(res, rest, out) := enc_call enc1 room s avail in
    flat_map (enc_char enc1) s = out ++ tail_of res rest /\
    (length rest <= length s)%nat /\
    (res = InputEmpty -> rest = []) /\
    (res <> InputEmpty -> room <= avail -> (length rest < length s)%nat).
  Proof.
    revert avail. induction s as [|c r IH]; intros avail; cbn [enc_call].
    - split; [reflexivity|]. split; [apply Nat.le_refl|]. split; [reflexivity|]. intros H; congruence.
    - destruct (avail <? room) eqn:E.
      + split; [reflexivity|]. split; [apply Nat.le_refl|]. split; [discriminate|]. intros _ H; lia.
      + destruct (enc1 c) as [bs|] eqn:Ec.
        * specialize (IH (avail - nlen bs)).
          destruct (enc_call enc1 room r (avail - nlen bs)) as [[res rest] out].
          destruct IH as (I1 & I2 & I3 & I4).
          split.
          { cbn [flat_map]. unfold enc_char at 1. rewrite Ec. rewrite I1, app_assoc. reflexivity. }
          split; [cbn [length]; lia|]. split; [exact I3|].
          intros Hne Hr. cbn [length].
          destruct res; [congruence | |]; lia.
        * split.
          { cbn [flat_map tail_of]. unfold enc_char at 1. rewrite Ec. reflexivity. }
          split; [cbn [length]; lia|]. split; [discriminate|]. intros _ _. cbn [length]. lia.
  Qed.

  Theorem enc_loop_law fuel s : (length s < fuel)%nat ->
    enc_loop enc1 room fuel s = Some (flat_map (enc_char enc1) s).
  Proof.
    revert s. induction fuel as [|f IH]; intros s Hf; [lia|].
    simpl. pose proof (enc_call_spec s CP_ENCODE_BUFFER) as Hs.
    destruct (enc_call enc1 room s CP_ENCODE_BUFFER) as [[res rest] out].
    destruct Hs as (H1 & H2 & H3 & H4).
    destruct res.
    - rewrite H1. simpl. rewrite app_nil_r. reflexivity.
    - rewrite IH by (specialize (H4 ltac:(discriminate) room_fits); lia).
      simpl. rewrite H1. reflexivity.
    - rewrite IH by (specialize (H4 ltac:(discriminate) room_fits); lia).
      simpl. rewrite H1. reflexivity.
  Qed.
End LoopLaw.

(* non-vacuity: a toy encoder (Latin-1) satisfies the contract *)
Example loop_contract_met :
  let enc1 := fun c => if c <? 256 then Some [c] else None in
  (0 < 4) /\ (4 <= CP_ENCODE_BUFFER) /\ (forall c bs, enc1 c = Some bs -> nlen bs <= 4) /\
  enc_loop enc1 4 4 [97; 8364; 98] = Some [97; 63; 98].
Proof.
  split; [reflexivity|]. split; [vm_compute; discriminate|]. split; [|reflexivity].
  intros c bs. destruct (c <? 256); [intros [= <-]; vm_compute; discriminate | discriminate].
Qed.

(* ---- US-ASCII ------------------------------------------------------------------------ *)
Theorem ascii_char_law c : ascii_encode [c] = [c] /\ c < 128 \/ ascii_encode [c] = [63].
Proof. unfold ascii_encode. simpl. destruct (c <? 128) eqn:E; [left; split; [reflexivity | lia] | right; reflexivity]. Qed.
Theorem ascii_concat s : ascii_encode s = flat_map (fun c => ascii_encode [c]) s.
Proof. unfold ascii_encode. induction s as [|c r IH]; [reflexivity|]. simpl in *. rewrite <- IH. reflexivity. Qed.
Theorem ascii_roundtrip s : Forall (fun c => c < 128) s -> ascii_decode (ascii_encode s) = s.
Proof.
  induction 1 as [|c r Hc _ IH]; [reflexivity|]. simpl.
  destruct (c <? 128) eqn:E; [|lia]. rewrite E. f_equal. exact IH.
Qed.

(* ---- UTF-8: decoding what was encoded gives the string back ---------------------------- *)
Ltac Zify.zify_post_hook ::= Z.div_mod_to_equations.
Arguments N.add : simpl never.
Arguments N.mul : simpl never.
Arguments N.div : simpl never.
Arguments N.modulo : simpl never.

Lemma u8_first_ascii b : b < 128 -> u8_first b = ([b], u8_init).
Proof. intros H. unfold u8_first. destruct (b <? 128) eqn:E; [reflexivity | lia]. Qed.
Lemma u8_first_2 b : 194 <= b <= 223 ->
  u8_first b = ([], {| need := 1; seen := 0; cp := b mod 32; lo := 128; hi := 191 |}).
Proof.
  intros H. unfold u8_first. destruct (b <? 128) eqn:E; [lia|].
  destruct ((194 <=? b) && (b <=? 223)) eqn:E2; [reflexivity | lia].
Qed.
Lemma u8_first_3 b : 224 <= b <= 239 ->
  u8_first b = ([], {| need := 2; seen := 0; cp := b mod 16;
                       lo := if b =? 224 then 160 else 128; hi := if b =? 237 then 159 else 191 |}).
Proof.
  intros H. unfold u8_first. destruct (b <? 128) eqn:E; [lia|].
  destruct ((194 <=? b) && (b <=? 223)) eqn:E2; [lia|].
  destruct ((224 <=? b) && (b <=? 239)) eqn:E3; [reflexivity | lia].
Qed.
Lemma u8_first_4 b : 240 <= b <= 244 ->
  u8_first b = ([], {| need := 3; seen := 0; cp := b mod 8;
                       lo := if b =? 240 then 144 else 128; hi := if b =? 244 then 143 else 191 |}).
Proof.
  intros H. unfold u8_first. destruct (b <? 128) eqn:E; [lia|].
  destruct ((194 <=? b) && (b <=? 223)) eqn:E2; [lia|].
  destruct ((224 <=? b) && (b <=? 239)) eqn:E3; [lia|].
  destruct ((240 <=? b) && (b <=? 244)) eqn:E4; [reflexivity | lia].
Qed.
Lemma u8_cont st b : need st <> 0 -> lo st <= b <= hi st ->
  u8_step st b =
    if seen st + 1 =? need st then ([cp st * 64 + b mod 64], u8_init)
    else ([], {| need := need st; seen := seen st + 1; cp := cp st * 64 + b mod 64; lo := 128; hi := 191 |}).
Proof.
  intros Hn Hb. unfold u8_step. destruct (need st =? 0) eqn:E; [lia|].
  destruct ((lo st <=? b) && (b <=? hi st)) eqn:E2; [reflexivity | lia].
Qed.
Lemma u8_cont_last st b : need st <> 0 -> lo st <= b <= hi st -> seen st + 1 = need st ->
  u8_step st b = ([cp st * 64 + b mod 64], u8_init).
Proof. intros Hn Hb Hs. rewrite u8_cont by assumption. destruct (seen st + 1 =? need st) eqn:E; [reflexivity | lia]. Qed.
Lemma u8_cont_more st b : need st <> 0 -> lo st <= b <= hi st -> seen st + 1 <> need st ->
  u8_step st b = ([], {| need := need st; seen := seen st + 1; cp := cp st * 64 + b mod 64; lo := 128; hi := 191 |}).
Proof. intros Hn Hb Hs. rewrite u8_cont by assumption. destruct (seen st + 1 =? need st) eqn:E; [lia | reflexivity]. Qed.
Lemma u8_step_init b : u8_step u8_init b = u8_first b.
Proof. reflexivity. Qed.

Lemma u8_char c rest : is_scalar c = true ->
  u8_run u8_init (utf8_enc1 c ++ rest) = c :: u8_run u8_init rest.
Proof.
  unfold is_scalar. intros Hs. unfold utf8_enc1.
  destruct (c <? 128) eqn:E1.
  - cbn [app u8_run]. rewrite u8_step_init, u8_first_ascii by lia. reflexivity.
  - destruct (c <? 2048) eqn:E2.
    + cbn [app u8_run]. rewrite u8_step_init, u8_first_2 by lia. cbn [app u8_run].
      rewrite u8_cont_last by (cbn [need lo hi seen]; lia). cbn [cp app].
      replace ((192 + c / 64) mod 32 * 64 + (128 + c mod 64) mod 64) with c by lia. reflexivity.
    + destruct (c <? 65536) eqn:E3.
      * cbn [app u8_run]. rewrite u8_step_init, u8_first_3 by lia. cbn [app u8_run].
        rewrite u8_cont_more.
        2: { cbn [need]. lia. }
        2: { cbn [lo hi]. destruct (224 + c / 4096 =? 224) eqn:A; destruct (224 + c / 4096 =? 237) eqn:B; lia. }
        2: { cbn [need seen]. lia. }
        cbn [seen need cp app u8_run].
        rewrite u8_cont_last by (cbn [need lo hi seen]; lia). cbn [cp app].
        replace (((224 + c / 4096) mod 16 * 64 + (128 + c / 64 mod 64) mod 64) * 64 + (128 + c mod 64) mod 64) with c by lia.
        reflexivity.
      * cbn [app u8_run]. rewrite u8_step_init, u8_first_4 by lia. cbn [app u8_run].
        rewrite u8_cont_more.
        2: { cbn [need]. lia. }
        2: { cbn [lo hi]. destruct (240 + c / 262144 =? 240) eqn:A; destruct (240 + c / 262144 =? 244) eqn:B; lia. }
        2: { cbn [need seen]. lia. }
        cbn [seen need cp app u8_run].
        rewrite u8_cont_more by (cbn [need lo hi seen]; lia). cbn [seen need cp app u8_run].
        rewrite u8_cont_last by (cbn [need lo hi seen]; lia). cbn [cp app].
        replace ((((240 + c / 262144) mod 8 * 64 + (128 + c / 4096 mod 64) mod 64) * 64 + (128 + c / 64 mod 64) mod 64) * 64
                 + (128 + c mod 64) mod 64) with c by lia.
        reflexivity.
Qed.

Theorem utf8_roundtrip s : forallb is_scalar s = true -> utf8_decode (utf8_enc s) = s.
Proof.
  unfold utf8_decode, utf8_enc. induction s as [|c r IH]; intros H; [reflexivity|].
  simpl in H. apply andb_true_iff in H as [Hc Hr]. cbn [flat_map].
  rewrite u8_char by exact Hc. f_equal. apply IH, Hr.
Qed.

(* decoding accepts any bytes: utf8_decode and ascii_decode are total functions
   (plain Gallina functions into str); every decoded character is a scalar value *)
