(* CodecPagesSpec.v -- the string pool codec and the property-set codec under a single-byte code page:
   vocabulary and statements (proofs in CodecPages.v).  The UTF-8 versions are PoolProofs.pool_roundtrip and
   PropsetCodecProofs.ps_roundtrip; these are the same statements with the code page a parameter. *)
From MsiModel Require Import Base CodePage CodePageProofs SingleByteSpec SingleByteProofs Pool PoolProofs Propset PropsetCodecProofs.
From MsiGen Require Import GenCodePage GenSingleByte GenConsts.
Open Scope N_scope.

(* c is one of the single-byte pages, t its (well-formed) index table *)
Definition cp_single (c : codepage) (t : list N) : Prop :=
  sb_table c = Some t /\ sb_table_ok t = true /\ str_eqb c cp_ascii = false /\ str_eqb c cp_utf8 = false.

(* pool entries whose text is representable in the page *)
Definition entry_wf_sb (t : list N) (e : str * N) : Prop :=
  snd e < 65536 /\ (snd e = 0 <-> fst e = []) /\ Forall (sb_repr t) (fst e) /\ nlen (fst e) < 4294967296.
Definition pool_wf_sb (t : list N) (p : pool) : Prop := Forall (entry_wf_sb t) (p_strings p).

Definition G_pool_roundtrip_sb : Prop := forall (p : pool) (c : codepage) (t : list N),
  cp_single c t -> p_cp p = c -> pool_wf_sb t p ->
  exists pb db : bytes, write_pool p = Some pb /\ write_data p = Some db /\ read_pool pb db = Ok (pool_mark_unmodified p).

(* the length recorded for an entry is the length of its ENCODED text: one byte per character on these pages *)
Definition G_sb_encoded_length : Prop := forall t s, nlen (sb_encode t s) = nlen s.

(* property sets *)
Definition val_ok_sb (t : list N) (v : propval) : Prop :=
  match v with
  | PStr s => Forall (sb_repr t) s /\ nlen s + 1 < 4294967296
  | _ => val_ok v
  end.
Definition ps_ok_sb (t : list N) (ps : propset) : Prop :=
  cp_single (ps_cp ps) t /\ cp_consistent ps /\ ids_ascending (ps_props ps) /\ Forall (fun p => val_ok_sb t (snd p)) (ps_props ps) /\
  sizes_ok ps /\ ps_os ps <= 2 /\ ps_os_version ps < 65536 /\
  length (ps_clsid ps) = 16%nat /\ length (ps_fmtid ps) = 16%nat.
Definition G_ps_roundtrip_sb : Prop := forall (t : list N) (ps : propset),
  ps_ok_sb t ps -> exists b : bytes, ps_write ps = Some b /\ ps_read b = Ok ps.

(* non-vacuity: a Windows-1252 pool and a Windows-1252 property set with non-ASCII text *)
Definition G_codec_pages_example : Prop :=
  exists t, cp_single cp_1252 t /\
    pool_wf_sb t {| p_cp := cp_1252; p_strings := [([233; 8364; 65], 2); ([], 0); ([255; 254], 1)]; p_long := false; p_mod := false |} /\
    ps_ok_sb t {| ps_os := 2; ps_os_version := 10; ps_clsid := repeat 0 16; ps_fmtid := FMTID; ps_cp := cp_1252;
                  ps_props := [(1, PI2 1252%Z); (2, PStr [233; 8364]); (4, PStr [255; 254; 65])] |}.
