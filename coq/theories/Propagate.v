(* Propagate.v -- a call that performs several fallible container operations in a row.  Written `a()?; b()?; Ok(())`
   it reports success only if every operation succeeded; written "run them all, return the last result" it does not.
   Which of the two shapes Package::remove_digital_signature has is regenerated from the source
   (MsiGen.GenIo.IO_REMOVE_SIG_PROPAGATES); that summary_info_mut marks the summary modified and arms the deferred save on
   every call is MsiGen.GenIo.SUMMARY_MUT_ARMS. *)
From MsiModel Require Import Base Container Package.
From MsiGen Require Import GenIo.

Definition seq_result (propagates : bool) (rs : list bool) : bool :=
  if propagates then forallb (fun b => b) rs else last rs true.

Theorem seq_propagates_all : forall rs, seq_result true rs = true -> Forall (fun b => b = true) rs.
Proof.
  intros rs H. cbn [seq_result] in H. apply Forall_forall. intros b Hb.
  exact (proj1 (forallb_forall _ _) H b Hb).
Qed.
Theorem seq_keep_last_refuted : exists rs, seq_result false rs = true /\ ~ Forall (fun b => b = true) rs.
Proof.
  exists [false; true]. split; [reflexivity|]. intros H. inversion H; discriminate.
Qed.
Theorem remove_sig_reports_every_failure :
  forall rs, seq_result IO_REMOVE_SIG_PROPAGATES rs = true -> Forall (fun b => b = true) rs.
Proof. exact seq_propagates_all. Qed.

(* whatever state the package is in -- also one that a failed save left behind (summary still marked modified, deferred
   save already consumed) -- a summary change leaves it marked and armed *)
Theorem summary_mut_arms : forall k f,
  k_fin (fst (pkg_summary_mut k f)) = true /\ k_sum_mod (fst (pkg_summary_mut k f)) = true.
Proof. intros k f. unfold pkg_summary_mut. destruct (f (k_sum k)); split; reflexivity. Qed.
Theorem summary_mut_arms_now : SUMMARY_MUT_ARMS = true.
Proof. reflexivity. Qed.
