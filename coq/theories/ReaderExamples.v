(* ReaderExamples.v -- RInv (ReaderProofs.v) is inhabited outside the library's own canonical form: a hand-made
   container with long (3-byte) string references, no _Validation table, a pool with a stale entry (text, count 0),
   an empty unused entry, a duplicate string and over-counted references, and the _Columns rows in descending order.
   It satisfies RInv, does not satisfy PInv, and pkg_open reads it exactly (by open_encoded, and again by evaluation). *)
From Coq Require Import ZifyBool ZifyNat ZifyN Lia Sorting.Sorted Permutation.
From MsiModel Require Import Base Sexp Value Expr Category Column ColumnProofs CodePage Pool Table Container StreamName
  Propset Summary Query Package PoolProofs TableProofs QueryProofs DbInv CatalogProofs PropsetCodecProofs PackageProofs
  PkgInv PkgInv2 ReopenLemmas ReopenProofs CreateTableProofs CreateTableCex ReaderProofs.
From MsiGen Require Import GenConsts GenCatalog GenStreamName.
Open Scope N_scope.

Definition sT : str := [84].
Definition sA : str := [65].
Definition sB : str := [66].
Definition colA : column := mkcol sA Int16 false false true None None None [].
Definition colB : column := mkcol sB (Str 20) true true false None None None [].
Definition tabT : table := mktable sT [colA; colB] true.

Definition px : pool :=
  mkpool cp_utf8
    [ (sT, 5);                              (* 1: used 3 times, counted 5 *)
      ([115; 116; 97; 108; 101], 0);        (* 2: unused, still holding stale text *)
      (sB, 1);                              (* 3 *)
      ([], 0);                              (* 4: unused, empty *)
      (sA, 1);                              (* 5 *)
      (sA, 7) ]                             (* 6: duplicate of 5 *)
    true false.

Definition bytes_of (r : res bytes) : bytes := match r with Ok b => b | _ => [] end.
Definition some_of (o : option bytes) : bytes := match o with Some b => b | None => [] end.

Definition sumx : propset := k_sum kc.
Definition contx : container :=
  mkct (ptype_clsid Patch)
    [ (sn_encode COLUMNS_TABLE_NAME true,
         bytes_of (write_rows Debug (columns_table true)
                     [ [RStr 1; RInt 2; RStr 3; RInt (col_bits colB)];        (* column 2 first *)
                       [RStr 1; RInt 1; RStr 5; RInt (col_bits colA)] ]));
      (data_stream, some_of (write_data px));
      (sn_encode sT true, bytes_of (write_rows Debug tabT [[RInt 7; RStr 6]]));
      (SUMMARY_INFO_STREAM_NAME, some_of (ps_write sumx));
      (pool_stream, some_of (write_pool px));
      (sn_encode TABLES_TABLE_NAME true, bytes_of (write_rows Debug (tables_table true) [[RStr 1]])) ].
Definition kx : pkg :=
  mkpkg contx Patch sumx false px
    [ (sT, tabT); (COLUMNS_TABLE_NAME, columns_table true); (TABLES_TABLE_NAME, tables_table true) ] false.

Lemma user_tabs_kx : user_tabs kx = [(sT, tabT)].
Proof. vm_compute. reflexivity. Qed.
Lemma has_validation_kx : has_validation kx = false.
Proof. vm_compute. reflexivity. Qed.

Lemma kx_encoded : forall prof, RInv prof kx.
Proof.
  intros prof.
  assert (Hsum : ps_ok (k_sum kx) /\ ps_fmtid (k_sum kx) = FMTID).
  { pose proof (create_inv Release Installer kc kc_ok) as ((_ & _ & Hps & Hfmt & _) & _). split; assumption. }
  refine (conj _ (conj (proj1 Hsum) (conj (proj2 Hsum) (conj _ (conj _ _))))); clear Hsum.
  - split; [|split; reflexivity]. cbn [kx k_pool px p_strings].
    repeat (constructor;
            [split; [vm_compute; reflexivity
                    | split; [intros E; first [discriminate E | reflexivity] | split; vm_compute; reflexivity]]|]).
    constructor.
  - refine (conj _ (conj eq_refl (conj eq_refl (conj _ (conj _ _))))).
    + repeat constructor.
    + intros t H. vm_compute in H. discriminate H.
    + repeat (constructor; [split; [discriminate | reflexivity]|]). constructor.
    + rewrite user_tabs_kx. constructor; [|constructor]. cbn [snd tabT t_cols].
      split; [discriminate|]. split; [|split].
      * repeat (constructor; [unfold col_storable; cbn; repeat split; try discriminate; try constructor|]). constructor.
      * cbn [map colA colB c_name]. constructor; [intros [H|[]]; discriminate H|]. constructor; [intros []|constructor].
      * intros _. repeat constructor.
  - exists [[VStr sT]], [[VStr sT; VInt 2; VStr sB; VInt (col_bits colB)]; [VStr sT; VInt 1; VStr sA; VInt (col_bits colA)]].
    split; [destruct prof; vm_compute; reflexivity|]. split; [rewrite user_tabs_kx; apply Permutation_refl|].
    split; [destruct prof; vm_compute; reflexivity|]. split; [rewrite user_tabs_kx; vm_compute; apply perm_swap|].
    split; [rewrite has_validation_kx; discriminate|]. intros _. vm_compute. reflexivity.
  - refine (conj _ (conj _ (conj _ (conj _ (conj eq_refl eq_refl))))); vm_compute; reflexivity.
Qed.

(* the example is not a state the library's own invariant describes: there is no _Validation table *)
Lemma kx_not_canonical : forall prof, ~ PInv prof kx.
Proof. intros prof (_ & _ & _ & _ & (_ & _ & _ & HfV & _) & _). vm_compute in HfV. discriminate HfV. Qed.

Theorem kx_open : forall prof, pkg_open prof (k_cont kx) = Ok kx.
Proof. intros prof. apply open_encoded. apply kx_encoded. Qed.

(* the same by evaluation of the model, independently of the proof *)
Example kx_open_computed : pkg_open Debug contx = Ok kx /\ pkg_open Release contx = Ok kx.
Proof. split; vm_compute; reflexivity. Qed.
Example kx_rows_T : tvals Debug (the_db kx) tabT = Ok [[VInt 7; VStr sA]].
Proof. vm_compute. reflexivity. Qed.

Print Assumptions kx_encoded.
Print Assumptions kx_open.
