(* ReaderProofs.v -- C02: the reader inverts ANY encoder of the format.
   An "independently encoded database" is a container whose streams are the serialisation of SOME abstract state
   (type, summary, pool, table map, rows) with no canonical form assumed (RInv below).
     pool_reader_any     read_pool inverts write_pool / write_data on every readable pool (stale text, duplicates,
                         over-counted references, either reference width)
     open_encoded        pkg_open of such a container returns exactly the encoded state
     open_encoded_rows   ... and every table reads back through the opened package as the rows that were encoded
     saved_is_encoded    every clean state satisfying PkgInv.PInv is such an encoding
   This generalises ReopenProofs.open_saved (which needs the strong invariant PInv: sorted tables, exact accounting,
   _Validation present). *)
From Coq Require Import ZifyBool ZifyNat ZifyN Lia Sorting.Sorted Permutation.
From MsiModel Require Import Base Sexp Value Finite Expr Category Column ColumnProofs CategoryProofs CodePage CodePageProofs Pool Table
  Container StreamName Propset Summary Query Package PoolProofs TableProofs QueryProofs DbInv CatalogProofs
  PropsetCodecProofs PackageProofs PkgInv ReopenLemmas ReopenProofs.
From MsiGen Require Import GenConsts GenCatalog GenStreamName GenColumn.
Open Scope N_scope.
Arguments N.add : simpl never.
Arguments N.mul : simpl never.
Arguments N.div : simpl never.
Arguments N.modulo : simpl never.
Arguments N.sub : simpl never.

(* ====================================================================== *)
(* the reader invariant (GRD.v, verbatim)                                  *)
(* ====================================================================== *)
Definition entry_rd (e : str * N) : Prop :=
  snd e < 65536 /\ (fst e = [] -> snd e = 0) /\ forallb is_scalar (fst e) = true /\ utf8_len (fst e) < 4294967296.
Definition pool_rd (p : pool) : Prop := Forall entry_rd (p_strings p) /\ p_cp p = cp_utf8 /\ p_mod p = false.

Definition has_validation (k : pkg) : bool :=
  match find_table (k_tabs k) VALIDATION_TABLE_NAME with Some _ => true | None => false end.
(* a column as it can be described without _Validation: only what the type word carries *)
Definition bare (c : column) : column :=
  mkcol (c_name c) (c_type c) (c_loc c) (c_null c) (c_pk c) None None None [].

Definition tabs_rd (k : pkg) : Prop :=
  let long := p_long (k_pool k) in
  StronglySorted (fun a b => str_cmp (fst a) (fst b) = Lt) (k_tabs k) /\
  find_table (k_tabs k) TABLES_TABLE_NAME = Some (tables_table long) /\
  find_table (k_tabs k) COLUMNS_TABLE_NAME = Some (columns_table long) /\
  (forall t, find_table (k_tabs k) VALIDATION_TABLE_NAME = Some t -> t = validation_table long) /\
  Forall (fun e => fst e <> [] /\ snd e = mktable (fst e) (t_cols (snd e)) long) (k_tabs k) /\
  Forall (fun e => t_cols (snd e) <> [] /\ Forall col_storable (t_cols (snd e)) /\ NoDup (map c_name (t_cols (snd e))) /\
                   (has_validation k = false -> Forall (fun c => c = bare c) (t_cols (snd e))))
         (user_tabs k).

(* the three catalog streams decode (under the pool) to the rows describing the user tables, in any order *)
Definition catalog_rd (prof : profile) (k : pkg) : Prop :=
  let d := the_db k in
  let long := p_long (k_pool k) in
  exists (trows crows : list (list value)),
    tvals prof d (tables_table long) = Ok trows /\
    Permutation trows (map (fun e => [VStr (fst e)]) (user_tabs k)) /\
    tvals prof d (columns_table long) = Ok crows /\
    Permutation crows (List.concat (map (fun e => stored (columns_rows (fst e) (t_cols (snd e)))) (user_tabs k))) /\
    (has_validation k = true ->
       exists vrows, tvals prof d (validation_table long) = Ok vrows /\
         Permutation vrows (List.concat (map (fun e => stored (validation_rows (fst e) (t_cols (snd e)))) (user_tabs k)))) /\
    (has_validation k = false -> ct_find (ct_entries (k_cont k)) (sn_encode VALIDATION_TABLE_NAME true) = None).

Definition RInv (prof : profile) (k : pkg) : Prop :=
  pool_rd (k_pool k) /\ ps_ok (k_sum k) /\ ps_fmtid (k_sum k) = FMTID /\ tabs_rd k /\ catalog_rd prof k /\
  ct_clsid (k_cont k) = ptype_clsid (k_type k) /\
  ct_find (ct_entries (k_cont k)) pool_stream = write_pool (k_pool k) /\
  ct_find (ct_entries (k_cont k)) data_stream = write_data (k_pool k) /\
  ct_find (ct_entries (k_cont k)) SUMMARY_INFO_STREAM_NAME = ps_write (k_sum k) /\
  k_fin k = false /\ k_sum_mod k = false.

(* ====================================================================== *)
(* the pool: read_pool inverts every readable pool                         *)
(* ====================================================================== *)
(* byte-level entries: only "no text -> no references" is needed to keep the reader off the long-string escape
   (length = 0 with count > 0); an unused entry that still carries text (length > 0, count = 0) is read as it is *)
Definition bentry_rd (e : bytes * N) : Prop :=
  snd e < 65536 /\ (fst e = [] -> snd e = 0) /\ nlen (fst e) < 4294967296.

Lemma read_entries_write_rd : forall es fuel,
  Forall bentry_rd es -> (length es <= fuel)%nat ->
  read_entries fuel (flat_map (fun e => pool_entry_bytes (fst e) (snd e)) es)
  = Ok (map (fun e => (nlen (fst e), snd e)) es).
Proof.
  induction es as [|[b rc] es IH]; intros fuel Hwf Hf.
  - destruct fuel; reflexivity.
  - destruct fuel as [|f]; [cbn [length] in Hf; lia|]. cbn [length] in Hf.
    inversion Hwf as [|? ? [W1 [W2 W3]] Hwf']; subst. cbn [fst snd] in *.
    cbn [flat_map map fst snd]. set (rest := flat_map _ es).
    assert (IH' : read_entries f rest = Ok (map (fun e => (nlen (fst e), snd e)) es)).
    { apply IH; [assumption|lia]. }
    unfold pool_entry_bytes. cbv zeta.
    destruct (65535 <? nlen b) eqn:El.
    + apply N.ltb_lt in El.
      rewrite <- !app_assoc. cbn [read_entries].
      rewrite get16_put16 by lia. rewrite get16_put16 by lia.
      assert (Hesc : (0 =? 0) && (0 <? (nlen b / 65536) mod 65536) = true).
      { apply andb_true_intro; split; [reflexivity|apply N.ltb_lt; lia]. }
      rewrite Hesc. rewrite get16_put16 by lia. rewrite get16_put16 by lia.
      rewrite IH'. cbn [rbind]. do 3 f_equal. lia.
    + apply N.ltb_ge in El.
      cbn [app]. rewrite <- !app_assoc. cbn [read_entries].
      rewrite get16_put16 by lia. rewrite get16_put16 by lia.
      assert (Hesc : (nlen b mod 65536 =? 0) && (0 <? rc) = false).
      { destruct (nlen b mod 65536 =? 0) eqn:E0; [|reflexivity]. apply N.eqb_eq in E0.
        cbn [andb]. apply N.ltb_ge.
        assert (b = []) as Hb by (destruct b; [reflexivity|unfold nlen in *; cbn [length] in *; lia]).
        apply W2 in Hb. lia. }
      rewrite Hesc. rewrite IH'. cbn [rbind]. do 3 f_equal. lia.
Qed.

Lemma enc_entry_rd e : entry_rd e -> bentry_rd (enc_entry e).
Proof.
  destruct e as [s rc]. unfold entry_rd, bentry_rd, enc_entry. cbn [fst snd].
  intros [W1 [W2 [W3 W4]]]. split; [assumption|]. split.
  - intros E. apply W2. apply (proj1 (utf8_enc_nil s)). exact E.
  - rewrite utf8_len_enc. assumption.
Qed.

Lemma build_strings_write_rd : forall l,
  Forall entry_rd l ->
  build_strings cp_utf8 (map (fun e => (nlen (fst e), snd e)) (map enc_entry l))
                (flat_map fst (map enc_entry l)) = Ok l.
Proof.
  induction l as [|[s rc] l IH]; intros Hwf; [reflexivity|].
  inversion Hwf as [|? ? [W1 [W2 [W3 W4]]] Hwf']; subst. cbn [fst snd] in *.
  cbn [map flat_map enc_entry fst snd build_strings].
  rewrite take_bytes_N_eq, PoolProofs.take_bytes_app, PoolProofs.cp_decode_utf8, utf8_roundtrip by assumption.
  rewrite (IH Hwf'). reflexivity.
Qed.

Theorem pool_reader_any : forall p, pool_rd p ->
  exists pb db, write_pool p = Some pb /\ write_data p = Some db /\ read_pool pb db = Ok p.
Proof.
  intros [cp l long m] (Hwf & Hcp & Hm). cbn [p_strings p_cp p_mod] in *. subst cp m.
  unfold write_pool, write_data. cbn [p_strings p_cp p_long].
  rewrite encode_all_utf8.
  eexists; eexists. split; [reflexivity|]. split; [reflexivity|].
  unfold read_pool. rewrite read_header_utf8.
  rewrite read_entries_write_rd.
  - cbn [rbind pb_cp pb_entries pb_long]. rewrite build_strings_write_rd by assumption. reflexivity.
  - clear - Hwf. induction Hwf; constructor; auto using enc_entry_rd.
  - apply flat_map_entries_len.
Qed.

(* ====================================================================== *)
(* small list facts                                                        *)
(* ====================================================================== *)
Lemma Permutation_filter_rd {A} (f : A -> bool) (l l' : list A) :
  Permutation l l' -> Permutation (filter f l) (filter f l').
Proof.
  induction 1 as [|x l l' P IH|x y l|l l' l'' P1 IH1 P2 IH2]; cbn [filter].
  - constructor.
  - destruct (f x); [constructor|]; exact IH.
  - destruct (f y), (f x); try apply Permutation_refl. apply perm_swap.
  - etransitivity; eassumption.
Qed.

Lemma NoDup_map_finer {A B C} (f : A -> B) (g : A -> C) (l : list A) :
  (forall x y, g x = g y -> f x = f y) -> NoDup (map f l) -> NoDup (map g l).
Proof.
  intros H. induction l as [|a l IH]; cbn [map]; intros ND; constructor; inversion ND as [|? ? Hn ND']; subst.
  - intros Hin. apply in_map_iff in Hin as (y & E & Hy). apply Hn. rewrite <- (H _ _ E). apply in_map. exact Hy.
  - apply IH. exact ND'.
Qed.

Lemma nodup_concat_tagged {A K B} (tag : B -> K) (key : A -> K) (g : A -> list B) : forall U,
  NoDup (map key U) -> (forall e, In e U -> NoDup (g e) /\ forall x, In x (g e) -> tag x = key e) ->
  NoDup (List.concat (map g U)).
Proof.
  induction U as [|e U IH]; intros ND H; [constructor|].
  cbn [map] in ND. inversion ND as [|? ? Hn ND']; subst. cbn [map List.concat].
  apply NoDup_app_intro.
  - apply (H e (or_introl eq_refl)).
  - apply IH; [exact ND'|]. intros x Hx. apply H. right; exact Hx.
  - intros x Hx Hx2. apply in_concat in Hx2 as (l & Hl & Hx2). apply in_map_iff in Hl as (e' & <- & He').
    apply Hn. destruct (H e (or_introl eq_refl)) as [_ T1]. destruct (H e' (or_intror He')) as [_ T2].
    rewrite <- (T1 x Hx), (T2 x Hx2). apply in_map. exact He'.
Qed.

Lemma enum_fst_nodup {A} (l : list A) : forall i, NoDup (map fst (enumerate l i)).
Proof.
  induction l as [|a l IH]; intros i; cbn [enumerate map fst]; constructor; [|apply IH].
  intros Hin. apply in_map_iff in Hin as (x & E & Hx). apply enum_bounds in Hx. lia.
Qed.
Lemma enum_in_snd {A} (l : list A) : forall i x, In x (enumerate l i) -> In (snd x) l.
Proof.
  induction l as [|a l IH]; intros i x H; [destruct H|]. cbn [enumerate] in H.
  destruct H as [<-|H]; [left; reflexivity | right; eapply IH; exact H].
Qed.

(* ====================================================================== *)
(* sort_specs: any permutation of a strictly ascending list is put back    *)
(* ====================================================================== *)
Definition sidx (s : colspec) : Z := fst (fst s).
Definition slt (a b : colspec) : Prop := (sidx a < sidx b)%Z.
Lemma slt_irrefl a : ~ slt a a.  Proof. unfold slt. lia. Qed.
Lemma slt_trans a b c : slt a b -> slt b c -> slt a c.  Proof. unfold slt. lia. Qed.

Lemma insert_spec_perm s l : Permutation (s :: l) (insert_spec s l).
Proof.
  induction l as [|x r IH]; cbn [insert_spec]; [reflexivity|].
  destruct (fst (fst s) <? fst (fst x))%Z; [reflexivity|].
  etransitivity; [apply perm_swap|]. constructor. exact IH.
Qed.

Lemma insert_spec_sorted s l : StronglySorted slt l -> ~ In (sidx s) (map sidx l) -> StronglySorted slt (insert_spec s l).
Proof.
  induction 1 as [|x r S IH F]; intros Hn; cbn [insert_spec].
  - repeat constructor.
  - destruct (Z.ltb_spec (fst (fst s)) (fst (fst x))) as [Hlt|Hge].
    + constructor; [constructor; assumption|]. constructor; [exact Hlt|].
      rewrite Forall_forall in *. intros y Hy. specialize (F y Hy). unfold slt, sidx in *. lia.
    + constructor.
      * apply IH. intros Hin. apply Hn. right. exact Hin.
      * rewrite Forall_forall in *. intros y Hy.
        apply (Permutation_in _ (Permutation_sym (insert_spec_perm s r))) in Hy.
        destruct Hy as [<-|Hy]; [|apply F; exact Hy].
        assert (sidx s <> sidx x) by (intros E; apply Hn; left; symmetry; exact E).
        unfold slt, sidx in *. lia.
Qed.

Lemma sort_specs_perm l : Permutation l (sort_specs l).
Proof.
  induction l as [|a l IH]; [constructor|]. unfold sort_specs in *. cbn [fold_right].
  etransitivity; [apply perm_skip; exact IH | apply insert_spec_perm].
Qed.

Lemma sort_specs_sorted l : NoDup (map sidx l) -> StronglySorted slt (sort_specs l).
Proof.
  induction l as [|a l IH]; intros ND; [constructor|].
  cbn [map] in ND. inversion ND as [|? ? Hn ND']; subst.
  change (sort_specs (a :: l)) with (insert_spec a (sort_specs l)).
  apply insert_spec_sorted; [apply IH; exact ND'|].
  intros Hin. apply Hn. eapply Permutation_in; [|exact Hin].
  apply Permutation_map, Permutation_sym, sort_specs_perm.
Qed.

Lemma slt_sorted_nodup l : StronglySorted slt l -> NoDup (map sidx l).
Proof.
  induction 1 as [|a r S IH F]; cbn [map]; constructor; [|exact IH].
  intros Hin. apply in_map_iff in Hin as (x & E & Hx).
  rewrite Forall_forall in F. specialize (F x Hx). unfold slt in F. lia.
Qed.

Lemma sort_specs_of_perm l l0 : Permutation l l0 -> StronglySorted slt l0 -> sort_specs l = l0.
Proof.
  intros P S. apply (sorted_perm_eq slt slt_irrefl slt_trans).
  - apply sort_specs_sorted. eapply Permutation_NoDup; [apply Permutation_map, Permutation_sym, P|].
    apply slt_sorted_nodup. exact S.
  - exact S.
  - etransitivity; [apply Permutation_sym, sort_specs_perm | exact P].
Qed.

Lemma specs_of_sorted cols : StronglySorted slt (specs_of cols).
Proof.
  rewrite specs_of_eq. eapply SS_map_in; [|apply enum_sorted].
  intros a b _ _ H. exact H.
Qed.

(* ====================================================================== *)
(* read_columns_rows over the column rows in ANY order                      *)
(* ====================================================================== *)
(* a _Columns row: (table, number, name, type word) *)
Definition cdesc := (str * Z * str * Z)%type.
Definition cd_tn (d : cdesc) : str := fst (fst (fst d)).
Definition cd_i (d : cdesc) : Z := snd (fst (fst d)).
Definition cd_cn (d : cdesc) : str := snd (fst d).
Definition cd_bits (d : cdesc) : Z := snd d.
Definition drow (d : cdesc) : list value :=
  map normalize_value [VStr (cd_tn d); VInt (cd_i d); VStr (cd_cn d); VInt (cd_bits d)].
Definition dspec (d : cdesc) : colspec := (cd_i d, cd_cn d, cd_bits d).
(* the group of a table in the accumulator, as build_tables looks it up *)
Definition lookup (acc : list (str * list colspec)) (tn : str) : list colspec :=
  match find (fun e => str_eqb (fst e) tn) acc with Some e => snd e | None => [] end.
(* the specs of one table, in arrival order *)
Definition dsel (tn : str) (ds : list cdesc) : list colspec :=
  map dspec (filter (fun d => str_eqb (cd_tn d) tn) ds).

Lemma lookup_cons_same tn l acc : lookup ((tn, l) :: acc) tn = l.
Proof. unfold lookup. cbn [find fst]. rewrite str_eqb_refl. reflexivity. Qed.

Lemma find_filter_other (tn tn' : str) (acc : list (str * list colspec)) : tn <> tn' ->
  find (fun e => str_eqb (fst e) tn') (filter (fun e => negb (str_eqb (fst e) tn)) acc) =
  find (fun e => str_eqb (fst e) tn') acc.
Proof.
  intros Hne. induction acc as [|a r IH]; [reflexivity|]. cbn [filter find].
  destruct (str_eqb (fst a) tn) eqn:E; cbn [negb].
  - apply str_eqb_spec in E. rewrite E, (str_eqb_neq _ _ Hne). exact IH.
  - cbn [find]. destruct (str_eqb (fst a) tn'); [reflexivity | exact IH].
Qed.

Lemma lookup_cons_other tn tn' l acc : tn <> tn' ->
  lookup ((tn, l) :: filter (fun e => negb (str_eqb (fst e) tn)) acc) tn' = lookup acc tn'.
Proof.
  intros Hne. unfold lookup. cbn [find fst]. rewrite (str_eqb_neq _ _ Hne), (find_filter_other _ _ _ Hne). reflexivity.
Qed.

Lemma rcr_step names tn i cn bits rs acc : tn <> [] -> cn <> [] -> In tn names ->
  (forall s, In s (lookup acc tn) -> fst (fst s) <> i) ->
  read_columns_rows names (drow (tn, i, cn, bits) :: rs) acc =
  read_columns_rows names rs ((tn, lookup acc tn ++ [(i, cn, bits)]) :: filter (fun e => negb (str_eqb (fst e) tn)) acc).
Proof.
  intros Htn Hcn Hin Hcur. unfold drow. cbn [cd_tn cd_i cd_cn cd_bits fst snd map].
  rewrite !norm_str by assumption. cbn [normalize_value].
  cbn [read_columns_rows nth_opt unwrap rbind as_str_v as_int_v].
  rewrite (existsb_str_refl _ _ Hin). cbn [negb]. unfold lookup in *.
  match goal with |- context [existsb ?f ?l] => replace (existsb f l) with false end.
  - reflexivity.
  - symmetry. apply not_true_is_false. intros E. apply existsb_exists in E as (s & Hs & E).
    specialize (Hcur s Hs). lia.
Qed.

Lemma dsel_cons tn d ds :
  dsel tn (d :: ds) = if str_eqb (cd_tn d) tn then dspec d :: dsel tn ds else dsel tn ds.
Proof. unfold dsel. cbn [filter]. destruct (str_eqb (cd_tn d) tn); reflexivity. Qed.

Lemma rcr_any names : forall ds acc,
  (forall d, In d ds -> cd_tn d <> [] /\ cd_cn d <> [] /\ In (cd_tn d) names) ->
  NoDup (map (fun d => (cd_tn d, cd_i d)) ds) ->
  (forall d s, In d ds -> In s (lookup acc (cd_tn d)) -> fst (fst s) <> cd_i d) ->
  exists acc', read_columns_rows names (map drow ds) acc = Ok acc' /\
               forall tn, lookup acc' tn = lookup acc tn ++ dsel tn ds.
Proof.
  induction ds as [|d ds IH]; intros acc Hd ND Hacc.
  - exists acc. split; [reflexivity|]. intros tn. cbn. rewrite app_nil_r. reflexivity.
  - cbn [map] in ND. inversion ND as [|? ? Hn ND']; subst.
    destruct (Hd d (or_introl eq_refl)) as (Htn & Hcn & Hin).
    destruct d as [[[tn i] cn] bits]. cbn [cd_tn cd_i cd_cn fst snd] in Htn, Hcn, Hin, Hn.
    cbn [map]. rewrite rcr_step; try assumption.
    2:{ intros s Hs. apply (Hacc (tn, i, cn, bits) s (or_introl eq_refl) Hs). }
    destruct (IH ((tn, lookup acc tn ++ [(i, cn, bits)]) :: filter (fun e => negb (str_eqb (fst e) tn)) acc))
      as (acc' & Hr & Hl).
    + intros d' Hd'. apply Hd. right. exact Hd'.
    + exact ND'.
    + intros d' s Hd' Hs. destruct (str_eqb tn (cd_tn d')) eqn:E.
      * apply str_eqb_spec in E. rewrite <- E, lookup_cons_same in Hs.
        apply in_app_or in Hs as [Hs|[<-|[]]].
        -- apply (Hacc d' s (or_intror Hd')). rewrite <- E. exact Hs.
        -- cbn [fst]. intros Ei. apply Hn. rewrite E, Ei.
           apply (in_map (fun d => (cd_tn d, cd_i d))). exact Hd'.
      * assert (Hne : tn <> cd_tn d') by (intros E'; rewrite E', str_eqb_refl in E; discriminate).
        rewrite (lookup_cons_other _ _ _ _ Hne) in Hs. apply (Hacc d' s (or_intror Hd') Hs).
    + exists acc'. split; [exact Hr|]. intros tn'. rewrite Hl, dsel_cons. cbn [cd_tn fst].
      destruct (str_eqb tn tn') eqn:E.
      * apply str_eqb_spec in E. subst tn'. rewrite lookup_cons_same, <- app_assoc. reflexivity.
      * assert (Hne : tn <> tn') by (intros E'; rewrite E', str_eqb_refl in E; discriminate).
        rewrite (lookup_cons_other _ _ _ _ Hne). reflexivity.
Qed.

(* ---- the descriptors of the rows that describe a table map ---------------------------------------- *)
Definition cblock (e : str * table) : list cdesc :=
  map (fun ic => (fst e, fst ic, c_name (snd ic), col_bits (snd ic))) (enumerate (t_cols (snd e)) 1%Z).
Definition descs (U : tables) : list cdesc := List.concat (map cblock U).

Lemma crows_descs (U : tables) :
  List.concat (map (fun e => stored (columns_rows (fst e) (t_cols (snd e)))) U) = map drow (descs U).
Proof.
  unfold descs. rewrite concat_map, map_map. f_equal. apply map_ext. intros e.
  rewrite stored_columns_rows. unfold cblock. rewrite map_map. apply map_ext. intros ic. reflexivity.
Qed.

Lemma in_descs (U : tables) d : In d (descs U) ->
  exists e c, In e U /\ In c (t_cols (snd e)) /\ cd_tn d = fst e /\ cd_cn d = c_name c.
Proof.
  intros H. apply in_concat in H as (b & Hb & Hd). apply in_map_iff in Hb as (e & <- & He).
  unfold cblock in Hd. apply in_map_iff in Hd as (ic & <- & Hic).
  exists e, (snd ic). split; [exact He|]. split; [eapply enum_in_snd; exact Hic|]. split; reflexivity.
Qed.

Lemma dsel_app tn a b : dsel tn (a ++ b) = dsel tn a ++ dsel tn b.
Proof. unfold dsel. rewrite filter_app, map_app. reflexivity. Qed.

Lemma dsel_cblock tn e : dsel tn (cblock e) = if str_eqb (fst e) tn then specs_of (t_cols (snd e)) else [].
Proof.
  unfold cblock, specs_of. generalize (enumerate (t_cols (snd e)) 1%Z) as l.
  destruct (str_eqb (fst e) tn) eqn:E; induction l as [|a l IH]; try reflexivity;
    cbn [map]; rewrite dsel_cons; cbn [cd_tn fst]; rewrite E, IH; reflexivity.
Qed.

Lemma dsel_descs_none tn (U : tables) : ~ In tn (map fst U) -> dsel tn (descs U) = [].
Proof.
  induction U as [|e U IH]; intros Hn; [reflexivity|].
  unfold descs in *. cbn [map List.concat]. rewrite dsel_app, dsel_cblock.
  rewrite str_eqb_neq; [|intros E; apply Hn; left; exact E]. cbn [app].
  apply IH. intros Hin. apply Hn. right. exact Hin.
Qed.

Lemma dsel_descs (U : tables) e : NoDup (map fst U) -> In e U -> dsel (fst e) (descs U) = specs_of (t_cols (snd e)).
Proof.
  induction U as [|a U IH]; intros ND Hin; [destruct Hin|].
  cbn [map] in ND. inversion ND as [|? ? Hn ND']; subst.
  unfold descs in *. cbn [map List.concat]. rewrite dsel_app, dsel_cblock.
  destruct Hin as [->|Hin].
  - rewrite str_eqb_refl. fold (descs U). rewrite (dsel_descs_none _ _ Hn), app_nil_r. reflexivity.
  - rewrite str_eqb_neq; [cbn [app]; apply IH; assumption|].
    intros E. apply Hn. rewrite E. apply in_map. exact Hin.
Qed.

Lemma descs_keys_nodup (U : tables) : NoDup (map fst U) -> NoDup (map (fun d => (cd_tn d, cd_i d)) (descs U)).
Proof.
  intros ND. unfold descs. rewrite concat_map, map_map.
  apply (nodup_concat_tagged (@fst str Z) (@fst str table)); [exact ND|].
  intros e _. unfold cblock. rewrite map_map. cbn [cd_tn cd_i fst snd]. split.
  - apply (NoDup_map_finer fst); [|apply enum_fst_nodup]. intros x y E. inversion E. reflexivity.
  - intros x Hx. apply in_map_iff in Hx as (ic & <- & _). reflexivity.
Qed.

(* ====================================================================== *)
(* columns rebuilt without _Validation                                     *)
(* ====================================================================== *)
(* the builder of a column that has no _Validation row is a bare Int16 column; the type word alone restores
   type, width and the three flags *)
Definition probe_bare_ok (t : coltype) (loc nul pk : bool) : bool :=
  let c := mk_probe t loc nul pk false in
  match col_with_bits (mk_probe Int16 false false false false) (col_bits c) with
  | Ok c' => coltype_eqb (c_type c') t && Bool.eqb (c_loc c') loc && Bool.eqb (c_null c') nul && Bool.eqb (c_pk c') pk
  | _ => false
  end.
Definition all_bare_ok (t : coltype) : bool :=
  forallb (fun loc => forallb (fun nul => forallb (fun pk => probe_bare_ok t loc nul pk) bools) bools) bools.

Lemma bare_int16 : all_bare_ok Int16 = true.  Proof. vm_compute. reflexivity. Qed.
Lemma bare_int32 : all_bare_ok Int32 = true.  Proof. vm_compute. reflexivity. Qed.
Lemma bare_str : forallb (fun w => all_bare_ok (Str w)) (nrange 256) = true.
Proof. vm_compute. reflexivity. Qed.

Lemma probe_bare_all t loc nul pk : storable_type t = true -> probe_bare_ok t loc nul pk = true.
Proof.
  intros Hs.
  assert (all_bare_ok t = true) as H.
  { destruct t as [| |w]; [exact bare_int16 | exact bare_int32 |].
    cbn [storable_type] in Hs. apply (forall_below _ 256 bare_str). apply N.leb_le in Hs. lia. }
  unfold all_bare_ok in H. rewrite forallb_forall in H. specialize (H loc (in_bools loc)).
  rewrite forallb_forall in H. specialize (H nul (in_bools nul)).
  rewrite forallb_forall in H. exact (H pk (in_bools pk)).
Qed.

Lemma col_with_bits_bare c : storable_type (c_type c) = true -> c = bare c ->
  col_with_bits (mkcol (c_name c) Int16 false false false None None None []) (col_bits c) = Ok c.
Proof.
  intros Hs Hb. destruct c as [n t loc nul pk rg fk cat en]. unfold bare in Hb.
  cbn [c_name c_type c_loc c_null c_pk] in Hb, Hs. inversion Hb; subst. clear Hb.
  pose proof (probe_bare_all t loc nul pk Hs) as P. unfold probe_bare_ok in P. cbv zeta in P.
  assert (E : col_bits (mkcol n t loc nul pk None None None []) = col_bits (mk_probe t loc nul pk false))
    by exact (col_bits_probe _).
  cbn [c_name]. rewrite E. unfold col_with_bits in *.
  destruct (ct_of_bits (col_bits (mk_probe t loc nul pk false))) as [t'| |]; cbn [rbind] in *; try discriminate.
  cbn [c_name c_type c_loc c_null c_pk c_range c_fk c_cat c_enum mk_probe] in *.
  apply andb_true_iff in P as [P P4]. apply andb_true_iff in P as [P P3]. apply andb_true_iff in P as [P1 P2].
  apply Bool.eqb_prop in P2, P3, P4. rewrite P2, P3, P4.
  assert (t' = t) as ->.
  { destruct t', t; cbn in P1; try discriminate; try reflexivity. apply N.eqb_eq in P1. congruence. }
  reflexivity.
Qed.

Lemma build_columns_bare tn cols : Forall col_storable cols -> Forall (fun c => c = bare c) cols ->
  forall i, build_columns tn (map specf (enumerate cols i)) [] = Ok cols.
Proof.
  induction cols as [|c r IH]; intros Hst Hb i; [reflexivity|].
  inversion Hst as [|? ? Hc Hr]; subst. inversion Hb as [|? ? Hbc Hbr]; subst.
  cbn [enumerate map specf fst snd build_columns find builder_from_validation rbind].
  rewrite col_with_bits_bare; [| apply Hc | exact Hbc]. cbn [rbind].
  rewrite IH by assumption. reflexivity.
Qed.

(* ====================================================================== *)
(* build_tables: groups looked up by name, specs sorted by number          *)
(* ====================================================================== *)
Lemma build_tables_any cmap vals long : forall (U : tables) acc,
  (forall e, In e U ->
     sort_specs (lookup cmap (fst e)) = specs_of (t_cols (snd e)) /\ t_cols (snd e) <> [] /\
     build_columns (fst e) (specs_of (t_cols (snd e))) vals = Ok (t_cols (snd e)) /\
     snd e = mktable (fst e) (t_cols (snd e)) long) ->
  build_tables (map fst U) cmap vals long acc = Ok (ins_all U acc).
Proof.
  induction U as [|e U IH]; intros acc H; [reflexivity|].
  destruct (H e (or_introl eq_refl)) as (Hf & Hne & Hbc & Hsnd).
  cbn [map build_tables]. unfold lookup in Hf. rewrite Hf, Hbc.
  rewrite specs_of_eq.
  destruct (enum_last (t_cols (snd e)) Hne 1%Z) as (n & b & pre & Hl). rewrite Hl.
  rewrite map_length, enumerate_length.
  cbn [ins_all fold_left].
  replace (tables_insert acc (fst e) (snd e)) with (tables_insert acc (fst e) (mktable (fst e) (t_cols (snd e)) long))
    by (f_equal; symmetry; exact Hsnd).
  destruct (t_cols (snd e)) as [|c r] eqn:Ec; [congruence|].
  cbn [enumerate map specf fst snd].
  replace ((1 =? 1)%Z && (1 + Z.of_nat (length (c :: r)) - 1 =? Z.of_nat (length (c :: r)))%Z) with true by lia.
  cbn [negb rbind]. apply IH. intros x Hx. apply H. right. exact Hx.
Qed.

(* ====================================================================== *)
(* the user tables of an encoded table map                                 *)
(* ====================================================================== *)
Lemma user_facts_rd k : tabs_rd k ->
  StronglySorted tlt (user_tabs k) /\
  (forall e, In e (user_tabs k) -> In e (k_tabs k) /\ is_core (fst e) = false /\ user_ok (p_long (k_pool k)) e /\
     (has_validation k = false -> Forall (fun c => c = bare c) (t_cols (snd e)))).
Proof.
  intros (S & _ & _ & _ & F1 & F2). split.
  - unfold user_tabs. apply SS_filter. exact S.
  - intros e He. rewrite Forall_forall in F1, F2. destruct (F2 e He) as (A & B & C & D).
    unfold user_tabs in He. apply filter_In in He as [He Hc]. apply negb_true_iff in Hc.
    destruct (F1 e He) as (Hne & Esnd).
    split; [exact He|]. split; [exact Hc|]. split; [|exact D]. repeat split; assumption.
Qed.

(* ====================================================================== *)
(* the catalog part of pkg_open on an encoded container                    *)
(* ====================================================================== *)
Theorem open_catalog_rd : forall prof k, RInv prof k ->
  exists trows names crows cmap vrows vals,
    tvals prof (the_db k) (tables_table (p_long (k_pool k))) = Ok trows /\
    read_table_names trows [] = Ok names /\
    tvals prof (the_db k) (columns_table (p_long (k_pool k))) = Ok crows /\
    read_columns_rows names crows [] = Ok cmap /\
    tvals prof (the_db k) (validation_table (p_long (k_pool k))) = Ok vrows /\
    read_validation_rows vrows [] = Ok vals /\
    build_tables names cmap vals (p_long (k_pool k)) (base_tabs (p_long (k_pool k))) = Ok (k_tabs k).
Proof.
  intros prof k (Hpool & Hps & Hfmt & Htw & Hcat & Hcls & Hfp & Hfd & Hfs & Hfin & Hsm).
  destruct (user_facts_rd k Htw) as (HUs & HU).
  pose proof Htw as (HS & HfT & HfC & HfV & _).
  destruct Hcat as (trows & crows & Ht & Pt & Hc & Pc & HcatV & HcatN).
  set (long := p_long (k_pool k)) in *. set (U := user_tabs k) in *.
  assert (HUnd : NoDup (map fst U)) by (apply sorted_names_nodup; exact HUs).
  (* the rows of _Tables list the user tables in some order U' *)
  apply Permutation_map_inv in Pt as (U' & Et & PU).
  assert (HU'in : forall x, In x U' <-> In x U).
  { intros x. split; intros Hx; [eapply Permutation_in; [apply Permutation_sym; exact PU | exact Hx]
                                 | eapply Permutation_in; [exact PU | exact Hx]]. }
  assert (HU'nd : NoDup (map fst U')).
  { eapply Permutation_NoDup; [apply Permutation_map; exact PU | exact HUnd]. }
  (* the rows of _Columns are the descriptors of U in some order ds *)
  rewrite crows_descs in Pc. apply Permutation_map_inv in Pc as (ds & Ec & Pds).
  assert (Hds : forall d, In d ds -> cd_tn d <> [] /\ cd_cn d <> [] /\ In (cd_tn d) (map fst U')).
  { intros d Hd. apply (Permutation_in _ (Permutation_sym Pds)) in Hd.
    apply in_descs in Hd as (e & c & He & Hcc & -> & ->).
    destruct (HU e He) as (_ & _ & (Hn & _ & Hst & _) & _). split; [exact Hn|]. split.
    - rewrite Forall_forall in Hst. apply (Hst c Hcc).
    - apply in_map. apply HU'in. exact He. }
  assert (Hdsnd : NoDup (map (fun d => (cd_tn d, cd_i d)) ds)).
  { eapply Permutation_NoDup; [apply Permutation_map; exact Pds | apply descs_keys_nodup; exact HUnd]. }
  destruct (rcr_any (map fst U') ds [] Hds Hdsnd) as (cmap & Hcm & Hlk); [intros ? ? _ []|].
  assert (Hsort : forall e, In e U -> sort_specs (lookup cmap (fst e)) = specs_of (t_cols (snd e))).
  { intros e He. rewrite Hlk. cbn [lookup find app]. apply sort_specs_of_perm; [|apply specs_of_sorted].
    rewrite <- (dsel_descs U e HUnd He). unfold dsel. apply Permutation_map, Permutation_filter_rd, Permutation_sym, Pds. }
  (* _Validation: present (rows in any order) or absent *)
  assert (HV : exists vrows vals,
             tvals prof (the_db k) (validation_table long) = Ok vrows /\ read_validation_rows vrows [] = Ok vals /\
             forall e, In e U ->
               build_columns (fst e) (specs_of (t_cols (snd e))) vals = Ok (t_cols (snd e))).
  { destruct (has_validation k) eqn:Ehv.
    - destruct (HcatV eq_refl) as (vrows & Hv & Pv).
      assert (HVok : Forall vrow_ok vrows).
      { apply Forall_forall. intros r Hr. apply (Permutation_in _ Pv) in Hr.
        apply in_validation_rows in Hr as (e & c & He & Hcc & ->).
        destruct (HU e He) as (_ & _ & (Hn & _ & Hst & _) & _). apply vrow_ok_nvrow; [exact Hn|].
        rewrite Forall_forall in Hst. apply (Hst c Hcc). }
      assert (HVnd : NoDup (map vkey vrows)).
      { eapply Permutation_NoDup; [apply Permutation_map, Permutation_sym, Pv|].
        rewrite map_vkey_validation.
        - apply vkeys_nodup; [exact HUnd|]. intros e He. apply (HU e He).
        - intros e He. destruct (HU e He) as (_ & _ & (Hn & _ & Hst & _) & _).
          split; [exact Hn | apply storable_names; exact Hst]. }
      exists vrows, ([] ++ map vent vrows). split; [exact Hv|]. split.
      { apply rvr_gen; [exact HVok | exact HVnd | intros ? ? ? []]. }
      intros e He. destruct (HU e He) as (_ & _ & (Hn & Hcols & Hst & Hnd & Esnd) & _).
      rewrite specs_of_eq. apply build_columns_gen; [exact Hst|].
      intros c Hcc. cbn [app]. rewrite Forall_forall in Hst.
      assert (Hcn : c_name c <> []) by apply (Hst c Hcc).
      rewrite <- (vent_nvrow (fst e) c Hn Hcn). apply find_vent; [exact HVnd | | apply vkey_nvrow; assumption].
      apply (Permutation_in _ (Permutation_sym Pv)). apply in_validation_rows. exists e, c. auto.
    - exists [], []. split.
      { unfold tvals, load_rows, the_db. cbn [d_cont d_pool].
        change (stream_name_of (validation_table long)) with (sn_encode VALIDATION_TABLE_NAME true).
        rewrite (HcatN eq_refl). reflexivity. }
      split; [reflexivity|].
      intros e He. destruct (HU e He) as (_ & _ & (Hn & Hcols & Hst & Hnd & Esnd) & Hbare).
      rewrite specs_of_eq. apply build_columns_bare; [exact Hst | apply Hbare; reflexivity]. }
  destruct HV as (vrows & vals & Hv & Hl & Hbc).
  exists trows, (map fst U'), crows, cmap, vrows, vals.
  split; [exact Ht|]. split.
  { rewrite Et, <- (map_map fst (fun n => [VStr n])). apply (read_table_names_spec (map fst U') []). exact HU'nd. }
  split; [exact Hc|]. split; [rewrite Ec; exact Hcm|].
  split; [exact Hv|]. split; [exact Hl|].
  rewrite (build_tables_any cmap vals long U').
  2:{ intros e He. apply HU'in in He. destruct (HU e He) as (_ & _ & (Hn & Hcols & Hst & Hnd & Esnd) & _).
      split; [apply Hsort; exact He|]. split; [exact Hcols|]. split; [apply Hbc; exact He | exact Esnd]. }
  f_equal. rewrite base_tabs_eq.
  apply (sorted_ext_eq tlt tlt_irrefl tlt_trans).
  - apply ins_all_sorted. repeat constructor.
  - exact HS.
  - intros x. split.
    + intros Hx. apply ins_all_in in Hx as [[<-|[<-|[]]]|Hx].
      * apply find_table_in. exact HfC.
      * apply find_table_in. exact HfT.
      * apply HU'in in Hx. apply (HU x Hx).
    + intros Hx. apply ins_all_has; [exact HU'nd|].
      destruct (is_core (fst x)) eqn:Ecore.
      * left. split.
        -- destruct x as [n t]. pose proof (sorted_find _ _ _ HS Hx) as Hf. cbn [fst] in Ecore.
           unfold is_core in Ecore. apply orb_true_iff in Ecore as [E|E]; apply str_eqb_spec in E; subst n.
           ++ rewrite HfT in Hf. inversion Hf. right. left. reflexivity.
           ++ rewrite HfC in Hf. inversion Hf. left. reflexivity.
        -- intros Hin. apply in_map_iff in Hin as (e & Ee & He). apply HU'in in He.
           destruct (HU e He) as (_ & Hc' & _). rewrite Ee, Ecore in Hc'. discriminate.
      * right. apply HU'in. unfold U, user_tabs. apply filter_In. split; [exact Hx|]. rewrite Ecore. reflexivity.
Qed.

(* ====================================================================== *)
(* the goals                                                               *)
(* ====================================================================== *)
Theorem open_encoded : forall prof k, RInv prof k -> pkg_open prof (k_cont k) = Ok k.
Proof.
  intros prof k HR.
  destruct (open_catalog_rd prof k HR) as (trows & names & crows & cmap & vrows & vals & Ht & Hn & Hc & Hm & Hv & Hl & Hb).
  destruct HR as (Hpool & Hps & Hfmt & Htw & Hcat & Hcls & Hfp & Hfd & Hfs & Hfin & Hsm).
  destruct (ps_roundtrip _ Hps) as (sb & Hsb & Hrs).
  destruct (pool_reader_any _ Hpool) as (pb & db & Hpb & Hdb & Hrp).
  unfold pool_stream in Hfp. unfold data_stream in Hfd.
  unfold pkg_open. rewrite Hcls, ptype_roundtrip. cbn [of_opt rbind].
  unfold ct_read. rewrite Hfs, Hsb. cbn [of_opt rbind].
  unfold summary_read. rewrite Hrs. cbn [rbind]. rewrite Hfmt, fmtid_eqb.
  rewrite Hfp, Hpb. cbn [of_opt rbind]. rewrite Hfd, Hdb. cbn [of_opt rbind]. rewrite Hrp. cbn [rbind]. cbv zeta.
  rewrite !rows_values_tvals.
  rewrite Ht. cbn [rbind]. rewrite Hn. cbn [rbind].
  rewrite Hc. cbn [rbind]. rewrite Hm. cbn [rbind].
  rewrite Hv. cbn [rbind]. rewrite Hl. cbn [rbind].
  fold (base_tabs (p_long (k_pool k))). rewrite Hb. cbn [rbind].
  destruct k as [c ty s sm p ts f]. cbn [k_cont k_type k_sum k_sum_mod k_pool k_tabs k_fin] in *. subst sm f. reflexivity.
Qed.

Theorem open_encoded_rows : forall prof k k', RInv prof k -> pkg_open prof (k_cont k) = Ok k' ->
  k' = k /\ forall e, In e (k_tabs k) -> tvals prof (the_db k') (snd e) = tvals prof (the_db k) (snd e).
Proof.
  intros prof k k' HR Ho. rewrite (open_encoded prof k HR) in Ho. inversion Ho; subst k'.
  split; [reflexivity|]. intros e _. reflexivity.
Qed.

Theorem saved_is_encoded : forall prof k, PInv prof k ->
  k_fin k = false -> k_sum_mod k = false -> p_mod (k_pool k) = false -> RInv prof k.
Proof.
  intros prof k HP Hfin Hsm Hpm.
  pose proof HP as ((Hwf & _) & Hcp & Hps & Hfmt & Htw & Hcat & _ & (Hcls & Hdp & Hds) & _).
  destruct (user_facts k Htw) as (_ & HU).
  pose proof Htw as (HS & HfT & HfC & HfV & F1 & F2).
  assert (Ehv : has_validation k = true) by (unfold has_validation; rewrite HfV; reflexivity).
  destruct (Hdp Hpm) as (Hfp & Hfd & _). destruct (Hds Hsm) as (Hfs & _).
  refine (conj _ (conj Hps (conj Hfmt (conj _ (conj _ (conj Hcls (conj Hfp (conj Hfd (conj Hfs (conj Hfin Hsm)))))))))).
  - split; [|split; [exact Hcp | exact Hpm]]. unfold pool_wf in Hwf. cbn [the_db d_pool] in Hwf.
    eapply Forall_impl; [|exact Hwf]. intros e (W1 & W2 & W3 & W4).
    split; [exact W1|]. split; [|split; assumption]. intros E. apply W2. exact E.
  - refine (conj HS (conj HfT (conj HfC (conj _ (conj _ _))))).
    + intros t Hf. rewrite HfV in Hf. inversion Hf. reflexivity.
    + eapply Forall_impl; [|exact F1]. intros e (V & _ & Esnd). split; [|exact Esnd].
      apply (valid_tname_safe _ V).
    + apply Forall_forall. intros e He. destruct (HU e He) as (_ & _ & (_ & A & B & C & _)).
      split; [exact A|]. split; [exact B|]. split; [exact C|]. rewrite Ehv. discriminate.
  - destruct Hcat as (tr & cr & vr & H1 & P1 & H2 & P2 & H3 & P3). exists tr, cr.
    split; [exact H1|]. split; [exact P1|]. split; [exact H2|]. split; [exact P2|]. split.
    + intros _. exists vr. split; assumption.
    + rewrite Ehv. discriminate.
Qed.

Print Assumptions pool_reader_any.
Print Assumptions open_encoded.
Print Assumptions open_encoded_rows.
Print Assumptions saved_is_encoded.
