(* Dispatch.v -- one command in, one observation out.  The same function is
   extracted to OCaml (model driver) and can be evaluated inside Coq
   (extraction cross-check).  Commands mirror harness/src/bin/impl_driver.rs. *)
From MsiModel Require Import Base Sexp Timestamp Language ExprCmd ColumnCmd CodePage PackageCmd.
Open Scope string_scope.

Definition pure_cmd (name : string) (args : list sx) : option sx :=
  match name, args with
  | "time_from", [SI t] => Some (SI (from_time t))
  | "time_to", [SI k] => Some (SI (to_time k))
  | "time_rt", [SI t] => Some (SI (to_time (from_time t)))
  | "cp_from_id", [SI i] => Some (sx_opt (fun c => sx_N (cp_id c)) (cp_from_id i))
  | "cp_encode", [SI i; s] =>
      match cp_from_id i, as_str s with
      | Some c, Some s' => Some (match cp_encode c s' with Some b => sx_str b | None => SL [SY "any"] end)
      | _, _ => None
      end
  | "cp_decode", [SI i; b] =>
      match cp_from_id i, as_str b with
      | Some c, Some b' => Some (match cp_decode c b' with Some s => sx_str s | None => SL [SY "any"] end)
      | _, _ => None
      end
  | "lang_from_tag", [t] => option_map (fun t => sx_N (from_tag t)) (as_str t)
  | "lang_tag", [c] => option_map (fun c => sx_str (tag_of c)) (as_N c)
  | _, _ => None
  end.

(* commands whose name starts with "x_" are judged directly against the property
   on the implementation's side; the model has no opinion *)
Definition is_x (name : string) : bool :=
  match name with
  | String a (String b _) => (N.eqb (Ascii.N_of_ascii a) 120 && N.eqb (Ascii.N_of_ascii b) 95)%bool
  | _ => false
  end.

Definition dispatch (st : state) (c : sx) : state * sx :=
  match c with
  | SL (SY name :: args) =>
      if is_x name then (st, SL [SY "any"]) else
      match pure_cmd name args with
      | Some o => (st, o)
      | None =>
          match expr_cmd name args with
          | Some o => (st, o)
          | None =>
              match column_cmd name args with
              | Some o => (st, o)
              | None =>
                  match pkg_cmd st name args with
                  | Some r => r
                  | None => (st, bad_cmd)
                  end
              end
          end
      end
  | _ => (st, bad_cmd)
  end.

Fixpoint run_script (st : state) (cs : list sx) : list sx :=
  match cs with
  | [] => []
  | c :: cs' => let '(st', o) := dispatch st c in o :: run_script st' cs'
  end.
