(* PoolProofs.v -- P2: the string pool of Pool.v.
   Serialisation round trip (write_pool / write_data / read_pool) on the UTF-8 code page,
   reader totality, and the reference counting operations incref / decref / get. *)
From Coq Require Import ZifyBool ZifyNat ZifyN Lia.
From MsiModel Require Import Base Value CodePage Pool.
From MsiGen Require Import GenConsts.
From MsiModel Require Import CodePageProofs CategoryProofs.
Open Scope N_scope.

Ltac Zify.zify_post_hook ::= Z.div_mod_to_equations.
Arguments N.add : simpl never.
Arguments N.mul : simpl never.
Arguments N.div : simpl never.
Arguments N.modulo : simpl never.
Arguments N.sub : simpl never.

(* P2: string pool *)
(* "unused entries are empty, no live entry is the empty string", 16-bit refcounts *)
Definition entry_wf (e : str * N) : Prop :=
  snd e < 65536 /\ (snd e = 0 <-> fst e = []) /\ forallb is_scalar (fst e) = true /\ utf8_len (fst e) < 4294967296.
Definition pool_wf (p : pool) : Prop := Forall entry_wf (p_strings p).
Definition total_refs (p : pool) : N := fold_right (fun e n => snd e + n) 0 (p_strings p).
Definition live (p : pool) (r : N) (s : str) : Prop :=
  0 < r /\ exists rc, nth_opt (p_strings p) (N.to_nat (r - 1)) = Some (s, rc) /\ 0 < rc.
Definition refcount (p : pool) (r : N) : N :=
  match nth_opt (p_strings p) (N.to_nat (r - 1)) with Some (_, rc) => rc | None => 0 end.

(* ====================================================================== *)
(* get                                                                     *)
(* ====================================================================== *)
Theorem get_live : forall prof p r s, live p r s -> r <= MAX_STRING_REF -> pool_get prof p r = Ok s.
Proof.
  intros prof p r s [Hr [rc [Hn _]]] Hmax. unfold pool_get. rewrite nth_opt_N_eq.
  assert (Hc : (0 <? r) && (r <=? MAX_STRING_REF) = true).
  { apply andb_true_intro; split; [apply N.ltb_lt | apply N.leb_le]; assumption. }
  rewrite Hc, Hn. destruct prof; reflexivity.
Qed.

(* ====================================================================== *)
(* reader totality                                                         *)
(* ====================================================================== *)
Lemma read_entries_no_panic : forall fuel b, read_entries fuel b <> Panic.
Proof.
  induction fuel as [|f IH]; intros b; cbn [read_entries]; [discriminate|].
  destruct (get16 b) as [[len r1]|]; [|discriminate].
  destruct (get16 r1) as [[rc r2]|]; [|discriminate].
  destruct ((len =? 0) && (0 <? rc)).
  - destruct (get16 r2) as [[lo r3]|]; [|discriminate].
    destruct (get16 r3) as [[rc' r4]|]; [|discriminate].
    specialize (IH r4). destruct (read_entries f r4); cbn [rbind]; congruence.
  - specialize (IH r2). destruct (read_entries f r2); cbn [rbind]; congruence.
Qed.

Lemma build_strings_no_panic : forall cp es data, build_strings cp es data <> Panic.
Proof.
  intros cp es; induction es as [|[len rc] es IH]; intros data; cbn [build_strings]; [discriminate|].
  destruct (take_bytes_N len data) as [[h t]|]; [|discriminate].
  destruct (cp_decode cp h); [|discriminate].
  specialize (IH t). destruct (build_strings cp es t); cbn [rbind]; congruence.
Qed.

Theorem read_pool_total : forall pb db, read_pool pb db <> Panic.
Proof.
  intros pb db. unfold read_pool, read_pool_header.
  destruct (get32 pb) as [[w r]|]; [|discriminate]. cbv zeta.
  destruct (cp_from_id _) as [cp|]; [|discriminate].
  pose proof (read_entries_no_panic (length r) r) as H1.
  destruct (read_entries (length r) r) as [es| |]; cbn [rbind]; try congruence.
  cbn [pb_cp pb_entries pb_long].
  pose proof (build_strings_no_panic cp es db) as H2.
  destruct (build_strings cp es db); cbn [rbind]; congruence.
Qed.

(* ====================================================================== *)
(* list-level vocabulary for the reference counting operations             *)
(* ====================================================================== *)
Definition sum_refs (l : list (str * N)) : N := fold_right (fun e n => snd e + n) 0 l.
Definition rc_at (l : list (str * N)) (k : nat) : N :=
  match nth_opt l k with Some (_, rc) => rc | None => 0 end.

(* l' is l with the entry e at position k replaced by e' *)
Inductive upd {A} : list A -> nat -> A -> A -> list A -> Prop :=
| upd_here e e' r : upd (e :: r) O e e' (e' :: r)
| upd_next x l k e e' l' : upd l k e e' l' -> upd (x :: l) (S k) e e' (x :: l').

Lemma upd_old {A} (l : list A) k e e' l' : upd l k e e' l' -> nth_opt l k = Some e.
Proof. induction 1; cbn [nth_opt]; auto. Qed.
Lemma upd_new {A} (l : list A) k e e' l' : upd l k e e' l' -> nth_opt l' k = Some e'.
Proof. induction 1; cbn [nth_opt]; auto. Qed.
Lemma upd_other {A} (l : list A) k e e' l' :
  upd l k e e' l' -> forall j, j <> k -> nth_opt l' j = nth_opt l j.
Proof.
  induction 1; intros j Hj; destruct j as [|j]; cbn [nth_opt]; try congruence.
  apply IHupd. congruence.
Qed.
Lemma upd_Forall {A} (P : A -> Prop) (l : list A) k e e' l' :
  upd l k e e' l' -> Forall P l -> P e' -> Forall P l'.
Proof.
  induction 1; intros HF He; inversion HF; subst; constructor; auto.
Qed.
Lemma upd_sum l k e e' l' : upd l k e e' l' -> sum_refs l' + snd e = sum_refs l + snd e'.
Proof. induction 1; unfold sum_refs in *; cbn [fold_right] in *; lia. Qed.

Lemma nth_opt_app_l {A} (l : list A) x j : (j < length l)%nat -> nth_opt (l ++ x) j = nth_opt l j.
Proof.
  revert j; induction l as [|a l IH]; intros j Hj; cbn [length] in Hj; [lia|].
  destruct j; cbn [app nth_opt]; [reflexivity|]. apply IH. lia.
Qed.
Lemma nth_opt_none {A} (l : list A) j : (length l <= j)%nat -> nth_opt l j = None.
Proof.
  revert j; induction l as [|a l IH]; intros j Hj; [destruct j; reflexivity|].
  cbn [length] in Hj. destruct j; [lia|]. cbn [nth_opt]. apply IH. lia.
Qed.
Lemma nth_opt_app_last {A} (l : list A) x : nth_opt (l ++ [x]) (length l) = Some x.
Proof. induction l; cbn [app length nth_opt]; auto. Qed.
Lemma nth_opt_app_other {A} (l : list A) x j : j <> length l -> nth_opt (l ++ [x]) j = nth_opt l j.
Proof.
  intros Hj. destruct (Nat.lt_ge_cases j (length l)) as [H|H].
  - apply nth_opt_app_l; assumption.
  - rewrite (nth_opt_none l j H). apply nth_opt_none. rewrite app_length. cbn [length]. lia.
Qed.
Lemma sum_refs_app l x : sum_refs (l ++ [x]) = sum_refs l + snd x.
Proof. induction l; unfold sum_refs in *; cbn [app fold_right] in *; lia. Qed.

(* ====================================================================== *)
(* incref                                                                  *)
(* ====================================================================== *)
Lemma incref_scan_some prof s : forall l idx l' i,
  Forall entry_wf l ->
  incref_scan prof l s idx = Ok (Some (l', i)) ->
  exists k t rc, i = idx + N.of_nat k /\ upd l k (t, rc) (s, rc + 1) l' /\
                 (rc = 0 \/ (t = s /\ rc < 65535)).
Proof.
  induction l as [|[t rc] l IH]; intros idx l' i Hwf H; cbn [incref_scan] in H; [discriminate|].
  inversion Hwf as [|? ? Hwf1 Hwf2]; subst.
  destruct (rc =? 0) eqn:E0.
  - apply N.eqb_eq in E0; subst rc.
    assert (Ok (Some ((s, 1) :: l, idx)) = Ok (Some (l', i))) as H'.
    { destruct prof; [destruct t|]; try congruence; destruct POOL_INCREF_ASSERTS_EMPTY; congruence. }
    inversion H'; subst. exists O, t, 0. split; [lia|]. split; [|left; reflexivity].
    change 1 with (0 + 1). constructor.
  - apply N.eqb_neq in E0.
    destruct (str_eqb t s && (rc <? 65535)) eqn:E1.
    + apply andb_true_iff in E1 as [Ea Eb]. apply str_eqb_spec in Ea. apply N.ltb_lt in Eb.
      inversion H; subst. exists O, s, rc. split; [lia|]. split; [constructor|right; auto].
    + destruct (incref_scan prof l s (idx + 1)) as [[[r' i']|]| |] eqn:Es; cbn [rbind] in H; try discriminate.
      inversion H; subst.
      destruct (IH _ _ _ Hwf2 Es) as [k [t' [rc' [Hi [Hu Hc]]]]].
      exists (S k), t', rc'. split; [lia|]. split; [constructor; assumption|assumption].
Qed.

Lemma incref_scan_total prof s : forall l idx,
  Forall entry_wf l -> exists o, incref_scan prof l s idx = Ok o.
Proof.
  induction l as [|[t rc] l IH]; intros idx Hwf; cbn [incref_scan]; [eauto|].
  inversion Hwf as [|? ? Hwf1 Hwf2]; subst.
  destruct (rc =? 0) eqn:E0.
  - apply N.eqb_eq in E0; subst rc. destruct Hwf1 as [_ [[Ht _] _]]. cbn [fst snd] in Ht.
    rewrite (Ht eq_refl). destruct prof; eauto.
  - destruct (str_eqb t s && (rc <? 65535)); [eauto|].
    destruct (IH (idx + 1) Hwf2) as [o Ho]. rewrite Ho. cbn [rbind]. eauto.
Qed.

Lemma to_nat_ref k : N.to_nat (1 + N.of_nat k - 1) = k.
Proof. lia. Qed.

(* G_incref_spec as given is false for r' = 0 when r = 1: reference 0 aliases position 0
   (N.to_nat (0 - 1) = 0).  The frame clause gets the hypothesis r' <> 0 \/ r <> 1. *)
Theorem incref_spec : forall prof p s p' r,
  pool_wf p -> s <> [] -> forallb is_scalar s = true -> utf8_len s < 4294967296 ->
  pool_incref prof p s = Ok (p', r) ->
  pool_wf p' /\ live p' r s /\ total_refs p' = total_refs p + 1 /\
  refcount p' r = refcount p r + 1 /\
  (forall r', r' <> r -> r' <> 0 \/ r <> 1 -> refcount p' r' = refcount p r') /\
  (forall r' s', live p r' s' -> live p' r' s') /\
  p_cp p' = p_cp p /\ p_long p' = p_long p /\ p_mod p' = true.
Proof.
  intros prof [cp l long m] s p' r Hwf Hs Hsc Hlen H.
  unfold pool_wf, live, total_refs, refcount, pool_incref in *. cbn [p_strings p_cp p_long p_mod] in *.
  assert (Hnew : entry_wf (s, 1)).
  { unfold entry_wf; cbn [fst snd]. repeat split; auto; try lia; intros; congruence. }
  destruct (incref_scan prof l s 1) as [[[l' i]|]| |] eqn:Es; cbn [rbind] in H; try discriminate.
  - inversion H; subst; clear H. cbn [p_strings p_cp p_long p_mod].
    destruct (incref_scan_some _ _ _ _ _ _ Hwf Es) as [k [t [rc [Hi [Hu Hc]]]]]. subst r.
    rewrite to_nat_ref.
    pose proof (upd_old _ _ _ _ _ Hu) as Hold. pose proof (upd_new _ _ _ _ _ Hu) as Hnw.
    pose proof (upd_sum _ _ _ _ _ Hu) as Hsum. cbn [snd] in Hsum. unfold sum_refs in Hsum.
    assert (Hwfe : entry_wf (s, rc + 1)).
    { destruct Hc as [->|[-> Hlt]]; [exact Hnew|].
      unfold entry_wf; cbn [fst snd]. repeat split; auto; try lia; intros; try congruence; lia. }
    split; [eapply upd_Forall; eauto|].
    split; [split; [lia|]; exists (rc + 1); split; [assumption|lia]|].
    split; [lia|].
    split; [rewrite Hold, Hnw; reflexivity|].
    split; [intros r' Hne Hz; rewrite (upd_other _ _ _ _ _ Hu) by lia; reflexivity|].
    split; [|auto].
    intros r' s' [Hr' [rc' [Hn Hpos]]]. split; [assumption|].
    destruct (Nat.eq_dec (N.to_nat (r' - 1)) k) as [Ek|Ek].
    + rewrite Ek in *. rewrite Hold in Hn. inversion Hn; subst.
      destruct Hc as [Hc|[Hc _]]; [lia|]. subst. exists (rc' + 1). split; [assumption|lia].
    + exists rc'. rewrite (upd_other _ _ _ _ _ Hu) by assumption. auto.
  - destruct ((65535 <=? nlen l) && negb long); [discriminate|].
    destruct (MAX_STRING_REF <=? nlen l); [discriminate|].
    inversion H; subst; clear H. cbn [p_strings p_cp p_long p_mod]. unfold nlen.
    replace (N.to_nat (N.of_nat (length l) + 1 - 1)) with (length l) by lia.
    split; [apply Forall_app; split; [assumption|constructor; [assumption|constructor]]|].
    split; [split; [lia|]; exists 1; split; [apply nth_opt_app_last|lia]|].
    split; [apply sum_refs_app|].
    split; [rewrite nth_opt_app_last, nth_opt_none by lia; reflexivity|].
    split; [intros r' Hne Hz; rewrite nth_opt_app_other by lia; reflexivity|].
    split; [|auto].
    intros r' s' [Hr' [rc' [Hn Hpos]]]. split; [assumption|]. exists rc'. split; [|assumption].
    rewrite nth_opt_app_other; [assumption|]. intros E. rewrite E, nth_opt_none in Hn by lia. discriminate.
Qed.

(* the frame clause in the form most callers use *)
Corollary incref_frame_pos : forall prof p s p' r r',
  pool_wf p -> s <> [] -> forallb is_scalar s = true -> utf8_len s < 4294967296 ->
  pool_incref prof p s = Ok (p', r) -> r' <> r -> 0 < r' -> refcount p' r' = refcount p r'.
Proof.
  intros prof p s p' r r' Hwf Hs Hsc Hlen H Hne Hpos.
  destruct (incref_spec _ _ _ _ _ Hwf Hs Hsc Hlen H) as [_ [_ [_ [_ [Hf _]]]]].
  apply Hf; [assumption|left; lia].
Qed.

Theorem incref_total : forall prof p s,
  pool_wf p -> nlen (p_strings p) < 65535 -> exists p' r, pool_incref prof p s = Ok (p', r).
Proof.
  intros prof [cp l long m] s Hwf Hn. unfold pool_wf, pool_incref in *. cbn [p_strings p_cp p_long] in *.
  destruct (incref_scan_total prof s l 1 Hwf) as [o Ho]. rewrite Ho. cbn [rbind].
  destruct o as [[l' i]|]; [eauto|].
  assert (E1 : (65535 <=? nlen l) = false) by (apply N.leb_gt; assumption).
  assert (E2 : (MAX_STRING_REF <=? nlen l) = false) by (apply N.leb_gt; unfold MAX_STRING_REF; lia).
  rewrite E1, E2. cbn [andb]. eauto.
Qed.

(* ====================================================================== *)
(* decref                                                                  *)
(* ====================================================================== *)
Lemma decref_at_some : forall l k t rc,
  nth_opt l k = Some (t, rc) -> rc <> 0 ->
  exists l', decref_at l k = Some l' /\ upd l k (t, rc) (if rc =? 1 then [] else t, rc - 1) l'.
Proof.
  induction l as [|[t0 rc0] l IH]; intros k t rc Hn Hrc; destruct k as [|k]; cbn [nth_opt] in Hn; try discriminate.
  - inversion Hn; subst. cbn [decref_at]. apply N.eqb_neq in Hrc. rewrite Hrc.
    eexists; split; [reflexivity|constructor].
  - cbn [decref_at]. destruct (IH _ _ _ Hn Hrc) as [l' [Hd Hu]]. rewrite Hd. cbn [option_map].
    eexists; split; [reflexivity|constructor; assumption].
Qed.

(* G_decref_spec as given is false for r' = 0 when r = 1 (same aliasing of reference 0
   with position 0); the refcount frame clause gets the hypothesis r' <> 0 \/ r <> 1. *)
Theorem decref_spec : forall prof p r s,
  pool_wf p -> live p r s -> r <= MAX_STRING_REF ->
  exists p', pool_decref prof p r = Ok p' /\ pool_wf p' /\
    total_refs p' + 1 = total_refs p /\ refcount p' r + 1 = refcount p r /\
    (forall r', r' <> r -> r' <> 0 \/ r <> 1 -> refcount p' r' = refcount p r') /\
    (forall r' s', r' <> r -> live p r' s' -> live p' r' s') /\
    (1 < refcount p r -> live p' r s) /\
    p_cp p' = p_cp p /\ p_long p' = p_long p.
Proof.
  intros prof [cp l long m] r s Hwf [Hr [rc [Hn Hpos]]] Hmax.
  unfold pool_wf, live, total_refs, refcount, pool_decref in *. rewrite ?decref_at_N_eq in *. cbn [p_strings p_cp p_long p_mod] in *.
  assert (Hc : (0 <? r) && (r <=? MAX_STRING_REF) = true).
  { apply andb_true_intro; split; [apply N.ltb_lt | apply N.leb_le]; assumption. }
  assert (Hz : (r =? 0) = false) by (apply N.eqb_neq; lia).
  destruct (decref_at_some l _ _ _ Hn ltac:(lia)) as [l' [Hd Hu]].
  exists (mkpool cp l' long true). cbn [p_strings p_cp p_long p_mod].
  split.
  { rewrite Hc, Hz, Hd. destruct prof; reflexivity. }
  pose proof (upd_new _ _ _ _ _ Hu) as Hnw.
  pose proof (upd_sum _ _ _ _ _ Hu) as Hsum. cbn [snd] in Hsum. unfold sum_refs in Hsum.
  assert (Hwfe : entry_wf (s, rc)).
  { eapply Forall_forall in Hwf; [exact Hwf|]. clear - Hn. revert Hn. generalize (N.to_nat (r - 1)).
    induction l as [|a l IH]; intros k Hk; destruct k; cbn [nth_opt] in Hk; try discriminate.
    - inversion Hk; left; reflexivity.
    - right; eapply IH; eauto. }
  destruct Hwfe as [W1 [W2 [W3 W4]]]; cbn [fst snd] in *.
  split.
  { eapply upd_Forall; eauto. unfold entry_wf.
    destruct (rc =? 1) eqn:E1; cbn [fst snd].
    - apply N.eqb_eq in E1. subst rc. repeat split; auto; lia.
    - apply N.eqb_neq in E1. repeat split; auto; try lia.
      all: intros E; first [lia | apply W2 in E; lia]. }
  split; [lia|].
  split; [rewrite Hn, Hnw; lia|].
  split; [intros r' Hne Hz'; rewrite (upd_other _ _ _ _ _ Hu) by lia; reflexivity|].
  split.
  { intros r' s' Hne [Hr' [rc' [Hn' Hpos']]]. split; [assumption|]. exists rc'.
    rewrite (upd_other _ _ _ _ _ Hu) by lia. auto. }
  split; [|auto].
  rewrite Hn. intros Hgt. split; [assumption|]. exists (rc - 1). split; [|lia].
  rewrite Hnw. replace (rc =? 1) with false by (symmetry; apply N.eqb_neq; lia). reflexivity.
Qed.

Corollary decref_frame_pos : forall prof p r s p' r',
  pool_wf p -> live p r s -> r <= MAX_STRING_REF -> pool_decref prof p r = Ok p' ->
  r' <> r -> 0 < r' -> refcount p' r' = refcount p r'.
Proof.
  intros prof p r s p' r' Hwf Hl Hmax H Hne Hpos.
  destruct (decref_spec prof _ _ _ Hwf Hl Hmax) as [p'' [H' [_ [_ [_ [Hf _]]]]]].
  rewrite H in H'. inversion H'; subst. apply Hf; [assumption|left; lia].
Qed.

(* ====================================================================== *)
(* serialisation round trip                                                *)
(* ====================================================================== *)
Lemma get16_put16 n r : n < 65536 -> get16 (put16 n ++ r) = Some (n, r).
Proof. intros H. unfold put16, get16. cbn [app]. f_equal. f_equal. lia. Qed.
Lemma get32_put32 n r : n < 4294967296 -> get32 (put32 n ++ r) = Some (n, r).
Proof. intros H. unfold put32, get32. cbn [app]. f_equal. f_equal. lia. Qed.

Lemma take_bytes_app b rest : take_bytes (N.to_nat (nlen b)) (b ++ rest) = Some (b, rest).
Proof.
  unfold nlen. rewrite Nat2N.id.
  induction b as [|x b IH]; cbn [length take_bytes app]; [reflexivity|]. rewrite IH. reflexivity.
Qed.

Lemma utf8_enc1_nonempty c : utf8_enc1 c <> [].
Proof. unfold utf8_enc1. destruct (c <? 128), (c <? 2048), (c <? 65536); discriminate. Qed.
Lemma utf8_enc_nil s : utf8_enc s = [] <-> s = [].
Proof.
  split; [|intros ->; reflexivity]. destruct s as [|c s]; [reflexivity|].
  unfold utf8_enc; cbn [flat_map]. intros E. apply app_eq_nil in E as [E _].
  exfalso. exact (utf8_enc1_nonempty c E).
Qed.

(* byte-level entries as write_pool emits them *)
Definition bentry_wf (e : bytes * N) : Prop :=
  snd e < 65536 /\ (snd e = 0 <-> fst e = []) /\ nlen (fst e) < 4294967296.

Lemma pool_entry_bytes_len b rc : (4 <= length (pool_entry_bytes b rc))%nat.
Proof.
  unfold pool_entry_bytes. cbv zeta. rewrite !app_length.
  change (length (put16 (nlen b mod 65536))) with 2%nat. change (length (put16 rc)) with 2%nat. lia.
Qed.

Lemma read_entries_write : forall es fuel,
  Forall bentry_wf es -> (length es <= fuel)%nat ->
  read_entries fuel (flat_map (fun e => pool_entry_bytes (fst e) (snd e)) es)
  = Ok (map (fun e => (nlen (fst e), snd e)) es).
Proof.
  induction es as [|[b rc] es IH]; intros fuel Hwf Hf.
  - destruct fuel; reflexivity.
  - destruct fuel as [|f]; [cbn [length] in Hf; lia|]. cbn [length] in Hf.
    inversion Hwf as [|? ? [W1 [W2 W3]] Hwf']; subst. cbn [fst snd] in *.
    cbn [flat_map map fst snd]. set (rest := flat_map _ es).
    assert (IH' : read_entries f rest = Ok (map (fun e => (nlen (fst e), snd e)) es)).
    { apply IH; [assumption|lia]. }
    unfold pool_entry_bytes. cbv zeta.
    destruct (65535 <? nlen b) eqn:El.
    + apply N.ltb_lt in El.
      rewrite <- !app_assoc. cbn [read_entries].
      rewrite get16_put16 by lia. rewrite get16_put16 by lia.
      assert (Hesc : (0 =? 0) && (0 <? (nlen b / 65536) mod 65536) = true).
      { apply andb_true_intro; split; [reflexivity|apply N.ltb_lt; lia]. }
      rewrite Hesc. rewrite get16_put16 by lia. rewrite get16_put16 by lia.
      rewrite IH'. cbn [rbind]. do 3 f_equal. lia.
    + apply N.ltb_ge in El.
      cbn [app]. rewrite <- !app_assoc. cbn [read_entries].
      rewrite get16_put16 by lia. rewrite get16_put16 by lia.
      assert (Hesc : (nlen b mod 65536 =? 0) && (0 <? rc) = false).
      { destruct (nlen b mod 65536 =? 0) eqn:E0; [|reflexivity]. apply N.eqb_eq in E0.
        cbn [andb]. apply N.ltb_ge.
        assert (b = []) as Hb by (destruct b; [reflexivity|unfold nlen in *; cbn [length] in *; lia]).
        apply W2 in Hb. lia. }
      rewrite Hesc. rewrite IH'. cbn [rbind]. do 3 f_equal. lia.
Qed.

Lemma flat_map_entries_len es :
  (length es <= length (flat_map (fun e : bytes * N => pool_entry_bytes (fst e) (snd e)) es))%nat.
Proof.
  induction es as [|e es IH]; cbn [flat_map length]; [lia|].
  rewrite app_length. pose proof (pool_entry_bytes_len (fst e) (snd e)). lia.
Qed.

Lemma cp_encode_utf8 s : cp_encode cp_utf8 s = Some (utf8_enc s).
Proof. reflexivity. Qed.
Lemma cp_decode_utf8 b : cp_decode cp_utf8 b = Some (utf8_decode b).
Proof. unfold cp_decode. rewrite cp_no_bom_sniffing. reflexivity. Qed.

Definition enc_entry (e : str * N) : bytes * N := (utf8_enc (fst e), snd e).

Lemma encode_all_utf8 l : encode_all cp_utf8 l = Some (map enc_entry l).
Proof.
  induction l as [|[s rc] l IH]; cbn [encode_all map]; [reflexivity|].
  rewrite cp_encode_utf8, IH. reflexivity.
Qed.

Lemma enc_entry_wf e : entry_wf e -> bentry_wf (enc_entry e).
Proof.
  destruct e as [s rc]. unfold entry_wf, bentry_wf, enc_entry. cbn [fst snd].
  intros [W1 [W2 [W3 W4]]]. split; [assumption|]. split.
  - rewrite utf8_enc_nil. assumption.
  - rewrite utf8_len_enc. assumption.
Qed.

Lemma build_strings_write : forall l,
  Forall entry_wf l ->
  build_strings cp_utf8 (map (fun e => (nlen (fst e), snd e)) (map enc_entry l))
                (flat_map fst (map enc_entry l)) = Ok l.
Proof.
  induction l as [|[s rc] l IH]; intros Hwf; [reflexivity|].
  inversion Hwf as [|? ? [W1 [W2 [W3 W4]]] Hwf']; subst. cbn [fst snd] in *.
  cbn [map flat_map enc_entry fst snd build_strings].
  rewrite take_bytes_N_eq, take_bytes_app, cp_decode_utf8, utf8_roundtrip by assumption.
  rewrite (IH Hwf'). reflexivity.
Qed.

Lemma read_header_utf8 (long : bool) body :
  read_pool_header (put32 (cp_id cp_utf8 + (if long then LONG_STRING_REFS_BIT else 0)) ++ body)
  = (es <- read_entries (length body) body ;; Ok {| pb_cp := cp_utf8; pb_long := long; pb_entries := es |}).
Proof.
  unfold read_pool_header.
  assert (Hid : cp_id cp_utf8 = 65001) by (vm_compute; reflexivity). rewrite Hid.
  assert (Hfrom : cp_from_id 65001%Z = Some cp_utf8) by (vm_compute; reflexivity).
  unfold LONG_STRING_REFS_BIT.
  destruct long.
  - rewrite get32_put32 by lia. cbv zeta.
    change (2147483648 <=? 65001 + 2147483648) with true.
    change (Z.of_N ((65001 + 2147483648) mod 2147483648)) with 65001%Z.
    rewrite Hfrom. reflexivity.
  - rewrite get32_put32 by lia. cbv zeta.
    change (2147483648 <=? 65001 + 0) with false.
    change (Z.of_N ((65001 + 0) mod 2147483648)) with 65001%Z.
    rewrite Hfrom. reflexivity.
Qed.

Theorem pool_roundtrip : forall p,
  pool_wf p -> p_cp p = cp_utf8 ->
  exists pb db, write_pool p = Some pb /\ write_data p = Some db /\
                read_pool pb db = Ok (pool_mark_unmodified p).
Proof.
  intros [cp l long m] Hwf Hcp. unfold pool_wf in Hwf. cbn [p_strings p_cp] in *. subst cp.
  unfold write_pool, write_data, pool_mark_unmodified. cbn [p_strings p_cp p_long].
  rewrite encode_all_utf8.
  eexists; eexists. split; [reflexivity|]. split; [reflexivity|].
  unfold read_pool. rewrite read_header_utf8.
  rewrite read_entries_write.
  - cbn [rbind pb_cp pb_entries pb_long]. rewrite build_strings_write by assumption. reflexivity.
  - clear - Hwf. induction Hwf; constructor; auto using enc_entry_wf.
  - apply flat_map_entries_len.
Qed.

(* ====================================================================== *)
(* why the frame clauses of incref_spec / decref_spec carry r' <> 0 \/ r <> 1 *)
(* ====================================================================== *)
(* The unguarded clause "forall r', r' <> r -> refcount p' r' = refcount p r'" fails at
   r' = 0, r = 1: refcount reads position N.to_nat (0 - 1) = 0, i.e. the entry of reference 1. *)
Lemma incref_frame_unguarded_false :
  ~ (forall prof p s p' r, pool_wf p -> s <> [] -> forallb is_scalar s = true -> utf8_len s < 4294967296 ->
       pool_incref prof p s = Ok (p', r) -> forall r', r' <> r -> refcount p' r' = refcount p r').
Proof.
  intros H.
  specialize (H Debug (mkpool cp_utf8 [] false false) [65] (mkpool cp_utf8 [([65], 1)] false true) 1).
  assert (E : refcount (mkpool cp_utf8 [([65], 1)] false true) 0 = refcount (mkpool cp_utf8 [] false false) 0).
  { apply H; try reflexivity; try discriminate. constructor. }
  vm_compute in E. discriminate.
Qed.
Lemma decref_frame_unguarded_false :
  ~ (forall prof p r s, pool_wf p -> live p r s -> r <= MAX_STRING_REF ->
       exists p', pool_decref prof p r = Ok p' /\ forall r', r' <> r -> refcount p' r' = refcount p r').
Proof.
  intros H.
  destruct (H Debug (mkpool cp_utf8 [([65], 1)] false false) 1 [65]) as [p' [Hd Hf]].
  - constructor; [|constructor]. unfold entry_wf; cbn [fst snd]. repeat split; try discriminate; reflexivity.
  - split; [reflexivity|]. exists 1. split; reflexivity.
  - discriminate.
  - vm_compute in Hd. inversion Hd; subst. specialize (Hf 0 ltac:(discriminate)).
    vm_compute in Hf. discriminate.
Qed.

Print Assumptions get_live.
Print Assumptions read_pool_total.
Print Assumptions incref_spec.
Print Assumptions incref_total.
Print Assumptions decref_spec.
Print Assumptions pool_roundtrip.
