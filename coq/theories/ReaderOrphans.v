(* ReaderOrphans.v -- proofs of ReaderOrphansSpec.v: pkg_open reads a file whose _Validation table also describes
   tables / columns that are not in the file exactly as if those orphan rows were absent.
     open_catalog_rdo        the catalog part of pkg_open under RInvO (ReaderProofs.open_catalog_rd with orphans)
     open_encoded_orphans    G_open_encoded_orphans, as stated
     rinv_is_rinvo           G_rinv_is_rinvo, as stated
     ko_encoded / ko_not_rinv / ko_open   non-vacuity: a concrete file with one orphan row satisfies RInvO, not RInv
   Both goals hold as stated; no extra hypothesis on the orphan rows is needed: an orphan row has two leading string
   cells, so read_validation_rows accepts it, and its key differs from every (table, column) of the file (the keys
   of the real rows are exactly the `described` pairs) and from the key of every other orphan, so the reader sees no
   repeated key and every lookup of build_columns finds the same real row as without the orphans. *)
From Coq Require Import Lia ZArith NArith List Sorting.Sorted Permutation.
From MsiModel Require Import Base Sexp Value Expr Category Column CodePage Pool Table Container StreamName
  Propset Summary Query Package PoolProofs TableProofs QueryProofs DbInv CatalogProofs PropsetCodecProofs PackageProofs PkgInv ReopenLemmas ReopenProofs ReaderProofs
  ReaderOrphansSpec.
From MsiGen Require Import GenConsts GenCatalog GenStreamName.
Import ListNotations.
Open Scope N_scope.

(* ====================================================================== *)
(* orphan rows as the reader sees them                                     *)
(* ====================================================================== *)
Lemma vrow_key_vkey r a b : vrow_key r = Some (a, b) -> vkey r = (a, b) /\ vrow_ok r.
Proof.
  destruct r as [|[| |x] [|[| |y] r]]; cbn [vrow_key]; try discriminate.
  intros E. inversion E; subst. split; [reflexivity|]. exists a, b. split; reflexivity.
Qed.

Lemma orphans_vrow_ok k orph : orphans_ok k orph -> Forall vrow_ok orph.
Proof.
  intros [F _]. eapply Forall_impl; [|exact F]. intros r (a & b & E & _). apply (vrow_key_vkey r a b E).
Qed.

Lemma orphans_vkey_nodup k orph : orphans_ok k orph -> NoDup (map vkey orph).
Proof.
  intros [F ND]. induction orph as [|r orph IH]; [constructor|].
  inversion F as [|? ? (a & b & E & _) F']; subst. cbn [map] in *. inversion ND as [|? ? Hn ND']; subst.
  constructor; [|apply IH; assumption].
  intros Hin. apply Hn. apply in_map_iff in Hin as (r' & E' & Hr'). apply in_map_iff. exists r'. split; [|exact Hr'].
  rewrite Forall_forall in F'. destruct (F' r' Hr') as (a' & b' & E2 & _).
  rewrite E, E2. destruct (vrow_key_vkey _ _ _ E) as [K1 _]. destruct (vrow_key_vkey _ _ _ E2) as [K2 _].
  rewrite K1, K2 in E'. rewrite E'. reflexivity.
Qed.

Lemma orphans_not_described k orph r : orphans_ok k orph -> In r orph -> ~ described k (fst (vkey r)) (snd (vkey r)).
Proof.
  intros [F _] Hr. rewrite Forall_forall in F. destruct (F r Hr) as (a & b & E & Hn).
  destruct (vrow_key_vkey _ _ _ E) as [K _]. rewrite K. exact Hn.
Qed.

(* ====================================================================== *)
(* the catalog part of pkg_open on a container with orphan rows            *)
(* ====================================================================== *)
Theorem open_catalog_rdo : forall prof k orph, RInvO prof k orph ->
  exists trows names crows cmap vrows vals,
    tvals prof (the_db k) (tables_table (p_long (k_pool k))) = Ok trows /\
    read_table_names trows [] = Ok names /\
    tvals prof (the_db k) (columns_table (p_long (k_pool k))) = Ok crows /\
    read_columns_rows names crows [] = Ok cmap /\
    tvals prof (the_db k) (validation_table (p_long (k_pool k))) = Ok vrows /\
    read_validation_rows vrows [] = Ok vals /\
    build_tables names cmap vals (p_long (k_pool k)) (base_tabs (p_long (k_pool k))) = Ok (k_tabs k).
Proof.
  intros prof k orph (Hpool & Hps & Hfmt & Htw & Hcat & Horph & Hcls & Hfp & Hfd & Hfs & Hfin & Hsm).
  destruct (user_facts_rd k Htw) as (HUs & HU).
  pose proof Htw as (HS & HfT & HfC & HfV & _).
  destruct Hcat as (trows & crows & Ht & Pt & Hc & Pc & HcatV & HcatN).
  set (long := p_long (k_pool k)) in *.
  assert (HUnd : NoDup (map fst (user_tabs k))) by (apply sorted_names_nodup; exact HUs).
  pose proof (orphans_vrow_ok k orph Horph) as HOok.
  pose proof (orphans_vkey_nodup k orph Horph) as HOnd.
  pose proof (fun r => orphans_not_described k orph r Horph) as HOnot.
  clear Horph. unfold described in HOnot.
  set (U := user_tabs k) in *.
  (* the rows of _Tables list the user tables in some order U' *)
  apply Permutation_map_inv in Pt as (U' & Et & PU).
  assert (HU'in : forall x, In x U' <-> In x U).
  { intros x. split; intros Hx; [eapply Permutation_in; [apply Permutation_sym; exact PU | exact Hx]
                                 | eapply Permutation_in; [exact PU | exact Hx]]. }
  assert (HU'nd : NoDup (map fst U')).
  { eapply Permutation_NoDup; [apply Permutation_map; exact PU | exact HUnd]. }
  (* the rows of _Columns are the descriptors of U in some order ds *)
  rewrite crows_descs in Pc. apply Permutation_map_inv in Pc as (ds & Ec & Pds).
  assert (Hds : forall d, In d ds -> cd_tn d <> [] /\ cd_cn d <> [] /\ In (cd_tn d) (map fst U')).
  { intros d Hd. apply (Permutation_in _ (Permutation_sym Pds)) in Hd.
    apply in_descs in Hd as (e & c & He & Hcc & -> & ->).
    destruct (HU e He) as (_ & _ & (Hn & _ & Hst & _) & _). split; [exact Hn|]. split.
    - rewrite Forall_forall in Hst. apply (Hst c Hcc).
    - apply in_map. apply HU'in. exact He. }
  assert (Hdsnd : NoDup (map (fun d => (cd_tn d, cd_i d)) ds)).
  { eapply Permutation_NoDup; [apply Permutation_map; exact Pds | apply descs_keys_nodup; exact HUnd]. }
  destruct (rcr_any (map fst U') ds [] Hds Hdsnd) as (cmap & Hcm & Hlk); [intros ? ? _ []|].
  assert (Hsort : forall e, In e U -> sort_specs (lookup cmap (fst e)) = specs_of (t_cols (snd e))).
  { intros e He. rewrite Hlk. cbn [lookup find app]. apply sort_specs_of_perm; [|apply specs_of_sorted].
    rewrite <- (dsel_descs U e HUnd He). unfold dsel. apply Permutation_map, Permutation_filter_rd, Permutation_sym, Pds. }
  (* _Validation: present (real and orphan rows in any order) or absent *)
  assert (HV : exists vrows vals,
             tvals prof (the_db k) (validation_table long) = Ok vrows /\ read_validation_rows vrows [] = Ok vals /\
             forall e, In e U ->
               build_columns (fst e) (specs_of (t_cols (snd e))) vals = Ok (t_cols (snd e))).
  { destruct (has_validation k) eqn:Ehv.
    - destruct (HcatV eq_refl) as (vrows & Hv & Pv).
      set (real := List.concat (map (fun e => stored (validation_rows (fst e) (t_cols (snd e)))) U)) in *.
      assert (HVok : Forall vrow_ok vrows).
      { apply Forall_forall. intros r Hr. apply (Permutation_in _ Pv) in Hr. apply in_app_or in Hr as [Hr|Hr].
        - apply in_validation_rows in Hr as (e & c & He & Hcc & ->).
          destruct (HU e He) as (_ & _ & (Hn & _ & Hst & _) & _). apply vrow_ok_nvrow; [exact Hn|].
          rewrite Forall_forall in Hst. apply (Hst c Hcc).
        - rewrite Forall_forall in HOok. apply HOok. exact Hr. }
      assert (HVnd : NoDup (map vkey vrows)).
      { eapply Permutation_NoDup; [apply Permutation_map, Permutation_sym, Pv|].
        rewrite map_app. apply NoDup_app_intro.
        - unfold real. rewrite map_vkey_validation.
          + apply vkeys_nodup; [exact HUnd|]. intros e He. apply (HU e He).
          + intros e He. destruct (HU e He) as (_ & _ & (Hn & _ & Hst & _) & _).
            split; [exact Hn | apply storable_names; exact Hst].
        - exact HOnd.
        - intros x Hx Hx2. apply in_map_iff in Hx as (r & <- & Hr). apply in_map_iff in Hx2 as (o & Eo & Ho).
          apply in_validation_rows in Hr as (e & c & He & Hcc & ->).
          destruct (HU e He) as (_ & _ & (Hn & _ & Hst & _) & _).
          rewrite Forall_forall in Hst. assert (Hcn : c_name c <> []) by apply (Hst c Hcc).
          rewrite (vkey_nvrow _ _ Hn Hcn) in Eo. apply (HOnot o Ho). rewrite Eo. cbn [fst snd].
          exists e. split; [exact He|]. split; [reflexivity | apply in_map; exact Hcc]. }
      exists vrows, ([] ++ map vent vrows). split; [exact Hv|]. split.
      { apply rvr_gen; [exact HVok | exact HVnd | intros ? ? ? []]. }
      intros e He. destruct (HU e He) as (_ & _ & (Hn & Hcols & Hst & Hnd & Esnd) & _).
      rewrite specs_of_eq. apply build_columns_gen; [exact Hst|].
      intros c Hcc. cbn [app]. rewrite Forall_forall in Hst.
      assert (Hcn : c_name c <> []) by apply (Hst c Hcc).
      rewrite <- (vent_nvrow (fst e) c Hn Hcn). apply find_vent; [exact HVnd | | apply vkey_nvrow; assumption].
      apply (Permutation_in _ (Permutation_sym Pv)). apply in_or_app. left.
      apply in_validation_rows. exists e, c. auto.
    - exists [], []. split.
      { unfold tvals, load_rows, the_db. cbn [d_cont d_pool].
        change (stream_name_of (validation_table long)) with (sn_encode VALIDATION_TABLE_NAME true).
        rewrite (proj2 (HcatN eq_refl)). reflexivity. }
      split; [reflexivity|].
      intros e He. destruct (HU e He) as (_ & _ & (Hn & Hcols & Hst & Hnd & Esnd) & Hbare).
      rewrite specs_of_eq. apply build_columns_bare; [exact Hst | apply Hbare; reflexivity]. }
  destruct HV as (vrows & vals & Hv & Hl & Hbc).
  exists trows, (map fst U'), crows, cmap, vrows, vals.
  split; [exact Ht|]. split.
  { rewrite Et, <- (map_map fst (fun n => [VStr n])). apply (read_table_names_spec (map fst U') []). exact HU'nd. }
  split; [exact Hc|]. split; [rewrite Ec; exact Hcm|].
  split; [exact Hv|]. split; [exact Hl|].
  rewrite (build_tables_any cmap vals long U').
  2:{ intros e He. apply HU'in in He. destruct (HU e He) as (_ & _ & (Hn & Hcols & Hst & Hnd & Esnd) & _).
      split; [apply Hsort; exact He|]. split; [exact Hcols|]. split; [apply Hbc; exact He | exact Esnd]. }
  f_equal. rewrite base_tabs_eq.
  apply (sorted_ext_eq tlt tlt_irrefl tlt_trans).
  - apply ins_all_sorted. repeat constructor.
  - exact HS.
  - intros x. split.
    + intros Hx. apply ins_all_in in Hx as [[<-|[<-|[]]]|Hx].
      * apply find_table_in. exact HfC.
      * apply find_table_in. exact HfT.
      * apply HU'in in Hx. apply (HU x Hx).
    + intros Hx. apply ins_all_has; [exact HU'nd|].
      destruct (is_core (fst x)) eqn:Ecore.
      * left. split.
        -- destruct x as [n t]. pose proof (sorted_find _ _ _ HS Hx) as Hf. cbn [fst] in Ecore.
           unfold is_core in Ecore. apply orb_true_iff in Ecore as [E|E]; apply str_eqb_spec in E; subst n.
           ++ rewrite HfT in Hf. inversion Hf. right. left. reflexivity.
           ++ rewrite HfC in Hf. inversion Hf. left. reflexivity.
        -- intros Hin. apply in_map_iff in Hin as (e & Ee & He). apply HU'in in He.
           destruct (HU e He) as (_ & Hc' & _). rewrite Ee, Ecore in Hc'. discriminate.
      * right. apply HU'in. unfold U, user_tabs. apply filter_In. split; [exact Hx|]. rewrite Ecore. reflexivity.
Qed.

(* ====================================================================== *)
(* the goals                                                               *)
(* ====================================================================== *)
Theorem open_encoded_orphans : G_open_encoded_orphans.
Proof.
  intros prof k orph HR.
  destruct (open_catalog_rdo prof k orph HR) as (trows & names & crows & cmap & vrows & vals & Ht & Hn & Hc & Hm & Hv & Hl & Hb).
  destruct HR as (Hpool & Hps & Hfmt & Htw & Hcat & Horph & Hcls & Hfp & Hfd & Hfs & Hfin & Hsm).
  destruct (ps_roundtrip _ Hps) as (sb & Hsb & Hrs).
  destruct (pool_reader_any _ Hpool) as (pb & db & Hpb & Hdb & Hrp).
  unfold pool_stream in Hfp. unfold data_stream in Hfd.
  unfold pkg_open. rewrite Hcls, ptype_roundtrip. cbn [of_opt rbind].
  unfold ct_read. rewrite Hfs, Hsb. cbn [of_opt rbind].
  unfold summary_read. rewrite Hrs. cbn [rbind]. rewrite Hfmt, fmtid_eqb.
  rewrite Hfp, Hpb. cbn [of_opt rbind]. rewrite Hfd, Hdb. cbn [of_opt rbind]. rewrite Hrp. cbn [rbind]. cbv zeta.
  rewrite !rows_values_tvals.
  rewrite Ht. cbn [rbind]. rewrite Hn. cbn [rbind].
  rewrite Hc. cbn [rbind]. rewrite Hm. cbn [rbind].
  rewrite Hv. cbn [rbind]. rewrite Hl. cbn [rbind].
  fold (base_tabs (p_long (k_pool k))). rewrite Hb. cbn [rbind].
  destruct k as [c ty s sm p ts f]. cbn [k_cont k_type k_sum k_sum_mod k_pool k_tabs k_fin] in *. subst sm f. reflexivity.
Qed.

Theorem rinv_is_rinvo : G_rinv_is_rinvo.
Proof.
  intros prof k (Hpool & Hps & Hfmt & Htw & Hcat & Hrest).
  refine (conj Hpool (conj Hps (conj Hfmt (conj Htw (conj _ (conj _ Hrest)))))).
  - destruct Hcat as (tr & cr & H1 & P1 & H2 & P2 & HV & HN). exists tr, cr.
    split; [exact H1|]. split; [exact P1|]. split; [exact H2|]. split; [exact P2|]. split.
    + intros E. destruct (HV E) as (vr & H3 & P3). exists vr. split; [exact H3|]. rewrite app_nil_r. exact P3.
    + intros E. split; [reflexivity | exact (HN E)].
  - split; constructor.
Qed.

(* ====================================================================== *)
(* non-vacuity: a concrete file with an orphan _Validation row             *)
(* ====================================================================== *)
(* the package the library creates (with its _Validation table), one row inserted into _Validation that describes
   column "Y" of a table "X" that does not exist, flushed.  It satisfies RInvO Debug with that row as the only
   orphan, it does not satisfy RInv, and pkg_open reads it exactly (by the theorem, and again by evaluation). *)
From MsiModel Require Import PkgInv2 CreateTableProofs CreateTableCex.

Definition orow : list value := [VStr [88]; VStr [89]; VStr [78]; VNull; VNull; VNull; VNull; VNull; VNull; VNull].
Definition ko : pkg :=
  match pkg_flush (fst (pkg_insert Debug kc VALIDATION_TABLE_NAME [orow])) with Some k => k | None => kdummy end.

Definition entry_rdb (e : str * N) : bool :=
  (snd e <? 65536) && (match fst e with [] => snd e =? 0 | _ => true end) && forallb is_scalar (fst e) &&
  (utf8_len (fst e) <? 4294967296).
Lemma entry_rdb_ok l : forallb entry_rdb l = true -> Forall entry_rd l.
Proof.
  intros H. apply Forall_forall. intros e He. rewrite forallb_forall in H. specialize (H e He).
  unfold entry_rdb in H. apply andb_true_iff in H as [H H4]. apply andb_true_iff in H as [H H3].
  apply andb_true_iff in H as [H1 H2]. apply N.ltb_lt in H1, H4.
  split; [exact H1|]. split; [|split; assumption].
  intros E. rewrite E in H2. apply N.eqb_eq in H2. exact H2.
Qed.

(* a permutation of two explicit lists: move the head of the left list to the front of the right one *)
Ltac perm_explicit :=
  repeat match goal with
  | |- Permutation [] [] => apply perm_nil
  | |- Permutation (?a :: _) ?r =>
      let rec go pre post :=
        match post with
        | a :: ?post' => change r with (rev pre ++ a :: post'); apply Permutation_cons_app; cbn [rev app]
        | ?b :: ?post' => go (b :: pre) post'
        end in
      go (@nil (list value)) r
  end.

Definition rows_of (t : table) : list (list value) := match tvals Debug (the_db ko) t with Ok r => r | _ => [] end.

Lemma ko_tabs : k_tabs ko = k_tabs kc /\ p_long (k_pool ko) = p_long (k_pool kc) /\ k_sum ko = k_sum kc.
Proof. repeat split; vm_compute; reflexivity. Qed.
Lemma ko_user_tabs : user_tabs ko = [(VALIDATION_TABLE_NAME, validation_table false)].
Proof. vm_compute. reflexivity. Qed.
Lemma ko_has_validation : has_validation ko = true.
Proof. vm_compute. reflexivity. Qed.

Example ko_encoded : RInvO Debug ko [orow].
Proof.
  assert (HR : RInv Release kc).
  { apply saved_is_encoded; [exact (proj1 (create_inv Release Installer kc kc_ok)) | | |]; vm_compute; reflexivity. }
  destruct HR as (_ & Hps & Hfmt & Htw & _).
  destruct ko_tabs as (Et & El & Es).
  refine (conj _ (conj _ (conj _ (conj _ (conj _ (conj _ _)))))).
  - split; [|split; vm_compute; reflexivity]. apply entry_rdb_ok. vm_compute. reflexivity.
  - rewrite Es. exact Hps.
  - rewrite Es. exact Hfmt.
  - unfold tabs_rd, has_validation, user_tabs in *. rewrite Et, El. exact Htw.
  - exists (rows_of (tables_table false)), (rows_of (columns_table false)).
    split; [vm_compute; reflexivity|]. split; [rewrite ko_user_tabs; vm_compute; perm_explicit|].
    split; [vm_compute; reflexivity|]. split; [rewrite ko_user_tabs; vm_compute; perm_explicit|].
    split; [|rewrite ko_has_validation; discriminate].
    intros _. exists (rows_of (validation_table false)).
    split; [vm_compute; reflexivity|]. rewrite ko_user_tabs. vm_compute. perm_explicit.
  - split; [|repeat constructor; intros []].
    constructor; [|constructor]. exists [88], [89]. split; [reflexivity|].
    intros (e & He & Ea & _). rewrite ko_user_tabs in He. destruct He as [<-|[]]. discriminate Ea.
  - refine (conj _ (conj _ (conj _ (conj _ (conj _ _))))); vm_compute; reflexivity.
Qed.

Lemma Ok_inj {A} (a b : A) : Ok a = Ok b -> a = b.
Proof. intros H. injection H. auto. Qed.

(* the orphan row is really there: the example is outside RInv *)
Lemma ko_not_rinv : ~ RInv Debug ko.
Proof.
  intros (_ & _ & _ & _ & (tr & cr & _ & _ & _ & _ & HV & _) & _).
  destruct (HV ko_has_validation) as (vr & Hv & Pv).
  assert (E : tvals Debug (the_db ko) (validation_table (p_long (k_pool ko))) = Ok (rows_of (validation_table false)))
    by (vm_compute; reflexivity).
  rewrite E in Hv. apply Ok_inj in Hv. subst vr. apply Permutation_length in Pv.
  rewrite ko_user_tabs in Pv. vm_compute in Pv. discriminate Pv.
Qed.

Theorem ko_open : pkg_open Debug (k_cont ko) = Ok ko.
Proof. exact (open_encoded_orphans Debug ko [orow] ko_encoded). Qed.

(* the same by evaluation of the model, independently of the proof *)
Example ko_open_computed : pkg_open Debug (k_cont ko) = Ok ko.
Proof. vm_compute. reflexivity. Qed.

Print Assumptions open_encoded_orphans.
Print Assumptions rinv_is_rinvo.
Print Assumptions ko_encoded.
Print Assumptions ko_not_rinv.
