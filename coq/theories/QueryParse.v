(* QueryParse.v -- SPEC: the Query* / Table* / ColumnList / RowList /
   AssignmentList rules of examples/msiquery.pest read as a parser over tokens.
   Every `Expr` of the grammar is read with Ladder.parse.  Written from the
   grammar, not from the printer.

     Query          = QueryDelete | QueryInsert | QuerySelect | QueryUpdate     (then end of input)
     QueryDelete    = DELETE FROM Ident (WHERE Expr)?
     QueryInsert    = INSERT INTO Ident (VALUES RowList)?
     QuerySelect    = SELECT ColumnList FROM Table (WHERE Expr)?
     QueryUpdate    = UPDATE Ident SET AssignmentList (WHERE Expr)?
     AssignmentList = Assignment ("," Assignment)*        Assignment = Ident "=" Literal
     ColumnList     = "*" | CompoundIdent ("," CompoundIdent)*
     RowList        = Row ("," Row)*                      Row = "(" Literal ("," Literal)* ")"
     Table          = TableJoin | Table2
     TableJoin      = Table2 (INNER | LEFT) JOIN Table2 ON Expr
     Table2         = Ident | "(" QuerySelect ")"

   A single query is read (QueryList's `;` separators are outside the model).

   Identifiers.  A TId token carries the characters of a word; the grammar's
   positions decide which words are acceptable: `Ident` (a letter or `_`, then
   letters, digits, `_`; not a keyword, compared without regard to case) for
   table names and assigned columns, `CompoundIdent` (Idents joined by `.`) in a
   SELECT column list.

   PEG notes.  pest's choices are ordered and its repetitions greedy, without
   backtracking into a completed repetition.  Where this parser returns None
   after a prefix of an optional/repeated group has matched (e.g. WHERE followed
   by something that is not an expression, or Table2 INNER JOIN followed by
   something that is not a join), pest would instead retry with the group
   absent and then fail on the leftover keyword, because nothing that may
   follow the group starts with WHERE / INNER / LEFT / `,`.  Both reject.

   What the tree is.  `*` is the empty column list (all columns); an absent
   VALUES clause is the empty row list; an `Ident` join operand is the select
   `Sel (JTable name) [] None` (what Select::table(name) builds); a
   parenthesised select that is the whole Table (not an operand of a join) has
   no counterpart in `join` and is rejected. *)
From MsiModel Require Import Base Value Expr ExprText Ladder Query Sexp QueryText.
Open Scope N_scope.

(* ---- lexical classes ------------------------------------------------------------- *)
Definition upper (c : N) : N := if (97 <=? c) && (c <=? 122) then c - 32 else c.
Definition keywords : list str :=
  map str_of_string
    ["AND"; "DELETE"; "FALSE"; "FROM"; "INNER"; "INSERT"; "INTO"; "JOIN"; "LEFT"; "NOT";
     "NULL"; "ON"; "OR"; "SELECT"; "SET"; "TRUE"; "UPDATE"; "VALUES"; "WHERE"]%string.
Definition is_keyword (s : str) : bool := existsb (str_eqb (map upper s)) keywords.
Definition is_alnum (c : N) : bool := is_alpha c || is_digit c.     (* is_alpha includes `_` *)

(* Ident = @{ !Keyword ~ (ASCII_ALPHA | "_") ~ (ASCII_ALPHANUMERIC | "_")* }, as a whole word *)
Definition is_ident (s : str) : bool :=
  match s with
  | [] => false
  | c :: r => is_alpha c && forallb is_alnum r && negb (is_keyword s)
  end.

(* CompoundIdent = @{ Ident ~ ("." ~ Ident)* } *)
Fixpoint split_dot (s : str) : list str :=
  match s with
  | [] => [[]]
  | c :: r =>
      if c =? 46 then [] :: split_dot r
      else match split_dot r with
           | h :: t => (c :: h) :: t
           | [] => [[c]]
           end
  end.
Definition is_compound (s : str) : bool := forallb is_ident (split_dot s).

(* ---- Expr: the ladder, on the longest run of expression tokens ---------------------- *)
Fixpoint etoks (ts : list qtok) : list tok * list qtok :=
  match ts with
  | QE t :: r => let '(a, b) := etoks r in (t :: a, b)
  | _ => ([], ts)
  end.
Definition parse_expr_q (ts : list qtok) : option (ast * list qtok) :=
  let '(pre, rest) := etoks ts in
  match parse (2 * length pre + 2) 0 pre with
  | Some (e, r) => Some (e, map QE r ++ rest)
  | None => None
  end.

(* (KwWhere ~ Expr)? *)
Definition p_where (ts : list qtok) : option (option ast * list qtok) :=
  match ts with
  | QK KWhere :: r =>
      match parse_expr_q r with
      | Some (e, r') => Some (Some e, r')
      | None => None
      end
  | _ => Some (None, ts)
  end.

(* Ident *)
Definition p_ident (ts : list qtok) : option (str * list qtok) :=
  match ts with
  | QE (TId s) :: r => if is_ident s then Some (s, r) else None
  | _ => None
  end.

(* ---- ColumnList ---------------------------------------------------------------------- *)
(* (OpComma ~ CompoundIdent)* *)
Fixpoint p_cols_more (ts : list qtok) : list str * list qtok :=
  match ts with
  | QComma :: QE (TId s) :: r =>
      if is_compound s then let '(l, r') := p_cols_more r in (s :: l, r') else ([], ts)
  | _ => ([], ts)
  end.
Definition p_collist (ts : list qtok) : option (list str * list qtok) :=
  match ts with
  | QE (TB (BBin OMul)) :: r => Some ([], r)
  | QE (TId s) :: r =>
      if is_compound s then let '(l, r') := p_cols_more r in Some (s :: l, r') else None
  | _ => None
  end.

(* ---- RowList ----------------------------------------------------------------------------- *)
(* (OpComma ~ Literal)* *)
Fixpoint p_lits_more (ts : list qtok) : list value * list qtok :=
  match ts with
  | QComma :: QE (TLit v) :: r => let '(l, r') := p_lits_more r in (v :: l, r')
  | _ => ([], ts)
  end.
Definition p_row (ts : list qtok) : option (list value * list qtok) :=
  match ts with
  | QE TLP :: QE (TLit v) :: r =>
      let '(l, r') := p_lits_more r in
      match r' with
      | QE TRP :: r'' => Some (v :: l, r'')
      | _ => None
      end
  | _ => None
  end.
(* (OpComma ~ Row)*; every round consumes a token, so `length ts` rounds suffice *)
Fixpoint p_rows_more (f : nat) (ts : list qtok) : list (list value) * list qtok :=
  match f with
  | O => ([], ts)
  | S f' =>
      match ts with
      | QComma :: r =>
          match p_row r with
          | Some (row, r') => let '(l, r'') := p_rows_more f' r' in (row :: l, r'')
          | None => ([], ts)
          end
      | _ => ([], ts)
      end
  end.
Definition p_rowlist (ts : list qtok) : option (list (list value) * list qtok) :=
  match p_row ts with
  | Some (row, r) => let '(l, r') := p_rows_more (length r) r in Some (row :: l, r')
  | None => None
  end.

(* ---- AssignmentList --------------------------------------------------------------------- *)
Fixpoint p_assigns_more (ts : list qtok) : list (str * value) * list qtok :=
  match ts with
  | QComma :: QE (TId s) :: QE (TB (BBin OEq)) :: QE (TLit v) :: r =>
      if is_ident s then let '(l, r') := p_assigns_more r in ((s, v) :: l, r') else ([], ts)
  | _ => ([], ts)
  end.
Definition p_assignlist (ts : list qtok) : option (list (str * value) * list qtok) :=
  match ts with
  | QE (TId s) :: QE (TB (BBin OEq)) :: QE (TLit v) :: r =>
      if is_ident s then let '(l, r') := p_assigns_more r in Some ((s, v) :: l, r') else None
  | _ => None
  end.

(* ---- Table / QuerySelect -------------------------------------------------------------------- *)
Inductive operand := OpIdent (n : str) | OpSel (s : sel).
Definition operand_sel (o : operand) : sel :=
  match o with
  | OpIdent n => Sel (JTable n) [] None
  | OpSel s => s
  end.

Section Select.
  Variable psel : list qtok -> option (sel * list qtok).     (* QuerySelect, one level down *)

  (* Table2 = Ident | "(" QuerySelect ")" *)
  Definition p_table2 (ts : list qtok) : option (operand * list qtok) :=
    match ts with
    | QE (TId s) :: r => if is_ident s then Some (OpIdent s, r) else None
    | QE TLP :: r =>
        match psel r with
        | Some (s, QE TRP :: r') => Some (OpSel s, r')
        | _ => None
        end
    | _ => None
    end.

  (* ... JOIN Table2 ON Expr *)
  Definition p_join_tail (mkj : sel -> sel -> ast -> join) (a : operand) (ts : list qtok)
    : option (join * list qtok) :=
    match p_table2 ts with
    | Some (b, QK KOn :: r) =>
        match parse_expr_q r with
        | Some (on, r') => Some (mkj (operand_sel a) (operand_sel b) on, r')
        | None => None
        end
    | _ => None
    end.

  (* Table = TableJoin | Table2 *)
  Definition p_table (ts : list qtok) : option (join * list qtok) :=
    match p_table2 ts with
    | Some (a, QK KInner :: QK KJoin :: r) => p_join_tail JInner a r
    | Some (a, QK KLeft :: QK KJoin :: r) => p_join_tail JLeft a r
    | Some (OpIdent n, r) => Some (JTable n, r)
    | _ => None
    end.

  (* QuerySelect = SELECT ColumnList FROM Table (WHERE Expr)? *)
  Definition p_select_body (ts : list qtok) : option (sel * list qtok) :=
    match ts with
    | QK KSelect :: r =>
        match p_collist r with
        | Some (cols, QK KFrom :: r1) =>
            match p_table r1 with
            | Some (from, r2) =>
                match p_where r2 with
                | Some (cond, r3) => Some (Sel from cols cond, r3)
                | None => None
                end
            | None => None
            end
        | _ => None
        end
    | _ => None
    end.
End Select.

(* nesting depth as fuel: each parenthesised select opens with a token *)
Fixpoint p_select (f : nat) (ts : list qtok) : option (sel * list qtok) :=
  match f with
  | O => None
  | S f' => p_select_body (p_select f') ts
  end.

(* ---- Query, then end of input ------------------------------------------------------------------ *)
Definition parse_query (ts : list qtok) : option query :=
  match ts with
  | QK KDelete :: QK KFrom :: r =>
      match p_ident r with
      | Some (tn, r1) =>
          match p_where r1 with
          | Some (cond, []) => Some (QDelete tn cond)
          | _ => None
          end
      | None => None
      end
  | QK KInsert :: QK KInto :: r =>
      match p_ident r with
      | Some (tn, []) => Some (QInsert tn [])
      | Some (tn, QK KValues :: r1) =>
          match p_rowlist r1 with
          | Some (rows, []) => Some (QInsert tn rows)
          | _ => None
          end
      | _ => None
      end
  | QK KSelect :: _ =>
      match p_select (length ts) ts with
      | Some (s, []) => Some (QSelect s)
      | _ => None
      end
  | QK KUpdate :: r =>
      match p_ident r with
      | Some (tn, QK KSet :: r1) =>
          match p_assignlist r1 with
          | Some (ups, r2) =>
              match p_where r2 with
              | Some (cond, []) => Some (QUpdate tn ups cond)
              | _ => None
              end
          | None => None
          end
      | _ => None
      end
  | _ => None
  end.
