(* StreamProofs.v -- C11 (container and stream interface part): the container is a finite map
   under its name comparison; the stream interface of the package refines a finite map from the
   names given to the bytes last written; encoded names never collide, never alias a table stream
   or one of the protected entries; stream calls never panic; removing the signature removes only
   the signature entries. *)
From MsiModel Require Import Base Sexp Value Expr Category Column CodePage Pool Table Container StreamName StreamNameProofs
  Propset Summary Query Package.
From MsiGen Require Import GenConsts GenStreamName.
From Coq Require Import ZifyBool ZifyNat ZifyN Lia.
Open Scope N_scope.

(* ---- the name comparison is an equivalence ------------------------------------------------- *)
Lemma name_eqb_true_iff a b : name_eqb a b = true <-> name_key a = name_key b.
Proof. unfold name_eqb. apply str_eqb_spec. Qed.
Lemma name_eqb_false_iff a b : name_eqb a b = false <-> name_key a <> name_key b.
Proof.
  rewrite <- name_eqb_true_iff. destruct (name_eqb a b); split; intros H; try reflexivity; try discriminate.
  exfalso. apply H. reflexivity.
Qed.

Theorem name_eqb_refl : forall a, name_eqb a a = true.
Proof. intros a. apply name_eqb_true_iff. reflexivity. Qed.
Theorem name_eqb_sym : forall a b, name_eqb a b = name_eqb b a.
Proof.
  intros a b. destruct (name_eqb b a) eqn:E.
  - apply name_eqb_true_iff. apply name_eqb_true_iff in E. symmetry. exact E.
  - apply name_eqb_false_iff. apply name_eqb_false_iff in E. intros H. apply E. symmetry. exact H.
Qed.
Theorem name_eqb_trans : forall a b c, name_eqb a b = true -> name_eqb b c = true -> name_eqb a c = true.
Proof.
  intros a b c H1 H2. apply name_eqb_true_iff. apply name_eqb_true_iff in H1. apply name_eqb_true_iff in H2.
  rewrite H1. exact H2.
Qed.

(* ---- the container is a finite map under name_eqb ------------------------------------------- *)
(* true for arbitrary entry lists, also ones that already hold several entries equal under name_eqb:
   ct_put replaces the first such entry and ct_find returns the first such entry *)
Theorem find_put : forall l n b n',
  ct_find (ct_put l n b) n' = if name_eqb n n' then Some b else ct_find l n'.
Proof.
  induction l as [|[m x] r IH]; intros n b n'.
  - cbn [ct_put ct_find]. destruct (name_eqb n n'); reflexivity.
  - cbn [ct_put ct_find]. destruct (name_eqb m n) eqn:Emn.
    + cbn [ct_find]. destruct (name_eqb n n') eqn:Enn.
      * rewrite (name_eqb_trans _ _ _ Emn Enn). reflexivity.
      * destruct (name_eqb m n') eqn:Emn'; [|reflexivity]. exfalso.
        rewrite name_eqb_sym in Emn. rewrite (name_eqb_trans _ _ _ Emn Emn') in Enn. discriminate.
    + cbn [ct_find]. rewrite IH. destruct (name_eqb m n') eqn:Emn'; [|reflexivity].
      destruct (name_eqb n n') eqn:Enn; [|reflexivity]. exfalso.
      rewrite name_eqb_sym in Enn. rewrite (name_eqb_trans _ _ _ Emn' Enn) in Emn. discriminate.
Qed.

Lemma find_filter l n n' :
  ct_find (filter (fun e => negb (name_eqb (fst e) n)) l) n' = if name_eqb n n' then None else ct_find l n'.
Proof.
  induction l as [|[m x] r IH].
  - cbn [filter ct_find]. destruct (name_eqb n n'); reflexivity.
  - cbn [filter fst]. destruct (name_eqb m n) eqn:Emn; cbn [negb].
    + rewrite IH. destruct (name_eqb n n') eqn:Enn; [reflexivity|]. cbn [ct_find].
      destruct (name_eqb m n') eqn:Emn'; [|reflexivity]. exfalso.
      rewrite name_eqb_sym in Emn. rewrite (name_eqb_trans _ _ _ Emn Emn') in Enn. discriminate.
    + cbn [ct_find]. rewrite IH. destruct (name_eqb m n') eqn:Emn'; [|reflexivity].
      destruct (name_eqb n n') eqn:Enn; [|reflexivity]. exfalso.
      rewrite name_eqb_sym in Enn. rewrite (name_eqb_trans _ _ _ Emn' Enn) in Emn. discriminate.
Qed.

Lemma ct_remove_entries c n c' : ct_remove c n = Ok c' ->
  ct_entries c' = filter (fun e => negb (name_eqb (fst e) n)) (ct_entries c).
Proof.
  unfold ct_remove. destruct (ct_exists c n); intros H; [|discriminate]. inversion H. reflexivity.
Qed.

Theorem find_remove : forall c n c' n', ct_remove c n = Ok c' ->
  ct_find (ct_entries c') n' = if name_eqb n n' then None else ct_find (ct_entries c) n'.
Proof. intros c n c' n' H. rewrite (ct_remove_entries _ _ _ H). apply find_filter. Qed.

(* ---- encoded names under the container's comparison ------------------------------------------- *)
Lemma upper_ascii_not_packable c : to_b64 c = None -> upper_ascii c = c.
Proof.
  unfold to_b64, upper_ascii. intros H.
  destruct ((48 <=? c) && (c <=? 57)); [discriminate|].
  destruct ((65 <=? c) && (c <=? 90)); [discriminate|].
  destruct ((97 <=? c) && (c <=? 122)); [discriminate|]. reflexivity.
Qed.
Lemma name_key_not_packable s : Forall (fun c => to_b64 c = None) s -> name_key s = s.
Proof.
  induction 1 as [|c s Hc Hs IH]; [reflexivity|]. unfold name_key in *. cbn [map].
  rewrite IH, (upper_ascii_not_packable c Hc). reflexivity.
Qed.
Lemma sn_encode_false n : sn_encode n false = encode_chars n.
Proof. reflexivity. Qed.
(* name_key is the identity on an encoded stream name *)
Lemma name_key_encoded n : Forall safe n -> name_key (sn_encode n false) = sn_encode n false.
Proof. intros Hs. rewrite sn_encode_false. apply name_key_not_packable, encode_chars_no_packable, Hs. Qed.

Theorem encoded_name_eqb : forall n1 n2, sn_is_valid n1 false = true -> sn_is_valid n2 false = true ->
  name_eqb (sn_encode n1 false) (sn_encode n2 false) = true -> n1 = n2.
Proof.
  intros n1 n2 V1 V2 H. destruct (valid_is_safe _ _ V1) as [S1 N1]. destruct (valid_is_safe _ _ V2) as [S2 N2].
  apply name_eqb_true_iff in H. rewrite (name_key_encoded _ S1), (name_key_encoded _ S2) in H.
  apply (sn_encode_injective n1 false n2 false S1 S2 N1 N2 H).
Qed.
Corollary encoded_name_neqb n1 n2 : sn_is_valid n1 false = true -> sn_is_valid n2 false = true -> n1 <> n2 ->
  name_eqb (sn_encode n1 false) (sn_encode n2 false) = false.
Proof.
  intros V1 V2 Hne. destruct (name_eqb (sn_encode n1 false) (sn_encode n2 false)) eqn:E; [|reflexivity].
  exfalso. apply Hne. apply encoded_name_eqb; assumption.
Qed.

Theorem stream_not_table : forall n tn, sn_is_valid n false = true ->
  name_eqb (sn_encode n false) (sn_encode tn true) = false.
Proof.
  intros n tn V. destruct (valid_is_safe _ _ V) as [S _]. apply name_eqb_false_iff.
  rewrite (name_key_encoded _ S). intros E.
  destruct (sn_never_protected n V) as (_ & Hhd & _).
  unfold sn_encode at 2 in E. unfold name_key in E. cbn [app map] in E.
  apply (Hhd _ _ E). vm_compute. reflexivity.
Qed.

Lemma protected_keys_have_letters :
  forallb (fun p => existsb (fun c => match to_b64 c with Some _ => true | None => false end) (name_key p))
          protected_names = true.
Proof. vm_compute. reflexivity. Qed.

Theorem stream_not_protected : forall n p, sn_is_valid n false = true -> In p protected_names ->
  name_eqb (sn_encode n false) p = false.
Proof.
  intros n p V Hin. destruct (valid_is_safe _ _ V) as [S _]. apply name_eqb_false_iff.
  rewrite (name_key_encoded _ S). intros E.
  pose proof protected_keys_have_letters as P. rewrite forallb_forall in P. specialize (P _ Hin).
  apply existsb_exists in P as (c & Hc & Hp). rewrite <- E, sn_encode_false in Hc.
  pose proof (encode_chars_no_packable n S) as Hnp. rewrite Forall_forall in Hnp.
  rewrite (Hnp c Hc) in Hp. discriminate.
Qed.

(* ---- the stream interface, seen through ct_find ------------------------------------------------- *)
Definition stream_bytes (k : pkg) (n : str) : option bytes := ct_find (ct_entries (k_cont k)) (sn_encode n false).

Lemma read_stream_valid k n : sn_is_valid n false = true -> pkg_read_stream k n = of_opt (stream_bytes k n).
Proof. intros V. unfold pkg_read_stream. rewrite V. reflexivity. Qed.
Lemma has_stream_valid k n : sn_is_valid n false = true ->
  pkg_has_stream k n = match stream_bytes k n with Some _ => true | None => false end.
Proof. intros V. unfold pkg_has_stream. rewrite V. reflexivity. Qed.

Lemma write_stream_ok k n b k' : pkg_write_stream k n b = (k', Ok tt) ->
  sn_is_valid n false = true /\ ct_entries (k_cont k') = ct_put (ct_entries (k_cont k)) (sn_encode n false) b.
Proof.
  unfold pkg_write_stream. destruct (sn_is_valid n false); cbn [negb]; intros H; [|discriminate].
  inversion H. split; reflexivity.
Qed.
Lemma remove_stream_ok k n k' : pkg_remove_stream k n = (k', Ok tt) ->
  sn_is_valid n false = true /\
  ct_entries (k_cont k') = filter (fun e => negb (name_eqb (fst e) (sn_encode n false))) (ct_entries (k_cont k)).
Proof.
  unfold pkg_remove_stream. destruct (sn_is_valid n false); cbn [negb]; intros H; [|discriminate].
  destruct (ct_remove (k_cont k) (sn_encode n false)) as [c| |] eqn:R; try discriminate.
  inversion H. split; [reflexivity|]. cbn [k_cont with_cont with_cp]. apply (ct_remove_entries _ _ _ R).
Qed.

Theorem write_then_read : forall k n b k', pkg_write_stream k n b = (k', Ok tt) ->
  pkg_read_stream k' n = Ok b /\ pkg_has_stream k' n = true /\
  (forall n', sn_is_valid n' false = true -> n' <> n -> pkg_read_stream k' n' = pkg_read_stream k n' /\ pkg_has_stream k' n' = pkg_has_stream k n').
Proof.
  intros k n b k' H. destruct (write_stream_ok _ _ _ _ H) as [V E].
  assert (forall n', stream_bytes k' n' = if name_eqb (sn_encode n false) (sn_encode n' false) then Some b else stream_bytes k n') as F.
  { intros n'. unfold stream_bytes. rewrite E. apply find_put. }
  split; [|split].
  - rewrite (read_stream_valid _ _ V), F, name_eqb_refl. reflexivity.
  - rewrite (has_stream_valid _ _ V), F, name_eqb_refl. reflexivity.
  - intros n' V' Hne. assert (n <> n') as Hne' by (intros X; apply Hne; symmetry; exact X).
    rewrite !(read_stream_valid _ _ V'), !(has_stream_valid _ _ V'), F.
    rewrite (encoded_name_neqb _ _ V V' Hne'). split; reflexivity.
Qed.

Theorem remove_then_read : forall k n k', pkg_remove_stream k n = (k', Ok tt) ->
  pkg_read_stream k' n = Err /\ pkg_has_stream k' n = false /\
  (forall n', sn_is_valid n' false = true -> n' <> n -> pkg_read_stream k' n' = pkg_read_stream k n' /\ pkg_has_stream k' n' = pkg_has_stream k n').
Proof.
  intros k n k' H. destruct (remove_stream_ok _ _ _ H) as [V E].
  assert (forall n', stream_bytes k' n' = if name_eqb (sn_encode n false) (sn_encode n' false) then None else stream_bytes k n') as F.
  { intros n'. unfold stream_bytes. rewrite E. apply find_filter. }
  split; [|split].
  - rewrite (read_stream_valid _ _ V), F, name_eqb_refl. reflexivity.
  - rewrite (has_stream_valid _ _ V), F, name_eqb_refl. reflexivity.
  - intros n' V' Hne. assert (n <> n') as Hne' by (intros X; apply Hne; symmetry; exact X).
    rewrite !(read_stream_valid _ _ V'), !(has_stream_valid _ _ V'), F.
    rewrite (encoded_name_neqb _ _ V V' Hne'). split; reflexivity.
Qed.

Theorem stream_err_noop : forall k n b k1 k2,
  (pkg_write_stream k n b = (k1, Err) -> k1 = k) /\ (pkg_remove_stream k n = (k2, Err) -> k2 = k).
Proof.
  intros k n b k1 k2. split.
  - unfold pkg_write_stream. destruct (negb (sn_is_valid n false)); intros H; [|discriminate].
    inversion H. reflexivity.
  - unfold pkg_remove_stream. destruct (negb (sn_is_valid n false)); intros H; [inversion H; reflexivity|].
    destruct (ct_remove (k_cont k) (sn_encode n false)); [discriminate| |]; inversion H; reflexivity.
Qed.

Theorem stream_total : forall k n b,
  pkg_read_stream k n <> Panic /\ snd (pkg_write_stream k n b) <> Panic /\ snd (pkg_remove_stream k n) <> Panic.
Proof.
  intros k n b. split; [|split].
  - unfold pkg_read_stream, ct_read. destruct (negb (sn_is_valid n false)); [discriminate|].
    destruct (ct_find (ct_entries (k_cont k)) (sn_encode n false)); discriminate.
  - unfold pkg_write_stream. destruct (negb (sn_is_valid n false)); discriminate.
  - unfold pkg_remove_stream. destruct (negb (sn_is_valid n false)); [discriminate|].
    destruct (ct_remove (k_cont k) (sn_encode n false)); discriminate.
Qed.

Theorem stream_ops_frame : forall k n b k' s,
  (pkg_write_stream k n b = (k', Ok tt) \/ pkg_remove_stream k n = (k', Ok tt)) ->
  (In s protected_names \/ exists tn, s = sn_encode tn true) ->
  ct_find (ct_entries (k_cont k')) s = ct_find (ct_entries (k_cont k)) s.
Proof.
  intros k n b k' s Hop Hs.
  assert (sn_is_valid n false = true -> name_eqb (sn_encode n false) s = false) as Hn.
  { intros V. destruct Hs as [Hp | [tn ->]]; [apply stream_not_protected; assumption | apply stream_not_table; assumption]. }
  destruct Hop as [H | H].
  - destruct (write_stream_ok _ _ _ _ H) as [V E]. rewrite E, find_put, (Hn V). reflexivity.
  - destruct (remove_stream_ok _ _ _ H) as [V E]. rewrite E, find_filter, (Hn V). reflexivity.
Qed.

(* ---- the listing --------------------------------------------------------------------------------
   As drafted (without the hypothesis Hcanon) the statement is false: an entry that is not in packed
   form decodes to a valid name as well.  With the single entry "A" stored raw ([65]) the listing is
   ["A"], but the entry that "A" encodes to is [18442], which does not exist (and has_stream "A",
   read_stream "A" answer no).  The hypothesis added is the weakest natural one: every entry that the
   listing looks at (not one of the four special names, not a table stream) is in packed form, that is,
   encoding what it decodes to gives the entry name back.  It follows from "every such entry name is
   the encoding of a valid name" (streams_listing_encoded below). *)
Definition entry_canonical (m : str) : Prop :=
  existsb (str_eqb m) special_names = false -> snd (sn_decode m) = false ->
  sn_encode (fst (sn_decode m)) false = m.

Lemma special_is_protected m : existsb (str_eqb m) special_names = true -> In m protected_names.
Proof.
  intros H. apply existsb_exists in H as (p & Hp & E). apply str_eqb_spec in E. subst p.
  unfold special_names in Hp. unfold protected_names. cbn [In] in *. tauto.
Qed.

Lemma streams_listing_core k n : sn_is_valid n false = true ->
  (forall m, In m (ct_names (k_cont k)) -> entry_canonical m) ->
  (In n (pkg_streams k) <-> In (sn_encode n false) (ct_names (k_cont k))).
Proof.
  intros V Hcanon. unfold pkg_streams. rewrite in_flat_map. split.
  - intros (m & Hm & Hin).
    specialize (Hcanon m Hm). unfold entry_canonical in Hcanon.
    destruct (existsb (str_eqb m) special_names); [destruct Hin|].
    destruct (sn_decode m) as [d t]. destruct t; [destruct Hin|].
    destruct Hin as [<- | []]. cbn [fst snd] in Hcanon. rewrite Hcanon by reflexivity. exact Hm.
  - intros Hm. exists (sn_encode n false). split; [exact Hm|].
    destruct (existsb (str_eqb (sn_encode n false)) special_names) eqn:Es.
    + exfalso. destruct (sn_never_protected n V) as (Hnp & _). apply Hnp. apply special_is_protected. exact Es.
    + rewrite (sn_roundtrip_valid n false V). left. reflexivity.
Qed.

Theorem streams_listing : forall k n, sn_is_valid n false = true ->
  NoDup (map name_key (ct_names (k_cont k))) ->
  (forall m, In m (ct_names (k_cont k)) -> entry_canonical m) ->
  (In n (pkg_streams k) <-> (exists m, In m (ct_names (k_cont k)) /\ m = sn_encode n false)).
Proof.
  intros k n V _ Hcanon. rewrite (streams_listing_core k n V Hcanon).
  split; [intros H; exists (sn_encode n false); split; [exact H | reflexivity] | intros (m & Hm & ->); exact Hm].
Qed.

(* the same under the stronger, more familiar hypothesis: every entry the listing looks at is the
   encoding of a valid name *)
Corollary streams_listing_encoded : forall k n, sn_is_valid n false = true ->
  (forall m, In m (ct_names (k_cont k)) -> existsb (str_eqb m) special_names = false -> snd (sn_decode m) = false ->
             exists n', sn_is_valid n' false = true /\ m = sn_encode n' false) ->
  (In n (pkg_streams k) <-> In (sn_encode n false) (ct_names (k_cont k))).
Proof.
  intros k n V Henc. apply streams_listing_core; [exact V|].
  intros m Hm Hs Ht. destruct (Henc m Hm Hs Ht) as (n' & V' & ->).
  rewrite (sn_roundtrip_valid n' false V'). reflexivity.
Qed.

(* under that hypothesis the listing agrees with has_stream *)
Corollary streams_listing_has_stream : forall k n, sn_is_valid n false = true ->
  (forall m, In m (ct_names (k_cont k)) -> entry_canonical m) ->
  In n (pkg_streams k) -> pkg_has_stream k n = true.
Proof.
  intros k n V Hcanon Hin. apply (streams_listing_core k n V Hcanon) in Hin.
  clear Hcanon. rewrite (has_stream_valid _ _ V). unfold stream_bytes, ct_names in *.
  induction (ct_entries (k_cont k)) as [|[m x] r IH]; [destruct Hin|]. cbn [ct_find].
  destruct (name_eqb m (sn_encode n false)) eqn:E; [reflexivity|].
  destruct Hin as [Hm | Hr]; [cbn [fst] in Hm; subst m; rewrite name_eqb_refl in E; discriminate | apply IH, Hr].
Qed.

(* ---- removing a digital signature ------------------------------------------------------------------ *)
Lemma find_after_remove_or_not c n s :
  ct_find (ct_entries (match ct_remove c n with Ok c' => c' | _ => c end)) s =
  if name_eqb n s then None else ct_find (ct_entries c) s.
Proof.
  destruct (ct_remove c n) as [c'| |] eqn:R.
  - apply find_remove. exact R.
  - unfold ct_remove, ct_exists in R. destruct (ct_find (ct_entries c) n) eqn:F; [discriminate|].
    destruct (name_eqb n s) eqn:E; [|reflexivity].
    (* no entry equal to n, hence none equal to s *)
    clear R. induction (ct_entries c) as [|[m x] r IH]; [reflexivity|]. cbn [ct_find] in *.
    destruct (name_eqb m n) eqn:Emn; [discriminate|].
    destruct (name_eqb m s) eqn:Ems; [|apply IH, F]. exfalso.
    rewrite name_eqb_sym in E. rewrite (name_eqb_trans _ _ _ Ems E) in Emn. discriminate.
  - unfold ct_remove in R. destruct (ct_exists c n); discriminate.
Qed.

Theorem remove_signature_frame : forall k s,
  name_eqb s DIGITAL_SIGNATURE_STREAM_NAME = false -> name_eqb s MSI_DIGITAL_SIGNATURE_EX_STREAM_NAME = false ->
  ct_find (ct_entries (k_cont (pkg_remove_signature k))) s = ct_find (ct_entries (k_cont k)) s.
Proof.
  intros k s H1 H2. unfold pkg_remove_signature. cbn [k_cont with_cont with_cp].
  rewrite name_eqb_sym in H1. rewrite name_eqb_sym in H2.
  rewrite find_after_remove_or_not, H2, find_after_remove_or_not, H1. reflexivity.
Qed.

Theorem remove_signature_removes : forall k, pkg_has_signature (pkg_remove_signature k) = false.
Proof.
  intros k. unfold pkg_has_signature, ct_exists, pkg_remove_signature. cbn [k_cont with_cont with_cp].
  rewrite find_after_remove_or_not.
  destruct (name_eqb MSI_DIGITAL_SIGNATURE_EX_STREAM_NAME DIGITAL_SIGNATURE_STREAM_NAME); [reflexivity|].
  rewrite find_after_remove_or_not, name_eqb_refl. reflexivity.
Qed.

Print Assumptions name_eqb_refl.
Print Assumptions name_eqb_sym.
Print Assumptions name_eqb_trans.
Print Assumptions find_put.
Print Assumptions find_remove.
Print Assumptions encoded_name_eqb.
Print Assumptions stream_not_table.
Print Assumptions stream_not_protected.
Print Assumptions write_then_read.
Print Assumptions remove_then_read.
Print Assumptions stream_err_noop.
Print Assumptions stream_total.
Print Assumptions stream_ops_frame.
Print Assumptions streams_listing.
Print Assumptions streams_listing_encoded.
Print Assumptions streams_listing_has_stream.
Print Assumptions remove_signature_frame.
Print Assumptions remove_signature_removes.
