(* TimestampProofs.v -- C18: creation times convert without drift. *)
From MsiModel Require Import Base Timestamp.
From MsiGen Require Import GenConsts.
From Coq Require Import ZifyBool.
Open Scope Z_scope.

(* the source's constants are the ones the hand-written model uses *)
Lemma ts_constants_pinned :
  UNIX_EPOCH_TIMESTAMP = 116444736000000000%N /\
  TS_D2T_FACTORS = [10000000; 100]%N /\
  TS_T2D_FACTORS = [10000000; 10000000; 100]%N.
Proof. repeat split; reflexivity. Qed.

Lemma EPOCH_val : EPOCH = 116444736000000000.
Proof. reflexivity. Qed.

(* the 1601..60056 window, in nanoseconds relative to 1970 *)
Definition LO : Z := - (EPOCH * 100).
Definition HI : Z := (U64MAX - EPOCH) * 100 + 99.

Lemma split_ticks t : 0 <= t ->
  (t / 1000000000) * 10000000 + (t mod 1000000000) / 100 = t / 100.
Proof.
  intros Ht.
  pose proof (Z.div_mod t 1000000000 ltac:(lia)) as E.
  pose proof (Z.mod_pos_bound t 1000000000 ltac:(lia)) as B.
  set (q := t / 1000000000) in *. set (r := t mod 1000000000) in *.
  rewrite E at 1.
  replace (1000000000 * q + r) with (r + (q * 10000000) * 100) by lia.
  rewrite Z.div_add by lia. lia.
Qed.

(* duration_to_delta on the (secs, nanos) split of a non-negative nanosecond
   count is the saturated tick count *)
Lemma delta_split t : 0 <= t ->
  duration_to_delta (t / 1000000000) (t mod 1000000000) = Z.min (t / 100) U64MAX.
Proof.
  intros Ht. unfold duration_to_delta, sat_add, sat_mul.
  pose proof (split_ticks t Ht) as E.
  pose proof (Z.mod_pos_bound t 1000000000 ltac:(lia)) as B.
  assert (0 <= (t mod 1000000000) / 100) by (apply Z.div_pos; lia).
  assert (0 <= t / 1000000000) by (apply Z.div_pos; lia).
  assert ((t mod 1000000000) / 100 < 10000000)
    by (apply Z.div_lt_upper_bound; lia).
  unfold U64MAX in *. lia.
Qed.

Lemma from_time_pos t : 0 <= t -> from_time t = Z.min (EPOCH + t / 100) U64MAX.
Proof.
  intros Ht. unfold from_time. destruct (0 <=? t) eqn:E; [|lia].
  rewrite delta_split by lia. unfold sat_add.
  assert (0 <= t / 100) by (apply Z.div_pos; lia).
  rewrite EPOCH_val in *. unfold U64MAX. lia.
Qed.

Lemma from_time_neg t : t < 0 -> from_time t = Z.max (EPOCH - (- t) / 100) 0.
Proof.
  intros Ht. unfold from_time. destruct (0 <=? t) eqn:E; [lia|].
  rewrite delta_split by lia. unfold sat_sub.
  assert (0 <= (- t) / 100) by (apply Z.div_pos; lia).
  rewrite EPOCH_val in *. unfold U64MAX. lia.
Qed.

Lemma from_time_range t : 0 <= from_time t <= U64MAX.
Proof.
  destruct (Z_lt_le_dec t 0) as [H|H].
  - rewrite from_time_neg by lia.
    assert (0 <= (- t) / 100) by (apply Z.div_pos; lia).
    rewrite EPOCH_val. unfold U64MAX. lia.
  - rewrite from_time_pos by lia.
    assert (0 <= t / 100) by (apply Z.div_pos; lia).
    rewrite EPOCH_val. unfold U64MAX. lia.
Qed.

Lemma to_time_hi k : EPOCH <= k <= U64MAX -> to_time k = (k - EPOCH) * 100.
Proof.
  intros Hk. unfold to_time. destruct (EPOCH <=? k) eqn:E; [|lia].
  cbv zeta.
  pose proof (Z.div_mod (k - EPOCH) 10000000 ltac:(lia)) as D.
  pose proof (Z.mod_pos_bound (k - EPOCH) 10000000 ltac:(lia)) as B.
  assert ((k - EPOCH) / 10000000 <= I64MAX).
  { apply Z.lt_succ_r. apply Z.div_lt_upper_bound; [lia|].
    rewrite EPOCH_val in *. unfold U64MAX, I64MAX in *. lia. }
  destruct ((k - EPOCH) / 10000000 <=? I64MAX) eqn:E2; [|lia]. lia.
Qed.

Lemma to_time_lo k : 0 <= k < EPOCH -> to_time k = - ((EPOCH - k) * 100).
Proof.
  intros Hk. unfold to_time. destruct (EPOCH <=? k) eqn:E; [lia|].
  cbv zeta.
  pose proof (Z.div_mod (EPOCH - k) 10000000 ltac:(lia)) as D.
  pose proof (Z.mod_pos_bound (EPOCH - k) 10000000 ltac:(lia)) as B.
  assert ((EPOCH - k) / 10000000 <= I64MAX + 1).
  { apply Z.lt_succ_r. apply Z.div_lt_upper_bound; [lia|].
    rewrite EPOCH_val in *. unfold I64MAX in *. lia. }
  destruct ((EPOCH - k) / 10000000 <=? I64MAX + 1) eqn:E2; [|lia]. lia.
Qed.

Lemma to_time_all k : 0 <= k <= U64MAX -> to_time k = (k - EPOCH) * 100.
Proof.
  intros Hk. destruct (Z_lt_le_dec k EPOCH).
  - rewrite to_time_lo by lia. lia.
  - rewrite to_time_hi by lia. lia.
Qed.

(* (a) within one tick, truncating towards the epoch *)
Theorem c18_near t : LO <= t <= HI ->
  Z.abs (to_time (from_time t) - t) < 100.
Proof.
  unfold LO, HI. intros Ht.
  pose proof (from_time_range t) as R.
  rewrite to_time_all by lia.
  destruct (Z_lt_le_dec t 0) as [H|H].
  - rewrite from_time_neg by lia.
    pose proof (Z.div_mod (- t) 100 ltac:(lia)) as D.
    pose proof (Z.mod_pos_bound (- t) 100 ltac:(lia)) as B.
    rewrite EPOCH_val in *. unfold U64MAX in *. lia.
  - rewrite from_time_pos by lia.
    pose proof (Z.div_mod t 100 ltac:(lia)) as D.
    pose proof (Z.mod_pos_bound t 100 ltac:(lia)) as B.
    rewrite EPOCH_val in *. unfold U64MAX in *. lia.
Qed.

(* (b) a returned time is a fixed point: every tick value survives *)
Theorem c18_ticks_exact k : 0 <= k <= U64MAX -> from_time (to_time k) = k.
Proof.
  intros Hk. rewrite to_time_all by lia.
  destruct (Z_lt_le_dec k EPOCH) as [H|H].
  - rewrite from_time_neg by lia.
    replace (- ((k - EPOCH) * 100)) with ((EPOCH - k) * 100) by lia.
    rewrite Z.div_mul by lia. lia.
  - rewrite from_time_pos by lia.
    rewrite Z.div_mul by lia. unfold U64MAX in *. lia.
Qed.

Theorem c18_idempotent t :
  to_time (from_time (to_time (from_time t))) = to_time (from_time t).
Proof. rewrite c18_ticks_exact; [reflexivity | apply from_time_range]. Qed.

(* (c) monotone, both directions *)
Theorem c18_from_mono t1 t2 : t1 <= t2 -> from_time t1 <= from_time t2.
Proof.
  intros Hle.
  destruct (Z_lt_le_dec t1 0) as [H1|H1]; destruct (Z_lt_le_dec t2 0) as [H2|H2].
  - rewrite !from_time_neg by lia.
    assert ((- t2) / 100 <= (- t1) / 100) by (apply Z.div_le_mono; lia). lia.
  - rewrite from_time_neg, from_time_pos by lia.
    assert (0 <= (- t1) / 100) by (apply Z.div_pos; lia).
    assert (0 <= t2 / 100) by (apply Z.div_pos; lia).
    rewrite EPOCH_val. unfold U64MAX. lia.
  - lia.
  - rewrite !from_time_pos by lia.
    assert (t1 / 100 <= t2 / 100) by (apply Z.div_le_mono; lia). lia.
Qed.

Theorem c18_to_mono k1 k2 : 0 <= k1 <= k2 -> k2 <= U64MAX -> to_time k1 <= to_time k2.
Proof. intros H1 H2. rewrite !to_time_all by lia. lia. Qed.

(* (d) saturation outside the window, and no panic (the model is total and
   [from_time_range] bounds its result) *)
Theorem c18_saturate_lo t : t <= LO -> from_time t = 0.
Proof.
  unfold LO. intros Ht. rewrite from_time_neg by (rewrite EPOCH_val in *; lia).
  assert (EPOCH <= (- t) / 100) by (apply Z.div_le_lower_bound; lia). lia.
Qed.

Theorem c18_saturate_hi t : HI <= t -> from_time t = U64MAX.
Proof.
  unfold HI. intros Ht.
  rewrite from_time_pos by (rewrite EPOCH_val in *; unfold U64MAX in *; lia).
  assert (U64MAX - EPOCH <= t / 100) by (apply Z.div_le_lower_bound; lia). lia.
Qed.

(* non-vacuity: the window is wide and contains concrete instants *)
Example c18_window_nonempty :
  LO <= 1489862796000000000 <= HI /\ LO <= -14182980000000000 <= HI /\
  from_time 1489862796000000000 = 131343363960000000 /\
  to_time 116302906200000000 = -14182980000000000.
Proof. vm_compute. repeat split; discriminate. Qed.
