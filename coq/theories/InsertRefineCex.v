(* InsertRefineCex.v -- why insert_refines carries `Forall (Forall value_storable) rows`:
   the goal as first stated (any `value`s) is refuted by two concrete stores. *)
From Coq Require Import Sorting.Sorted Permutation.
From MsiModel Require Import Base Value Expr Category Column CodePage Pool Table Container StreamName Query
  PoolProofs TableProofs QueryProofs DbInv.
Open Scope N_scope.

(* the statement as first given *)
Definition G_insert_refines : Prop := forall prof d tn t rows c' p',
  Inv d -> In (tn, t) (d_tabs d) -> find_table (d_tabs d) tn = Some t ->
  exec_insert prof (d_cont d) (d_pool d) (d_tabs d) tn rows = Ok (c', p') ->
  let d' := mkdb c' p' (d_tabs d) in
  Inv d' /\
  (exists old new, tvals prof d t = Ok old /\ tvals prof d' t = Ok new /\
     Permutation new (old ++ map (map normalize_value) rows) /\
     sorted_by_key t new /\
     (rows_valid t old -> rows_valid t new)) /\
  (forall n' t', In (n', t') (d_tabs d) -> n' <> tn -> tvals prof d' t' = tvals prof d t') /\
  (forall s, name_eqb s (stream_name_of t) = false -> ct_find (ct_entries c') s = ct_find (ct_entries (d_cont d)) s) /\
  ct_clsid c' = ct_clsid (d_cont d).

Definition col32 : column := mkcol [66] Int32 false false true None None None [].
Definition colstr : column := mkcol [66] (Str 0) false false true None None None [].
Definition tab (c : column) : table := mktable [65] [c] false.
Definition db0 (c : column) : db := mkdb (mkct [] []) (mkpool cp_utf8 [] false false) [([65], tab c)].

Lemma db0_inv c : Inv (db0 c).
Proof.
  unfold Inv, db0. cbn [d_pool d_cont d_tabs]. split; [constructor|]. split.
  - cbn [map]. constructor; [intros []|constructor].
  - split.
    + constructor; [|constructor]. unfold table_ok. cbn [fst snd tab t_name t_cols t_long p_long].
      split; [reflexivity|]. split; [discriminate|]. split; [reflexivity|].
      exists []. split; [|constructor]. unfold load_rows. cbn [ct_entries ct_find]. reflexivity.
    + intros r _. unfold refcount. cbn [p_strings all_rows snd]. unfold rows_of, load_rows. cbn [ct_entries ct_find].
      destruct (N.to_nat (r - 1)); reflexivity.
Qed.

(* 1. a number outside i32 in an Int32 column is accepted (only the lower bound is checked) and wraps when
      written: 2^31 is stored as the null cell *)
Lemma cex_int32_run :
  exists c' p', exec_insert Release (d_cont (db0 col32)) (d_pool (db0 col32)) (d_tabs (db0 col32)) [65] [[VInt 2147483648]]
                = Ok (c', p') /\
                tvals Release (mkdb c' p' (d_tabs (db0 col32))) (tab col32) = Ok [[VNull]].
Proof.
  exists (mkct [] [(stream_name_of (tab col32), [0; 0; 0; 0])]), (mkpool cp_utf8 [] false false).
  split; [vm_compute; reflexivity|]. vm_compute. reflexivity.
Qed.

(* 2. a text that is not a sequence of scalar values (or is 4 GiB long) breaks pool_wf *)
Lemma cex_scalar_run :
  exists c' p', exec_insert Release (d_cont (db0 colstr)) (d_pool (db0 colstr)) (d_tabs (db0 colstr)) [65] [[VStr [55296]]]
                = Ok (c', p') /\ p_strings p' = [([55296], 1)].
Proof.
  exists (mkct [] [(stream_name_of (tab colstr), [1; 0])]), (mkpool cp_utf8 [([55296], 1)] false true).
  split; [vm_compute; reflexivity|]. reflexivity.
Qed.

Theorem G_insert_refines_false : ~ G_insert_refines.
Proof.
  intro G. destruct cex_int32_run as (c' & p' & Hrun & Htv).
  destruct (G Release (db0 col32) [65] (tab col32) [[VInt 2147483648]] c' p' (db0_inv _)
              (or_introl eq_refl) eq_refl Hrun) as (_ & (old & new & Ho & Hn & Hp & _) & _).
  rewrite Htv in Hn. inversion Hn; subst new.
  assert (old = []) by (vm_compute in Ho; congruence). subst old. cbn [app map normalize_value] in Hp.
  apply Permutation_length_1 in Hp. discriminate.
Qed.
Theorem G_insert_refines_false_scalar : ~ G_insert_refines.
Proof.
  intro G. destruct cex_scalar_run as (c' & p' & Hrun & Hp).
  destruct (G Release (db0 colstr) [65] (tab colstr) [[VStr [55296]]] c' p' (db0_inv _)
              (or_introl eq_refl) eq_refl Hrun) as ((Hwf & _) & _).
  unfold pool_wf in Hwf. cbn [d_pool] in Hwf. rewrite Hp in Hwf. inversion Hwf as [|? ? (_ & _ & Hs & _) _]; subst.
  vm_compute in Hs. discriminate.
Qed.

Print Assumptions G_insert_refines_false.
Print Assumptions G_insert_refines_false_scalar.
