(* PkgInv2.v -- the package invariant used for the operation theorems: PInv plus the pool-length bound that keeps
   every reference handed out by incref inside the reference width (needed by INSERT / UPDATE, see UpdateRefine.v). *)
From Coq Require Import Sorting.Sorted Permutation.
From MsiModel Require Import Base Sexp Value Expr Category Column CodePage Pool Table Container StreamName
  Propset Summary Query Package PoolProofs TableProofs QueryProofs DbInv CatalogProofs PropsetCodecProofs PackageProofs
  PkgInv UpdateRefine.
From MsiGen Require Import GenConsts GenCatalog GenStreamName.
Open Scope N_scope.

Definition PInv2 (prof : profile) (k : pkg) : Prop := PInv prof k /\ pool_len_ok (the_db k).

(* the tables a caller may name in INSERT / UPDATE / DELETE: everything but the three catalog tables
   (known finding catalog_dml: the library accepts them, and hand-edited catalogs can make the file unreadable) *)
Definition user_table_name (tn : str) : Prop :=
  tn <> TABLES_TABLE_NAME /\ tn <> COLUMNS_TABLE_NAME /\ tn <> VALIDATION_TABLE_NAME.
