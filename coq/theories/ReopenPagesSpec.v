(* ReopenPagesSpec.v -- C01 under a single-byte database code page: statements (proofs in ReopenPages.v).
   Every operation of the package model except flush / open ignores the pool's code page, and
   Package::set_database_codepage only replaces it; so for a state satisfying the package invariant (in particular
   every reachable state of Reach.v) whose pool strings are representable in a single-byte page c, switching the
   database to c, saving and reopening shows exactly what was observable before closing. *)
From MsiModel Require Import Base Value CodePage CodePageProofs SingleByteSpec SingleByteProofs Pool PoolProofs Propset
  PropsetCodecProofs CodecPagesSpec CodecPages Table Container Package PkgInv PkgInv2 CreateTableProofs ReopenLemmas ReopenProofs Reach.
From MsiGen Require Import GenCodePage GenSingleByte GenConsts.
Open Scope N_scope.

(* every string of the pool is representable in the page whose table is t *)
Definition pool_repr (t : list N) (p : pool) : Prop := Forall (fun e => Forall (sb_repr t) (fst e)) (p_strings p).

Definition G_reopen_roundtrip_pages : Prop := forall prof k c t,
  PInv prof k -> cp_single c t -> pool_repr t (k_pool k) ->
  exists k1 k2, pkg_flush (pkg_set_db_codepage k c) = Some k1 /\ pkg_open prof (k_cont k1) = Ok k2 /\
    same_obs prof (pkg_set_db_codepage k c) k2 /\ same_obs prof (pkg_set_db_codepage k c) k1 /\
    p_cp (k_pool k2) = c /\ pkg_flush k2 = Some k2.

(* for every package reachable through the API (Reach.reachable) *)
Definition G_reachable_roundtrip_pages : Prop := forall prof k c t,
  reachable prof k -> cp_single c t -> pool_repr t (k_pool k) ->
  exists k1 k2, pkg_flush (pkg_set_db_codepage k c) = Some k1 /\ pkg_open prof (k_cont k1) = Ok k2 /\
    same_obs prof (pkg_set_db_codepage k c) k2 /\ same_obs prof (pkg_set_db_codepage k c) k1 /\
    p_cp (k_pool k2) = c /\ pkg_flush k2 = Some k2.

(* non-vacuity: a freshly created package (ASCII catalog strings only) is representable in every single-byte page *)
Definition G_fresh_pool_repr : Prop := forall prof ty k t, pkg_create prof ty = Ok k -> sb_table_ok t = true -> pool_repr t (k_pool k).
