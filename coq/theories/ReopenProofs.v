(* ReopenProofs.v -- C01 at package level: everything written is read back after close and reopen,
   for every package state satisfying PkgInv.PInv.
     flush_spec        saving re-establishes the invariant, changes nothing observable and clears the flags
     flush_total       saving a state satisfying the invariant cannot fail
     open_saved        opening the container of a clean state rebuilds exactly its type, summary, pool and table map
     reopen_roundtrip  flush, then open
     reopen_idempotent saving and reopening again changes nothing, not even the bytes
   PInv is used as written in PkgInv.v: nothing had to be added or replaced. *)
From Coq Require Import ZifyBool ZifyNat ZifyN Lia Sorting.Sorted Permutation.
From MsiModel Require Import Base Sexp Value Expr Category Column ColumnProofs CategoryProofs CodePage Pool Table Container
  StreamName StreamNameProofs Propset Summary Query Package PoolProofs TableProofs QueryProofs DbInv CatalogProofs
  PropsetCodecProofs PackageProofs StreamProofs DeleteRefine PkgInv ReopenLemmas.
From MsiGen Require Import GenConsts GenCatalog GenStreamName.
Open Scope N_scope.
Arguments N.add : simpl never.
Arguments N.mul : simpl never.
Arguments N.sub : simpl never.

(* ====================================================================== *)
(* small facts                                                             *)
(* ====================================================================== *)
Lemma ptype_roundtrip t : ptype_of_clsid (ptype_clsid t) = Some t.
Proof. destruct t; vm_compute; reflexivity. Qed.

Lemma mark_unmod_id p : p_mod p = false -> pool_mark_unmodified p = p.
Proof. destruct p as [cp l lg m]. cbn. intros ->. reflexivity. Qed.

Lemma valid_tname_safe n : is_valid_tname n = true -> n <> [] /\ Forall safe n.
Proof.
  unfold is_valid_tname. intros H. apply andb_true_iff in H as [_ H].
  destruct (valid_is_safe _ _ H). split; assumption.
Qed.

Lemma rows_values_tvals prof k t : rows_values prof (k_cont k) (k_pool k) t = tvals prof (the_db k) t.
Proof. reflexivity. Qed.

(* ====================================================================== *)
(* the user tables of a well-formed table map                              *)
(* ====================================================================== *)
Definition user_ok (long : bool) (e : str * table) : Prop :=
  fst e <> [] /\ t_cols (snd e) <> [] /\ Forall col_storable (t_cols (snd e)) /\
  NoDup (map c_name (t_cols (snd e))) /\ snd e = mktable (fst e) (t_cols (snd e)) long.

Lemma user_facts k : tabs_wf k ->
  StronglySorted tlt (user_tabs k) /\
  (forall e, In e (user_tabs k) -> In e (k_tabs k) /\ is_core (fst e) = false /\ user_ok (p_long (k_pool k)) e).
Proof.
  intros (S & _ & _ & _ & F1 & F2). split.
  - unfold user_tabs. apply SS_filter. exact S.
  - intros e He. rewrite Forall_forall in F1, F2. destruct (F2 e He) as (A & _ & B & C & _).
    unfold user_tabs in He. apply filter_In in He as [He Hc]. apply negb_true_iff in Hc.
    destruct (F1 e He) as (V & _ & Esnd). destruct (valid_tname_safe _ V) as [Hne _].
    destruct (accepted_cols_storable _ _ _ B C) as [Hst Hnd].
    split; [exact He|]. split; [exact Hc|]. repeat split; assumption.
Qed.

(* ====================================================================== *)
(* the catalog rows listed by catalog_ok are in key order                  *)
(* ====================================================================== *)
Definition Rt (long : bool) (a b : list value) : Prop :=
  key_lt (key_of (tables_table long) a) (key_of (tables_table long) b).
Definition Rc (long : bool) (a b : list value) : Prop :=
  key_lt (key_of (columns_table long) a) (key_of (columns_table long) b).

Lemma Rt_irrefl long a : ~ Rt long a a.  Proof. apply key_lt_irrefl. Qed.
Lemma Rt_trans long a b c : Rt long a b -> Rt long b c -> Rt long a c.  Proof. apply key_lt_trans. Qed.
Lemma Rc_irrefl long a : ~ Rc long a a.  Proof. apply key_lt_irrefl. Qed.
Lemma Rc_trans long a b c : Rc long a b -> Rc long b c -> Rc long a c.  Proof. apply key_lt_trans. Qed.

Lemma key_tables long n : key_of (tables_table long) [VStr n] = [VStr n].
Proof. reflexivity. Qed.
Lemma key_columns long tn ic :
  key_of (columns_table long) (map normalize_value (crow tn ic)) = [normalize_value (VStr tn); VInt (fst ic)].
Proof. reflexivity. Qed.

Lemma trows_sorted long (U : tables) : StronglySorted tlt U ->
  StronglySorted (Rt long) (map (fun e => [VStr (fst e)]) U).
Proof.
  apply SS_map_in. intros a b _ _ H. unfold Rt. rewrite !key_tables. unfold key_lt. cbn [key_cmp value_cmp].
  unfold tlt in H. rewrite H. reflexivity.
Qed.

Lemma enum_bounds {A} (l : list A) : forall i x, In x (enumerate l i) -> (i <= fst x)%Z.
Proof.
  induction l as [|a l IH]; intros i x H; [destruct H|]. cbn [enumerate] in H.
  destruct H as [<-|H]; [cbn; lia|]. specialize (IH _ _ H). lia.
Qed.
Lemma enum_sorted {A} (l : list A) : forall i, StronglySorted (fun a b => (fst a < fst b)%Z) (enumerate l i).
Proof.
  induction l as [|a l IH]; intros i; cbn [enumerate]; constructor; [apply IH|].
  apply Forall_forall. intros x Hx. apply enum_bounds in Hx. cbn [fst]. lia.
Qed.

Lemma stored_columns_rows tn cols :
  stored (columns_rows tn cols) = map (fun ic => map normalize_value (crow tn ic)) (enumerate cols 1%Z).
Proof. unfold stored. rewrite columns_rows_eq, map_map. reflexivity. Qed.

Lemma crows_block_sorted long tn cols : StronglySorted (Rc long) (stored (columns_rows tn cols)).
Proof.
  rewrite stored_columns_rows. eapply SS_map_in; [|apply enum_sorted].
  intros a b _ _ H. cbv beta in H. unfold Rc. rewrite !key_columns. unfold key_lt. cbn [key_cmp].
  rewrite value_cmp_refl. cbn [value_cmp]. rewrite (proj2 (Z.compare_lt_iff _ _) H). reflexivity.
Qed.

Lemma crows_sorted long (U : tables) : StronglySorted tlt U -> (forall e, In e U -> fst e <> []) ->
  StronglySorted (Rc long) (List.concat (map (fun e => stored (columns_rows (fst e) (t_cols (snd e)))) U)).
Proof.
  intros S Hne. apply SS_concat.
  - apply Forall_forall. intros b Hb. apply in_map_iff in Hb as (e & <- & _). apply crows_block_sorted.
  - eapply SS_map_in; [|exact S].
    intros a b Ha Hb H x y Hx Hy. rewrite stored_columns_rows in Hx, Hy.
    apply in_map_iff in Hx as (ia & <- & _). apply in_map_iff in Hy as (ib & <- & _).
    unfold Rc. rewrite !key_columns. rewrite !norm_str by (apply Hne; assumption).
    unfold key_lt. cbn [key_cmp value_cmp]. unfold tlt in H. rewrite H. reflexivity.
Qed.

(* ====================================================================== *)
(* the catalog part of pkg_open                                            *)
(* ====================================================================== *)
Lemma map_vkey_validation (U : tables) :
  (forall e, In e U -> fst e <> [] /\ Forall (fun c => c_name c <> []) (t_cols (snd e))) ->
  map vkey (List.concat (map (fun e => stored (validation_rows (fst e) (t_cols (snd e)))) U)) =
  List.concat (map vkeys_of U).
Proof.
  intros H. rewrite concat_map, map_map. f_equal. apply map_ext_in. intros e He.
  destruct (H e He) as [H1 H2]. rewrite stored_validation_rows, map_map. unfold vkeys_of.
  apply map_ext_in. intros c Hc. rewrite Forall_forall in H2. apply vkey_nvrow; [exact H1 | apply H2; exact Hc].
Qed.

Lemma in_validation_rows (U : tables) r :
  In r (List.concat (map (fun e => stored (validation_rows (fst e) (t_cols (snd e)))) U)) <->
  exists e c, In e U /\ In c (t_cols (snd e)) /\ r = nvrow (fst e) c.
Proof.
  split.
  - intros H. apply in_concat in H as (b & Hb & Hr). apply in_map_iff in Hb as (e & <- & He).
    rewrite stored_validation_rows in Hr. apply in_map_iff in Hr as (c & <- & Hc). exists e, c. auto.
  - intros (e & c & He & Hc & ->). apply in_concat. exists (stored (validation_rows (fst e) (t_cols (snd e)))). split.
    + apply in_map_iff. exists e. split; [reflexivity | exact He].
    + rewrite stored_validation_rows. apply in_map. exact Hc.
Qed.

Definition base_tabs (long : bool) : tables :=
  tables_insert (tables_insert [] TABLES_TABLE_NAME (tables_table long)) COLUMNS_TABLE_NAME (columns_table long).
Lemma base_tabs_eq long :
  base_tabs long = [(COLUMNS_TABLE_NAME, columns_table long); (TABLES_TABLE_NAME, tables_table long)].
Proof. reflexivity. Qed.

(* open_catalog: reading _Tables, _Columns, _Validation of a state satisfying the invariant and rebuilding the
   table map gives back the table map *)
Theorem open_catalog : forall prof k, PInv prof k ->
  exists trows crows vrows cmap vals,
    tvals prof (the_db k) (tables_table (p_long (k_pool k))) = Ok trows /\
    read_table_names trows [] = Ok (map fst (user_tabs k)) /\
    tvals prof (the_db k) (columns_table (p_long (k_pool k))) = Ok crows /\
    read_columns_rows (map fst (user_tabs k)) crows [] = Ok cmap /\
    tvals prof (the_db k) (validation_table (p_long (k_pool k))) = Ok vrows /\
    read_validation_rows vrows [] = Ok vals /\
    build_tables (map fst (user_tabs k)) cmap vals (p_long (k_pool k)) (base_tabs (p_long (k_pool k))) = Ok (k_tabs k).
Proof.
  intros prof k (HInv & Hcp & Hps & Hfmt & Htw & Hcat & Hsv & Hdisk & Hflags).
  destruct (user_facts k Htw) as (HUs & HU).
  pose proof Htw as (HS & HfT & HfC & HfV & _).
  destruct Hcat as (trows & crows & vrows & Ht & Pt & Hc & Pc & Hv & Pv).
  unfold tables_sorted_valid in Hsv. rewrite Forall_forall in Hsv.
  set (long := p_long (k_pool k)) in *. set (U := user_tabs k) in *.
  assert (HUne : forall e, In e U -> fst e <> []). { intros e He. apply (HU e He). }
  assert (HUnd : NoDup (map fst U)) by (apply sorted_names_nodup; exact HUs).
  (* the rows of _Tables and _Columns are exactly the specification lists *)
  assert (Et : trows = map (fun e => [VStr (fst e)]) U).
  { apply (sorted_perm_eq (Rt long) (Rt_irrefl long) (Rt_trans long)); [| apply trows_sorted; exact HUs | exact Pt].
    destruct (Hsv _ (find_table_in _ _ _ HfT)) as (vals & A & B & _). cbn [snd] in A, B.
    rewrite Ht in A. inversion A; subst vals. apply (SS_unmap key_lt (key_of (tables_table long))). exact B. }
  assert (Ec : crows = List.concat (map (fun e => stored (columns_rows (fst e) (t_cols (snd e)))) U)).
  { apply (sorted_perm_eq (Rc long) (Rc_irrefl long) (Rc_trans long)); [| apply crows_sorted; assumption | exact Pc].
    destruct (Hsv _ (find_table_in _ _ _ HfC)) as (vals & A & B & _). cbn [snd] in A, B.
    rewrite Hc in A. inversion A; subst vals. apply (SS_unmap key_lt (key_of (columns_table long))). exact B. }
  (* the rows of _Validation are a permutation of the specification list with distinct (table, column) *)
  assert (HVok : Forall vrow_ok vrows).
  { apply Forall_forall. intros r Hr. apply (Permutation_in _ Pv) in Hr.
    apply in_validation_rows in Hr as (e & c & He & Hcc & ->).
    destruct (HU e He) as (_ & _ & Hn & _ & Hst & _). apply vrow_ok_nvrow; [exact Hn|].
    rewrite Forall_forall in Hst. apply (Hst c Hcc). }
  assert (HVnd : NoDup (map vkey vrows)).
  { eapply Permutation_NoDup; [apply Permutation_map, Permutation_sym, Pv|].
    rewrite map_vkey_validation.
    - apply vkeys_nodup; [exact HUnd|]. intros e He. apply (HU e He).
    - intros e He. destruct (HU e He) as (_ & _ & Hn & _ & Hst & _). split; [exact Hn | apply storable_names; exact Hst]. }
  exists trows, crows, vrows, (rev (map spec_entry U) ++ []), ([] ++ map vent vrows).
  split; [exact Ht|]. split.
  { rewrite Et, <- (map_map fst (fun n => [VStr n])). apply (read_table_names_spec (map fst U) []). exact HUnd. }
  split; [exact Hc|]. split.
  { rewrite Ec. apply rcr_multi; [exact HUnd | | intros ? ? ? []].
    intros e He. destruct (HU e He) as (_ & _ & Hn & Hcols & Hst & _).
    split; [exact Hn|]. split; [apply in_map; exact He|]. split; [exact Hcols | apply storable_names; exact Hst]. }
  split; [exact Hv|]. split.
  { apply rvr_gen; [exact HVok | exact HVnd | intros ? ? ? []]. }
  rewrite build_tables_multi.
  2:{ intros e He. destruct (HU e He) as (_ & _ & Hn & Hcols & Hst & Hnd & Esnd).
      split; [|split; [exact Hcols | split; [exact Hst | split; [|exact Esnd]]]].
      - rewrite app_nil_r. unfold spec_entry at 2. apply find_key_unique.
        + rewrite map_rev, map_map. apply NoDup_rev. exact HUnd.
        + apply -> in_rev. change (fst e, specs_of (t_cols (snd e))) with (spec_entry e). apply in_map. exact He.
      - intros c Hcc. cbn [app]. rewrite Forall_forall in Hst.
        assert (Hcn : c_name c <> []) by apply (Hst c Hcc).
        rewrite <- (vent_nvrow (fst e) c Hn Hcn). apply find_vent; [exact HVnd | | apply vkey_nvrow; assumption].
        apply (Permutation_in _ (Permutation_sym Pv)). apply in_validation_rows. exists e, c. auto. }
  f_equal. rewrite base_tabs_eq.
  apply (sorted_ext_eq tlt tlt_irrefl tlt_trans).
  - apply ins_all_sorted. repeat constructor.
  - exact HS.
  - intros x. split.
    + intros Hx. apply ins_all_in in Hx as [[<-|[<-|[]]]|Hx].
      * apply find_table_in. exact HfC.
      * apply find_table_in. exact HfT.
      * apply (HU x Hx).
    + intros Hx. apply ins_all_has; [exact HUnd|].
      destruct (is_core (fst x)) eqn:Ecore.
      * left. split.
        -- destruct x as [n t]. pose proof (sorted_find _ _ _ HS Hx) as Hf. cbn [fst] in Ecore.
           unfold is_core in Ecore. apply orb_true_iff in Ecore as [E|E]; apply str_eqb_spec in E; subst n.
           ++ rewrite HfT in Hf. inversion Hf. right. left. reflexivity.
           ++ rewrite HfC in Hf. inversion Hf. left. reflexivity.
        -- intros Hin. apply in_map_iff in Hin as (e & Ee & He). destruct (HU e He) as (_ & Hc' & _).
           rewrite Ee, Ecore in Hc'. discriminate.
      * right. unfold U, user_tabs. apply filter_In. split; [exact Hx|]. rewrite Ecore. reflexivity.
Qed.

(* ====================================================================== *)
(* G_open_saved                                                            *)
(* ====================================================================== *)
Lemma fmtid_eqb : list_eqb N.eqb FMTID FMTID = true.
Proof. vm_compute. reflexivity. Qed.

(* open_summary: the summary stream of a clean state reads back as the summary *)
Lemma open_summary prof k : PInv prof k -> k_sum_mod k = false ->
  exists sb, ct_read (k_cont k) SUMMARY_INFO_STREAM_NAME = Ok sb /\ summary_read sb = Ok (k_sum k).
Proof.
  intros (_ & _ & Hps & Hfmt & _ & _ & _ & (_ & _ & Hds) & _) Hsm.
  destruct (Hds Hsm) as (Hfs & _). destruct (ps_roundtrip _ Hps) as (sb & Hsb & Hrs).
  exists sb. split.
  - unfold ct_read. rewrite Hfs, Hsb. reflexivity.
  - unfold summary_read. rewrite Hrs. cbn [rbind]. rewrite Hfmt, fmtid_eqb. reflexivity.
Qed.

(* open_pool: the two pool streams of a clean state read back as the pool *)
Lemma open_pool prof k : PInv prof k -> p_mod (k_pool k) = false ->
  exists pb db, ct_read (k_cont k) (sn_encode STRING_POOL_TABLE_NAME true) = Ok pb /\
                ct_read (k_cont k) (sn_encode STRING_DATA_TABLE_NAME true) = Ok db /\
                read_pool pb db = Ok (k_pool k).
Proof.
  intros ((Hwf & _) & Hcp & _ & _ & _ & _ & _ & (_ & Hdp & _) & _) Hpm.
  destruct (Hdp Hpm) as (Hfp & Hfd & _). unfold pool_stream in Hfp. unfold data_stream in Hfd.
  destruct (pool_roundtrip (k_pool k) Hwf Hcp) as (pb & db & Hpb & Hdb & Hrp).
  exists pb, db. unfold ct_read. rewrite Hfp, Hfd, Hpb, Hdb. repeat split; try reflexivity.
  rewrite Hrp, (mark_unmod_id _ Hpm). reflexivity.
Qed.

Theorem open_saved : forall prof k,
  PInv prof k -> k_fin k = false -> k_sum_mod k = false -> p_mod (k_pool k) = false ->
  exists k2, pkg_open prof (k_cont k) = Ok k2 /\
    k_cont k2 = k_cont k /\ k_type k2 = k_type k /\ k_sum k2 = k_sum k /\ k_pool k2 = k_pool k /\ k_tabs k2 = k_tabs k /\
    k_fin k2 = false /\ k_sum_mod k2 = false.
Proof.
  intros prof k HP Hfin Hsm Hpm.
  destruct (open_summary prof k HP Hsm) as (sb & Hsb & Hrs).
  destruct (open_pool prof k HP Hpm) as (pb & db & Hpb & Hdb & Hrp).
  destruct (open_catalog prof k HP) as (trows & crows & vrows & cmap & vals & Ht & Hn & Hc & Hm & Hv & Hl & Hb).
  pose proof HP as (_ & _ & _ & _ & _ & _ & _ & (Hcls & _) & _).
  exists (mkpkg (k_cont k) (k_type k) (k_sum k) false (k_pool k) (k_tabs k) false).
  split; [|cbn; repeat split; reflexivity].
  unfold pkg_open. rewrite Hcls, ptype_roundtrip. cbn [of_opt rbind].
  rewrite Hsb. cbn [rbind]. rewrite Hrs. cbn [rbind].
  rewrite Hpb. cbn [rbind]. rewrite Hdb. cbn [rbind]. rewrite Hrp. cbn [rbind]. cbv zeta.
  rewrite !rows_values_tvals.
  rewrite Ht. cbn [rbind]. rewrite Hn. cbn [rbind].
  rewrite Hc. cbn [rbind]. rewrite Hm. cbn [rbind].
  rewrite Hv. cbn [rbind]. rewrite Hl. cbn [rbind].
  fold (base_tabs (p_long (k_pool k))). rewrite Hb. reflexivity.
Qed.

(* ====================================================================== *)
(* saving: what pkg_finish writes leaves everything else alone             *)
(* ====================================================================== *)
Definition names_streams (l : list str) : list str :=
  flat_map (fun n => if existsb (str_eqb n) special_names then []
                     else let '(d, is_table) := sn_decode n in if is_table then [] else [d]) l.
Lemma pkg_streams_eq k : pkg_streams k = names_streams (ct_names (k_cont k)).
Proof. reflexivity. Qed.

(* a name that is none of the three streams a save writes *)
Definition special3 (s : str) : Prop :=
  name_eqb s SUMMARY_INFO_STREAM_NAME = false /\ name_eqb s pool_stream = false /\ name_eqb s data_stream = false.
Definition cont_frame (c c' : container) : Prop :=
  ct_clsid c' = ct_clsid c /\
  (forall s, special3 s -> ct_find (ct_entries c') s = ct_find (ct_entries c) s) /\
  names_streams (ct_names c') = names_streams (ct_names c).
Definition pool_same (p p' : pool) : Prop :=
  p_cp p' = p_cp p /\ p_strings p' = p_strings p /\ p_long p' = p_long p.

Lemma cont_frame_refl c : cont_frame c c.
Proof. repeat split. Qed.
Lemma cont_frame_trans a b c : cont_frame a b -> cont_frame b c -> cont_frame a c.
Proof.
  intros (A1 & A2 & A3) (B1 & B2 & B3). split; [congruence|]. split; [|congruence].
  intros s Hs. rewrite (B2 s Hs). apply A2. exact Hs.
Qed.

Lemma ct_put_names l n b : map fst (ct_put l n b) = map fst l \/ map fst (ct_put l n b) = map fst l ++ [n].
Proof.
  induction l as [|[m x] r IH]; cbn [ct_put]; [right; reflexivity|].
  destruct (name_eqb m n); [left; reflexivity|]. cbn [map fst app].
  destruct IH as [-> | ->]; [left | right]; reflexivity.
Qed.

Definition saved_names : list str := [SUMMARY_INFO_STREAM_NAME; pool_stream; data_stream].

Lemma cont_frame_write c n b : In n saved_names -> cont_frame c (ct_write c n b).
Proof.
  intros Hn. split; [reflexivity|]. split.
  - intros s (H1 & H2 & H3). unfold ct_write. cbn [ct_entries]. apply ct_find_put_other.
    destruct Hn as [<-|[<-|[<-|[]]]]; assumption.
  - assert (E0 : names_streams [n] = []).
    { destruct Hn as [<-|[<-|[<-|[]]]]; vm_compute; reflexivity. }
    unfold ct_names, ct_write. cbn [ct_entries].
    destruct (ct_put_names (ct_entries c) n b) as [-> | ->]; [reflexivity|].
    unfold names_streams in *. rewrite flat_map_app, E0, app_nil_r. reflexivity.
Qed.

(* ---- the three saved names are pairwise different and differ from every table stream and user stream ---- *)
Lemma saved_distinct :
  name_eqb SUMMARY_INFO_STREAM_NAME pool_stream = false /\ name_eqb SUMMARY_INFO_STREAM_NAME data_stream = false /\
  name_eqb pool_stream SUMMARY_INFO_STREAM_NAME = false /\ name_eqb pool_stream data_stream = false /\
  name_eqb data_stream SUMMARY_INFO_STREAM_NAME = false /\ name_eqb data_stream pool_stream = false.
Proof. vm_compute. repeat split. Qed.

Lemma name_key_table n : Forall safe n -> name_key (sn_encode n true) = sn_encode n true.
Proof.
  intros H. apply name_key_not_packable. unfold sn_encode. cbn [app].
  constructor; [vm_compute; reflexivity | apply encode_chars_no_packable; exact H].
Qed.
Lemma safe_pool_name : Forall safe STRING_POOL_TABLE_NAME /\ STRING_POOL_TABLE_NAME <> [].
Proof. split; [|discriminate]. unfold STRING_POOL_TABLE_NAME. repeat (constructor; [unfold safe; lia|]). constructor. Qed.
Lemma safe_data_name : Forall safe STRING_DATA_TABLE_NAME /\ STRING_DATA_TABLE_NAME <> [].
Proof. split; [|discriminate]. unfold STRING_DATA_TABLE_NAME. repeat (constructor; [unfold safe; lia|]). constructor. Qed.

Lemma table_stream_special3 n : is_valid_tname n = true -> ~ In n CREATE_TABLE_EXTRA_RESERVED ->
  special3 (sn_encode n true).
Proof.
  intros V Hres. destruct (valid_tname_safe n V) as [Hne Hs].
  destruct safe_pool_name as [Sp Np]. destruct safe_data_name as [Sd Nd].
  split; [|split].
  - apply name_eqb_false. rewrite (name_key_table n Hs). unfold sn_encode. cbn [app].
    remember (name_key SUMMARY_INFO_STREAM_NAME) as q eqn:Eq. vm_compute in Eq. subst q.
    intros E. injection E as E1 _. vm_compute in E1. discriminate E1.
  - apply name_eqb_false. unfold pool_stream. rewrite (name_key_table n Hs), (name_key_table _ Sp).
    intros E. apply sn_encode_injective in E as [E _]; try assumption.
    apply Hres. rewrite E. left. reflexivity.
  - apply name_eqb_false. unfold data_stream. rewrite (name_key_table n Hs), (name_key_table _ Sd).
    intros E. apply sn_encode_injective in E as [E _]; try assumption.
    apply Hres. rewrite E. right. left. reflexivity.
Qed.

Lemma user_stream_special3 n : sn_is_valid n false = true -> special3 (sn_encode n false).
Proof.
  intros V. split; [|split].
  - apply stream_not_protected; [exact V | left; reflexivity].
  - apply stream_not_table. exact V.
  - apply stream_not_table. exact V.
Qed.

(* ---- values do not depend on the modified flag of the pool ------------------------------------------------ *)
Lemma to_value_same prof p p' v : p_strings p' = p_strings p -> to_value prof p' v = to_value prof p v.
Proof. intros H. destruct v; try reflexivity. unfold to_value, pool_get. rewrite H. reflexivity. Qed.
Lemma row_to_values_same prof p p' : p_strings p' = p_strings p ->
  forall r, row_to_values prof p' r = row_to_values prof p r.
Proof.
  intros H. induction r as [|v r IH]; [reflexivity|]. cbn [row_to_values]. rewrite (to_value_same prof p p' v H), IH. reflexivity.
Qed.
Lemma rmapM_ext {A B} (f g : A -> res B) : (forall x, f x = g x) -> forall l, rmapM f l = rmapM g l.
Proof. intros H. induction l as [|a l IH]; [reflexivity|]. cbn [rmapM]. rewrite H, IH. reflexivity. Qed.

Lemma tvals_frame prof c c' p p' ts ts' t : p_strings p' = p_strings p ->
  ct_find (ct_entries c') (stream_name_of t) = ct_find (ct_entries c) (stream_name_of t) ->
  tvals prof (mkdb c' p' ts') t = tvals prof (mkdb c p ts) t.
Proof.
  intros Hp Hf. unfold tvals, load_rows. cbn [d_cont d_pool]. rewrite Hf.
  destruct (match ct_find (ct_entries c) (stream_name_of t) with Some b => read_rows t b | None => Ok [] end) as [rows| |];
    cbn [rbind]; try reflexivity.
  apply rmapM_ext. apply row_to_values_same. exact Hp.
Qed.

(* ---- the frame theorem: a change confined to the three saved streams and the modified flag -------------- *)
Lemma frame_inv prof k k' :
  PInv prof k -> k_type k' = k_type k -> k_sum k' = k_sum k -> k_tabs k' = k_tabs k ->
  pool_same (k_pool k) (k_pool k') -> cont_frame (k_cont k) (k_cont k') ->
  disk_ok k' -> flags_ok k' -> PInv prof k' /\ same_obs prof k k'.
Proof.
  intros HP Ety Es Ets (Pcp & Pst & Plg) (Fcl & Ffind & Fnames) Hdisk' Hflags'.
  destruct HP as (HInv & Hcp & Hps & Hfmt & Htw & Hcat & Hsv & Hdisk & Hflags).
  assert (Hsp : forall e, In e (k_tabs k) -> special3 (stream_name_of (snd e))).
  { destruct Htw as (_ & _ & _ & _ & F1 & _). rewrite Forall_forall in F1. intros e He.
    destruct (F1 e He) as (V & R & Esnd). rewrite Esnd. unfold stream_name_of. cbn [t_name].
    apply table_stream_special3; assumption. }
  assert (Htv : forall e, In e (k_tabs k) -> tvals prof (the_db k') (snd e) = tvals prof (the_db k) (snd e)).
  { intros e He. unfold the_db. apply tvals_frame; [exact Pst | apply Ffind, Hsp, He]. }
  assert (Hlr : forall e, In e (k_tabs k) -> load_rows (k_cont k') (snd e) = load_rows (k_cont k) (snd e)).
  { intros e He. unfold load_rows. rewrite (Ffind _ (Hsp e He)). reflexivity. }
  pose proof Htw as (_ & HfT & HfC & HfV & _).
  split.
  - refine (conj _ (conj _ (conj _ (conj _ (conj _ (conj _ (conj _ (conj Hdisk' Hflags')))))))).
    + destruct HInv as (Hwf & Hnd & Htok & Hrc). unfold Inv, the_db in *. cbn [d_pool d_tabs d_cont] in *.
      rewrite Ets. refine (conj _ (conj Hnd (conj _ _))).
      * unfold pool_wf. rewrite Pst. exact Hwf.
      * rewrite Forall_forall in *. intros e He. destruct (Htok e He) as (A & B & C & rows & D & E).
        unfold table_ok. refine (conj A (conj B (conj _ _))); [rewrite Plg; exact C|].
        exists rows. rewrite (Hlr e He). split; assumption.
      * intros r Hr. unfold refcount. rewrite Pst. fold (refcount (k_pool k) r). rewrite (Hrc r Hr). f_equal.
        symmetry. apply all_rows_ext. intros e He. unfold rows_of. rewrite (Hlr e He). reflexivity.
    + rewrite Pcp. exact Hcp.
    + rewrite Es. exact Hps.
    + rewrite Es. exact Hfmt.
    + unfold tabs_wf, user_tabs in *. rewrite Ets, Plg. exact Htw.
    + destruct Hcat as (tr & cr & vr & H1 & P1 & H2 & P2 & H3 & P3). exists tr, cr, vr.
      unfold user_tabs in *. rewrite Ets, Plg.
      pose proof (Htv _ (find_table_in _ _ _ HfT)) as E1. pose proof (Htv _ (find_table_in _ _ _ HfC)) as E2.
      pose proof (Htv _ (find_table_in _ _ _ HfV)) as E3. cbn [snd] in E1, E2, E3. rewrite E1, E2, E3.
      repeat split; assumption.
    + unfold tables_sorted_valid in *. rewrite Ets. rewrite Forall_forall in *. intros e He.
      destruct (Hsv e He) as (vals & A & B & C). exists vals. rewrite (Htv e He). repeat split; assumption.
  - unfold same_obs. refine (conj Ety (conj Pcp (conj Es (conj Ets (conj Htv (conj _ _)))))).
    + intros n V. apply Ffind. apply user_stream_special3. exact V.
    + rewrite !pkg_streams_eq. exact Fnames.
Qed.

(* ---- what pkg_flush does, by cases ---------------------------------------------------------------------- *)
Lemma flush_cases c ty s sm p ts f k1 : pkg_flush (mkpkg c ty s sm p ts f) = Some k1 ->
  (f = false /\ k1 = mkpkg c ty s sm p ts f) \/
  (f = true /\ exists c0 c1 p1, k1 = mkpkg c1 ty s false p1 ts false /\
     (if sm then exists b, ps_write s = Some b /\ c0 = ct_write c SUMMARY_INFO_STREAM_NAME b else c0 = c) /\
     (if p_mod p
      then exists pb db, write_pool p = Some pb /\ write_data p = Some db /\
                         c1 = ct_write (ct_write c0 pool_stream pb) data_stream db /\ p1 = pool_mark_unmodified p
      else c1 = c0 /\ p1 = p)).
Proof.
  unfold pkg_flush. cbn [k_cont k_type k_sum k_sum_mod k_pool k_tabs k_fin].
  destruct f; [|intros H; inversion H; left; split; reflexivity].
  intros H. right. split; [reflexivity|].
  unfold pkg_finish in H. cbn [k_cont k_type k_sum k_sum_mod k_pool k_tabs k_fin] in H.
  destruct sm.
  - destruct (ps_write s) as [b|] eqn:Eb; [|discriminate H].
    cbn [k_cont k_type k_sum k_sum_mod k_pool k_tabs k_fin] in H.
    destruct (p_mod p) eqn:Pm.
    + destruct (write_pool p) as [pb|] eqn:Epb; [|discriminate H].
      destruct (write_data p) as [db|] eqn:Edb; [|discriminate H].
      inversion H. eexists _, _, _. split; [reflexivity|]. split; [exists b; split; reflexivity|].
      exists pb, db. repeat split; reflexivity.
    + inversion H. eexists _, _, _. split; [reflexivity|]. split; [exists b; split; reflexivity|]. split; reflexivity.
  - cbn [k_cont k_type k_sum k_sum_mod k_pool k_tabs k_fin] in H.
    destruct (p_mod p) eqn:Pm.
    + destruct (write_pool p) as [pb|] eqn:Epb; [|discriminate H].
      destruct (write_data p) as [db|] eqn:Edb; [|discriminate H].
      inversion H. eexists _, _, _. split; [reflexivity|]. split; [reflexivity|].
      exists pb, db. repeat split; reflexivity.
    + inversion H. eexists _, _, _. split; [reflexivity|]. split; [reflexivity|]. split; reflexivity.
Qed.

Lemma find_write c n b n' :
  ct_find (ct_entries (ct_write c n b)) n' = if name_eqb n n' then Some b else ct_find (ct_entries c) n'.
Proof. unfold ct_write. cbn [ct_entries]. apply find_put. Qed.

Theorem flush_spec : forall prof k k1, PInv prof k -> pkg_flush k = Some k1 ->
  PInv prof k1 /\ same_obs prof k k1 /\ k_pool k1 = pool_mark_unmodified (k_pool k) /\
  k_fin k1 = false /\ k_sum_mod k1 = false /\ p_mod (k_pool k1) = false.
Proof.
  intros prof k k1 HP Hf.
  pose proof HP as (HInv & Hcp & Hps & Hfmt & Htw & Hcat & Hsv & Hdisk & Hflags).
  destruct saved_distinct as (Nsp & Nsd & Nps & Npd & Nds & Ndp).
  destruct k as [c ty s sm p ts f].
  apply flush_cases in Hf as [[-> ->] | (-> & c0 & c1 & p1 & -> & Hsum & Hpool)].
  - (* no finisher: nothing to do, and nothing pending *)
    destruct (Hflags eq_refl) as [Hsm Hpm]. cbn [k_sum_mod k_pool] in Hsm, Hpm.
    assert (Hobs : PInv prof (mkpkg c ty s sm p ts false) /\ same_obs prof (mkpkg c ty s sm p ts false) (mkpkg c ty s sm p ts false)).
    { apply frame_inv; try reflexivity; try assumption; [repeat split | apply cont_frame_refl]. }
    destruct Hobs as [_ Hobs]. cbn [k_pool k_fin k_sum_mod].
    refine (conj HP (conj Hobs (conj _ (conj eq_refl (conj Hsm Hpm))))).
    symmetry. apply mark_unmod_id. exact Hpm.
  - cbn [k_pool k_fin k_sum_mod k_cont k_type k_sum k_tabs] in *.
    destruct Hdisk as (Dcl & Dp & Ds). cbn [k_pool k_fin k_sum_mod k_cont k_type k_sum k_tabs] in Dcl, Dp, Ds.
    (* the summary step *)
    assert (F0 : cont_frame c c0 /\
                 ct_find (ct_entries c0) SUMMARY_INFO_STREAM_NAME = ps_write s /\ ps_write s <> None /\
                 ct_find (ct_entries c0) pool_stream = ct_find (ct_entries c) pool_stream /\
                 ct_find (ct_entries c0) data_stream = ct_find (ct_entries c) data_stream).
    { destruct sm.
      - destruct Hsum as (b & Eb & ->). split; [apply cont_frame_write; left; reflexivity|].
        rewrite !find_write, name_eqb_refl, Nsp, Nsd, Eb. repeat split. discriminate.
      - subst c0. destruct (Ds eq_refl) as [A B]. split; [apply cont_frame_refl|]. repeat split; assumption. }
    destruct F0 as (Fr0 & S0 & S0' & P0 & D0).
    (* the pool step *)
    assert (F1 : cont_frame c0 c1 /\ pool_same p p1 /\ p_mod p1 = false /\ p1 = pool_mark_unmodified p /\
                 ct_find (ct_entries c1) SUMMARY_INFO_STREAM_NAME = ct_find (ct_entries c0) SUMMARY_INFO_STREAM_NAME /\
                 ct_find (ct_entries c1) pool_stream = write_pool p1 /\
                 ct_find (ct_entries c1) data_stream = write_data p1 /\ write_pool p1 <> None).
    { destruct (p_mod p) eqn:Pm.
      - destruct Hpool as (pb & db & Epb & Edb & -> & ->). split.
        { eapply cont_frame_trans; apply cont_frame_write; [right; left; reflexivity | right; right; left; reflexivity]. }
        split; [repeat split|]. split; [reflexivity|]. split; [reflexivity|].
        rewrite !find_write, !name_eqb_refl, Nds, Nps, Ndp.
        change (write_pool (pool_mark_unmodified p)) with (write_pool p).
        change (write_data (pool_mark_unmodified p)) with (write_data p).
        rewrite Epb, Edb. repeat split. discriminate.
      - destruct Hpool as [-> ->]. destruct (Dp eq_refl) as (A & B & C).
        split; [apply cont_frame_refl|]. split; [repeat split|]. split; [exact Pm|].
        split; [symmetry; apply mark_unmod_id; exact Pm|]. split; [reflexivity|].
        rewrite P0, D0. repeat split; assumption. }
    destruct F1 as (Fr1 & Ps & Pm1 & Ep1 & S1 & P1 & D1 & P1').
    assert (Hobs : PInv prof (mkpkg c1 ty s false p1 ts false) /\
                   same_obs prof (mkpkg c ty s sm p ts true) (mkpkg c1 ty s false p1 ts false)).
    { apply frame_inv; try reflexivity; try assumption.
      - eapply cont_frame_trans; eassumption.
      - unfold disk_ok. cbn [k_pool k_fin k_sum_mod k_cont k_type k_sum k_tabs].
        destruct Fr0 as (C0 & _). destruct Fr1 as (C1 & _). split; [congruence|]. split.
        + intros _. repeat split; assumption.
        + intros _. rewrite S1, S0. split; [reflexivity | exact S0'].
      - intros _. cbn [k_pool k_sum_mod]. split; [reflexivity | exact Pm1]. }
    destruct Hobs as [HP1 Hobs].
    refine (conj HP1 (conj Hobs (conj Ep1 (conj eq_refl (conj eq_refl Pm1))))).
Qed.

Theorem flush_total : forall prof k, PInv prof k -> exists k1, pkg_flush k = Some k1.
Proof.
  intros prof k ((Hwf & _) & Hcp & Hps & _).
  destruct (ps_roundtrip _ Hps) as (sb & Hsb & _).
  destruct (pool_roundtrip _ Hwf Hcp) as (pb & db & Hpb & Hdb & _).
  destruct k as [c ty s sm p ts f]. cbn [k_sum k_pool the_db d_pool] in *.
  unfold pkg_flush. cbn [k_cont k_type k_sum k_sum_mod k_pool k_tabs k_fin].
  destruct f; [|eexists; reflexivity].
  unfold pkg_finish. cbn [k_cont k_type k_sum k_sum_mod k_pool k_tabs k_fin].
  destruct sm; rewrite ?Hsb; cbn [k_cont k_type k_sum k_sum_mod k_pool k_tabs k_fin];
    destruct (p_mod p); rewrite ?Hpb, ?Hdb; eexists; reflexivity.
Qed.

(* ====================================================================== *)
(* the corollaries                                                         *)
(* ====================================================================== *)
Lemma pkg_eta k k' :
  k_cont k' = k_cont k -> k_type k' = k_type k -> k_sum k' = k_sum k -> k_sum_mod k' = k_sum_mod k ->
  k_pool k' = k_pool k -> k_tabs k' = k_tabs k -> k_fin k' = k_fin k -> k' = k.
Proof. destruct k, k'. cbn. intros. subst. reflexivity. Qed.

(* opening what a flush left behind gives the flushed state itself *)
Lemma open_flushed prof k k1 : PInv prof k -> pkg_flush k = Some k1 -> pkg_open prof (k_cont k1) = Ok k1 /\ PInv prof k1 /\ same_obs prof k k1.
Proof.
  intros HP Hf. destruct (flush_spec prof k k1 HP Hf) as (HP1 & Hobs & _ & F1 & F2 & F3).
  destruct (open_saved prof k1 HP1 F1 F2 F3) as (k2 & Ho & A & B & C & D & E & F & G).
  assert (k2 = k1) by (apply pkg_eta; congruence). subst k2. auto.
Qed.

Theorem reopen_roundtrip : forall prof k, PInv prof k ->
  exists k1 k2, pkg_flush k = Some k1 /\ pkg_open prof (k_cont k1) = Ok k2 /\
    same_obs prof k k2 /\ PInv prof k2 /\ k_cont k2 = k_cont k1.
Proof.
  intros prof k HP. destruct (flush_total prof k HP) as (k1 & Hf).
  destruct (open_flushed prof k k1 HP Hf) as (Ho & HP1 & Hobs).
  exists k1, k1. auto.
Qed.

Theorem reopen_idempotent : forall prof k k1 k2, PInv prof k ->
  pkg_flush k = Some k1 -> pkg_open prof (k_cont k1) = Ok k2 ->
  pkg_flush k2 = Some k2 /\ k_cont k2 = k_cont k1.
Proof.
  intros prof k k1 k2 HP Hf Ho. destruct (open_flushed prof k k1 HP Hf) as (Ho' & _ & _).
  rewrite Ho' in Ho. inversion Ho; subst k2. split; [|reflexivity].
  eapply flush_idempotent. exact Hf.
Qed.

Print Assumptions flush_spec.
Print Assumptions flush_total.
Print Assumptions open_saved.
Print Assumptions reopen_roundtrip.
Print Assumptions reopen_idempotent.
