(* DeleteRefine.v -- DELETE refines the relational model on a store satisfying DbInv.Inv:
   it re-establishes the invariant (exact string accounting), removes exactly the rows satisfying
   the condition (order preserved), leaves every other table and stream alone, and never panics. *)
From Coq Require Import ZifyBool ZifyNat ZifyN Lia Sorting.Sorted Permutation.
From MsiModel Require Import Base Value Expr Category Column CodePage Pool Table Container StreamName Query
  PoolProofs TableProofs QueryProofs SelectTotal DbInv.
From MsiGen Require Import GenConsts.
Open Scope N_scope.

Ltac Zify.zify_post_hook ::= Z.div_mod_to_equations.
Arguments N.add : simpl never.
Arguments N.mul : simpl never.
Arguments N.div : simpl never.
Arguments N.modulo : simpl never.
Arguments N.sub : simpl never.

(* ====================================================================== *)
(* container: find after put                                               *)
(* ====================================================================== *)
Lemma name_eqb_true a b : name_eqb a b = true <-> name_key a = name_key b.
Proof. unfold name_eqb. apply str_eqb_spec. Qed.
Lemma name_eqb_false a b : name_eqb a b = false <-> name_key a <> name_key b.
Proof. rewrite <- name_eqb_true. destruct (name_eqb a b); split; congruence. Qed.

Lemma ct_find_put_same l n b : ct_find (ct_put l n b) n = Some b.
Proof.
  induction l as [|[m x] l IH]; cbn [ct_put ct_find].
  - replace (name_eqb n n) with true; [reflexivity|]. symmetry. apply name_eqb_true. reflexivity.
  - destruct (name_eqb m n) eqn:E; cbn [ct_find]; rewrite E; [reflexivity | exact IH].
Qed.

Lemma ct_find_put_other l n b s : name_eqb s n = false -> ct_find (ct_put l n b) s = ct_find l s.
Proof.
  intros H. apply name_eqb_false in H.
  induction l as [|[m x] l IH]; cbn [ct_put ct_find].
  - replace (name_eqb n s) with false; [reflexivity|]. symmetry. apply name_eqb_false. congruence.
  - destruct (name_eqb m n) eqn:E; cbn [ct_find].
    + apply name_eqb_true in E. replace (name_eqb m s) with false; [reflexivity|].
      symmetry. apply name_eqb_false. congruence.
    + destruct (name_eqb m s); [reflexivity | exact IH].
Qed.

(* ====================================================================== *)
(* occurrences                                                             *)
(* ====================================================================== *)
Lemma occ_row_nil r : occ_row r [] = 0.
Proof. reflexivity. Qed.
Lemma occ_row_cons r v vs : occ_row r (v :: vs) = (if is_ref r v then 1 else 0) + occ_row r vs.
Proof. unfold occ_row, nlen. cbn [filter]. destruct (is_ref r v); cbn [length]; lia. Qed.
Lemma occ_nil r : occ r [] = 0.
Proof. reflexivity. Qed.
Lemma occ_cons r row l : occ r (row :: l) = occ_row r row + occ r l.
Proof. reflexivity. Qed.
Lemma occ_app r a b : occ r (a ++ b) = occ r a + occ r b.
Proof. induction a as [|x a IH]; cbn [app]; rewrite ?occ_nil, ?occ_cons; lia. Qed.
Lemma occ_in r row l : In row l -> occ_row r row <= occ r l.
Proof.
  induction l as [|x l IH]; intros H; [destruct H|]. rewrite occ_cons.
  destruct H as [->|H]; [lia|]. specialize (IH H). lia.
Qed.

Lemma all_rows_app c l1 l2 : all_rows c (l1 ++ l2) = all_rows c l1 ++ all_rows c l2.
Proof. induction l1 as [|e l1 IH]; cbn [app all_rows]; [reflexivity|]. rewrite IH, app_assoc. reflexivity. Qed.
Lemma all_rows_ext c c' l :
  (forall e, In e l -> rows_of c' (snd e) = rows_of c (snd e)) -> all_rows c' l = all_rows c l.
Proof.
  induction l as [|e l IH]; intros H; cbn [all_rows]; [reflexivity|].
  rewrite H by (left; reflexivity). rewrite IH; [reflexivity|]. intros; apply H; right; assumption.
Qed.
Lemma occ_all_rows_in r c ts e : In e ts -> occ r (rows_of c (snd e)) <= occ r (all_rows c ts).
Proof.
  induction ts as [|x ts IH]; intros H; [destruct H|]. cbn [all_rows]. rewrite occ_app.
  destruct H as [->|H]; [lia|]. specialize (IH H). lia.
Qed.

Lemma NoDup_map_inj {A B} (f : A -> B) l a b :
  NoDup (map f l) -> In a l -> In b l -> f a = f b -> a = b.
Proof.
  induction l as [|x l IH]; intros Hn Ha Hb E; [destruct Ha|].
  cbn [map] in Hn. inversion Hn as [|? ? Hx Hn']; subst.
  destruct Ha as [->|Ha], Hb as [->|Hb]; auto.
  - exfalso. apply Hx. rewrite E. apply in_map. assumption.
  - exfalso. apply Hx. rewrite <- E. apply in_map. assumption.
Qed.
Lemma NoDup_map_split {A B} (f : A -> B) l1 a l2 e :
  NoDup (map f (l1 ++ a :: l2)) -> In e (l1 ++ l2) -> f e <> f a.
Proof.
  intros Hn He E. rewrite map_app in Hn. cbn [map] in Hn. apply NoDup_remove_2 in Hn.
  apply Hn. rewrite <- map_app, <- E. apply in_map. assumption.
Qed.

(* ====================================================================== *)
(* rows                                                                    *)
(* ====================================================================== *)
Lemma transpose_length n : forall X, length (transpose n X) = n.
Proof. induction n as [|n IH]; intro X; cbn [transpose length]; [reflexivity|]. rewrite IH. reflexivity. Qed.

Lemma read_rows_bound t b rows : read_rows t b = Ok rows -> nlen rows <= MAX_ROWS_READ.
Proof.
  unfold read_rows. cbv zeta.
  set (n := if 0 <? row_size t then nlen b / row_size t else 0).
  destruct (MAX_ROWS_READ <? n) eqn:E; [discriminate|]. apply N.ltb_ge in E.
  destruct (read_columns _ _ _ _) as [X| |]; cbn [rbind]; try discriminate.
  intros H. injection H as <-. unfold nlen. rewrite transpose_length. lia.
Qed.
Lemma load_rows_bound c t rows : load_rows c t = Ok rows -> nlen rows <= MAX_ROWS_READ.
Proof.
  unfold load_rows. destruct (ct_find _ _).
  - apply read_rows_bound.
  - intros H. inversion H; subst. unfold nlen, MAX_ROWS_READ. cbn [length]. lia.
Qed.

Lemma cell_ok_ref ty long v : cell_ok ty long v -> ref_ok v.
Proof.
  destruct ty, v; cbn [cell_ok ref_ok]; auto; try contradiction.
  intros [H1 H2]. split; [assumption|]. destruct long; unfold MAX_STRING_REF in *; lia.
Qed.
Lemma row_ok_shaped t r : row_ok t r -> length r = length (t_cols t) /\ Forall ref_ok r.
Proof.
  unfold row_ok. intros H. induction H as [|c v cs r Hc _ [IH1 IH2]]; [split; [reflexivity|constructor]|].
  split; [cbn [length]; congruence|]. constructor; [eapply cell_ok_ref; eassumption | assumption].
Qed.
Lemma rows_ok_shaped t rows : Forall (row_ok t) rows -> rows_shaped t rows.
Proof. intros H. eapply Forall_impl; [|exact H]. intros r. apply row_ok_shaped. Qed.

(* ====================================================================== *)
(* pools that only lose references                                         *)
(* ====================================================================== *)
Definition shrinks (p p' : pool) : Prop :=
  (forall r, 0 < r -> refcount p' r <= refcount p r) /\
  (forall r s, live p r s -> 0 < refcount p' r -> live p' r s).

Lemma shrinks_refl p : shrinks p p.
Proof. split; [intros; lia | auto]. Qed.
Lemma shrinks_trans p q u : shrinks p q -> shrinks q u -> shrinks p u.
Proof.
  intros [A1 A2] [B1 B2]. split.
  - intros r Hr. specialize (A1 r Hr). specialize (B1 r Hr). lia.
  - intros r s Hl Hp. apply B2; [|assumption]. apply A2; [assumption|].
    destruct Hl as [Hr _]. specialize (B1 r Hr). lia.
Qed.

Lemma live_of_refcount p r : 0 < r -> 0 < refcount p r -> exists s, live p r s.
Proof.
  unfold refcount, live. intros Hr H.
  destruct (nth_opt (p_strings p) (N.to_nat (r - 1))) as [[s rc]|]; [|lia].
  exists s. split; [assumption|]. exists rc. split; [reflexivity | assumption].
Qed.
Lemma live_fun p r s s' : live p r s -> live p r s' -> s = s'.
Proof. intros [_ [rc [H1 _]]] [_ [rc' [H2 _]]]. congruence. Qed.

Lemma decref_step prof p r :
  pool_wf p -> 0 < r -> r <= MAX_STRING_REF -> 0 < refcount p r ->
  exists p', pool_decref prof p r = Ok p' /\ pool_wf p' /\
    refcount p' r + 1 = refcount p r /\
    (forall r', 0 < r' -> r' <> r -> refcount p' r' = refcount p r') /\
    shrinks p p' /\ p_long p' = p_long p.
Proof.
  intros Hwf Hr Hmax Hrc. destruct (live_of_refcount p r Hr Hrc) as [s Hl].
  destruct (decref_spec prof p r s Hwf Hl Hmax) as [p' [Hd [Hwf' [_ [Hrc' [Hfr [Hlo [Hls [_ Hlong]]]]]]]]].
  exists p'. split; [assumption|]. split; [assumption|]. split; [assumption|].
  assert (Hfr' : forall r', 0 < r' -> r' <> r -> refcount p' r' = refcount p r').
  { intros r' H0 Hne. apply Hfr; [assumption | left; lia]. }
  split; [assumption|]. split; [|assumption]. split.
  - intros r' H0. destruct (N.eq_dec r' r) as [->|Hne]; [lia|]. rewrite Hfr' by assumption. lia.
  - intros r' s' Hl' Hp. destruct (N.eq_dec r' r) as [->|Hne].
    + rewrite (live_fun _ _ _ _ Hl' Hl). apply Hls. lia.
    + apply Hlo; assumption.
Qed.

(* ====================================================================== *)
(* decoding stability                                                      *)
(* ====================================================================== *)
Lemma to_value_stable prof p p' v :
  shrinks p p' -> ref_ok v -> (forall r, v = RStr r -> 0 < refcount p' r) ->
  to_value prof p' v = to_value prof p v.
Proof.
  intros [S1 S2] Hv Hc. destruct v as [|z|r]; cbn [to_value]; try reflexivity.
  destruct Hv as [H0 Hmax]. specialize (Hc r eq_refl). specialize (S1 r H0).
  destruct (live_of_refcount p r H0 ltac:(lia)) as [s Hl].
  rewrite (get_live prof p r s Hl Hmax). rewrite (get_live prof p' r s (S2 _ _ Hl Hc) Hmax). reflexivity.
Qed.

Lemma row_stable prof p p' row :
  shrinks p p' -> Forall ref_ok row -> (forall r, 0 < r -> 0 < occ_row r row -> 0 < refcount p' r) ->
  row_to_values prof p' row = row_to_values prof p row.
Proof.
  intros Hs Hr. induction Hr as [|v vs Hv Hvs IH]; intros Hc; cbn [row_to_values]; [reflexivity|].
  rewrite (to_value_stable prof p p' v Hs Hv).
  - rewrite IH; [reflexivity|]. intros r H0 Ho. apply Hc; [assumption|]. rewrite occ_row_cons. lia.
  - intros r ->. destruct Hv as [H0 _]. apply Hc; [assumption|]. rewrite occ_row_cons.
    cbn [is_ref]. rewrite N.eqb_refl. lia.
Qed.

Lemma rows_stable prof p p' rows :
  shrinks p p' -> Forall (Forall ref_ok) rows -> (forall r, 0 < r -> 0 < occ r rows -> 0 < refcount p' r) ->
  rmapM (row_to_values prof p') rows = rmapM (row_to_values prof p) rows.
Proof.
  intros Hs Hr. induction Hr as [|row rows Hrow Hrows IH]; intros Hc; cbn [rmapM]; [reflexivity|].
  rewrite (row_stable prof p p' row Hs Hrow).
  - rewrite IH; [reflexivity|]. intros r H0 Ho. apply Hc; [assumption|]. rewrite occ_cons. lia.
  - intros r H0 Ho. apply Hc; [assumption|]. rewrite occ_cons. lia.
Qed.

Lemma shaped_refs t rows : rows_shaped t rows -> Forall (Forall ref_ok) rows.
Proof. intros H. eapply Forall_impl; [|exact H]. intros r [_ Hr]. exact Hr. Qed.

Lemma rmapM_total prof p rows : Forall (Forall ref_ok) rows ->
  exists vals, rmapM (row_to_values prof p) rows = Ok vals.
Proof.
  intros H. induction H as [|r rows Hr _ [vals IH]]; cbn [rmapM]; [eauto|].
  destruct (row_to_values_total prof p r Hr) as [v [-> _]]. rewrite IH. cbn [rbind]. eauto.
Qed.

(* ====================================================================== *)
(* remove_refs: one decref per string cell of the row                      *)
(* ====================================================================== *)
Lemma remove_refs_spec prof : forall row p Q,
  pool_wf p -> Forall ref_ok row ->
  (forall r, 0 < r -> refcount p r = occ_row r row + Q r) ->
  exists p1, remove_refs prof p row = Ok p1 /\ pool_wf p1 /\
    (forall r, 0 < r -> refcount p1 r = Q r) /\ shrinks p p1 /\ p_long p1 = p_long p.
Proof.
  induction row as [|v vs IH]; intros p Q Hwf Hr Hacc; cbn [remove_refs].
  - exists p. split; [reflexivity|]. split; [assumption|].
    split; [|split; [apply shrinks_refl | reflexivity]].
    intros r H0. rewrite (Hacc r H0), occ_row_nil. lia.
  - inversion Hr as [|? ? Hv Hvs]; subst.
    destruct v as [|z|x]; cbn [vref_remove rbind].
    + apply IH; auto.
    + apply IH; auto.
    + destruct Hv as [Hx Hmax].
      destruct (decref_step prof p x Hwf Hx Hmax) as [p0 [Hd [Hwf0 [Hrc [Hfr [Hs Hlong]]]]]].
      { rewrite (Hacc x Hx), occ_row_cons. cbn [is_ref]. rewrite N.eqb_refl. lia. }
      rewrite Hd. cbn [rbind].
      destruct (IH p0 Q Hwf0 Hvs) as [p1 [He [Hwf1 [Hacc1 [Hs1 Hlong1]]]]].
      { intros r H0. destruct (N.eq_dec r x) as [->|Hne].
        - specialize (Hacc x H0). rewrite occ_row_cons in Hacc. cbn [is_ref] in Hacc.
          rewrite N.eqb_refl in Hacc. lia.
        - rewrite (Hfr r H0 Hne), (Hacc r H0), occ_row_cons. cbn [is_ref].
          replace (x =? r) with false by (symmetry; apply N.eqb_neq; congruence). lia. }
      exists p1. split; [assumption|]. split; [assumption|]. split; [assumption|].
      split; [eapply shrinks_trans; eassumption | congruence].
Qed.

(* ====================================================================== *)
(* delete_loop: the loop invariant                                         *)
(*   refcount (current pool) = occ (rows still to process) + O             *)
(* where O counts the rows kept so far and the rows of the other tables    *)
(* ====================================================================== *)
Lemma delete_loop_spec prof t cond : cond_ok t cond = true -> forall rows p O,
  pool_wf p -> rows_shaped t rows ->
  (forall r, 0 < r -> refcount p r = occ r rows + O r) ->
  exists p' kept, delete_loop prof p t cond rows = Ok (p', kept) /\
    pool_wf p' /\ (forall r, 0 < r -> refcount p' r = occ r kept + O r) /\
    shrinks p p' /\ p_long p' = p_long p /\
    exists vals, rmapM (row_to_values prof p) rows = Ok vals /\
      rmapM (row_to_values prof p') kept = Ok (filter (fun v => negb (holds_v t cond v)) vals).
Proof.
  intros Hc. induction rows as [|row rs IH]; intros p O Hwf Hsh Hacc; cbn [delete_loop].
  - exists p, []. split; [reflexivity|]. split; [assumption|]. split; [assumption|].
    split; [apply shrinks_refl|]. split; [reflexivity|]. exists []. split; reflexivity.
  - inversion Hsh as [|? ? [Hlen Href] Hsh']; subst.
    destruct (cond_holds_total prof p t cond row Hlen Href Hc) as [d Hd]. rewrite Hd. cbn [rbind].
    destruct (row_to_values_total prof p row Href) as [v [Hv _]].
    pose proof (cond_holds_ok _ _ _ _ _ _ _ Hv Hd) as Hh.
    destruct d.
    + (* the row is deleted: its strings are released before the next row is looked at *)
      destruct (remove_refs_spec prof row p (fun r => occ r rs + O r) Hwf Href)
        as [p1 [Hr [Hwf1 [Hacc1 [Hs1 Hl1]]]]].
      { intros r H0. rewrite (Hacc r H0), occ_cons. lia. }
      rewrite Hr. cbn [rbind].
      destruct (IH p1 O Hwf1 Hsh' Hacc1) as [p' [kept [Hdl [Hwf' [Hacc' [Hs' [Hl' [vals [Hvals Hkept]]]]]]]]].
      exists p', kept. split; [assumption|]. split; [assumption|]. split; [assumption|].
      split; [eapply shrinks_trans; eassumption|]. split; [congruence|].
      exists (v :: vals). split.
      * cbn [rmapM]. rewrite Hv. cbn [rbind].
        rewrite <- (rows_stable prof p p1 rs Hs1 (shaped_refs _ _ Hsh')), Hvals; [reflexivity|].
        intros r H0 Ho. rewrite (Hacc1 r H0). lia.
      * cbn [filter]. rewrite Hh. cbn [negb]. assumption.
    + (* the row is kept: it stays counted, so it still decodes the same at the end *)
      destruct (IH p (fun r => occ_row r row + O r) Hwf Hsh')
        as [p' [kept [Hdl [Hwf' [Hacc' [Hs' [Hl' [vals [Hvals Hkept]]]]]]]]].
      { intros r H0. rewrite (Hacc r H0), occ_cons. lia. }
      rewrite Hdl. cbn [rbind].
      exists p', (row :: kept). split; [reflexivity|]. split; [assumption|].
      split. { intros r H0. rewrite (Hacc' r H0), occ_cons. lia. }
      split; [assumption|]. split; [assumption|].
      exists (v :: vals). split.
      * cbn [rmapM]. rewrite Hv, Hvals. reflexivity.
      * cbn [rmapM filter]. rewrite Hh. cbn [negb].
        rewrite (row_stable prof p p' row Hs' Href), Hv, Hkept; [reflexivity|].
        intros r H0 Ho. rewrite (Hacc' r H0). lia.
Qed.

Lemma delete_loop_sub prof t cond (P : list vref -> Prop) : forall rows p p' kept,
  delete_loop prof p t cond rows = Ok (p', kept) -> Forall P rows ->
  Forall P kept /\ (length kept <= length rows)%nat.
Proof.
  induction rows as [|row rs IH]; intros p p' kept H HF; cbn [delete_loop] in H.
  - inversion H; subst. split; [constructor | lia].
  - inversion HF as [|? ? Hrow HF']; subst.
    destruct (cond_holds prof p t cond row) as [d| |]; cbn [rbind] in H; try discriminate.
    destruct d.
    + destruct (remove_refs prof p row) as [p1| |]; cbn [rbind] in H; try discriminate.
      destruct (IH _ _ _ H HF') as [H1 H2]. split; [assumption | cbn [length]; lia].
    + destruct (delete_loop prof p t cond rs) as [[p2 k]| |] eqn:E; cbn [rbind] in H; try discriminate.
      inversion H; subst. destruct (IH _ _ _ E HF') as [H1 H2].
      split; [constructor; assumption | cbn [length]; lia].
Qed.

(* ====================================================================== *)
(* assembling: one DELETE on a store satisfying the invariant              *)
(* ====================================================================== *)
Definition skey (e : str * table) : str := name_key (stream_name_of (snd e)).

Lemma delete_core prof c p ts tn t cond :
  Inv (mkdb c p ts) -> In (tn, t) ts -> cond_ok t cond = true ->
  exists rows p' kept bs,
    load_rows c t = Ok rows /\ delete_loop prof p t cond rows = Ok (p', kept) /\
    write_rows prof t kept = Ok bs /\
    let c' := ct_write c (stream_name_of t) bs in
    Inv (mkdb c' p' ts) /\
    (exists old, rmapM (row_to_values prof p) rows = Ok old /\
       load_rows c' t = Ok kept /\
       rmapM (row_to_values prof p') kept = Ok (filter (fun r => negb (holds_v t cond r)) old)) /\
    (forall n' t', In (n', t') ts -> n' <> tn ->
       tvals prof (mkdb c' p' ts) t' = tvals prof (mkdb c p ts) t').
Proof.
  intros [Hwf [Hnd [Htabs Hacc]]] Hin Hc. cbn [d_cont d_pool d_tabs] in *.
  change (NoDup (map skey ts)) in Hnd.
  pose proof (proj1 (Forall_forall _ _) Htabs _ Hin) as [Hname [Hcols [Hlong [rows [Hload Hrok]]]]].
  cbn [fst snd] in *.
  destruct (in_split _ _ Hin) as [l1 [l2 Hts]].
  set (O := fun r => occ r (all_rows c l1) + occ r (all_rows c l2)).
  assert (Hrows_of : rows_of c t = rows) by (unfold rows_of; rewrite Hload; reflexivity).
  assert (HaccO : forall r, 0 < r -> refcount p r = occ r rows + O r).
  { intros r H0. rewrite (Hacc r H0), Hts, all_rows_app. cbn [all_rows snd].
    rewrite Hrows_of, !occ_app. unfold O. lia. }
  destruct (delete_loop_spec prof t cond Hc rows p O Hwf (rows_ok_shaped _ _ Hrok) HaccO)
    as [p' [kept [Hdl [Hwf' [Hacc' [Hs [Hl [old [Hold Hkept]]]]]]]]].
  destruct (delete_loop_sub prof t cond (row_ok t) _ _ _ _ Hdl Hrok) as [Hkok Hklen].
  pose proof (load_rows_bound _ _ _ Hload) as Hb.
  destruct (rows_roundtrip prof t kept Hcols Hkok) as [bs [Hw [_ Hrd]]].
  { unfold nlen in *. lia. }
  exists rows, p', kept, bs. split; [assumption|]. split; [assumption|]. split; [assumption|].
  cbv zeta. set (c' := ct_write c (stream_name_of t) bs).
  assert (Hload' : load_rows c' t = Ok kept).
  { unfold load_rows, c', ct_write. cbn [ct_entries]. rewrite ct_find_put_same. exact Hrd. }
  assert (Hother : forall e, skey e <> skey (tn, t) -> load_rows c' (snd e) = load_rows c (snd e)).
  { intros e Hne. unfold load_rows, c', ct_write. cbn [ct_entries].
    rewrite ct_find_put_other; [reflexivity|]. apply name_eqb_false. exact Hne. }
  assert (Huniq : forall e, In e ts -> skey e = skey (tn, t) -> e = (tn, t)).
  { intros e He E. eapply (NoDup_map_inj skey); eauto. }
  assert (Hrows_of' : rows_of c' t = kept) by (unfold rows_of; rewrite Hload'; reflexivity).
  assert (Hacc'' : forall r, 0 < r -> refcount p' r = occ r (all_rows c' ts)).
  { intros r H0. rewrite (Hacc' r H0), Hts, all_rows_app. cbn [all_rows snd].
    rewrite Hrows_of', !occ_app. unfold O.
    rewrite (all_rows_ext c c' l1), (all_rows_ext c c' l2); [lia| |].
    all: intros e He; unfold rows_of; rewrite Hother; [reflexivity|];
      apply (NoDup_map_split skey l1 (tn, t) l2); [rewrite <- Hts; exact Hnd | apply in_or_app; auto]. }
  split; [|split].
  - (* the invariant *)
    split; [exact Hwf'|]. split; [exact Hnd|]. split; [|exact Hacc''].
    cbn [d_cont d_pool d_tabs]. apply Forall_forall. intros e He.
    pose proof (proj1 (Forall_forall _ _) Htabs _ He) as [En [Ec [El [rs [Er Erok]]]]].
    destruct (list_eq_dec N.eq_dec (skey e) (skey (tn, t))) as [E|E].
    + rewrite (Huniq e He E). unfold table_ok. cbn [fst snd]. split; [assumption|]. split; [assumption|].
      split; [congruence|]. exists kept. split; assumption.
    + split; [assumption|]. split; [assumption|]. split; [congruence|].
      exists rs. rewrite (Hother e E). split; assumption.
  - exists old. split; [assumption|]. split; assumption.
  - (* the other tables decode as before *)
    intros n' t' Hin' Hne.
    assert (E : skey (n', t') <> skey (tn, t)).
    { intros E. apply Huniq in E; [|assumption]. congruence. }
    pose proof (proj1 (Forall_forall _ _) Htabs _ Hin') as [_ [_ [_ [rs [Er Erok]]]]]. cbn [snd] in Er, Erok.
    pose proof (Hother (n', t') E) as Ho'. cbn [snd] in Ho'.
    unfold tvals. cbn [d_cont d_pool]. rewrite Ho', Er. cbn [rbind].
    apply rows_stable; [assumption | apply (shaped_refs t'); apply rows_ok_shaped; assumption |].
    intros r H0 Ho. rewrite (Hacc'' r H0).
    pose proof (occ_all_rows_in r c' ts (n', t') Hin') as Hle. cbn [snd] in Hle.
    unfold rows_of in Hle. rewrite Ho', Er in Hle. lia.
Qed.

(* DELETE removes exactly the rows satisfying the condition, keeps order, releases exactly their strings *)
Theorem delete_refines : forall prof d tn t cond c' p',
  Inv d -> In (tn, t) (d_tabs d) -> find_table (d_tabs d) tn = Some t ->
  exec_delete prof (d_cont d) (d_pool d) (d_tabs d) tn cond = Ok (c', p') ->
  let d' := mkdb c' p' (d_tabs d) in
  Inv d' /\
  (exists old, tvals prof d t = Ok old /\
     tvals prof d' t = Ok (filter (fun r => negb (holds_v t cond r)) old)) /\
  (forall n' t', In (n', t') (d_tabs d) -> n' <> tn -> tvals prof d' t' = tvals prof d t') /\
  (forall s, name_eqb s (stream_name_of t) = false -> ct_find (ct_entries c') s = ct_find (ct_entries (d_cont d)) s) /\
  ct_clsid c' = ct_clsid (d_cont d).
Proof.
  intros prof [c p ts] tn t cond c' p' HInv Hin Hfind Hex. cbn [d_cont d_pool d_tabs] in *.
  unfold exec_delete in Hex. rewrite Hfind in Hex. cbn [of_opt rbind] in Hex.
  destruct (cond_ok t cond) eqn:Hc; cbn [negb] in Hex; [|discriminate].
  destruct (delete_core prof c p ts tn t cond HInv Hin Hc) as [rows [p1 [kept [bs [Hload [Hdl [Hw H]]]]]]].
  rewrite Hload in Hex. cbn [rbind] in Hex. rewrite Hdl in Hex. cbn [rbind] in Hex.
  unfold store_rows in Hex. rewrite Hw in Hex. cbn [rbind] in Hex. inversion Hex; subst c' p'. clear Hex.
  cbv zeta in H. destruct H as [HI [[old [Hold [Hl' Hk]]] Hoth]].
  cbv zeta. split; [exact HI|]. split.
  { exists old. unfold tvals. cbn [d_cont d_pool]. rewrite Hload, Hl'. cbn [rbind]. split; assumption. }
  split; [exact Hoth|]. split.
  { intros s Hs. unfold ct_write. cbn [ct_entries]. apply ct_find_put_other. exact Hs. }
  reflexivity.
Qed.

(* on a state satisfying the invariant DELETE never panics, and fails only for an unknown table / column *)
Theorem delete_total : forall prof d tn t cond,
  Inv d -> In (tn, t) (d_tabs d) -> find_table (d_tabs d) tn = Some t -> cond_ok t cond = true ->
  exists c' p', exec_delete prof (d_cont d) (d_pool d) (d_tabs d) tn cond = Ok (c', p').
Proof.
  intros prof [c p ts] tn t cond HInv Hin Hfind Hc. cbn [d_cont d_pool d_tabs] in *.
  destruct (delete_core prof c p ts tn t cond HInv Hin Hc) as [rows [p1 [kept [bs [Hload [Hdl [Hw _]]]]]]].
  unfold exec_delete. rewrite Hfind. cbn [of_opt rbind]. rewrite Hc. cbn [negb].
  rewrite Hload. cbn [rbind]. rewrite Hdl. cbn [rbind]. unfold store_rows. rewrite Hw. cbn [rbind]. eauto.
Qed.

Print Assumptions delete_refines.
Print Assumptions delete_total.
