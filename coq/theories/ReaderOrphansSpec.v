(* ReaderOrphansSpec.v -- C02 for files whose _Validation table also describes tables / columns that are NOT in the file
   (real-world packages list every standard table there): statements; proofs in ReaderOrphans.v.
   RInvO is ReaderProofs.RInv with the _Validation clause of catalog_rd relaxed from "exactly the rows of the user
   tables" to "those rows plus orphan rows", an orphan row being any row whose first two cells are strings (table,
   column) that name no column of a table of the file, no two orphans with the same (table, column). *)
From Coq Require Import Sorting.Sorted Permutation.
From MsiModel Require Import Base Sexp Value Expr Category Column CodePage Pool Table Container StreamName
  Propset Summary Query Package PoolProofs TableProofs QueryProofs DbInv CatalogProofs PropsetCodecProofs PackageProofs PkgInv ReopenLemmas ReopenProofs ReaderProofs.
From MsiGen Require Import GenConsts GenCatalog GenStreamName.
Open Scope N_scope.

Definition vrow_key (r : list value) : option (str * str) :=
  match r with VStr a :: VStr b :: _ => Some (a, b) | _ => None end.

(* the (table, column) pairs that the file's own tables account for *)
Definition described (k : pkg) (a b : str) : Prop :=
  exists e, In e (user_tabs k) /\ fst e = a /\ In b (map c_name (t_cols (snd e))).

Definition orphans_ok (k : pkg) (orph : list (list value)) : Prop :=
  Forall (fun r => exists a b, vrow_key r = Some (a, b) /\ ~ described k a b) orph /\
  NoDup (map vrow_key orph).

Definition catalog_rdo (prof : profile) (k : pkg) (orph : list (list value)) : Prop :=
  let d := the_db k in
  let long := p_long (k_pool k) in
  exists (trows crows : list (list value)),
    tvals prof d (tables_table long) = Ok trows /\
    Permutation trows (map (fun e => [VStr (fst e)]) (user_tabs k)) /\
    tvals prof d (columns_table long) = Ok crows /\
    Permutation crows (List.concat (map (fun e => stored (columns_rows (fst e) (t_cols (snd e)))) (user_tabs k))) /\
    (has_validation k = true ->
       exists vrows, tvals prof d (validation_table long) = Ok vrows /\
         Permutation vrows (List.concat (map (fun e => stored (validation_rows (fst e) (t_cols (snd e)))) (user_tabs k)) ++ orph)) /\
    (has_validation k = false -> orph = [] /\ ct_find (ct_entries (k_cont k)) (sn_encode VALIDATION_TABLE_NAME true) = None).

Definition RInvO (prof : profile) (k : pkg) (orph : list (list value)) : Prop :=
  pool_rd (k_pool k) /\ ps_ok (k_sum k) /\ ps_fmtid (k_sum k) = FMTID /\ tabs_rd k /\ catalog_rdo prof k orph /\
  orphans_ok k orph /\
  ct_clsid (k_cont k) = ptype_clsid (k_type k) /\
  ct_find (ct_entries (k_cont k)) pool_stream = write_pool (k_pool k) /\
  ct_find (ct_entries (k_cont k)) data_stream = write_data (k_pool k) /\
  ct_find (ct_entries (k_cont k)) SUMMARY_INFO_STREAM_NAME = ps_write (k_sum k) /\
  k_fin k = false /\ k_sum_mod k = false.

(* the file opens to exactly the state it encodes; the orphan rows change nothing *)
Definition G_open_encoded_orphans : Prop := forall prof k orph, RInvO prof k orph -> pkg_open prof (k_cont k) = Ok k.

(* RInv is the special case without orphans *)
Definition G_rinv_is_rinvo : Prop := forall prof k, RInv prof k -> RInvO prof k [].
