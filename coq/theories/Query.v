(* Query.v -- model of src/internal/query.rs: Insert / Delete / Update / Select(+Join)::exec
   over a container, a string pool and the table map. *)
From MsiModel Require Import Base Value Expr Category Column CodePage Pool Table Container.
From MsiGen Require Import GenConsts.
Open Scope N_scope.

Definition tables := list (str * table).       (* BTreeMap<String, Rc<Table>>: ascending names *)
Fixpoint find_table (ts : tables) (n : str) : option table :=
  match ts with
  | [] => None
  | (m, t) :: r => if str_eqb m n then Some t else find_table r n
  end.
Fixpoint tables_insert (ts : tables) (n : str) (t : table) : tables :=
  match ts with
  | [] => [(n, t)]
  | (m, u) :: r =>
      match str_cmp n m with
      | Lt => (n, t) :: ts
      | Eq => (n, t) :: r
      | Gt => (m, u) :: tables_insert r n t
      end
  end.
Definition tables_remove (ts : tables) (n : str) : tables := filter (fun e => negb (str_eqb (fst e) n)) ts.

(* Vec<Value> ordering: lexicographic by the Value order *)
Fixpoint key_cmp (a b : list value) : comparison :=
  match a, b with
  | [], [] => Eq
  | [], _ :: _ => Lt
  | _ :: _, [] => Gt
  | x :: a', y :: b' => match value_cmp x y with Eq => key_cmp a' b' | c => c end
  end.
Definition key_eqb (a b : list value) : bool := match key_cmp a b with Eq => true | _ => false end.

Definition keyed := list (list value * list vref).        (* BTreeMap<Vec<Value>, Vec<ValueRef>> *)
Fixpoint keyed_mem (m : keyed) (k : list value) : bool :=
  match m with [] => false | (k', _) :: r => key_eqb k' k || keyed_mem r k end.
Fixpoint keyed_insert (m : keyed) (k : list value) (row : list vref) : keyed :=
  match m with
  | [] => [(k, row)]
  | (k', r') :: rest =>
      match key_cmp k k' with
      | Lt => (k, row) :: m
      | Eq => (k, row) :: rest
      | Gt => (k', r') :: keyed_insert rest k row
      end
  end.

Definition normalize_value (v : value) : value := match v with VStr [] => VNull | _ => v end.

Fixpoint select_nth {A} (l : list A) (idx : list nat) : res (list A) :=
  match idx with
  | [] => Ok []
  | i :: r => x <- unwrap (nth_opt l i) ;; xs <- select_nth l r ;; Ok (x :: xs)
  end.

(* the rows stored for a table (empty when the stream does not exist) *)
Definition load_rows (c : container) (t : table) : res (list (list vref)) :=
  match ct_find (ct_entries c) (stream_name_of t) with
  | Some b => read_rows t b
  | None => Ok []
  end.
Definition store_rows (prof : profile) (c : container) (t : table) (rows : list (list vref)) : res container :=
  b <- write_rows prof t rows ;; Ok (ct_write c (stream_name_of t) b).

Fixpoint all_valid (cols : list column) (vals : list value) : res bool :=
  match cols, vals with
  | c :: cs, v :: vs => b <- is_valid_value c v ;; if b then all_valid cs vs else Ok false
  | _, _ => Ok true
  end.

Fixpoint cols_ok (t : table) (names : list str) : bool :=
  match names with [] => true | n :: r => has_col t n && cols_ok t r end.
Definition cond_ok (t : table) (cond : option ast) : bool :=
  match cond with Some e => cols_ok t (cols_of e) | None => true end.

Definition row_env (t : table) (vals : list value) : row := combine (map c_name (t_cols t)) vals.
Definition cond_holds (prof : profile) (p : pool) (t : table) (cond : option ast) (r : list vref) : res bool :=
  match cond with
  | None => Ok true
  | Some e => vals <- row_to_values prof p r ;; v <- eval (row_env t vals) e ;; Ok (to_bool v)
  end.

(* ---- INSERT ----------------------------------------------------------------------- *)
Fixpoint validate_new_rows (t : table) (rows : list (list value)) : res unit :=
  match rows with
  | [] => Ok tt
  | r :: rs =>
      if negb (Nat.eqb (length r) (length (t_cols t))) then Err
      else b <- all_valid (t_cols t) r ;; if b then validate_new_rows t rs else Err
  end.

Fixpoint load_keyed (prof : profile) (p : pool) (kidx : list nat) (rows : list (list vref)) (m : keyed) : res keyed :=
  match rows with
  | [] => Ok m
  | r :: rs =>
      kr <- select_nth r kidx ;;
      k <- row_to_values prof p kr ;;
      if keyed_mem m k then Err else load_keyed prof p kidx rs (keyed_insert m k r)
  end.

Fixpoint check_new_keys (kidx : list nat) (m : keyed) (seen : list (list value)) (rows : list (list value)) : res unit :=
  match rows with
  | [] => Ok tt
  | r :: rs =>
      k <- select_nth r kidx ;;
      if keyed_mem m k then Err
      else if existsb (key_eqb k) seen then Err
      else check_new_keys kidx m (k :: seen) rs
  end.

Fixpoint create_refs (prof : profile) (p : pool) (vals : list value) : res (pool * list vref) :=
  match vals with
  | [] => Ok (p, [])
  | v :: vs => '(p1, r) <- vref_create prof p v ;; '(p2, rs) <- create_refs prof p1 vs ;; Ok (p2, r :: rs)
  end.
Fixpoint insert_new (prof : profile) (p : pool) (kidx : list nat) (m : keyed) (rows : list (list value)) : res (pool * keyed) :=
  match rows with
  | [] => Ok (p, m)
  | r :: rs =>
      k <- select_nth r kidx ;;
      '(p1, refs) <- create_refs prof p r ;;
      insert_new prof p1 kidx (keyed_insert m k refs) rs
  end.

Definition exec_insert (prof : profile) (c : container) (p : pool) (ts : tables) (tname : str) (new_rows : list (list value))
  : res (container * pool) :=
  t <- of_opt (find_table ts tname) ;;
  _ <- validate_new_rows t new_rows ;;
  let new_rows := map (map normalize_value) new_rows in
  let kidx := pk_indices t in
  old <- load_rows c t ;;
  m <- load_keyed prof p kidx old [] ;;
  _ <- check_new_keys kidx m [] new_rows ;;
  _ <- match MAX_ROWS_INSERT with
       | Some lim => if lim <? nlen m + nlen new_rows then Err else Ok tt
       | None => Ok tt
       end ;;
  '(p', m') <- insert_new prof p kidx m new_rows ;;
  c' <- store_rows prof c t (map snd m') ;;
  Ok (c', p').

(* Insert::check: every check of exec without changing anything (the prefix of exec_insert up to the first mutation) *)
Definition exec_insert_check (prof : profile) (c : container) (p : pool) (ts : tables) (tname : str) (new_rows : list (list value))
  : res unit :=
  t <- of_opt (find_table ts tname) ;;
  _ <- validate_new_rows t new_rows ;;
  let new_rows := map (map normalize_value) new_rows in
  let kidx := pk_indices t in
  old <- load_rows c t ;;
  m <- load_keyed prof p kidx old [] ;;
  _ <- check_new_keys kidx m [] new_rows ;;
  match MAX_ROWS_INSERT with
  | Some lim => if lim <? nlen m + nlen new_rows then Err else Ok tt
  | None => Ok tt
  end.

(* ---- DELETE ----------------------------------------------------------------------- *)
Fixpoint remove_refs (prof : profile) (p : pool) (r : list vref) : res pool :=
  match r with
  | [] => Ok p
  | v :: vs => p1 <- vref_remove prof p v ;; remove_refs prof p1 vs
  end.
Fixpoint delete_loop (prof : profile) (p : pool) (t : table) (cond : option ast) (rows : list (list vref))
  : res (pool * list (list vref)) :=
  match rows with
  | [] => Ok (p, [])
  | r :: rs =>
      d <- cond_holds prof p t cond r ;;
      if d then p1 <- remove_refs prof p r ;; delete_loop prof p1 t cond rs
      else '(p2, kept) <- delete_loop prof p t cond rs ;; Ok (p2, r :: kept)
  end.
Definition exec_delete (prof : profile) (c : container) (p : pool) (ts : tables) (tname : str) (cond : option ast)
  : res (container * pool) :=
  t <- of_opt (find_table ts tname) ;;
  if negb (cond_ok t cond) then Err else
  rows <- load_rows c t ;;
  '(p', kept) <- delete_loop prof p t cond rows ;;
  c' <- store_rows prof c t kept ;;
  Ok (c', p').

(* ---- UPDATE ----------------------------------------------------------------------- *)
Fixpoint validate_updates (t : table) (ups : list (str * value)) : res unit :=
  match ups with
  | [] => Ok tt
  | (n, v) :: r =>
      match col_index t n with
      | None => Err
      | Some i =>
          c <- unwrap (nth_opt (t_cols t) i) ;;
          b <- is_valid_value c v ;;
          if b then validate_updates t r else Err
      end
  end.

Fixpoint set_nth {A} (l : list A) (i : nat) (x : A) : list A :=
  match l, i with
  | [], _ => []
  | _ :: r, O => x :: r
  | a :: r, S i' => a :: set_nth r i' x
  end.

(* the value a matched row will hold in column i: the last assignment to it, if any *)
Fixpoint last_assignment (t : table) (ups : list (str * value)) (i : nat) (acc : option value) : option value :=
  match ups with
  | [] => acc
  | (n, v) :: r =>
      last_assignment t r i (match col_index t n with
                             | Some j => if Nat.eqb i j then Some (normalize_value v) else acc
                             | None => acc end)
  end.

Fixpoint apply_updates (prof : profile) (p : pool) (t : table) (ups : list (str * value)) (r : list vref)
  : res (pool * list vref) :=
  match ups with
  | [] => Ok (p, r)
  | (n, v) :: rest =>
      i <- unwrap (col_index t n) ;;
      old <- unwrap (nth_opt r i) ;;
      p1 <- vref_remove prof p old ;;
      '(p2, nv) <- vref_create prof p1 v ;;
      apply_updates prof p2 t rest (set_nth r i nv)
  end.

Fixpoint matches_of (prof : profile) (p : pool) (t : table) (cond : option ast) (rows : list (list vref)) : res (list bool) :=
  match rows with
  | [] => Ok []
  | r :: rs => b <- cond_holds prof p t cond r ;; bs <- matches_of prof p t cond rs ;; Ok (b :: bs)
  end.

Fixpoint new_keys (prof : profile) (p : pool) (t : table) (ups : list (str * value)) (kidx : list nat)
         (rows : list (list vref)) (ms : list bool) (seen : list (list value)) : res unit :=
  match rows, ms with
  | r :: rs, m :: ms' =>
      k <- (fix go (idx : list nat) : res (list value) :=
              match idx with
              | [] => Ok []
              | i :: is' =>
                  v <- match (if m then last_assignment t ups i None else None) with
                       | Some v => Ok v
                       | None => cell <- unwrap (nth_opt r i) ;; to_value prof p cell
                       end ;;
                  vs <- go is' ;; Ok (v :: vs)
              end) kidx ;;
      if existsb (key_eqb k) seen then Err else new_keys prof p t ups kidx rs ms' (k :: seen)
  | _, _ => Ok tt
  end.

Fixpoint update_loop (prof : profile) (p : pool) (t : table) (ups : list (str * value))
         (rows : list (list vref)) (ms : list bool) : res (pool * list (list vref)) :=
  match rows, ms with
  | r :: rs, m :: ms' =>
      '(p1, r') <- (if m then apply_updates prof p t ups r else Ok (p, r)) ;;
      '(p2, rest) <- update_loop prof p1 t ups rs ms' ;;
      Ok (p2, r' :: rest)
  | _, _ => Ok (p, [])
  end.

(* stable sort of rows by key (insertion sort; keys are distinct when it is used) *)
Fixpoint sort_rows (prof : profile) (p : pool) (kidx : list nat) (rows : list (list vref)) (m : keyed) : res keyed :=
  match rows with
  | [] => Ok m
  | r :: rs =>
      kr <- select_nth r kidx ;; k <- row_to_values prof p kr ;;
      sort_rows prof p kidx rs (keyed_insert m k r)
  end.

Definition exec_update (prof : profile) (c : container) (p : pool) (ts : tables) (tname : str)
           (ups : list (str * value)) (cond : option ast) : res (container * pool) :=
  t <- of_opt (find_table ts tname) ;;
  _ <- validate_updates t ups ;;
  if negb (cond_ok t cond) then Err else
  rows <- load_rows c t ;;
  ms <- matches_of prof p t cond rows ;;
  let kidx := pk_indices t in
  let rekey := existsb (fun u => match col_index t (fst u) with
                                 | Some i => existsb (Nat.eqb i) kidx | None => false end) ups in
  _ <- (if rekey then new_keys prof p t ups kidx rows ms [] else Ok tt) ;;
  '(p', rows') <- update_loop prof p t ups rows ms ;;
  rows'' <- (if rekey then m <- sort_rows prof p' kidx rows' [] ;; Ok (map snd m) else Ok rows') ;;
  c' <- store_rows prof c t rows'' ;;
  Ok (c', p').

(* ---- SELECT / JOIN ------------------------------------------------------------------ *)
Inductive sel := Sel (from : join) (cols : list str) (cond : option ast)
with join := JTable (name : str) | JInner (a b : sel) (on : ast) | JLeft (a b : sel) (on : ast).

Fixpoint filter_rows (prof : profile) (p : pool) (t : table) (cond : option ast) (rows : list (list vref))
  : res (list (list vref)) :=
  match rows with
  | [] => Ok []
  | r :: rs =>
      b <- cond_holds prof p t cond r ;;
      rest <- filter_rows prof p t cond rs ;;
      Ok (if b then r :: rest else rest)
  end.

Fixpoint indices_of (t : table) (names : list str) : option (list nat) :=
  match names with
  | [] => Some []
  | n :: r => match col_index t n, indices_of t r with Some i, Some is' => Some (i :: is') | _, _ => None end
  end.

Fixpoint join_rows (prof : profile) (p : pool) (jt : table) (on : ast) (left : bool) (n2 : nat)
         (rows1 rows2 : list (list vref)) : res (list (list vref)) :=
  match rows1 with
  | [] => Ok []
  | r1 :: rs1 =>
      matched <- filter_rows prof p jt (Some on) (map (fun r2 => r1 ++ r2) rows2) ;;
      rest <- join_rows prof p jt on left n2 rs1 rows2 ;;
      Ok ((match matched, left with
           | [], true => [r1 ++ repeat RNull n2]
           | _, _ => matched
           end) ++ rest)
  end.

Fixpoint exec_select (prof : profile) (c : container) (p : pool) (ts : tables) (s : sel) {struct s}
  : res (table * list (list vref)) :=
  match s with
  | Sel from names cond =>
      '(t, rows) <- exec_join prof c p ts from ;;
      match indices_of t names with
      | None => Err
      | Some idx =>
          if negb (cond_ok t cond) then Err else
          rows1 <- filter_rows prof p t cond rows ;;
          match idx with
          | [] => Ok (t, rows1)
          | _ =>
              cols <- select_nth (t_cols t) idx ;;
              rows2 <- rmapM (fun r => select_nth r idx) rows1 ;;
              Ok (mktable [] cols (t_long t), rows2)
          end
      end
  end
with exec_join (prof : profile) (c : container) (p : pool) (ts : tables) (j : join) {struct j}
  : res (table * list (list vref)) :=
  match j with
  | JTable name =>
      t <- of_opt (find_table ts name) ;;
      rows <- load_rows c t ;;
      Ok (t, rows)
  | JInner a b on =>
      '(t1, rows1) <- exec_select prof c p ts a ;;
      '(t2, rows2) <- exec_select prof c p ts b ;;
      let jt := mktable [] (map (with_prefix (t_name t1)) (t_cols t1) ++ map (with_prefix (t_name t2)) (t_cols t2)) (p_long p) in
      if negb (cols_ok jt (cols_of on)) then Err else
      rows <- join_rows prof p jt on false (length (t_cols t2)) rows1 rows2 ;;
      Ok (jt, rows)
  | JLeft a b on =>
      '(t1, rows1) <- exec_select prof c p ts a ;;
      '(t2, rows2) <- exec_select prof c p ts b ;;
      let jt := mktable [] (map (with_prefix (t_name t1)) (t_cols t1) ++
                            map (fun col => but_nullable (with_prefix (t_name t2) col)) (t_cols t2)) (p_long p) in
      if negb (cols_ok jt (cols_of on)) then Err else
      rows <- join_rows prof p jt on true (length (t_cols t2)) rows1 rows2 ;;
      Ok (jt, rows)
  end.
