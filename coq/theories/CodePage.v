(* CodePage.v -- model of src/internal/codepage.rs. *)
From MsiModel Require Import Base.
From MsiGen Require Import GenCodePage GenSingleByte.
Open Scope N_scope.

Definition codepage := str.   (* the variant identifier, e.g. "Windows1252" *)

Fixpoint assoc_N (k : N) (l : list (N * str)) : option str :=
  match l with
  | [] => None
  | (a, b) :: r => if a =? k then Some b else assoc_N k r
  end.
Fixpoint assoc_S (k : str) (l : list (str * N)) : option N :=
  match l with
  | [] => None
  | (a, b) :: r => if str_eqb a k then Some b else assoc_S k r
  end.
Fixpoint assoc_SS (k : str) (l : list (str * str)) : option str :=
  match l with
  | [] => None
  | (a, b) :: r => if str_eqb a k then Some b else assoc_SS k r
  end.

(* CodePage::from_id(i32) / id() *)
Definition cp_from_id (i : Z) : option codepage :=
  if (i <? 0)%Z then None else assoc_N (Z.to_N i) CP_FROM_ID.
Definition cp_id (c : codepage) : N :=
  match assoc_S c CP_ID with Some i => i | None => 0 end.
Definition cp_encoding_label (c : codepage) : option str := assoc_SS c CP_ENCODING.

Definition cp_utf8 : codepage := [85; 116; 102; 56].
Definition cp_ascii : codepage := [85; 115; 65; 115; 99; 105; 105].

(* ---- US-ASCII ------------------------------------------------------------- *)
Definition ascii_encode (s : str) : bytes := map (fun c => if c <? 128 then c else 63) s.
(* ascii_decode: non-ASCII bytes become U+FFFD *)
Definition ascii_decode (b : bytes) : str := map (fun x => if x <? 128 then x else 65533) b.

(* ---- UTF-8 decoding (WHATWG decoder, as encoding_rs implements it) --------- *)
Record u8st := { need : N; seen : N; cp : N; lo : N; hi : N }.
Definition u8_init : u8st := {| need := 0; seen := 0; cp := 0; lo := 128; hi := 191 |}.

(* a byte in the initial state: emitted characters and the next state *)
Definition u8_first (b : N) : list N * u8st :=
  if b <? 128 then ([b], u8_init)
  else if (194 <=? b) && (b <=? 223) then ([], {| need := 1; seen := 0; cp := b mod 32; lo := 128; hi := 191 |})
  else if (224 <=? b) && (b <=? 239) then
    ([], {| need := 2; seen := 0; cp := b mod 16; lo := if b =? 224 then 160 else 128; hi := if b =? 237 then 159 else 191 |})
  else if (240 <=? b) && (b <=? 244) then
    ([], {| need := 3; seen := 0; cp := b mod 8; lo := if b =? 240 then 144 else 128; hi := if b =? 244 then 143 else 191 |})
  else ([65533], u8_init).

Definition u8_step (st : u8st) (b : N) : list N * u8st :=
  if need st =? 0 then u8_first b
  else if (lo st <=? b) && (b <=? hi st) then
    let c := cp st * 64 + b mod 64 in
    if seen st + 1 =? need st then ([c], u8_init)
    else ([], {| need := need st; seen := seen st + 1; cp := c; lo := 128; hi := 191 |})
  else
    (* malformed: emit U+FFFD, then reprocess the byte from the initial state *)
    let '(out, st') := u8_first b in (65533 :: out, st').

Fixpoint u8_run (st : u8st) (bs : bytes) : str :=
  match bs with
  | [] => if need st =? 0 then [] else [65533]
  | b :: r => let '(out, st') := u8_step st b in out ++ u8_run st' r
  end.
Definition utf8_decode (bs : bytes) : str := u8_run u8_init bs.

(* ---- the generic encode loop ------------------------------------------------ *)
(* One call of Encoder::encode_from_utf8_without_replacement on an empty buffer
   of [buf] bytes: characters are consumed in order while they are mappable and
   the encoder judges that the next one still fits ([room] bytes of headroom,
   the encoder's conservative worst case per character). *)
Inductive enc_result := InputEmpty | OutputFull | Unmappable.

Section Loop.
  Variable enc1 : N -> option bytes.      (* per-character encoding; None = unmappable *)
  Variable room : N.                       (* headroom the encoder insists on *)

  Fixpoint enc_call (s : str) (avail : N) : enc_result * str * bytes :=
    match s with
    | [] => (InputEmpty, [], [])
    | c :: r =>
        if avail <? room then (OutputFull, s, [])
        else match enc1 c with
             | None => (Unmappable, r, [])
             | Some bs =>
                 let '(res, rest, out) := enc_call r (avail - nlen bs) in
                 (res, rest, bs ++ out)
             end
    end.

  (* CodePage::encode's loop *)
  Fixpoint enc_loop (fuel : nat) (s : str) : option bytes :=
    match fuel with
    | O => None
    | S f =>
        let '(res, rest, out) := enc_call s CP_ENCODE_BUFFER in
        match res with
        | InputEmpty => Some out
        | OutputFull => option_map (fun t => out ++ t) (enc_loop f rest)
        | Unmappable => option_map (fun t => out ++ CP_REPLACEMENT :: t) (enc_loop f rest)
        end
    end.

  Definition enc_char (c : N) : bytes :=
    match enc1 c with Some b => b | None => [CP_REPLACEMENT] end.
End Loop.

(* ---- single-byte code pages (windows-125x, ISO 8859-x, Macintosh) ---------------------------------------------- *)
(* encoding_rs keeps one 128-entry table per single-byte encoding (code point of byte 0x80+i, 0 = unmapped);
   GenSingleByte.SB_TABLES is regenerated from the release pinned by Cargo.lock.  Bytes below 0x80 are ASCII. *)
Fixpoint assoc_SL (k : str) (l : list (str * list N)) : option (list N) :=
  match l with
  | [] => None
  | (a, b) :: r => if str_eqb a k then Some b else assoc_SL k r
  end.
Definition sb_table (c : codepage) : option (list N) :=
  match cp_encoding_label c with Some l => assoc_SL l SB_TABLES | None => None end.
Definition sb_dec1 (tbl : list N) (x : N) : N :=
  if x <? 128 then x
  else match nth_error tbl (N.to_nat (x - 128)) with
       | Some c => if c =? 0 then 65533 else c
       | None => 65533
       end.
Fixpoint sb_index (c : N) (tbl : list N) (i : N) : option N :=
  match tbl with
  | [] => None
  | h :: r => if h =? c then Some i else sb_index c r (i + 1)
  end.
Definition sb_enc1 (tbl : list N) (c : N) : N :=
  if c <? 128 then c
  else match sb_index c tbl 0 with Some i => 128 + i | None => CP_REPLACEMENT end.
Definition sb_encode (tbl : list N) (s : str) : bytes := map (sb_enc1 tbl) s.
Definition sb_decode (tbl : list N) (b : bytes) : str := map (sb_dec1 tbl) b.

(* encode / decode for the code pages whose codecs live in Coq: US-ASCII, UTF-8 and every single-byte page *)
Definition cp_encode (c : codepage) (s : str) : option bytes :=
  if str_eqb c cp_ascii then Some (ascii_encode s)
  else if str_eqb c cp_utf8 then Some (utf8_enc s)
  else match sb_table c with Some t => Some (sb_encode t s) | None => None end.

Definition strip_bom (b : bytes) : option bytes :=
  match b with
  | 239 :: 187 :: 191 :: r => Some r
  | _ => None
  end.
Definition cp_decode (c : codepage) (b : bytes) : option str :=
  if str_eqb c cp_ascii then Some (ascii_decode b)
  else if str_eqb c cp_utf8 then
    Some (if CP_DECODE_SNIFFS_BOM then
            match strip_bom b with Some r => utf8_decode r | None => utf8_decode b end
          else utf8_decode b)
  else match sb_table c with Some t => Some (sb_decode t b) | None => None end.
