
type comparison =
| Eq
| Lt
| Gt

val compOpp : comparison -> comparison

type positive =
| XI of positive
| XO of positive
| XH

type n =
| N0
| Npos of positive

type z =
| Z0
| Zpos of positive
| Zneg of positive

module Pos :
 sig
  val succ : positive -> positive

  val add : positive -> positive -> positive

  val add_carry : positive -> positive -> positive

  val pred_double : positive -> positive

  val mul : positive -> positive -> positive

  val compare_cont : comparison -> positive -> positive -> comparison

  val compare : positive -> positive -> comparison
 end

type ascii =
| Ascii of bool * bool * bool * bool * bool * bool * bool * bool

module Z :
 sig
  val double : z -> z

  val succ_double : z -> z

  val pred_double : z -> z

  val pos_sub : positive -> positive -> z

  val add : z -> z -> z

  val opp : z -> z

  val sub : z -> z -> z

  val mul : z -> z -> z

  val compare : z -> z -> comparison

  val leb : z -> z -> bool

  val ltb : z -> z -> bool

  val max : z -> z -> z

  val min : z -> z -> z

  val of_N : n -> z

  val pos_div_eucl : positive -> z -> z * z

  val div_eucl : z -> z -> z * z

  val div : z -> z -> z

  val modulo : z -> z -> z
 end

type string =
| EmptyString
| String of ascii * string

type sx =
| SI of z
| SY of string
| SL of sx list

val bad_cmd : sx

val uNIX_EPOCH_TIMESTAMP : n

val u64MAX : z

val i64MAX : z

val ePOCH : z

val sat_add : z -> z -> z

val sat_sub : z -> z -> z

val sat_mul : z -> z -> z

val duration_to_delta : z -> z -> z

val from_time : z -> z

val to_time : z -> z

type state = unit
  (* singleton inductive, whose constructor was Build_state *)

val init_state : state

val pure_cmd : string -> sx list -> sx option

val dispatch : state -> sx -> state * sx

val run_script : state -> sx list -> sx list
