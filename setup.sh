#!/bin/sh
# MANIFEST.setup_cmd: build the whole framework offline from files on disk.
set -e
cd "$(dirname "$0")"
export CARGO_NET_OFFLINE=true
mkdir -p build/ocaml build/cargo
python3 tools/translate.py
sh tools/coqproject.sh
( cd coq && timeout 3400 make -j16 ) 2>&1 | tail -5
cp ocaml/driver.ml build/ocaml/driver.ml
( cd build/ocaml && ocamlfind ocamlopt -O3 -w -a msimodel.mli msimodel.ml driver.ml -o model_driver )
[ -f harness/Cargo.lock ] || cp /repo/Cargo.lock harness/Cargo.lock
( cd harness && RUSTFLAGS="--cfg msi_verif" CARGO_TARGET_DIR=../build/cargo cargo build --offline --bin impl_driver ) 2>&1 | tail -2
echo "setup: done"
