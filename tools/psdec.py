"""psdec.py -- independent parser of an OLE property-set stream ([MS-OLEPS], single section), written from the format
description; used as the oracle for C10 / C02: returns the properties and a list of well-formedness problems."""
import struct

PY_CODEC = {932: "cp932", 936: "gbk", 949: "cp949", 950: "cp950", 951: "big5hkscs", 1250: "cp1250", 1251: "cp1251", 1252: "cp1252",
            1253: "cp1253", 1254: "cp1254", 1255: "cp1255", 1256: "cp1256", 1257: "cp1257", 1258: "cp1258", 10000: "mac_roman",
            10007: "mac_cyrillic", 20127: "ascii", 28591: "iso8859_1", 28592: "iso8859_2", 28593: "iso8859_3", 28594: "iso8859_4",
            28595: "iso8859_5", 28596: "iso8859_6", 28597: "iso8859_7", 28598: "iso8859_8", 65001: "utf-8", 0: "utf-8"}


class PsError(Exception):
    pass


def parse(b):
    """-> (props: {id: (type, value)}, codepage id, problems)"""
    problems = []
    if len(b) < 48:
        raise PsError("shorter than the 48-byte header")
    bom, version, osv, os_, = struct.unpack_from("<HHHH", b, 0)
    if bom != 0xFFFE:
        raise PsError("byte order mark %#x" % bom)
    if version > 1:
        raise PsError("version %d" % version)
    nsec, = struct.unpack_from("<I", b, 24)
    if nsec < 1:
        raise PsError("no section")
    fmtid = b[28:44]
    sect, = struct.unpack_from("<I", b, 44)
    if sect + 8 > len(b):
        raise PsError("section offset beyond the stream")
    size, n = struct.unpack_from("<II", b, sect)
    if sect + 8 + 8 * n > len(b):
        raise PsError("property table beyond the stream")
    table = [struct.unpack_from("<II", b, sect + 8 + 8 * i) for i in range(n)]
    if len(set(i for i, _ in table)) != n:
        problems.append("duplicate property identifiers")
    raw = {}
    spans = []
    for pid, off in table:
        if off % 4:
            problems.append("property %d: offset %d is not 4-byte aligned" % (pid, off))
        if off < 8 + 8 * n:
            problems.append("property %d: offset %d points into the property table" % (pid, off))
        pos = sect + off
        if pos + 4 > len(b):
            raise PsError("property %d: offset beyond the stream" % pid)
        ty, = struct.unpack_from("<I", b, pos)
        if ty in (0, 1):
            val, ln = None, 4
        elif ty == 16:
            val, ln = struct.unpack_from("<b", b, pos + 4)[0], 8
        elif ty == 2:
            val, ln = struct.unpack_from("<h", b, pos + 4)[0], 8
        elif ty == 3:
            val, ln = struct.unpack_from("<i", b, pos + 4)[0], 8
        elif ty == 30:
            if pos + 8 > len(b):
                raise PsError("property %d: string length beyond the stream" % pid)
            slen, = struct.unpack_from("<I", b, pos + 4)
            if slen == 0 or pos + 8 + slen > len(b):
                raise PsError("property %d: string of %d bytes beyond the stream" % (pid, slen))
            if b[pos + 8 + slen - 1] != 0:
                problems.append("property %d: string not NUL terminated" % pid)
            val, ln = bytes(b[pos + 8:pos + 8 + slen - 1]), (8 + slen + 3) // 4 * 4
        elif ty == 64:
            if pos + 12 > len(b):
                raise PsError("property %d: FILETIME beyond the stream" % pid)
            val, ln = struct.unpack_from("<Q", b, pos + 4)[0], 12
        else:
            raise PsError("property %d: offset %d does not point at a typed value (type word %#x)" % (pid, off, ty))
        raw[pid] = (ty, val)
        spans.append((off, off + ln, pid))
    spans.sort()
    for (a0, a1, pa), (b0, b1, pb) in zip(spans, spans[1:]):
        if b0 < a1:
            problems.append("values of properties %d and %d overlap" % (pa, pb))
    end = max([s[1] for s in spans] + [8 + 8 * n])
    if size != end:
        problems.append("section size %d, but the values end at %d" % (size, end))
    if sect + size > len(b):
        problems.append("section size %d runs past the end of the stream (%d)" % (size, len(b) - sect))
    cp = 65001
    if 1 in raw:
        if raw[1][0] != 2:
            problems.append("code page property is not VT_I2")
        else:
            cp = raw[1][1] & 0xFFFF
    props = {}
    for pid, (ty, val) in raw.items():
        if ty == 30:
            codec = PY_CODEC.get(cp)
            try:
                props[pid] = (ty, val.decode(codec) if codec else val)
            except Exception:
                props[pid] = (ty, val)
        else:
            props[pid] = (ty, val)
    return props, cp, problems, {"fmtid": fmtid, "os": os_, "os_version": osv, "version": version}
