#!/usr/bin/env python3
"""Writes MANIFEST.json from the table below (keeps it schema-valid at all times)."""
import json, os
V = os.path.dirname(os.path.dirname(os.path.abspath(__file__)))
PROPS = [json.loads(l)["id"] for l in open(os.path.join(V, "properties.jsonl"))]

CLAIMED = {
    "C18": dict(
        text="Theorems over the Gallina model of timestamp.rs for all system times / all tick values (within one tick in the "
             "1601..60056 window, every tick a fixed point, monotone both ways, saturation at both ends, result always a u64); "
             "constants regenerated from the source and pinned by a theorem; model tied to the code by running the extracted "
             "model and the real conversions (hook and SummaryInfo API) on the same boundary + random instants.",
        note="Trusted: Coq kernel, translate.py, extraction (ExtrOcamlBasic), the harness; SystemTime modelled as i64 "
             "seconds + nanoseconds (Linux); std Duration arithmetic assumed as documented.",
        technique="Coq proof (lia over Z div/mod) + translator-pinned constants + extracted-model correspondence",
        design="4 C18"),
    "C17": dict(
        text="Theorems over the language table regenerated from language.rs on every run: tag(from_tag(tag c)) = tag c for all "
             "65,536 codes (vm_compute lifted by forallb_forall), every table tag maps to its own code and back, 31 reference "
             "Windows identifiers, and - for ALL strings, by induction over the table - unknown language => neutral and "
             "known language with unknown region never yields the code of another regional variant; table sortedness "
             "(binary search = first match) and code ranges are proof obligations; correspondence on all codes + "
             "bounded-exhaustive/random tags through the public API.",
        note="Trusted: Coq kernel, translate.py (table parser), extraction, harness; binary_search_by_key assumed correct on a "
             "strictly sorted table.",
        technique="Coq proof (structural induction + vm_compute over generated table) + extracted-model correspondence",
        design="4 C17"),
    "C13": dict(
        text="Theorems over the Gallina transcription of Expr (folding constructors, eval, operators): no Panic on any row "
             "that has the referenced columns, results stay in i32, build (constant folding) preserves eval on every row, "
             "literal form = column form, and the documented operator table as 20 equations (wrap32 arithmetic, null cases, "
             "0/1 comparisons by the Value order, short-circuit AND/OR) - all by structural induction, for all trees/rows. "
             "Model tied to expr.rs by running both on every depth-1 tree over 18 operators x 12 literals (literal, column "
             "and mixed forms), depth-2 and random deeper trees; an independent reference evaluator is the oracle.",
        note="Trusted: Coq kernel, extraction, harness (Expr::eval reached through the make_row hook), the Python "
             "reference evaluator used for the failing-input search.",
        technique="Coq proof (structural induction over the AST) + extracted-model correspondence",
        design="4 C13"),
    "C19": dict(
        text="Theorems.  Expressions: for EVERY expression tree e there is fuel f with parse f 0 (print 0 e) = Some (e, []) - the "
             "printer (transcribed from format_with_precedence; precedences and spellings regenerated from expr.rs) followed by "
             "the ladder parser written from msiquery.pest returns the same tree, hence the same value on every row.  Queries "
             "(props/C19_queries.v): QueryText.query_text transcribes the five Display implementations character by character; it "
             "is the rendering of a token list that the query grammar (a parser written from the Query*/Table*/RowList/"
             "AssignmentList rules, using the ladder for every WHERE/ON expression) reads back as THE SAME query - same tables, "
             "columns, literal rows, assignments, join structure, conditions - exactly for the queries the grammar can express "
             "(identifier names, non-empty rows / assignment lists: query_roundtrip_iff).  Known finding degenerate_query_text "
             "(empty assignment list / empty row) with proved witnesses.  Correspondence: to_string() of every (parent, child, "
             "side) operator pair, literal leaves and random trees is lexed + parsed by the extracted ladder and compared with the "
             "built tree (distinguishing rows searched on mismatch); to_string() of ~700 queries (select/join family, INSERT, "
             "UPDATE, DELETE with random WHERE trees) is compared character by character with query_text.  Not proved: the "
             "text->token lexer (validated by the correspondence).",
        note="Trusted: Coq kernel, translate.py (precedence table, spellings), extraction, harness, the lexer in ExprText.v; the "
             "ladder and the query parser are the specification (written from the grammar, not from the printer).",
        technique="Coq proof (induction on ASTs / mutual induction on query trees with a follow-set invariant, fuel sufficiency) + translator + correspondence",
        design="4 C19"),
    "C07": dict(
        text="Theorems over the transcription of Category::validate and Column::is_valid_value: total for every string (incl. a "
             "proof that the GUID byte slice [1..37] is always on UTF-8 character boundaries), validate k s <-> a declarative "
             "grammar for every category (identifier, property, GUID, version, language list, cabinet, 16/32-bit integer text, "
             "upper/lower case; split/join inverses proved), is_valid_value <-> the documented meaning of valid, and validity "
             "of the values built from any UUID / non-empty language list - all for all strings/values, by induction.  Category "
             "tables, validator arms, numeric limits and the byte-vs-character measure are regenerated from category.rs.  "
             "Correspondence: ~27k (category, string) and (column, value) pairs, bounded-exhaustive over adversarial alphabets; "
             "oracle = independent regex grammar.  The gate itself (props/C07_gate.v): a successful INSERT/UPDATE implies every value "
             "valid and the arity right; an invalid value, wrong arity or unknown column is refused (never a panic); and on every "
             "state satisfying the package invariant INSERT is accepted IF AND ONLY IF every row is acceptable and the keys are "
             "new - it fails only for the documented structural reasons (within the capacity limits).",
        note="Trusted: Coq kernel, translator, extraction, harness; str::parse and Uuid::parse_str modelled by contract "
             "(read in the dependency source, validated by the correspondence).",
        technique="Coq proof (induction on strings, reflection of boolean validators into declarative grammars) + correspondence",
        design="4 C07"),
    "C14": dict(
        text="Theorems: identifier lookup / reverse lookup mutually inverse and every page wired to the encoding its Windows "
             "identifier names (finite, over tables regenerated from codepage.rs, against a reference list); the 1024-byte refill "
             "loop of CodePage::encode equals per-character concatenation for strings of EVERY length, for any encoder meeting "
             "an explicit step contract (instantiated for the single-byte encoders: C14_sb_loop); US-ASCII laws and UTF-8 "
             "decode(encode s) = s for all scalar strings (WHATWG decoder transcribed); decode sniffs no BOM (generated flag).  "
             "props/C14_singlebyte.v: the 19 single-byte pages wired by codepage.rs (windows-1250..1258, ISO 8859-2..8, "
             "Macintosh Roman/Cyrillic, 8859-1 as windows-1252) are INSIDE the model: their 128-entry index tables are regenerated "
             "from the encoding_rs release pinned by Cargo.lock, proved well formed (vm_compute), and for ANY well-formed table and "
             "EVERY character the encoded byte decodes back to the character or is '?', representable characters are never "
             "replaced, unrepresentable ones always are, strings of every length round-trip, decoding accepts any bytes; model and "
             "implementation are compared exhaustively (all 256 bytes, every code point of the blocks the tables draw from).  "
             "The multi-byte tables (932, 936, 949, 950/951) stay outside Coq: the per-character law, the reference wiring and "
             "decoding of all 1/2-byte sequences are checked EXHAUSTIVELY on the implementation (1,112,064 scalars x 26 pages) on "
             "every run, plus strings straddling the buffer boundary.  Two residues inside encoding_rs are listed as known findings.",
        note="Trusted: Coq kernel, translator (incl. its reading of encoding_rs/src/data.rs in the cargo registry), extraction, "
             "harness; encoding_rs' multi-byte tables (validated by the exhaustive sweep, not proved); reference list of encodings "
             "per identifier.",
        technique="Coq proof (loop invariant, UTF-8 arithmetic via lia, general lemmas over index tables + vm_compute over generated tables) + exhaustive finite sweep on the implementation",
        design="4 C14"),
    "C06": dict(
        text="Theorems over the model of column.rs / package.rs: the 16-bit type word round-trips for every storable type and flag "
             "combination (finite sweep over all widths 0..255 lifted to all columns), every category name parses back to its "
             "category, one _Validation row carries nullable/range/foreign key/category/enumeration back, and the whole catalog "
             "path (columns_rows + validation_rows -> read_columns_rows, read_validation_rows, sort_specs, build_columns, "
             "build_tables of pkg_open) returns exactly the column list given, in order, for EVERY column list create_table "
             "accepts (accepted_cols_storable: the acceptance checks imply the round-trip hypotheses); >32 columns, no key, "
             "width>255, empty or ';' enumeration values are refused with the package unchanged; end to end "
             "(created_table_reopens): a table accepted on a reachable package is reported with exactly the columns given, "
             "immediately and after saving and reopening.  Masks and limits are "
             "regenerated from the source.  Correspondence: all 65,536 type words through the hook, all flag combinations x "
             "15 widths, 26 categories, random column lists, observed through get_table().columns() before and after reopen.  "
             "Persistence of the catalog rows themselves rests on the row/pool round trips (C01).",
        note="Trusted: Coq kernel, translator, extraction, harness; cfb modelled as a name->bytes map.",
        technique="Coq proof (finite sweep by vm_compute lifted with forallb_forall + structural induction over column lists) + correspondence",
        design="4 C06"),
    "C10": dict(
        text="Theorems over the model of propset.rs / summary.rs: ps_read (ps_write ps) = ps for every well-formed UTF-8 property "
             "set of any size; the written bytes are a well-formed property set (every offset 4-aligned and pointing at the bytes "
             "written for that property, section size exact, each value a multiple of 4 bytes - for ANY encoder); set/get/clear "
             "laws with the frame; the code page is the one last set for all 26 pages (65001 stored as -535) with no Debug panic; "
             "architecture and languages are independent halves of the template.  Creation times are C18.  Non-UTF-8 pages: the "
             "theorem's hypothesis is representability (ps_cp = UTF-8 in the model); all 26 pages are exercised on the "
             "implementation with strings from each repertoire, getters compared before/after reopen and the raw stream parsed by "
             "an independent property-set parser.  One known finding (architecture text containing ';').  A summary change reaches the next save from ANY package state, incl. the one a failed save leaves behind (C10_summary_change_reaches_next_save, C10_summary_mut_arms; SUMMARY_MUT_ARMS regenerated); histories with a failing save followed by summary changes and a successful save.",
        note="Trusted: Coq kernel, translator (PROPSET_* flags, property ids), extraction, harness, tools/psdec.py (independent parser).",
        technique="Coq proof (byte-level codec round trip by induction over the property list, lia) + correspondence + independent parser",
        design="4 C10"),
    "C11": dict(
        text="Theorems: the stream-name codec round-trips and is injective on every accepted name; under the container's "
             "case-insensitive comparison two accepted names collide only if identical; an accepted stream name never resolves "
             "to a table stream (incl. _StringPool/_StringData), summary information or a signature entry; the container is a "
             "finite map and write/read/remove/has refine a map from names to the bytes last written, with the frame (other "
             "names, tables, pool, summary untouched); streams() lists exactly the live names; rejected calls change nothing; "
             "no stream call panics for ANY string; remove_digital_signature removes exactly the two signature entries.  "
             "Packing ranges and reserved characters are regenerated from streamname.rs.  Correspondence: single names over a "
             "150-character critical set, pairs, boundary lengths 29..33 units, histories interleaved with table operations and "
             "reopen, contents across the 4096-byte mini-stream cutoff, signature streams added with the cfb crate.  Files with sub-storages below the root (streams inside them are not streams of the package).",
        note="Trusted: Coq kernel, translator, extraction, harness; cfb modelled as a name->bytes map whose comparison upper-cases "
             "ASCII only (non-ASCII case pairs are outside the model and excluded by the property's own wording).",
        technique="Coq proof (induction over names / entry lists; finite checks by vm_compute) + correspondence",
        design="4 C11"),
    "C12": dict(
        text="Theorems over the model of Select::exec / Join::exec: base-table select = filter by the condition then project in the "
             "requested order; join_rows = the nested-loop comprehension (inner: pairs satisfying ON in left-major order; left: "
             "plus each unmatched left row once, null padded); result columns named table.column for named inputs, right side of a "
             "left join nullable; every yielded row has one cell per result column; SELECT/JOIN NEVER panic for any container, "
             "pool, table map and query tree in both profiles (mutual induction over the select/join tree); unknown table or "
             "column in a projection, filter or ON condition => error.  Correspondence: a structured family of ~70 trees x table "
             "contents of 0-3 rows incl. NULL keys, self joins, joins of joins, anonymous sub-selects, plus random trees; oracle = "
             "independent nested-loop evaluator.",
        note="Trusted: Coq kernel, extraction, harness, the Python reference evaluator.",
        technique="Coq proof (mutual structural induction over query trees, list lemmas) + correspondence",
        design="4 C12"),
    "C16": dict(
        text="Theorems: pkg_open returns a package whose container is the one opened, with no finisher and no modified flag; "
             "closing such a package (flush = into_inner = drop on an infallible medium) returns the identical container, and a "
             "second close too.  Read operations return no package in the model (they cannot change it by construction); that "
             "modelling step and the sector level of cfb are tied to the code by the counting medium: after random histories "
             "the saved bytes are opened on a fresh medium, every read operation is used, the session is closed in each of the "
             "three ways: 0 write calls and identical bytes required.  Partial: the no-write claim below the stream level (cfb) "
             "is observed, not proved.  The same sessions also through the path-based entry points msi::open_rw / msi::open on a file (bytes compared).",
        note="Trusted: Coq kernel, extraction, harness (counting Read+Write+Seek medium).",
        technique="Coq proof (case analysis on the package state machine) + write-counting correspondence",
        design="4 C16"),
    "C02": dict(
        text="Theorem C02_open_encoded: for EVERY container that is the serialisation of some abstract state - pool laid out in any "
             "way the format allows (entry order, unused entries empty or still holding stale text, duplicate strings, over-counted "
             "references, two- or three-byte references), the rows of every table incl. the catalog tables in ANY order, with or "
             "without a _Validation table; no sortedness, no exact accounting assumed - Package::open returns exactly that state, "
             "and every table reads back as the encoded rows; every state the library saves is such an encoding; a hand-made "
             "non-canonical witness (three-byte references, no _Validation, stale/duplicate/over-counted pool entries, descending "
             "_Columns rows) satisfies the reader invariant, violates the writer invariant and opens to itself.  Component "
             "theorems: pool reader for any readable pool incl. the long-string escape, table reader for any row order, type words "
             "incl. integer field sizes 1/2/4, catalog reader, property-set reader, totality of all readers.  Changes made "
             "afterwards through the API preserve untouched content: C03 frame theorems (every other table, streams, summary "
             "untouched) and C01.  props/C02_orphans.v: the same for files whose _Validation table also describes tables and columns "
             "that are NOT in the file, as real-world packages do (C02_open_encoded_orphans, with a witness outside the plain "
             "reader invariant).  PARTIAL for: property-set layouts other than the writer's (value order, gaps) and non-UTF-8 "
             "code pages - decided by the correspondence: databases from an independent encoder written from the format "
             "description (tools/msienc.py: every feature above, 6 code pages, 3 property-set layouts, summary without a code page "
             "property) are wrapped with the cfb crate, opened, compared in full with the encoder's abstract database, modified "
             "through the API and decoded again by the independent decoder (tools/msidec.py).",
        note="Trusted: Coq kernel, translator, extraction, harness, the independent encoder/decoder/property-set parser.",
        technique="Coq proof (order-invariant reader lemmas, codec round trips by induction) + correspondence against an independent encoder",
        design="4 C02"),
    "C09": dict(
        text="Theorems over the stream-level model, for EVERY container (any streams holding any bytes): Package::open, the pool, "
             "table and property-set readers, SELECT/JOIN for any query tree, stream calls for any name, DELETE on any "
             "container/pool/table map, and INSERT/UPDATE below the pool capacity never return Panic, in both build profiles.  "
             "The unwrap() calls in open, the panics of decref and the debug assertion of incref are flags regenerated from the "
             "source (all off on this tree after fixes c2fee45, b3803e7) and pinned by a theorem.  PARTIAL: cfb's parser of the "
             "sector-level file, hangs and memory exhaustion are outside the model; they are exercised on the implementation "
             "only: ~730 structure-aware corruptions of independently encoded files (each followed by every read and mutating "
             "operation + flush, compared with the model) and byte-level damage of saved files under time and address-space "
             "limits.  The pool-capacity panic is known finding pool_full_panic (C20).",
        note="Trusted: Coq kernel, translator (failure flags), extraction, harness (isolated driver processes, catch_unwind).",
        technique="Coq proof (totality by induction over readers and query trees) + translator flags + corruption correspondence",
        design="4 C09"),
    "C15": dict(
        text="Theorems over Io.v: for EVERY fault schedule (any function from write-call index to fail/succeed) a write path that "
             "ends with a propagated flush and reports success has landed every byte in order; a whole save (any sequence of "
             "table/pool/data/summary writes, each propagated) that reports success leaves the medium exactly as the fault-free "
             "run; failed paths never corrupt what had landed; without the flush the property is refuted by a witness schedule.  "
             "Whether each of the four real write functions flushes and whether finish/flush/exec propagate is regenerated from "
             "the source on every run (GenIo.v) and pinned by C15_discipline.  PARTIAL: cfb's sector/FAT/directory writes are "
             "below the model; the tie for them is the fault enumeration on the real medium: for 4 scripts x 2 close modes every "
             "sampled (thorough: every) write index fails once / from then on; all-Ok runs must reopen to the reference state; no "
             "panic.  Sequences of container operations inside one call report every failure (C15_remove_sig_reports_every_failure; IO_REMOVE_SIG_PROPAGATES regenerated); fault enumeration also on sessions that open an existing signed file and remove its signature.",
        note="Trusted: Coq kernel, translator (regex over the write functions), harness (fault-injecting Read+Write+Seek medium).",
        technique="Coq proof (induction over chunk lists for arbitrary schedules) + translator-pinned discipline + fault enumeration",
        design="4 C15"),
    "C20": dict(
        text="Theorems: the limits are generated constants pinned by a theorem (32 columns, 65,536 rows in reader AND insert, 31 "
             "packed name units, reference widths); >32 columns and every other argument error of create_table return the package "
             "itself; a successful INSERT never leaves more rows than the reader accepts and one more row is never accepted, so "
             "(with the save/reopen theorems) the library reads what it wrote; accepted names fit the container; valid rows with "
             "new keys within the row and pool limits are accepted; below 65,535 pool entries interning never panics.  The one "
             "limit that is a panic (65,536th distinct string under two-byte references) is a known finding with a proved witness.  "
             "Correspondence: boundary scripts L-1/L/L+1 for columns, rows (batch, incremental, across reopen, after deletions), "
             "strings, table and column name lengths.  Strings of 65,534..65,537 encoded bytes (the 16-bit length field of a pool entry) round-trip.",
        note="Trusted: Coq kernel, translator, extraction, harness; bulk boundary cases (>= 30,000 rows) are judged on the "
             "implementation only (the extracted model's list operations are quadratic).",
        technique="Coq proof (bounds through the insert path, finite witness by vm_compute) + boundary correspondence",
        design="4 C20"),
    "C01": dict(
        text="Theorem C01_reachable_roundtrip: for EVERY package reachable from Package::create by any sequence of admissible API "
             "calls (insert/update/delete on user tables, create_table, drop_table, stream writes/removals, signature removal, "
             "summary changes, code page, flush, reopen - whatever each call answered) saving and reopening succeeds and shows the "
             "same package type, code page, summary, table map, rows of every table and streams; the flushed state already shows "
             "them; the reopened package is reachable again and saving it writes nothing.  Proved by an inductive package "
             "invariant (exact string accounting, catalog = tables, sorted valid rows, medium = memory unless flagged) preserved "
             "by every operation, plus codec round trips (rows, pool incl. long-string escape, property set).  Admissible excludes "
             "values no Rust caller can build, non-UTF-8 database code pages (representability) and DML aimed at a catalog table "
             "(known finding catalog_dml, with a proved witness).  Single-byte database code pages (props/C01_codepages.v, "
             "props/C01_reopen_pages.v): the pool and property-set codecs round-trip under ANY of the 19 single-byte pages for "
             "representable text; for every reachable package whose pool strings are representable in page c, "
             "set_database_codepage(c) + save + reopen shows what was observable, with code page c (C01_reachable_roundtrip_pages); "
             "every history of operations commutes with the switch (C01_run_commutes: no operation but flush/open reads the code "
             "page), hence create; set_database_codepage(c); ANY admissible history; save; reopen round-trips "
             "(C01_history_after_switch).  The five multi-byte pages are covered on the implementation only.  Correspondence: random histories with a close/reopen after every "
             "operation in each of the three close modes (flush + bytes at the moment flush returned, into_inner, drop), raw "
             "streams compared, second save byte-identical, 26 code pages with strings from their repertoire.",
        note="Trusted: Coq kernel, translator, extraction, harness; cfb modelled as a name->bytes map (sector level outside); "
             "flush/into_inner/drop are one function in the model, tied to the three real modes by the correspondence.",
        technique="Coq proof (inductive invariant over operation histories + codec round trips) + correspondence",
        design="4 C01"),
    "C03": dict(
        text="Theorems on every state satisfying the package invariant (hence every reachable state): after INSERT the table, read "
             "back as values, is a Permutation of old ++ normalised new rows and strictly key-sorted; after DELETE it is the old "
             "list filtered by the negated condition; after UPDATE it is map upd_row of the old list (exactly the matching rows, "
             "exactly the named columns), same order or key-sorted permutation when a key is assigned; every other table, the "
             "catalog, streams and summary untouched; SELECT = filter then project; row shape.  The crux proved: conditions and "
             "kept rows are decoded under a pool from which earlier rows' strings were already released - sound only by exact "
             "accounting.  Correspondence: all operation sequences to depth 3/4 over an 11-operation alphabet on two tables incl. "
             "reopen, random histories with random WHERE trees, Rows::len().  Conditions given as a chain of with() calls: the chain is the conjunction, every restriction counts (WithChain.v, ChainOps.v: C03_delete_chain, C03_update_chain), that with() accumulates by `and` is regenerated from the source; the harness hands top-level conjunctions over as .with(a).with(b).",
        note="Trusted: Coq kernel, extraction, harness, the Python relational shadow used as oracle.",
        technique="Coq proof (refinement to a list-level relational model with loop invariants over the threaded pool) + correspondence",
        design="4 C03"),
    "C04": dict(
        text="Theorems on every state satisfying the package invariant: a rejected INSERT/UPDATE/DELETE leaves container and pool "
             "identical (only the finisher is armed) and does not change what a save writes; create_table answering Err leaves "
             "container and pool identical - no half-created table (once the argument checks and catalog pre-validations pass, none "
             "of the three catalog inserts can fail: row limit, duplicate keys and write errors are excluded from the invariant); "
             "drop_table answering Err returns the package itself; rejected stream calls return the package itself; every argument "
             "check precedes the first change.  Correspondence: invalid-call generator (unknown/invalid/reserved names, arity, "
             "invalid values, duplicate keys in and across batches, late-failing column definitions) with full snapshots before/"
             "after and after save+reopen, pool accounting via the independent decoder.",
        note="Trusted: Coq kernel, extraction, harness.  In the model a failed exec returns no state (op_res keeps the old one): "
             "that modelling step is what the correspondence (snapshot + raw streams after every rejected call) ties to the code.",
        technique="Coq proof (case analysis in program order + invariant-based impossibility of late failures) + correspondence",
        design="4 C04"),
    "C05": dict(
        text="Theorem C05_reachable: in every reachable package every table reads back strictly ascending by primary key (hence "
             "unique keys) with every cell valid for its column (an accepted empty string is stored as null); the reopened "
             "package is reachable, so it holds after save/reopen; per-operation theorems incl. key-assigning updates (duplicates "
             "rejected, rows re-sorted).  Correspondence: histories stressing keys (constant key assignment, order-changing "
             "updates, descending/duplicate batches, null vs empty-string key parts enumerated systematically); the invariant is "
             "evaluated on the implementation's own rows after every step and reopen.",
        note="Trusted: Coq kernel, extraction, harness.",
        technique="Coq proof (StronglySorted / Forall2 invariants through the BTreeMap model) + correspondence",
        design="4 C05"),
    "C08": dict(
        text="Theorem C08_reachable_accounting: in every reachable package the pool is well-formed (16-bit counts, count zero iff text "
             "empty), the reference count of every entry equals the number of cells of ALL tables incl. the catalogs that refer to "
             "it, and the catalog tables hold exactly the rows describing the tables; the saved state writes write_pool/write_data "
             "of that pool; table streams are rows x row-width, column-major, offset-binary, zero = null; drop_table removes the "
             "stream and the catalog rows and leaves accounting exact (nothing leaks); no table stream exists without a table.  "
             "Correspondence: the independent decoder (tools/msidec.py) checks every saved file of the histories: whole rows, "
             "references in range and to the expected text, catalog numbering, refcount = referring cells, unused entries empty, no "
             "stale text.",
        note="Trusted: Coq kernel, extraction, harness, tools/msidec.py.",
        technique="Coq proof (exact-accounting invariant: occ over all table streams = refcount) + independent decoder on saved files",
        design="4 C08"),
}
REASON_PENDING = "check not built yet in this round; see DESIGN.md section 4 for the plan"

checks = []
for p in PROPS:
    if p in CLAIMED:
        c = CLAIMED[p]
        checks.append({
            "property_id": p,
            "quick_cmd": "./check %s --tier quick" % p,
            "thorough_cmd": "./check %s --tier thorough" % p,
            "evidence_file": "evidence/%s.json" % p,
            "replay_cmd_template": "./check %s --replay {path}" % p,
            "engine": "coq-msimodel",
            "level_claimed": {"category": "proof", "text": c["text"], "design_ref": c["design"]},
            "level_note": c["note"],
            "technique": c["technique"],
        })
manifest = {
    "version": 1,
    "setup_cmd": "./setup.sh",
    "hooks": {
        "guard": "--cfg msi_verif",
        "enable": "RUSTFLAGS='--cfg msi_verif' cargo build (harness/ depends on msi by path=/repo); adds pub mod verif_hooks",
        "baseline_off_cmd": "cd /repo && cargo test --workspace --no-fail-fast --offline",
        "source_commits": [l.strip() for l in open(os.path.join(V, "hook_commits.txt")) if l.strip()],
        "add_only": True,
    },
    "engines": [{
        "name": "coq-msimodel", "path": "coq/",
        "serves_properties": sorted(CLAIMED),
        "kind_free_text": "Coq 8.16 development (model + spec + theorems), translator for data, extraction to OCaml, "
                          "differential correspondence against a Rust driver linked to /repo",
    }],
    "checks": checks,
    "not_applicable": [{"property_id": p, "reason": REASON_PENDING} for p in PROPS if p not in CLAIMED],
    "notes": "See DESIGN.md. known_findings.txt lists recorded findings and fixed defects.",
}
json.dump(manifest, open(os.path.join(V, "MANIFEST.json"), "w"), indent=1)
print("MANIFEST.json: %d checks, %d not_applicable" % (len(checks), len(manifest["not_applicable"])))
