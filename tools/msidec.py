"""msidec.py -- an independent decoder (and encoder) of the MSI database streams, written from the
format description: string pool with 2/3-byte references and the long-string escape, column-major
table streams, offset-binary integers with zero = null, the stream-name packing.  Operates on the
raw (name, bytes) entries of a compound file as the cfb crate lists them."""
import struct

TABLE_MARK = "䡀"
B64 = "0123456789ABCDEFGHIJKLMNOPQRSTUVWXYZabcdefghijklmnopqrstuvwxyz._"


def decode_name(name):
    is_table = name.startswith(TABLE_MARK)
    out = []
    for ch in (name[1:] if is_table else name):
        v = ord(ch)
        if 0x3800 <= v < 0x4800:
            v -= 0x3800
            out.append(B64[v & 0x3F])
            out.append(B64[v >> 6])
        elif 0x4800 <= v < 0x4840:
            out.append(B64[v - 0x4800])
        else:
            out.append(ch)
    return "".join(out), is_table


def encode_name(name, is_table):
    out = [TABLE_MARK] if is_table else []
    i = 0
    while i < len(name):
        c = name[i]
        if c in B64:
            if i + 1 < len(name) and name[i + 1] in B64:
                out.append(chr(0x3800 + (B64.index(name[i + 1]) << 6) + B64.index(c)))
                i += 2
                continue
            out.append(chr(0x4800 + B64.index(c)))
        else:
            out.append(c)
        i += 1
    return "".join(out)


class FormatError(Exception):
    pass


def decode_pool(pool, data, decode):
    """-> (codepage id, long_refs, [(text, refcount, raw bytes)])"""
    if len(pool) < 4:
        raise FormatError("_StringPool shorter than its header")
    (w,) = struct.unpack_from("<I", pool, 0)
    long_refs = bool(w & 0x80000000)
    cp = w & 0x7FFFFFFF
    entries = []
    pos, dpos = 4, 0
    while pos + 4 <= len(pool):
        ln, rc = struct.unpack_from("<HH", pool, pos)
        pos += 4
        if ln == 0 and rc > 0:
            if pos + 4 > len(pool):
                raise FormatError("truncated long-string entry")
            lo, rc2 = struct.unpack_from("<HH", pool, pos)
            pos += 4
            ln = (rc << 16) | lo
            rc = rc2
        if dpos + ln > len(data):
            raise FormatError("string data shorter than the pool says")
        raw = bytes(data[dpos:dpos + ln])
        dpos += ln
        entries.append((decode(cp, raw), rc, raw))
    if pos != len(pool):
        raise FormatError("trailing bytes in _StringPool")
    return cp, long_refs, entries, dpos


def col_width(col, long_refs):
    t = col["type"]
    if t == "i16":
        return 2
    if t == "i32":
        return 4
    return 3 if long_refs else 2


def decode_table(stream, cols, long_refs):
    """-> rows of raw cells: None | ('i', n) | ('s', ref)"""
    rs = sum(col_width(c, long_refs) for c in cols)
    if rs == 0:
        return []
    if len(stream) % rs != 0:
        raise FormatError("table stream is not a whole number of rows (%d bytes, row size %d)" % (len(stream), rs))
    n = len(stream) // rs
    rows = [[] for _ in range(n)]
    pos = 0
    for c in cols:
        w = col_width(c, long_refs)
        for i in range(n):
            chunk = stream[pos:pos + w]
            pos += w
            if c["type"] == "i16":
                (v,) = struct.unpack("<H", bytes(chunk))
                rows[i].append(None if v == 0 else ("i", v - 0x8000))
            elif c["type"] == "i32":
                (v,) = struct.unpack("<I", bytes(chunk))
                rows[i].append(None if v == 0 else ("i", v - 0x80000000))
            else:
                v = chunk[0] | (chunk[1] << 8) | ((chunk[2] << 16) if w == 3 else 0)
                rows[i].append(None if v == 0 else ("s", v))
    return rows


def check_saved_file(entries, schemas, expected_rows, decode, accounting=True, sort_catalog=False):
    """entries: {raw entry name: bytes}; schemas: {table: cols}; expected_rows: {table: rows of python values}.
    Returns a list of problems (empty = well-formed with exact string accounting)."""
    problems = []
    by_decoded = {}
    for raw_name, data in entries.items():
        d, is_table = decode_name(raw_name)
        if is_table:
            by_decoded[d] = data
    if "_StringPool" not in by_decoded or "_StringData" not in by_decoded:
        return ["missing string pool streams"]
    try:
        cp, long_refs, pool, used = decode_pool(by_decoded["_StringPool"], by_decoded["_StringData"], decode)
    except FormatError as e:
        return ["string pool: %s" % e]
    if used != len(by_decoded["_StringData"]):
        problems.append("_StringData holds %d bytes beyond the pool entries" % (len(by_decoded["_StringData"]) - used))
    counts = [0] * (len(pool) + 1)
    for tname, cols in schemas.items():
        stream = by_decoded.get(tname)
        if stream is None:
            if expected_rows.get(tname):
                problems.append("table %s has rows but no stream" % tname)
            continue
        try:
            rows = decode_table(stream, cols, long_refs)
        except FormatError as e:
            problems.append("table %s: %s" % (tname, e))
            continue
        vals = []
        for r in rows:
            out = []
            for cell in r:
                if cell is None:
                    out.append(None)
                elif cell[0] == "i":
                    out.append(cell[1])
                else:
                    ref = cell[1]
                    if not (1 <= ref <= len(pool)):
                        problems.append("table %s: string reference %d outside the pool (%d entries)" % (tname, ref, len(pool)))
                        out.append(None)
                        continue
                    counts[ref] += 1
                    out.append(pool[ref - 1][0])
            vals.append(out)
        exp = expected_rows.get(tname)
        if exp is not None:
            exp = [[None if v == "" else v for v in r] for r in exp]
        if sort_catalog and tname in ("_Tables", "_Columns", "_Validation") and exp is not None:
            k = lambda r: [(0, 0) if v is None else (1, v) if isinstance(v, int) else (2, v) for v in r]
            vals, exp = sorted(vals, key=k), sorted(exp, key=k)
        if tname in expected_rows and vals != exp:
            problems.append("table %s decodes to %r, the API reports %r" % (tname, vals[:4], expected_rows[tname][:4]))
    for t in by_decoded:
        if t not in schemas and t not in ("_StringPool", "_StringData"):
            problems.append("table stream %s is not listed in the catalog" % t)
    for i, (text, rc, raw) in enumerate(pool, 1):
        if not accounting:
            if rc < counts[i]:
                problems.append("pool entry %d (%r): refcount %d below its %d referring cells" % (i, text[:20], rc, counts[i]))
            continue
        if rc != counts[i]:
            problems.append("pool entry %d (%r): refcount %d but %d referring cells" % (i, text[:20], rc, counts[i]))
        if rc == 0 and raw:
            problems.append("pool entry %d is unused but still holds text %r" % (i, text[:30]))
        if rc > 0 and not raw:
            problems.append("pool entry %d is live but empty" % i)
    return problems
