#!/bin/sh
# tools/harmtest.sh <id> <property> [<property> ...]
# Applies the behaviour-preserving change harmless/<id>/patch.diff to /repo, runs the quick check of each property
# (expected: PASS, no VIOLATION line), and always restores /repo, coq/gen and evidence/ afterwards.  Development aid.
set -u
cd "$(dirname "$0")/.."
id="$1"; shift
if ! git -C /repo diff --quiet; then echo "harmtest: /repo has uncommitted changes"; exit 2; fi
git -C /repo apply "$(pwd)/harmless/$id/patch.diff" || { echo "harmtest: patch does not apply"; exit 2; }
mkdir -p build/evidence-keep && cp evidence/*.json build/evidence-keep/ 2>/dev/null
trap 'git -C /repo checkout -- . ; cp build/evidence-keep/*.json evidence/ 2>/dev/null; python3 tools/translate.py >/dev/null; echo "harmtest: /repo, coq/gen and evidence restored"' EXIT
for p in "$@"; do
  ./check "$p" --tier quick > "build/harm-$id-$p.log" 2>&1
  echo "== $id vs $p: exit $?"
  grep -E "^VIOLATION|^KNOWN-FINDING|quick: (PASS|FAIL)|^BROKEN|^MISMATCH|translator" "build/harm-$id-$p.log" | cut -c1-400 | head -8
done
