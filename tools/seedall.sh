#!/bin/sh
# tools/seedall.sh: run every seeded change against the check of the property it attacks; writes seeded/RESULTS.md
cd "$(dirname "$0")/.."
out=seeded/RESULTS.md
{
echo "# Seeded changes vs checks"
echo
echo "Each row: the change (seeded/<id>/patch.diff, written by an independent agent that saw only the property text), what it"
echo "needs to manifest, and what the quick check of the attacked property reported with the change applied to /repo."
echo
echo "| seed | attacks | needs (abridged) | check exit | verdict line | theorems | mismatches | oracle violations |"
echo "|---|---|---|---|---|---|---|---|"
} > $out
for d in seeded/[C-Z][0-9]*/; do
  id=$(basename $d)
  needs=$(python3 -c "import json,sys; m=json.load(open('$d/meta.agent.json')); print(str(m.get('needs',''))[:160].replace('|','/').replace('\n',' '))" 2>/dev/null)
  prop=$(python3 -c "import json; print(json.load(open('$d/meta.agent.json')).get('property','$id'))" 2>/dev/null)
  log=build/seed-$id-$prop.log
  tools/seedtest.sh $id $prop > build/seedall-$id.txt 2>&1
  ex=$(grep -o "exit [0-9]*" build/seedall-$id.txt | head -1)
  verdict=$(grep -E "^VIOLATION" $log | head -1 | sed 's/replay=.*build/replay=build/' | cut -c1-90)
  stats=$(grep -E "quick: (PASS|FAIL)" $log | sed -E 's/.*theorems ([0-9]+\/[0-9]+), [0-9]+ evaluations, ([0-9]+) mismatches, ([0-9]+) oracle violations.*/\1 | \2 | \3/')
  echo "| $id | $prop | $needs | $ex | $verdict | $stats |" >> $out
done
cat $out | tail -25
