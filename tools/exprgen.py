"""Expression trees as Python tuples <-> wire s-expressions, plus an independent
reference evaluator of the documented operator table (used as oracle)."""
I32MIN, I32MAX = -2**31, 2**31 - 1
UNOPS = ["neg", "bitnot", "not"]
BINOPS = ["eq", "ne", "lt", "le", "gt", "ge", "add", "sub", "mul", "div", "band", "bor", "bxor", "shl", "shr"]
LITS = [None, 0, 1, -1, 2, 31, 32, I32MIN, I32MAX, "", "a", "b"]


def enc_str(s):
    return "(" + " ".join(str(ord(c)) for c in s) + ")"


def dec_str(sx):
    return "".join(chr(int(x)) for x in sx.strip("()").split())


def enc_value(v):
    if v is None:
        return "null"
    if isinstance(v, int):
        return "(i %d)" % v
    return "(s %s)" % enc_str(v)


def enc_expr(e):
    k = e[0]
    if k == "lit":
        return "(lit %s)" % enc_value(e[1])
    if k == "col":
        return "(col %s)" % enc_str(e[1])
    if k == "un":
        return "(un %s %s)" % (e[1], enc_expr(e[2]))
    if k == "bin":
        return "(bin %s %s %s)" % (e[1], enc_expr(e[2]), enc_expr(e[3]))
    return "(%s %s %s)" % (k, enc_expr(e[1]), enc_expr(e[2]))


def enc_row(row):
    return "(" + " ".join("(%s %s)" % (enc_str(n), enc_value(v)) for n, v in row) + ")"


def wrap32(z):
    return (z + 2**31) % 2**32 - 2**31


def truthy(v):
    return not (v is None or v == 0 or v == "")


def vkey(v):
    # Null < Int < Str ; Int numeric ; Str by code points
    if v is None:
        return (0, 0)
    if isinstance(v, int):
        return (1, v)
    return (2, [ord(c) for c in v])


def ref_unop(op, v):
    if op == "not":
        return 0 if truthy(v) else 1
    if not isinstance(v, int):
        return None
    return wrap32(-v) if op == "neg" else wrap32(~v)


def ref_binop(op, a, b):
    if op in ("eq", "ne", "lt", "le", "gt", "ge"):
        ka, kb = vkey(a), vkey(b)
        r = {"eq": ka == kb, "ne": ka != kb, "lt": ka < kb, "le": ka <= kb, "gt": ka > kb, "ge": ka >= kb}[op]
        return 1 if r else 0
    ia, ib = isinstance(a, int), isinstance(b, int)
    if op == "add":
        if ia and ib:
            return wrap32(a + b)
        if isinstance(a, str) and isinstance(b, str):
            return a + b
        return None
    if not (ia and ib):
        return None
    if op == "sub":
        return wrap32(a - b)
    if op == "mul":
        return wrap32(a * b)
    if op == "div":
        if b == 0 or (a == I32MIN and b == -1):
            return None
        q = abs(a) // abs(b)
        return q if (a < 0) == (b < 0) else -q
    if op == "band":
        return wrap32(a & b)
    if op == "bor":
        return wrap32(a | b)
    if op == "bxor":
        return wrap32(a ^ b)
    if op in ("shl", "shr"):
        if not (0 <= b < 32):
            return None
        return wrap32(a << b) if op == "shl" else a >> b
    raise ValueError(op)


class MissingColumn(Exception):
    pass


def ref_eval(e, row):
    k = e[0]
    if k == "lit":
        return e[1]
    if k == "col":
        for n, v in row:
            if n == e[1]:
                return v
        raise MissingColumn(e[1])
    if k == "un":
        return ref_unop(e[1], ref_eval(e[2], row))
    if k == "bin":
        return ref_binop(e[1], ref_eval(e[2], row), ref_eval(e[3], row))
    if k == "and":
        if truthy(ref_eval(e[1], row)):
            return 1 if truthy(ref_eval(e[2], row)) else 0
        return 0
    if k == "or":
        if truthy(ref_eval(e[1], row)):
            return 1
        return 1 if truthy(ref_eval(e[2], row)) else 0
    raise ValueError(k)


def parse_sx(text):
    """wire text -> nested python lists / ints / symbols"""
    toks = text.replace("(", " ( ").replace(")", " ) ").split()
    pos = [0]

    def one():
        t = toks[pos[0]]
        pos[0] += 1
        if t == "(":
            items = []
            while toks[pos[0]] != ")":
                items.append(one())
            pos[0] += 1
            return items
        if t[0].isdigit() or (t[0] == "-" and len(t) > 1):
            return int(t)
        return t
    return one()


def dec_value(sx):
    """parsed wire value -> python"""
    if sx == "null":
        return None
    if sx[0] == "i":
        return sx[1]
    return "".join(chr(c) for c in sx[1])


def random_expr(rng, depth, cols, lits=LITS, p_col=0.5):
    if depth == 0 or rng.random() < 0.15:
        if cols and rng.random() < p_col:
            return ("col", rng.choice(cols))
        return ("lit", rng.choice(lits))
    r = rng.random()
    if r < 0.2:
        return ("un", rng.choice(UNOPS), random_expr(rng, depth - 1, cols, lits, p_col))
    if r < 0.85:
        return ("bin", rng.choice(BINOPS), random_expr(rng, depth - 1, cols, lits, p_col), random_expr(rng, depth - 1, cols, lits, p_col))
    return (rng.choice(["and", "or"]), random_expr(rng, depth - 1, cols, lits, p_col), random_expr(rng, depth - 1, cols, lits, p_col))


def to_cols(e, names):
    """replace literal leaves by columns holding the same values; returns (expr, row)"""
    row = []

    def go(x):
        if x[0] == "lit":
            name = "c%d" % len(row)
            row.append((name, x[1]))
            return ("col", name)
        if x[0] == "col":
            return x
        if x[0] == "un":
            return ("un", x[1], go(x[2]))
        if x[0] == "bin":
            return ("bin", x[1], go(x[2]), go(x[3]))
        return (x[0], go(x[1]), go(x[2]))
    return go(e), row
