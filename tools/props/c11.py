"""C11 -- binary streams keep their names and contents, apart from the tables (streamname.rs, stream.rs, package.rs)."""
import itertools
from orchestrate import Case
import exprgen as X
import pkggen as G
from pkgspec import stream_name_valid, mk

RULE = ("(a) every single-character name over a 150-character critical set (packable characters, the packing ranges "
        "U+3800..U+4840, the table marker, / \\ : ! . NUL, controls, case pairs, sharp s, astral characters) and every PAIR over a "
        "40-character subset, written with distinct contents, listed, read back, reopened; (b) names of every encoded length "
        "29..33 units built from packable pairs, lone characters and astral characters; (c) random histories of writes / "
        "overwrites / removals with contents of 0 B..5000 B (across the mini-stream cutoff) interleaved with table creation, "
        "inserts, drops, summary changes and reopen; (d) attempts to reach tables, the pool, summary information and signatures "
        "through the stream interface by their decoded or raw names; remove_digital_signature on a file holding signature "
        "streams.  Oracle: a finite map from the names given to the bytes last written; the listing must equal its key set; "
        "the raw entry list of the saved file must hold exactly the table streams, pool, summary and one entry per live "
        "stream; no call may panic.  non-trivial = at least two live streams at some point; distinct = distinct command lists")
RULE = RULE + ("  (e) files laid out like patch packages: sub-storages below the root holding streams of their own (also under names that exist at the root, and under a table's name) -- the package's streams are those of the root storage only.")
ASSUMPTIONS = ["names used together in one history are never equal under the container's own comparison unless identical "
               "(the property excludes such pairs); cfb's Unicode upper-casing is modelled over ASCII only"]

CRIT = (list("aAzZ09._-$ {}()[]+~#%&'@^`,;=") + ["\u0000", "\u0001", "\u0005", "\u001f", "\u007f", "ß", "é", "İ", "ı", "ŉ",
        "ǅ", "Σ", "ς", "ẞ", " ", "あ", "㟿", "㠀", "㠁", "㿿", "䀀", "䟿", "䠀",
        "䠿", "䡀", "䡁", "中", "퟿", "", "﻿", "�", "￿", "\U00010000", "\U0001f600", "\U0010ffff",
        "/", "\\", ":", "!", "⁄", "／", " ", "\t", "\n", "\r", "\"", "*", "<", ">", "?", "|"])
PAIR_SET = list("aA0._") + ["㠀", "䡀", "䡁", "/", "\\", ":", "!", "é", "ß", "\U00010000", " ", "\u0005", "$", "-", "中"]
PROTECTED = ["\u0005SummaryInformation", "\u0005DocumentSummaryInformation", "\u0005DigitalSignature", "\u0005MsiDigitalSignatureEx",
             "_StringPool", "_StringData", "_Tables", "_Columns", "_Validation", "T1"]


def data_for(i, n=None):
    n = (i * 7) % 23 if n is None else n
    return [(i * 31 + k * 7) % 256 for k in range(n)]


def w(name, data):
    return "(write_stream %s (%s))" % (X.enc_str(name), " ".join(map(str, data)))


def obs_cmds():
    return ["(streams)", "(stream_data)"]


def gen_cases(rng, tier, info):
    cases = []
    # (a) single names
    for chunk in range(0, len(CRIT), 12):
        cmds = ["(create 0)"]
        seen_upper = set()
        for i, ch in enumerate(CRIT[chunk:chunk + 12]):
            if ch.upper() in seen_upper or ch.lower() in seen_upper:
                continue        # equal under the container's comparison: excluded by the property
            seen_upper.update([ch.upper(), ch.lower()])
            cmds.append(w(ch, data_for(chunk + i, 3 + i)))
            cmds.append("(has_stream %s)" % X.enc_str(ch))
            cmds.append("(read_stream %s)" % X.enc_str(ch))
        cmds += obs_cmds() + ["(reopen into_inner)"] + obs_cmds() + ["(raw)", "(rows)"]
        cases.append(Case("single-%d" % chunk, cmds))
    # pairs: two-character names, and two one-character names living together
    pairs = list(itertools.product(PAIR_SET, repeat=2))
    if tier == "quick":
        pairs = [p for i, p in enumerate(pairs) if i % 3 == 0]
    for chunk in range(0, len(pairs), 10):
        cmds = ["(create 1)"]
        seen_upper = set()
        for i, (a, b) in enumerate(pairs[chunk:chunk + 10]):
            nm = a + b
            if nm.upper() in seen_upper or nm.lower() in seen_upper:
                continue
            seen_upper.update([nm.upper(), nm.lower()])
            cmds.append(w(nm, data_for(i, 2 + i)))
            cmds.append("(read_stream %s)" % X.enc_str(nm))
        cmds += obs_cmds() + ["(reopen drop)"] + obs_cmds() + ["(raw)"]
        cases.append(Case("pair-%d" % chunk, cmds))
    # (b) boundary lengths in encoded units
    for units in (29, 30, 31, 32, 33):
        for kind in ("pairs", "lone", "astral", "mixed", "cjk", "latin"):
            if kind == "pairs":
                nm = "ab" * units                      # one unit per packed pair
            elif kind == "lone":
                nm = "-" * units
            elif kind == "cjk":
                nm = "\u4e2d" * units                   # three UTF-8 bytes, one unit each: byte length is not the limit
            elif kind == "latin":
                nm = "\u00e9" * units
            elif kind == "astral":
                nm = "\U0001f600" * (units // 2) + ("-" if units % 2 else "")
            else:
                nm = ("a-" * units)[:units]            # lone packable, unpackable alternating: one unit each
            cmds = ["(create 2)", w(nm, [1, 2, 3]), "(read_stream %s)" % X.enc_str(nm), "(has_stream %s)" % X.enc_str(nm)]
            cmds += obs_cmds() + ["(reopen flush)"] + obs_cmds()
            cases.append(Case("len-%d-%s" % (units, kind), cmds))
    # (b2) overwriting: a stream holds exactly the bytes LAST written under its name, whatever it held before -- sizes on both
    # sides of the container's 4,096-byte mini-stream cutoff and of the 8 KiB write buffer, shrinking, growing, emptying
    sizes = [0, 1, 63, 64, 65, 4095, 4096, 4097, 5000, 8192, 8193, 20000]
    k = 0
    for first in (5000, 4096, 4095, 20000, 64, 0):
        cmds = ["(create %d)" % (k % 3)]
        for second in sizes:
            nm = "ow%d_%d" % (first, second)
            cmds.append(w(nm, [(i * 7 + first) % 251 for i in range(first)]))
            cmds.append(w(nm, [(i * 3 + second) % 241 for i in range(second)]))
            cmds.append("(read_stream %s)" % X.enc_str(nm))
        cmds += obs_cmds() + ["(reopen %s)" % ["flush", "into_inner", "drop"][k % 3]] + obs_cmds()
        # and across a save: write, save, overwrite shorter, save
        nm = "saved%d" % first
        cmds += [w(nm, [(i * 5) % 239 for i in range(first)]), "(reopen flush)", w(nm, [1, 2, 3]), "(read_stream %s)" % X.enc_str(nm),
                 "(reopen into_inner)", "(read_stream %s)" % X.enc_str(nm)] + obs_cmds()
        cases.append(Case("overwrite-%d" % first, cmds))
        k += 1
    # (b3) one StreamReader used the way a parser uses it: a header, a seek to a directory, a block, the position, a rewind
    for k, size in enumerate((10, 300, 4095, 4097, 8192, 20000)):
        nm = "seek%d" % size
        data = [(i * 13 + size) % 256 for i in range(size)]
        cmds = ["(create %d)" % (k % 3), w(nm, data)]
        plans = [[("r", 4), ("s", size // 2), ("r", 8), ("p",), ("c", -4), ("r", 2), ("e", -3), ("r", 10), ("s", 0), ("r", 3)],
                 [("s", max(0, size - 1)), ("r", 5), ("s", 1), ("r", 1), ("c", 0), ("r", size), ("p",)],
                 [("r", 1), ("c", 100), ("r", 1), ("c", -50), ("r", 60), ("e", 0), ("r", 1), ("e", -size), ("r", 2)]]
        for _ in range(4):
            plan = []
            for _ in range(rng.randint(4, 12)):
                kind = rng.choice("rrsscep")
                plan.append((kind, rng.randint(0, size + 10)) if kind in "rs" else
                            (kind, rng.randint(-20, 20)) if kind == "c" else (kind, -rng.randint(0, min(size, 40))) if kind == "e" else (kind,))
            plans.append(plan)
        for plan in plans:
            cmds.append("(x_read_seek %s (%s))" % (X.enc_str(nm), " ".join("(%s)" % " ".join(map(str, op)) for op in plan)))
        cmds += ["(reopen %s)" % ["flush", "into_inner", "drop"][k % 3]]
        for plan in plans[:3]:
            cmds.append("(x_read_seek %s (%s))" % (X.enc_str(nm), " ".join("(%s)" % " ".join(map(str, op)) for op in plan)))
        cases.append(Case("seek-%d" % size, cmds))
    # (c) random histories
    n = 40 if tier == "quick" else 1200
    names = ["s1", "Bin.dat", "x", "ab", "AB", "a", "A", "中文", "data_1", "-", "a-b", "long.name.with.dots", "été", "Q" * 40, "/x", "a:b", "䡀x", ""]
    for j in range(n):
        h = G.History(rng, j % 3, observe=None)
        h.cmds.append("(create_table %s (%s))" % (X.enc_str("T1"), " ".join(G.enc_col(c) for c in [mk("K", "i16", pk=True), mk("V", ("str", 0), null=True)])))
        h.db.create_table("T1", [mk("K", "i16", pk=True), mk("V", ("str", 0), null=True)])
        for _ in range(rng.randint(8, 22)):
            r = rng.random()
            nm = rng.choice(names)
            if r < 0.4:
                size = rng.choice([0, 1, 5, 70, 600, 4095, 4096, 4097, 5000]) if rng.random() < 0.4 else rng.randint(0, 40)
                h.cmds.append(w(nm, [rng.randint(0, 255) for _ in range(size)]))
            elif r < 0.55:
                h.cmds.append("(remove_stream %s)" % X.enc_str(nm))
            elif r < 0.65:
                h.cmds.append("(read_stream %s)" % X.enc_str(nm))
                h.cmds.append("(has_stream %s)" % X.enc_str(nm))
            elif r < 0.8:
                h.insert("T1", rows=[[rng.randint(1, 30), rng.choice(["s1", "x", "Bin.dat", None])]])
            elif r < 0.85:
                h.cmds.append("(sum_set author %s)" % X.enc_str(nm[:8]))
            elif r < 0.9:
                h.add_table()
            elif r < 0.93 and len(h.table_names()) > 1:
                h.drop_table([t for t in h.table_names() if t != "T1"][0])
            else:
                h.reopen()
            h.cmds += obs_cmds()
        h.reopen()
        h.cmds += obs_cmds() + ["(raw)", "(rows)"]
        cases.append(Case("hist-%d" % j, h.cmds))
    # (d) protected entries
    cmds = ["(create 0)", "(create_table %s (%s))" % (X.enc_str("T1"), G.enc_col(mk("K", "i16", pk=True))), "(insert %s ((%s)))" % (X.enc_str("T1"), X.enc_value(7)), "(flush)"]
    for p in PROTECTED + ["䡀" + p for p in PROTECTED]:
        cmds += ["(has_stream %s)" % X.enc_str(p), "(read_stream %s)" % X.enc_str(p), "(remove_stream %s)" % X.enc_str(p)]
    cmds += obs_cmds() + ["(rows)", "(reopen into_inner)", "(rows)", "(sum_get)"] + obs_cmds()
    cases.append(Case("protected", cmds, ("protected",)))
    # streams whose NAME is the spelling of a protected entry: accepted names (they are packed, so they are distinct entries);
    # they must behave like any other stream -- listed, readable, removable -- and leave the real entries alone
    cmds = ["(create 0)", "(sum_set author %s)" % X.enc_str("Ann"), "(flush)"]
    for i, pn in enumerate(PROTECTED[:9]):
        cmds += [w(pn, data_for(i, 4 + i)), "(has_stream %s)" % X.enc_str(pn), "(read_stream %s)" % X.enc_str(pn)] + obs_cmds()
    cmds += ["(reopen into_inner)"] + obs_cmds() + ["(sum_get)", "(rows)", "(raw)", "(remove_stream %s)" % X.enc_str(PROTECTED[2])] + obs_cmds()
    cases.append(Case("protected-spellings", cmds, ("protected",)))
    # signatures: added with the cfb crate only (the library has no API to add one)
    for mode in ("flush", "into_inner", "drop"):
        cmds = ["(create 0)", "(create_table %s (%s))" % (X.enc_str("T1"), G.enc_col(mk("K", "i16", pk=True))),
                "(insert %s ((%s)))" % (X.enc_str("T1"), X.enc_value(7)), w("keep", [9, 8, 7]), "(has_sig)", "(add_signature)", "(has_sig)"]
        cmds += obs_cmds() + ["(read_stream %s)" % X.enc_str("\u0005DigitalSignature"), "(remove_stream %s)" % X.enc_str("\u0005DigitalSignature"),
                              "(has_stream %s)" % X.enc_str("\u0005MsiDigitalSignatureEx"), "(raw)", "(remove_sig)", "(has_sig)"]
        cmds += obs_cmds() + ["(rows)", "(reopen %s)" % mode, "(has_sig)", "(raw)", "(rows)", "(sum_get)"] + obs_cmds()
        cases.append(Case("signature-%s" % mode, cmds, ("signature",)))
    # files laid out like patch packages / installers with embedded transforms: sub-storages below the root, holding
    # streams of their own (also under names that exist at the root).  The package's streams are those of the root.
    import msienc, msidec
    for j in range(4):
        tables = {"T1": ([mk("K", "i16", pk=True), mk("V", ("str", 8), null=True)], [[1, "a"], [2, None]])}
        root = {"Hello": [1, 2, 3], "Bin.dat": data_for(j, 40)} if j != 2 else {}
        clsid, entries, _ = msienc.encode_db(rng, j % 3, 65001, tables, [(2, 30, "T")], root, long_refs=(j == 1))
        enc = lambda nm: msidec.encode_name(nm, False)
        entries = list(entries) + [("Transform1/" + enc("Inner.bin"), bytes([9, 9])), ("Transform1/" + enc("Hello"), bytes([7])),
                                   ("#Patch/Deep/" + enc("x"), bytes(data_for(j, 300)))]
        if j == 3:
            entries.append(("Transform1/" + msidec.encode_name("T1", True), bytes([1, 128])))
        cmds = [msienc.enc_open_raw(clsid, entries).replace("(open_raw", "(x_open_raw", 1)] + obs_cmds()
        for nm in ("Hello", "Inner.bin", "x", "Transform1", "#Patch"):
            cmds += ["(has_stream %s)" % X.enc_str(nm), "(read_stream %s)" % X.enc_str(nm)]
        cmds += [w("New", [4, 5, 6])] + obs_cmds() + ["(remove_stream %s)" % X.enc_str("Inner.bin"), "(rows)", "(reopen %s)" % ["flush", "into_inner", "drop", "flush"][j]]
        cmds += obs_cmds() + ["(rows)"]
        c = Case("substorage-%d" % j, cmds, ("impl_only", "substorage"))
        c.live0 = {k: list(v) for k, v in root.items()}
        cases.append(c)
    info.update({"single_names": len(CRIT), "pairs": len(pairs), "histories": n})
    return cases


def nontrivial(case):
    return sum(1 for c in case.cmds if c.startswith("(write_stream")) >= 2


def oracle(ctx):
    bad = []
    for c, outs in zip(ctx.cases, ctx.impl_out):
        live = {}
        sig = False
        raws = []
        for i, (cmd, o) in enumerate(zip(c.cmds, outs)):
            sx = X.parse_sx(cmd)
            name = sx[0]

            def report(kind, what):
                bad.append({"kind": kind, "what": what, "cmds": c.cmds[:i + 1], "impl": o[:300]})
            if o in ("panic", "abort", "timeout"):
                report("panic", "%s on %s" % (o, cmd[:120]))
                break
            if name == "has_sig":
                want = "1" if sig else "0"
                if o != want:
                    report("signature", "has_digital_signature() = %s, expected %s" % (o, want))
            elif name == "add_signature":
                sig = True
            elif name == "remove_sig":
                sig = False
                if o != "(ok ())":
                    report("signature", "remove_digital_signature returned %s" % o)
            if name == "create":
                live = {}
            elif name == "x_open_raw":
                live = {k: list(v) for k, v in c.live0.items()}
                if o != "(ok ())":
                    report("reopen", "a file with sub-storages does not open: %s" % o)
                    break
            elif name == "write_stream":
                nm = "".join(map(chr, sx[1]))
                ok = stream_name_valid(nm)
                if (o == "(ok ())") != ok:
                    report("gate", "write_stream(%r) returned %s; the name is %s" % (nm, o, "acceptable" if ok else "not acceptable"))
                    break
                if ok:
                    live[nm] = list(sx[2])
            elif name == "remove_stream":
                nm = "".join(map(chr, sx[1]))
                want = stream_name_valid(nm) and nm in live
                if (o == "(ok ())") != want:
                    report("gate", "remove_stream(%r) returned %s with live streams %r" % (nm, o, sorted(live)))
                    break
                if want:
                    del live[nm]
            elif name == "has_stream":
                nm = "".join(map(chr, sx[1]))
                if o != ("1" if nm in live else "0"):
                    report("map", "has_stream(%r) = %s, live streams are %r" % (nm, o, sorted(live)))
            elif name == "read_stream":
                nm = "".join(map(chr, sx[1]))
                want = "(ok (%s))" % " ".join(map(str, live[nm])) if nm in live else "err"
                if o != want:
                    report("map", "read_stream(%r) returned %s..., expected %s..." % (nm, o[:60], want[:60]))
            elif name == "x_read_seek":
                nm = "".join(map(chr, sx[1]))
                data = live.get(nm)
                if data is not None and o.startswith("(ok "):
                    pos, want = 0, []
                    for op in sx[2]:
                        if op[0] == "r":
                            chunk = data[pos:pos + op[1]] if pos < len(data) else []
                            want.append(list(chunk)); pos += len(chunk)
                        elif op[0] == "p":
                            want.append(pos)
                        else:
                            new = op[1] if op[0] == "s" else pos + op[1] if op[0] == "c" else len(data) + op[1]
                            if new < 0 or new > len(data):
                                want.append("err")          # the container refuses to seek before the start or past the end; the position stays
                            else:
                                pos = new; want.append(pos)
                    got = X.parse_sx(o)[1]
                    got = ["err" if g == "err" else g for g in got]
                    if got != want:
                        j = next(i2 for i2, (a, b) in enumerate(zip(got + [None], want + [None])) if a != b)
                        report("map", "one reader on %r: after %r step %d gives %r, the stream holds %r there" % (nm, sx[2][:j + 1][-3:], j, str(got[j])[:60] if j < len(got) else None, str(want[j])[:60] if j < len(want) else None))
            elif name == "streams":
                got = sorted("".join(map(chr, s)) for s in X.parse_sx(o))
                if got != sorted(live):
                    report("listing", "streams() = %r, live names are %r" % (got, sorted(live)))
            elif name == "stream_data":
                got = {}
                for e in X.parse_sx(o):
                    got["".join(map(chr, e[0]))] = e[1][1] if isinstance(e[1], list) else e[1]
                if got != live:
                    d = [k for k in set(got) | set(live) if got.get(k) != live.get(k)]
                    report("map", "stream contents differ for %r" % d[:3])
            elif name == "reopen" and o != "(ok ())":
                report("reopen", "reopen failed: %s" % o)
                break
            elif name == "raw":
                try:
                    ents = ["".join(map(chr, e[0])) for e in X.parse_sx(o)]
                except Exception:
                    report("raw", "medium unreadable")
                    continue
                other = [e for e in ents if not e.startswith("䡀") and e not in PROTECTED[:4]]
                has = [e for e in ents if e in PROTECTED[2:4]]
                if len(has) != (2 if sig else 0):
                    report("signature", "signature entries in the saved file: %r (signature %s)" % (has, "present" if sig else "removed"))
                if "signature" in c.tags:
                    # removing the signature removes only the signature: every other raw entry is byte-identical
                    cur = {"".join(map(chr, e[0])): e[1] for e in X.parse_sx(o) if "".join(map(chr, e[0])) not in PROTECTED[2:4]}
                    if raws and raws[-1] != cur:
                        report("signature", "entries other than the signature changed: %r" % [k for k in set(cur) | set(raws[-1]) if cur.get(k) != raws[-1].get(k)][:4])
                    raws.append(cur)
                if len(other) != len(live):
                    report("raw", "%d raw non-table entries for %d live streams: %r" % (len(other), len(live), other[:5]))
        else:
            continue
    return bad
