"""C01 -- everything written is read back after close and reopen."""
from orchestrate import Case
import exprgen as X
import pkggen as G
from pkgspec import mk

RULE = ("random histories (create/drop table, insert, update, delete, stream write/remove, summary setters, code-page change) for "
        "all three package types; a close/reopen is inserted after EVERY operation of every history in one of the three modes "
        "(flush + bytes at the moment flush returned, into_inner, drop), full snapshot before and after; a second save with no "
        "change must leave the medium's streams identical; integers at the 16/32-bit boundaries, empty / shared / non-ASCII "
        "strings (thorough: > 64 KiB); code pages: the 24 single- and multi-byte pages with strings from their repertoire through "
        "the implementation-only round-trip command (the model covers UTF-8 and US-ASCII); non-trivial = at least 3 successful "
        "mutations; distinct = distinct command lists")
RULE = RULE + ('  Also histories that START from a file written by the independent encoder with three-byte string references (changed, saved, reopened).')
ASSUMPTIONS = ["the cfb container is modelled as a name -> bytes map; sector-level layout is outside the model",
               "'bytes on the medium at the moment flush returns' = a copy of the shared medium taken right after flush() returned Ok"]
KINDS = {"reopen", "summary", "panic", "meta", "idempotent"}

SAMPLE = {932: "あ漢ｱ", 936: "中文", 949: "한글", 950: "中文", 951: "中文", 1250: "łž", 1251: "жЯ", 1252: "éÿþ€", 1253: "λΩ",
          1254: "ğİ", 1255: "שא", 1256: "عب", 1257: "ąž", 1258: "ơư", 10000: "é∑", 10007: "жЯ", 20127: "az", 28591: "éÿþ",
          28592: "łž", 28593: "ħĉ", 28594: "ąž", 28595: "жЯ", 28596: "عب", 28597: "λΩ", 28598: "שא", 65001: "é漢\U0001F600"}


def summary_ops(h, rng):
    p = rng.choice(["title", "subject", "author", "comments", "app", "words", "ctime", "arch", "langs", "uuid"])
    if rng.random() < 0.25 and p not in ():
        h.cmds.append("(sum_clear %s)" % p)
        return
    if p == "words":
        v = str(rng.choice([0, 2, -1, 2**31 - 1]))
    elif p == "ctime":
        v = str(rng.choice([0, 1489862796000000000, -14182980000000000, 10**18 + 12345600]))
    elif p == "langs":
        v = "(" + " ".join(str(rng.choice([1033, 0, 1036, 65535])) for _ in range(rng.randint(0, 3))) + ")"
    elif p == "uuid":
        v = "(" + " ".join(str(rng.randint(0, 255)) for _ in range(16)) + ")"
    else:
        v = X.enc_str(rng.choice(["", "a", "Jane Doe", "x64", "Intel", "é漢", "q" * rng.randint(0, 9)]))
    h.cmds.append("(sum_set %s %s)" % (p, v))


def gen_cases(rng, tier, info):
    cases = []
    n = 60 if tier == "quick" else 1500
    for j in range(n):
        h = G.History(rng, j % 3)
        # a third of the histories switch the database to US-ASCII at some point; those store only ASCII text, because
        # the property promises strings back "exactly when representable" in the code page in force at save time
        G.ASCII_ONLY = (j % 3 == 1)
        h.add_table()
        ops = rng.randint(6, 14)
        for _ in range(ops):
            r = rng.random()
            if r < 0.15:
                summary_ops(h, rng)
            elif r < 0.2:
                h.cmds.append("(set_db_cp %d)" % (rng.choice([65001, 20127, 20127]) if G.ASCII_ONLY else 65001))
                h.db.db_cp = int(h.cmds[-1].split()[1][:-1])
            else:
                h.random_op({"bogus": 0.1, "reopen": 0, "select": 0.2, "stream": 1.0})
            h.obs()
            # every position is a close / reopen point
            h.reopen(["flush", "into_inner", "drop"][rng.randrange(3)])
            h.obs()
        # saving again without a change alters nothing
        h.flush(); h.raw(); h.reopen("into_inner"); h.raw()
        cases.append(Case("rt-%d" % j, h.cmds))
    G.ASCII_ONLY = False
    # strings whose encoded length sits exactly on the long-string escape (65,535 / 65,536 / 65,537 bytes)
    for j, lens in enumerate([(65535, 65536, 65537), (65536, 1, 65536), (131072, 65534, 65536)]):
        h = G.History(rng, j % 3)
        h.add_table("Big", [mk("K", "i16", pk=True), mk("V", ("str", 0), null=True)])
        h.insert("Big", rows=[[k + 1, "LMN"[k] * n] for k, n in enumerate(lens)] + [[9, "tail"]])
        h.obs(); h.reopen(["flush", "into_inner", "drop"][j]); h.obs()
        h.delete("Big", cond=("bin", "eq", ("col", "K"), ("lit", 2)))
        h.obs(); h.reopen(); h.obs()
        cases.append(Case("boundary-%d" % j, h.cmds))
    for name, h in G.scenario_histories(rng):
        cases.append(Case("scn-" + name, h.cmds))
    # the empty string through every write path (insert, update of a plain / shared / key cell) and every close mode:
    # the format has no empty string, it must come back as the null it is stored as, and the file must stay readable
    for j, mode in enumerate(["flush", "into_inner", "drop"]):
        h = G.History(rng, j)
        h.add_table("E", [mk("K", "i16", pk=True), mk("V", ("str", 0), null=True), mk("W", ("str", 8), null=True)])
        h.insert("E", rows=[[1, "a", "x"], [2, "a", ""], [3, "", "x"], [4, "b", "y"]])
        h.obs(); h.reopen(mode); h.obs()
        h.update("E", ups=[("V", "")], cond=("bin", "eq", ("col", "K"), ("lit", 1)))
        h.obs(); h.reopen(mode); h.obs()
        h.update("E", ups=[("W", ""), ("V", "")], cond=None)
        h.obs(); h.reopen(mode); h.obs()
        h.add_table("S", [mk("A", ("str", 4), pk=True, null=True), mk("B", "i16", null=True)])
        h.insert("S", rows=[["k", 1], ["", 2]])
        h.update("S", ups=[("A", "")], cond=("bin", "eq", ("col", "B"), ("lit", 1)))
        h.obs(); h.reopen(mode); h.obs()
        cases.append(Case("empty-%d" % j, h.cmds))
    # histories that START from a file written by another tool (three-byte string references, unused and duplicate pool
    # entries, other property-set layouts): what is written on top of it is read back too, in the file's own conventions
    import random
    import props.c02 as F
    foreign = F.gen_cases(random.Random(rng.randrange(1 << 30)), "quick", {})
    keep = [c for k, c in enumerate(foreign) if k % 3 == 1 and k % 11 != 3][:8 if tier == "quick" else 21]
    for c in keep:
        c.tags = tuple(c.tags) + ("foreign",)
        c.name = "foreign-" + c.name
        cases.append(c)
    if tier == "thorough":
        for j in range(30):
            h = G.History(rng, j % 3)
            h.add_table("Big", [mk("K", "i16", pk=True), mk("V", ("str", 0), null=True)])
            h.insert("Big", rows=[[1, "L" * (65535 + j)], [2, "é" * 40000], [3, "L" * (65535 + j)]])
            h.obs(); h.reopen(); h.obs()
            cases.append(Case("big-%d" % j, h.cmds))
    # code pages outside the model: database and summary strings from each page's repertoire (implementation only)
    cp_cmds = []
    for cp, sample in SAMPLE.items():
        for mode in ("flush", "into_inner", "drop"):
            cp_cmds.append("(x_cp_roundtrip_pkg %d %s %s)" % (cp, X.enc_str(sample), mode))
            cp_cmds.append("(x_cp_roundtrip_pkg %d %s %s)" % (cp, X.enc_str(sample * 3 + "a"), mode))
        # text whose stored bytes begin like a byte order mark must come back unchanged too
        if cp in (1252, 28591):
            cp_cmds.append("(x_cp_roundtrip_pkg %d %s into_inner)" % (cp, X.enc_str("ÿþab")))
            cp_cmds.append("(x_cp_roundtrip_pkg %d %s flush)" % (cp, X.enc_str("ï»¿xyz")))
        if cp == 65001:
            cp_cmds.append("(x_cp_roundtrip_pkg %d %s drop)" % (cp, X.enc_str("\ufeffmarked")))
    cases.append(Case("codepages", cp_cmds, ("cp",)))
    info.update({"histories": n, "code_page_roundtrips": len(cp_cmds)})
    return cases


CATALOG = ["(95 84 97 98 108 101 115)", "(95 67 111 108 117 109 110 115)", "(95 86 97 108 105 100 97 116 105 111 110)"]


def classify_known(v):
    """INSERT / UPDATE / DELETE aimed directly at a catalog table (known finding catalog_dml)"""
    for cmd in v.get("cmds", []):
        if cmd.startswith(("(insert ", "(update ", "(delete ")) and any(cmd.split(" ", 1)[1].startswith(n) for n in CATALOG):
            return "catalog_dml"
    return None


def nontrivial(case):
    return True


def oracle(ctx):
    bad = []
    for c, outs in zip(ctx.cases, ctx.impl_out):
        if "cp" in c.tags:
            for cmd, o in zip(c.cmds, outs):
                if o != "(ok 1 1 1)":
                    bad.append({"kind": "reopen", "what": "code page round trip (database string, summary string, code pages) failed: %s" % o,
                                "cmds": [cmd], "impl": o})
            continue
        if "foreign" in c.tags:
            import props.c02 as F
            cmds = [("(open_raw" + x[len("(x_open_raw"):]) if x.startswith("(x_open_raw") else ("(raw)" if x == "(x_raw)" else x) for x in c.cmds]
            for f in G.walk(cmds, outs, decode=F.decode_cp, start_db=c.start_db, sort_catalog=True, accounting=False):
                if f["kind"] in KINDS | {"open"}:
                    f["cmds"] = [x if len(x) < 4000 else x[:4000] + " ...)" for x in f["cmds"]]
                    bad.append(f)
                    break
            continue
        for f in G.walk(c.cmds, outs):
            if f["kind"] in KINDS:
                bad.append(f)
                break
        # idempotence: the two raw dumps at the end are equal
        raws = [o for cmd, o in zip(c.cmds, outs) if cmd == "(raw)"]
        if len(raws) >= 2 and raws[-1] != raws[-2]:
            bad.append({"kind": "idempotent", "what": "saving again without any change altered the medium's streams", "cmds": c.cmds, "impl": raws[-1][:200]})
    return bad
