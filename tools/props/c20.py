"""C20 -- capacity limits are enforced as errors, and symmetrically."""
from orchestrate import Case
import exprgen as X
import pkggen as G
from pkgspec import mk

RULE = ("boundary scripts L-1 / L / L+1 for every capacity limit: columns per table (31/32/33); rows per table (65,535 / 65,536 / "
        "65,537, in one batch and incrementally, across reopen and after deletions); distinct strings under two-byte references "
        "(pool filled through two tables to 65,535 entries, then one more); table names of 30/31/32 encoded units and 60/61/64/65 "
        "characters; column names of 64/65 characters; strings of 65,534 / 65,535 / 65,536 / 65,537 encoded bytes (the 16-bit length field of a pool entry); each followed by a row count, a reopen and a second count: an over-limit "
        "call must return an error, leave the count unchanged and never panic; an at-limit call must succeed and survive "
        "reopen.  Small cases run on the model as well; bulk cases (>= 30,000 rows) are judged on the implementation by the "
        "oracle.  non-trivial = reaches a limit; distinct = distinct command lists")
ASSUMPTIONS = ["bulk boundary cases are not replayed on the extracted model (quadratic list operations); the limits themselves are "
               "generated constants and theorems (MAX_ROWS_INSERT, MAX_NUM_TABLE_COLUMNS, SN_MAX_UNITS)"]
DRIVER_TIMEOUT = 1500
C2 = "((col (75) i32 0 0 1 () () () ()) (col (86) (str 0) 0 1 0 () () () ()))"
C1 = "((col (75) i32 0 0 1 () () () ()))"


def cols_case(n):
    cols = [mk("c%d" % i, "i16", pk=(i == 0)) for i in range(n)]
    return ["(create 0)", "(create_table %s (%s))" % (X.enc_str("Wide"), " ".join(G.enc_col(c) for c in cols)), "(tables)",
            "(reopen flush)", "(tables)"]


def name_case(name, colname="K"):
    return ["(create 0)", "(create_table %s (%s))" % (X.enc_str(name), G.enc_col(mk(colname, "i16", pk=True))), "(tables)",
            "(insert %s ((%s)))" % (X.enc_str(name), X.enc_value(1)), "(rows)", "(reopen into_inner)", "(tables)", "(rows)"]


def gen_cases(rng, tier, info):
    cases = []
    for n in (1, 31, 32, 33, 40):
        cases.append(Case("columns-%d" % n, cols_case(n), ("cols", n)))
    for n in (1, 30, 31, 32, 33, 40, 60, 61, 64, 65):
        cases.append(Case("tname-%d" % n, name_case("T" + "a" * (n - 1)), ("tname", n)))
    for n in (1, 31, 32, 33, 63, 64, 65):
        cases.append(Case("cname-%d" % n, name_case("T", "c" + "b" * (n - 1)), ("cname", n)))
    # the same in a package WITHOUT a _Validation table (a foreign file): only the container's 31 packed units
    # (table marker + two characters per unit: 60 characters) and the 64-character _Tables.Name column limit the name
    import msienc
    clsid, entries, _ = msienc.encode_db(rng, 0, 65001, {"Seed": ([mk("K", "i16", pk=True)], [[1]])}, [(2, 30, "t")], {}, validation=False)
    opn = msienc.enc_open_raw(clsid, entries)
    for n in (1, 33, 58, 59, 60, 61, 62, 63, 64, 65):
        cases.append(Case("tname-nv-%d" % n, [opn] + name_case("T" + "a" * (n - 1))[1:], ("tname-nv", n)))
    T = X.enc_str("T")
    U = X.enc_str("U")
    # rows: incremental, across reopen, after deletions; one batch
    cases.append(Case("rows-incremental", [
        "(create 0)", "(create_table %s %s)" % (T, C1), "(x_insert_range %s 1 65535 0)" % T, "(x_count %s)" % T,
        "(x_insert_range %s 65536 65536 0)" % T, "(x_count %s)" % T, "(x_insert_range %s 65537 65537 0)" % T, "(x_count %s)" % T,
        "(reopen flush)", "(x_count %s)" % T, "(x_insert_range %s 70000 70000 0)" % T, "(x_count %s)" % T,
        "(x_delete_range %s 1 10)" % T, "(x_count %s)" % T, "(x_insert_range %s 70001 70010 0)" % T, "(x_count %s)" % T,
        "(x_insert_range %s 70011 70011 0)" % T, "(x_count %s)" % T, "(reopen drop)", "(x_count %s)" % T], ("rows",)))
    cases.append(Case("rows-batch", [
        "(create 1)", "(create_table %s %s)" % (T, C1), "(x_insert_range %s 1 65537 0)" % T, "(x_count %s)" % T,
        "(x_insert_range %s 1 65536 0)" % T, "(x_count %s)" % T, "(reopen into_inner)", "(x_count %s)" % T], ("rows",)))
    # strings: fill the pool through two tables
    cases.append(Case("strings", [
        "(create 0)", "(create_table %s %s)" % (T, C2), "(create_table %s %s)" % (U, C2),
        "(x_insert_range %s 1 32700 1)" % T, "(x_insert_range %s 40000 72700 1)" % U, "(x_count %s)" % U,
        # the pool now holds 65,401 table strings + the catalog strings; go to the limit one string at a time
    ] + sum([["(x_insert_range %s %d %d 1)" % (U, 72701 + i, 72701 + i),
              # replacing the only use of a string by a new string keeps the number of distinct strings: always possible
              "(update %s ((%s %s)) ((bin eq (col %s) (lit (i %d)))))" % (U, X.enc_str("V"), X.enc_value("fresh-%d" % i), X.enc_str("K"), 40000 + i),
              "(x_count %s)" % U] for i in range(120)], [])
      + ["(reopen flush)", "(x_count %s)" % U, "(x_count %s)" % T], ("strings",)))
    # the 16-bit length field of a pool entry: a string of exactly 65,535 encoded bytes is the longest short-form entry,
    # one byte more takes the two-entry long form; both sides of that limit are accepted and round-trip, alone, next to
    # each other, followed by other strings (whose references must not shift), in UTF-8 with multi-byte characters
    for j, lens in enumerate([(65534, 65535), (65535, 65536), (65535, 65535), (65536, 65537), (65535,)]):
        h = G.History(rng, j % 3)
        h.add_table("Long", [mk("K", "i16", pk=True), mk("V", ("str", 0), null=True), mk("W", ("str", 0), null=True)])
        rows = []
        for k, n in enumerate(lens):
            text = "PQRS"[k] * n if j != 3 else "\u00e9" * (n // 2) + "z" * (n % 2)
            rows.append([k + 1, text, "after-%d" % k])
        h.insert("Long", rows=rows + [[9, "tail", "tail2"]])
        h.obs(); h.reopen(["flush", "into_inner", "drop"][j % 3]); h.obs()
        h.insert("Long", rows=[[10, "later", None]])
        h.obs(); h.reopen(); h.obs()
        cases.append(Case("strlen-%d" % j, h.cmds, ("strlen",)))
    info.update({"limits": {"columns": 32, "rows": 65536, "short_string_refs": 65535, "name_units": 31, "short_pool_entry_bytes": 65535}})
    return cases


def nontrivial(case):
    return True


def classify_known(v):
    return "pool_full_panic" if v.get("kind") == "pool_full_panic" else None


def oracle(ctx):
    bad = []
    for c, outs in zip(ctx.cases, ctx.impl_out):
        def report(kind, what, i):
            bad.append({"kind": kind, "what": what, "cmds": c.cmds[:i + 1], "impl": outs[i][:200]})
        kind = c.tags[0]
        if kind == "strlen":
            bad.extend(G.walk(c.cmds, outs)[:1])
            continue
        if any(o in ("abort", "timeout") for o in outs):
            report("panic", "the driver aborted or timed out", outs.index([o for o in outs if o in ("abort", "timeout")][0]))
            continue
        if kind in ("tname-nv", "tname-nv-odd"):
            n = c.tags[1]
            # packed length computed here, independently: marker + one unit per pair of base-64 characters, one per other BMP character
            name = "T" + "a" * (n - 1) if kind == "tname-nv" else "T" + "a" * (n - 2) + "\u00e9"
            units, i = 1, 0
            b64 = lambda ch: ch.isascii() and (ch.isalnum() or ch in "._")
            while i < len(name):
                if b64(name[i]) and i + 1 < len(name) and b64(name[i + 1]):
                    i += 2
                else:
                    i += 1
                units += 1
            want_ok = units <= 31 and n <= 64
            for i, o in enumerate(outs):
                if o in ("panic", "abort") or o.startswith("(panic"):
                    report("panic", "a %d-character table name (%d packed units) in a package without _Validation: %s panicked" % (n, units, c.cmds[i][:40]), i)
                    break
            else:
                if (outs[1] == "(ok ())") != want_ok:
                    report("limit", "create_table with a %d-character name (%d packed units, container limit 31) returned %s" % (n, units, outs[1]), 1)
                elif want_ok and (outs[3] != "(ok ())" or outs[5] != "(ok ())" or outs[4] != outs[7]):
                    report("reopen", "a table whose name is within the limits did not survive insert and reopen: %r" % [o[:40] for o in outs[1:]], len(outs) - 1)
                elif not want_ok and outs[2] != outs[6]:
                    report("limit", "a refused create_table left a trace: table list %s then %s" % (outs[2][:80], outs[6][:80]), 6)
            continue
        if kind in ("cols", "tname", "cname"):
            n = c.tags[1]
            # names: the _Validation catalog declares Table and Column as 32-character identifiers (tighter than the 31 packed
            # units of the container and the 64 characters of _Tables/_Columns)
            limit = {"cols": 32, "tname": 32, "cname": 32}[kind]
            want_ok = n <= limit
            if outs[1] == "panic":
                report("panic", "create_table panicked at size %d" % n, 1)
                continue
            if (outs[1] == "(ok ())") != want_ok:
                report("limit", "create_table with %s size %d returned %s (limit %d)" % (kind, n, outs[1], limit), 1)
                continue
            listed = ("(87 105 100 101)" in outs[2]) if kind == "cols" else (outs[2].count("(col ") > 15)
            if kind != "cols":
                nm = X.enc_str("T" + "a" * (n - 1)) if kind == "tname" else X.enc_str("T")
                listed = nm in outs[2]
            if listed != want_ok:
                report("limit", "after create_table (%s) the table is %slisted" % (outs[1], "" if listed else "not "), 2)
            last_tables = [o for cmd, o in zip(c.cmds, outs) if cmd == "(tables)"]
            if "err" in outs or "panic" in outs[2:]:
                if want_ok:
                    report("reopen", "a table within the limits did not survive: %r" % [o[:40] for o in outs], len(outs) - 1)
            if len(last_tables) == 2 and last_tables[0] != last_tables[1]:
                report("reopen", "table list changed across reopen", len(outs) - 1)
            continue
        # bulk cases: replay the arithmetic
        count = {}
        strings = 0
        insert_panicked = False
        for i, (cmd, o) in enumerate(zip(c.cmds, outs)):
            sx = X.parse_sx(cmd)
            if sx[0] == "update":
                if o == "panic" and not insert_panicked:
                    report("panic", "an UPDATE that keeps the number of distinct strings panicked on a full string pool", i)
                elif o not in ("(ok ())", "panic") and not insert_panicked:
                    report("limit", "an UPDATE that keeps the number of distinct strings was refused: %s" % o, i)
                continue
            if sx[0] == "x_insert_range" and o == "panic":
                insert_panicked = True
            if sx[0] == "x_insert_range":
                t = tuple(sx[1])
                n = sx[3] - sx[2] + 1
                fits = count.get(t, 0) + n <= 65536
                if o == "panic":
                    if kind == "strings" and n == 1:
                        report("pool_full_panic", "inserting one more distinct string into a full two-byte pool panicked instead of returning an error", i)
                    else:
                        report("panic", "insert panicked at %d + %d rows" % (count.get(t, 0), n), i)
                    continue
                if kind == "rows" and (o == "(ok ())") != fits:
                    report("limit", "insert of %d rows into a table of %d returned %s" % (n, count.get(t, 0), o), i)
                if o == "(ok ())":
                    count[t] = count.get(t, 0) + n
            elif sx[0] == "x_delete_range":
                t = tuple(sx[1])
                if o == "(ok ())":
                    count[t] = count.get(t, 0) - (sx[3] - sx[2] + 1)
            elif sx[0] == "x_count":
                t = tuple(sx[1])
                if o != "(ok %d)" % count.get(t, 0):
                    report("count", "table holds %s rows, %d expected" % (o, count.get(t, 0)), i)
            elif sx[0] == "reopen" and o != "(ok ())":
                report("reopen", "the library refuses to read the file it saved: %s" % o, i)
                break
    return bad
