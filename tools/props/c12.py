"""C12 -- joins and projections produce the documented row combinations (query.rs Join::exec, Select::exec)."""
import itertools
from orchestrate import Case
import exprgen as X
import pkggen as G
from pkgspec import mk

RULE = ("select trees over two base tables A(K,V) and B(K,W): every tree up to depth 2 (thorough: 3) over {base table, filter, "
        "projection, inner join, left join, self join, join of joins, sub-select as join operand} with ON / WHERE conditions "
        "over both sides (qualified names, NULL join keys, always-false, unknown column, unknown table), on table contents of "
        "0-3 rows per table incl. empty tables; plus random deeper trees.  Oracle: an independent nested-loop evaluator "
        "applied to the rows of the preceding snapshot: inner = pairs in left-major order satisfying ON; left = plus each "
        "unmatched left row once, null padded; result columns named table.column for named inputs; unknown names => error, "
        "never a panic.  non-trivial = contains a join; distinct = distinct command lists")
RULE = RULE + ('  Unknown column names are also placed underneath NOT, unary minus, bit inversion and inside AND / OR.')
ASSUMPTIONS = ["the cfb container is modelled as a name -> bytes map (DESIGN 2.3)"]

A_COLS = [mk("K", "i16", pk=True), mk("V", ("str", 8), null=True)]
B_COLS = [mk("K", "i16", pk=True), mk("W", "i16", null=True)]


def col(n):
    return ("col", n)


def eq(a, b):
    return ("bin", "eq", a, b)


# ---- select trees as python tuples: ("sel", from, names, cond); from = ("t", name) | ("inner"|"left", sel, sel, on)
def T(name):
    return ("sel", ("t", name), [], None)


def enc_sel(s):
    _, fr, names, cond = s
    if fr[0] == "t":
        f = "(t %s)" % X.enc_str(fr[1])
    else:
        f = "(%s %s %s %s)" % (fr[0], enc_sel(fr[1]), enc_sel(fr[2]), X.enc_expr(fr[3]))
    return "(sel %s (%s) %s)" % (f, " ".join(X.enc_str(n) for n in names), G.enc_cond(cond))


class RefErr(Exception):
    pass


def ref_select(s, tables, rows):
    """-> (table name, column names, nullable flags, rows)"""
    _, fr, names, cond = s
    if fr[0] == "t":
        if fr[1] not in tables:
            raise RefErr("unknown table")
        tn, cn, nl, rs = fr[1], [c["name"] for c in tables[fr[1]]], [bool(c["null"]) for c in tables[fr[1]]], rows[fr[1]]
        if not isinstance(rs, list):
            raise RefErr("rows unavailable")
    else:
        n1, c1, l1, r1 = ref_select(fr[1], tables, rows)
        n2, c2, l2, r2 = ref_select(fr[2], tables, rows)
        q1 = [(n1 + "." + c if n1 else c) for c in c1]
        q2 = [(n2 + "." + c if n2 else c) for c in c2]
        tn, cn = "", q1 + q2
        nl = l1 + ([True] * len(l2) if fr[0] == "left" else l2)      # right-hand columns of a left join are nullable
        check_names(cn, expr_cols(fr[3]))
        rs = []
        for a in r1:
            matched = [a + b for b in r2 if X.truthy(X.ref_eval(fr[3], list(zip(cn, a + b))))]
            if not matched and fr[0] == "left":
                matched = [a + [None] * len(c2)]
            rs.extend(matched)
    check_names(cn, names)
    if cond is not None:
        check_names(cn, expr_cols(cond))
        rs = [r for r in rs if X.truthy(X.ref_eval(cond, list(zip(cn, r))))]
    if names:
        idx = [cn.index(n) for n in names]
        return "", list(names), [nl[i] for i in idx], [[r[i] for i in idx] for r in rs]
    return tn, cn, nl, rs


def expr_cols(e):
    if e[0] == "col":
        return [e[1]]
    if e[0] == "lit":
        return []
    if e[0] == "un":
        return expr_cols(e[2])
    if e[0] == "bin":
        return expr_cols(e[2]) + expr_cols(e[3])
    return expr_cols(e[1]) + expr_cols(e[2])


def check_names(have, want):
    for n in want:
        if n not in have:
            raise RefErr("unknown column " + n)


def contents(rng):
    a = [[[k, v] for k, v in c] for c in [[], [(1, "x")], [(1, "x"), (2, None)], [(1, "b"), (2, "b"), (3, "")]]]
    b = [[[k, w] for k, w in c] for c in [[], [(1, 1)], [(2, None), (3, 2)], [(1, 2), (2, 2), (5, 1)]]]
    return rng.choice(a), rng.choice(b)


def join_conditions():
    return [eq(col("A.K"), col("B.K")), eq(col("A.K"), col("B.W")), ("bin", "lt", col("A.K"), col("B.K")),
            ("lit", 0), ("lit", 1), eq(col("A.V"), ("lit", "b")), eq(col("A.Nope"), col("B.K")), eq(col("K"), col("B.K")),
            ("and", eq(col("A.K"), col("B.K")), ("un", "not", col("B.W"))),
            # an unknown name wherever it sits in the condition: under NOT, unary minus, bit inversion, inside AND / OR
            ("un", "not", eq(col("A.K"), col("B.Nope"))), ("un", "neg", col("B.Nope")), ("un", "bitnot", col("Nope")),
            ("or", ("lit", 1), ("un", "not", col("A.Nope"))), ("and", ("lit", 0), ("bin", "add", col("A.K"), ("un", "neg", col("Nope.K")))),
            ("un", "not", ("un", "not", col("B.W")))]


def trees(depth, rng, full):
    """a structured family of select trees"""
    out = [T("A"), T("B"), T("Nope"),
           ("sel", ("t", "A"), ["V", "K"], None), ("sel", ("t", "A"), [], eq(col("K"), ("lit", 2))),
           ("sel", ("t", "A"), ["Nope"], None), ("sel", ("t", "A"), [], eq(col("Nope"), ("lit", 2))),
           ("sel", ("t", "A"), [], ("un", "not", col("Nope"))), ("sel", ("t", "A"), ["K"], ("un", "neg", col("A.K"))),
           ("sel", ("t", "A"), ["V"], ("bin", "gt", col("K"), ("lit", 1)))]
    for kind in ("inner", "left"):
        for on in join_conditions():
            out.append(("sel", (kind, T("A"), T("B"), on), [], None))
        on = eq(col("A.K"), col("B.K"))
        j = (kind, T("A"), T("B"), on)
        out.append(("sel", j, ["B.W", "A.K"], None))
        out.append(("sel", j, [], ("un", "not", col("B.W"))))
        out.append(("sel", j, ["A.V"], ("bin", "ge", col("B.K"), ("lit", 2))))
        out.append(("sel", j, ["Nope"], None))
        out.append(("sel", j, [], eq(col("W"), ("lit", 1))))
        out.append(("sel", j, [], ("un", "not", col("B.Nope"))))
        out.append(("sel", j, ["A.K"], ("un", "bitnot", ("un", "neg", col("Nope")))))
        # operands that are filtered / projected sub-selects (projected ones are anonymous: unqualified names)
        out.append(("sel", (kind, ("sel", ("t", "A"), [], ("bin", "gt", col("K"), ("lit", 1))), T("B"), on), [], None))
        out.append(("sel", (kind, ("sel", ("t", "A"), ["K"], None), T("B"), eq(col("K"), col("B.K"))), [], None))
        out.append(("sel", (kind, ("sel", ("t", "A"), ["K"], None), T("B"), eq(col("A.K"), col("B.K"))), [], None))
        out.append(("sel", (kind, T("A"), ("sel", ("t", "B"), ["W"], None), eq(col("A.K"), col("W"))), [], None))
        # self join: both sides named A
        out.append(("sel", (kind, T("A"), T("A"), eq(col("A.K"), col("A.K"))), [], None))
        out.append(("sel", (kind, T("A"), T("Nope"), on), [], None))
    if depth >= 2:
        ab = ("sel", ("inner", T("A"), T("B"), eq(col("A.K"), col("B.K"))), [], None)
        lab = ("sel", ("left", T("A"), T("B"), eq(col("A.K"), col("B.K"))), [], None)
        for kind in ("inner", "left"):
            for inner in (ab, lab):
                out.append(("sel", (kind, inner, T("B"), eq(col("A.K"), col("B.K"))), [], None))
                out.append(("sel", (kind, inner, T("A"), eq(col("B.W"), col("A.K"))), [], None))
                out.append(("sel", (kind, T("B"), inner, eq(col("B.K"), col("A.K"))), ["A.V", "B.K"], None))
                out.append(("sel", (kind, inner, inner, eq(col("A.K"), col("B.W"))), [], ("un", "not", col("A.V"))))
    return out


def random_tree(rng, depth):
    if depth == 0 or rng.random() < 0.3:
        base = rng.choice(["A", "B"])
        s = T(base)
        if rng.random() < 0.3:
            cn = ["K", "V"] if base == "A" else ["K", "W"]
            s = ("sel", ("t", base), rng.sample(cn, rng.randint(1, 2)) if rng.random() < 0.5 else [],
                 X.random_expr(rng, 1, cn, [None, 0, 1, 2, "b", ""], 0.7) if rng.random() < 0.6 else None)
        return s
    a, b = random_tree(rng, depth - 1), random_tree(rng, depth - 1)
    names = ["A.K", "A.V", "B.K", "B.W", "K", "V", "W"]
    on = X.random_expr(rng, 1, names, [None, 0, 1, 2, "b"], 0.8)
    s = ("sel", (rng.choice(["inner", "left"]), a, b, on), [], None)
    if rng.random() < 0.3:
        s = ("sel", s[1], rng.sample(names, rng.randint(1, 3)), None)
    if rng.random() < 0.3:
        s = ("sel", s[1], s[2], X.random_expr(rng, 1, names, [None, 0, 1, "b"], 0.8))
    return s


def gen_cases(rng, tier, info):
    cases = []
    depth = 2
    n_contents = 6 if tier == "quick" else 16
    fam = trees(depth, rng, tier == "thorough")
    for j in range(n_contents):
        a, b = contents(rng) if j else ([[1, "b"], [2, "b"], [3, ""]], [[1, 2], [2, 2], [5, 1]])
        h = G.History(rng, j % 3)
        h.add_table("A", [dict(c) for c in A_COLS])
        h.add_table("B", [dict(c) for c in B_COLS])
        if a:
            h.insert("A", rows=a)
        if b:
            h.insert("B", rows=b)
        if j % 2:
            h.reopen()
        h.obs()
        for s in fam:
            h.cmds.append("(select %s)" % enc_sel(s))
        cases.append(Case("family-%d" % j, h.cmds))
    # dots are legal in table and column names: result columns are always table + "." + column, whatever the names contain
    for j in range(3):
        h = G.History(rng, j)
        h.add_table("Item", [mk("Id", "i16", pk=True), mk("Owner.Id", "i16", null=True)])
        h.add_table("Owner", [mk("Id", "i16", pk=True), mk("Name", ("str", 8), null=True)])
        h.insert("Item", rows=[[1, 10], [2, 20], [3, None]])
        h.insert("Owner", rows=[[10, "ann"], [20, "bob"], [30, "cy"]])
        if j == 1:
            h.reopen()
        h.obs()
        I, O = T("Item"), T("Owner")
        for kind in ("inner", "left"):
            on = eq(col("Item.Owner.Id"), col("Owner.Id"))
            h.cmds.append("(select %s)" % enc_sel(("sel", (kind, I, O, on), [], None)))
            h.cmds.append("(select %s)" % enc_sel(("sel", (kind, I, O, on), ["Item.Owner.Id", "Owner.Name", "Item.Id"], None)))
            h.cmds.append("(select %s)" % enc_sel(("sel", (kind, O, I, eq(col("Owner.Id"), col("Item.Owner.Id"))), ["Owner.Id", "Item.Owner.Id"], None)))
            h.cmds.append("(select %s)" % enc_sel(("sel", (kind, I, O, eq(col("Owner.Id"), col("Item.Id"))), [], eq(col("Item.Owner.Id"), ("lit", 10)))))
        h.cmds.append("(select %s)" % enc_sel(("sel", ("t", "Item"), ["Owner.Id"], None)))
        cases.append(Case("dotted-%d" % j, h.cmds))
    n_rand = 60 if tier == "quick" else 1500
    for j in range(n_rand):
        a, b = contents(rng)
        h = G.History(rng, 0)
        h.add_table("A", [dict(c) for c in A_COLS])
        h.add_table("B", [dict(c) for c in B_COLS])
        if a:
            h.insert("A", rows=a)
        if b:
            h.insert("B", rows=b)
        h.obs()
        for _ in range(8):
            h.cmds.append("(select %s)" % enc_sel(random_tree(rng, rng.choice([1, 2, 2, 3]))))
        cases.append(Case("rand-%d" % j, h.cmds))
    info.update({"family_trees": len(fam), "contents": n_contents, "random_cases": n_rand, "depth": depth})
    return cases


def nontrivial(case):
    return any("(inner " in c or "(left " in c for c in case.cmds)


def sx_to_sel(sx):
    fr = sx[1]
    if fr[0] == "t":
        f = ("t", "".join(map(chr, fr[1])))
    else:
        from props.c13 import sx_to_expr
        f = (fr[0], sx_to_sel(fr[1]), sx_to_sel(fr[2]), sx_to_expr(fr[3]))
    return ("sel", f, ["".join(map(chr, n)) for n in sx[2]], G.sx_to_cond(sx[3]))


def oracle(ctx):
    bad = []
    for c, outs in zip(ctx.cases, ctx.impl_out):
        snap = None
        for i, (cmd, o) in enumerate(zip(c.cmds, outs)):
            if cmd == "(snapshot)":
                snap = G.parse_snapshot(o)
                continue
            if not cmd.startswith("(select ") or snap is None:
                continue
            if o in ("panic", "abort", "timeout"):
                bad.append({"kind": "panic", "what": "%s on %s" % (o, cmd[:200]), "cmds": c.cmds[:i + 1], "impl": o})
                continue
            s = sx_to_sel(X.parse_sx(cmd)[1])
            try:
                _, cn, nl, rs = ref_select(s, snap["tables"], snap["rows"])
                want = (list(zip(cn, nl)), rs)
            except RefErr:
                want = "err"
            if o.startswith("(len_mismatch"):
                bad.append({"kind": "select", "what": "Rows::len() disagrees with the rows yielded: %s" % o, "cmds": c.cmds[:i + 1], "impl": o})
                continue
            if o == "err":
                got = "err"
            else:
                try:
                    p = X.parse_sx(o)[1]
                    got = ([(G.dec_col(x)["name"], bool(G.dec_col(x)["null"])) for x in p[0]], G.dec_rows(p[1]))
                except Exception:
                    got = o
            nn = lambda w: w if w == "err" or not isinstance(w, tuple) else (w[0], [[None if v == "" else v for v in r] for r in w[1]])
            if nn(got) != nn(want):
                bad.append({"kind": "select", "what": "%s returned %r; the documented combination is %r" % (cmd[:160], got if got == "err" else (got[0], got[1][:4]), want if want == "err" else (want[0], want[1][:4])),
                            "cmds": c.cmds[:i + 1], "impl": o[:300]})
    return bad
