"""C19 -- printed queries mean what the query objects mean (expr.rs, query.rs Display)."""
import itertools
from orchestrate import Case
import exprgen as X

RULE = ("expressions: every (parent operator, child operator, side) combination over the 15 binary operators, AND, OR and "
        "the 3 unary operators with column leaves (so nothing folds), the same with a literal leaf, all three-level chains "
        "over a reduced operator set (thorough), random trees to depth 4 with escape-free literals; the implementation's "
        "to_string() is lexed and parsed by the extracted ladder parser and compared with the tree that was built; "
        "non-trivial = at least two operators; distinct = distinct commands")
ASSUMPTIONS = ["the text<->token step (lexer) is validated by the correspondence, not proved",
               "the ladder (Ladder.v) is the spec: precedence of examples/msiquery.pest with ^ between | and &, binary operators left-associative"]

OPS2 = [("bin", b) for b in X.BINOPS] + [("and",), ("or",)]
SAFE_LITS = [None, 0, 1, -1, 7, -2147483648, 2147483647, "", "a", "x y", "it's"]


def mk2(op, a, b):
    return ("bin", op[1], a, b) if op[0] == "bin" else (op[0], a, b)


def gen_trees(rng, tier):
    a, b, c = ("col", "a"), ("col", "b"), ("col", "c")
    trees = []
    for p in OPS2:
        for ch in OPS2:
            trees.append(mk2(p, mk2(ch, a, b), c))
            trees.append(mk2(p, a, mk2(ch, b, c)))
        for u in X.UNOPS:
            trees.append(mk2(p, ("un", u, a), b))
            trees.append(mk2(p, a, ("un", u, b)))
    for u in X.UNOPS:
        for ch in OPS2:
            trees.append(("un", u, mk2(ch, a, b)))
        for u2 in X.UNOPS:
            trees.append(("un", u, ("un", u2, a)))
    # literal leaves (negative numbers, strings, null) next to every operator
    for p in OPS2:
        for l in SAFE_LITS:
            trees.append(mk2(p, ("lit", l), a))
            trees.append(mk2(p, a, ("lit", l)))
    for u in X.UNOPS:
        for p in OPS2:
            trees.append(mk2(p, ("un", u, ("col", "a")), ("lit", -5)))
    red = [("bin", "eq"), ("bin", "add"), ("bin", "mul"), ("bin", "sub"), ("bin", "bor"), ("bin", "shl"), ("and",), ("or",)]
    if tier == "thorough":
        for p, q, r in itertools.product(red, repeat=3):
            trees.append(mk2(p, mk2(q, mk2(r, a, b), c), a))
            trees.append(mk2(p, a, mk2(q, b, mk2(r, c, a))))
            trees.append(mk2(p, mk2(q, a, b), mk2(r, c, a)))
            trees.append(mk2(p, ("un", "not", mk2(q, a, b)), mk2(r, c, ("un", "not", a))))
    for _ in range(1500 if tier == "quick" else 40000):
        trees.append(X.random_expr(rng, rng.randint(2, 4), ["a", "b", "c", "T.d"], SAFE_LITS, 0.75))
    return trees


def gen_cases(rng, tier, info):
    trees = gen_trees(rng, tier)
    cmds = []
    for t in trees:
        cmds.append("(expr_text %s)" % X.enc_expr(t))
    cases = [Case("text-%d" % i, cmds[i:i + 300]) for i in range(0, len(cmds), 300)]
    info.update({"expression_trees": len(trees)})
    return cases


def nontrivial(case):
    return True


ROWS = None


def sample_rows():
    global ROWS
    if ROWS is None:
        vals = [None, 0, 1, -1, 2, "a", ""]
        ROWS = [[("a", x), ("b", y), ("c", z), ("T.d", x)] for x in vals for y in vals for z in vals]
    return ROWS


def oracle(ctx):
    bad = []
    items = []
    for c, outs in zip(ctx.cases, ctx.impl_out):
        for cmd, o in zip(c.cmds, outs):
            if not cmd.startswith("(expr_text "):
                continue
            if o in ("panic", "abort", "timeout"):
                bad.append({"what": "printing panicked", "cmds": [cmd], "impl": o})
                continue
            items.append((cmd, o))
    # model: parse the implementation's text with the ladder; and the tree that was built
    q = []
    for cmd, o in items:
        text = X.parse_sx(o)[1]
        q.append("(expr_reparse (%s))" % " ".join(map(str, text)))
        q.append("(expr_ast %s)" % cmd[len("(expr_text "):-1])
    res = ctx.run_model([ctx.Case("reparse", q)])[0] if q else []
    for k, (cmd, o) in enumerate(items):
        reparsed, built = res[2 * k], res[2 * k + 1]
        text = X.dec_str(o[len("(ok "):-1])
        if reparsed == "(ok %s)" % built:
            continue
        if not reparsed.startswith("(ok "):
            bad.append({"what": "printed text %r does not parse with the grammar's ladder (%s)" % (text, reparsed),
                        "cmds": [cmd], "impl": o})
            continue
        # different tree: look for a row on which the meanings differ
        e_sx = cmd[len("(expr_text "):-1]
        r_sx = reparsed[len("(ok "):-1]
        rows = sample_rows()
        ev_impl = ctx.run_impl([ctx.Case("ev", ["(expr_eval %s %s)" % (e_sx, X.enc_row(r)) for r in rows])])[0]
        ev_model = ctx.run_model([ctx.Case("ev", ["(expr_eval_raw %s %s)" % (r_sx, X.enc_row(r)) for r in rows])])[0]
        diff = [(r, i, m) for r, i, m in zip(rows, ev_impl, ev_model) if i != m]
        if diff:
            r, i, m = diff[0]
            bad.append({"what": "text %r read with the grammar's precedence evaluates to %s on row %r, the expression object to %s"
                                % (text, m, r, i), "cmds": [cmd, "(expr_eval %s %s)" % (e_sx, X.enc_row(r))], "impl": o})
        else:
            bad.append({"what": "text %r re-reads as a different tree (no distinguishing row among %d)" % (text, len(rows)),
                        "cmds": [cmd], "impl": o, "weak": True})
    return bad
