"""C19 -- printed queries mean what the query objects mean (expr.rs, query.rs Display)."""
import itertools
from orchestrate import Case
import exprgen as X

RULE = ("queries: the structured family of ~70 select / join trees of C12 plus random trees, INSERT with 0-3 rows of 1-4 literals, "
        "UPDATE with 1-3 assignments, DELETE, each with random WHERE trees: to_string() must equal the transcribed Display "
        "(QueryText.query_text), which is proved to be read back by the grammar as the same query; "
        "expressions: every (parent operator, child operator, side) combination over the 15 binary operators, AND, OR and "
        "the 3 unary operators with column leaves (so nothing folds), the same with a literal leaf, all three-level chains "
        "over a reduced operator set (thorough), random trees to depth 4 with escape-free literals; the implementation's "
        "to_string() is lexed and parsed by the extracted ladder parser and compared with the tree that was built; "
        "non-trivial = at least two operators; distinct = distinct commands")
ASSUMPTIONS = ["the text<->token step (lexer) is validated by the correspondence, not proved",
               "the ladder (Ladder.v) is the spec: precedence of examples/msiquery.pest with ^ between | and &, binary operators left-associative"]

OPS2 = [("bin", b) for b in X.BINOPS] + [("and",), ("or",)]
SAFE_LITS = [None, 0, 1, -1, 7, -2147483648, 2147483647, "", "a", "x y", "it's", "Gr\u00f6\u00dfe", "\u65e5\u672c\u0416", "caf\u00e9 au lait"]


def mk2(op, a, b):
    return ("bin", op[1], a, b) if op[0] == "bin" else (op[0], a, b)


def gen_trees(rng, tier):
    a, b, c = ("col", "a"), ("col", "b"), ("col", "c")
    trees = []
    for p in OPS2:
        for ch in OPS2:
            trees.append(mk2(p, mk2(ch, a, b), c))
            trees.append(mk2(p, a, mk2(ch, b, c)))
        for u in X.UNOPS:
            trees.append(mk2(p, ("un", u, a), b))
            trees.append(mk2(p, a, ("un", u, b)))
    for u in X.UNOPS:
        for ch in OPS2:
            trees.append(("un", u, mk2(ch, a, b)))
        for u2 in X.UNOPS:
            trees.append(("un", u, ("un", u2, a)))
    # literal leaves (negative numbers, strings, null) next to every operator
    for p in OPS2:
        for l in SAFE_LITS:
            trees.append(mk2(p, ("lit", l), a))
            trees.append(mk2(p, a, ("lit", l)))
    for u in X.UNOPS:
        for p in OPS2:
            trees.append(mk2(p, ("un", u, ("col", "a")), ("lit", -5)))
    red = [("bin", "eq"), ("bin", "add"), ("bin", "mul"), ("bin", "sub"), ("bin", "bor"), ("bin", "shl"), ("and",), ("or",)]
    if tier == "thorough":
        for p, q, r in itertools.product(red, repeat=3):
            trees.append(mk2(p, mk2(q, mk2(r, a, b), c), a))
            trees.append(mk2(p, a, mk2(q, b, mk2(r, c, a))))
            trees.append(mk2(p, mk2(q, a, b), mk2(r, c, a)))
            trees.append(mk2(p, ("un", "not", mk2(q, a, b)), mk2(r, c, ("un", "not", a))))
    for _ in range(1500 if tier == "quick" else 40000):
        trees.append(X.random_expr(rng, rng.randint(2, 4), ["a", "b", "c", "T.d"], SAFE_LITS, 0.75))
    return trees


def gen_queries(rng, tier):
    """the four query kinds with identifier names, escape-free literals and conditions from the expression generator"""
    from props import c12
    import pkggen as G
    qs = []
    cond = lambda names: X.random_expr(rng, rng.randint(1, 3), names, SAFE_LITS, 0.7) if rng.random() < 0.8 else None
    for s in c12.trees(2, rng, True):
        qs.append("(query_text %s)" % c12.enc_sel(s))
    for _ in range(150 if tier == "quick" else 4000):
        qs.append("(query_text %s)" % c12.enc_sel(c12.random_tree(rng, rng.choice([1, 2, 3]))))
        t = rng.choice(["T", "Foo", "_Tab1", "a_b"])
        rows = [[rng.choice(SAFE_LITS) for _ in range(rng.randint(1, 4))] for _ in range(rng.randint(0, 3))]
        qs.append("(query_text (insert %s %s))" % (X.enc_str(t), G.enc_rows(rows)))
        ups = [(rng.choice(["A", "B", "Col_3"]), rng.choice(SAFE_LITS)) for _ in range(rng.randint(1, 3))]
        qs.append("(query_text (update %s (%s) %s))" % (X.enc_str(t), " ".join("(%s %s)" % (X.enc_str(c), X.enc_value(v)) for c, v in ups),
                                                        G.enc_cond(cond(["A", "B", "K"]))))
        qs.append("(query_text (delete %s %s))" % (X.enc_str(t), G.enc_cond(cond(["A", "K"]))))
    return qs


DEGENERATE = ["(query_text (update (84) () ()))", "(query_text (update (84) () ((col (75)))))", "(query_text (insert (84) (())))"]


def gen_cases(rng, tier, info):
    trees = gen_trees(rng, tier)
    cmds = []
    for t in trees:
        cmds.append("(expr_text %s)" % X.enc_expr(t))
    cases = [Case("text-%d" % i, cmds[i:i + 300]) for i in range(0, len(cmds), 300)]
    qs = gen_queries(rng, tier)
    cases += [Case("query-%d" % i, qs[i:i + 200], ("query",)) for i in range(0, len(qs), 200)]
    cases.append(Case("degenerate-queries", DEGENERATE, ("query", "degenerate")))
    info.update({"expression_trees": len(trees), "queries": len(qs)})
    return cases


def classify_known(v):
    return "degenerate_query_text" if v.get("kind") == "degenerate_query_text" else None


def grammatical(text):
    """a cheap necessary condition taken from the grammar: AssignmentList and Row need at least one element"""
    import re
    return not re.search(r" SET\s*(WHERE|$)", text) and "VALUES ()" not in text and ", )" not in text and "(, " not in text


def nontrivial(case):
    return True


ROWS = None


def sample_rows():
    global ROWS
    if ROWS is None:
        vals = [None, 0, 1, -1, 2, "a", ""]
        ROWS = [[("a", x), ("b", y), ("c", z), ("T.d", x)] for x in vals for y in vals for z in vals]
    return ROWS


def oracle(ctx):
    bad = []
    items = []
    # queries: the implementation's text must be the text of the Display transcription (QueryText.query_text), for which
    # QueryTextProofs.query_roundtrip shows that the grammar reads it back as the same query
    for c, outs, mouts in zip(ctx.cases, ctx.impl_out, ctx.model_out):
        if "query" not in c.tags:
            continue
        for cmd, o, m in zip(c.cmds, outs, mouts):
            if o in ("panic", "abort", "timeout"):
                bad.append({"kind": "panic", "what": "printing a query panicked", "cmds": [cmd], "impl": o})
                continue
            text = X.dec_str(o[len("(ok "):-1]) if o.startswith("(ok ") else o
            if not grammatical(text):
                bad.append({"kind": "degenerate_query_text", "what": "the query prints as %r, which the grammar cannot read (an empty assignment list / an empty row has no text)" % text,
                            "cmds": [cmd], "impl": o})
                continue
            if o != m:
                mt = X.dec_str(m[len("(ok "):-1]) if m.startswith("(ok ") else m
                bad.append({"kind": "query", "what": "the query prints as %r; the grammar-faithful text of this query object is %r" % (text, mt), "cmds": [cmd], "impl": o})
    for c, outs in zip(ctx.cases, ctx.impl_out):
        for cmd, o in zip(c.cmds, outs):
            if not cmd.startswith("(expr_text "):
                continue
            if o in ("panic", "abort", "timeout"):
                bad.append({"what": "printing panicked", "cmds": [cmd], "impl": o})
                continue
            items.append((cmd, o))
    # model: parse the implementation's text with the ladder; and the tree that was built
    q = []
    for cmd, o in items:
        text = X.parse_sx(o)[1]
        q.append("(expr_reparse (%s))" % " ".join(map(str, text)))
        q.append("(expr_ast %s)" % cmd[len("(expr_text "):-1])
    res = ctx.run_model([ctx.Case("reparse", q)])[0] if q else []
    for k, (cmd, o) in enumerate(items):
        reparsed, built = res[2 * k], res[2 * k + 1]
        text = X.dec_str(o[len("(ok "):-1])
        if reparsed == "(ok %s)" % built:
            continue
        if not reparsed.startswith("(ok "):
            bad.append({"what": "printed text %r does not parse with the grammar's ladder (%s)" % (text, reparsed),
                        "cmds": [cmd], "impl": o})
            continue
        # different tree: look for a row on which the meanings differ
        e_sx = cmd[len("(expr_text "):-1]
        r_sx = reparsed[len("(ok "):-1]
        rows = sample_rows()
        ev_impl = ctx.run_impl([ctx.Case("ev", ["(expr_eval %s %s)" % (e_sx, X.enc_row(r)) for r in rows])])[0]
        ev_model = ctx.run_model([ctx.Case("ev", ["(expr_eval_raw %s %s)" % (r_sx, X.enc_row(r)) for r in rows])])[0]
        diff = [(r, i, m) for r, i, m in zip(rows, ev_impl, ev_model) if i != m]
        if diff:
            r, i, m = diff[0]
            bad.append({"what": "text %r read with the grammar's precedence evaluates to %s on row %r, the expression object to %s"
                                % (text, m, r, i), "cmds": [cmd, "(expr_eval %s %s)" % (e_sx, X.enc_row(r))], "impl": o})
        else:
            bad.append({"what": "text %r re-reads as a different tree (no distinguishing row among %d)" % (text, len(rows)),
                        "cmds": [cmd], "impl": o, "weak": True})
    return bad
