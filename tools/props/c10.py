"""C10 -- summary information survives saving, in every code page (propset.rs, summary.rs)."""
from orchestrate import Case
import exprgen as X
import psdec

RULE_EXTRA = (" Also: a save that FAILS (every write refused from some point on), further summary changes and nothing else, then a save "
              "that succeeds -- the reopened package shows the values last set (a case in which the container crate itself gives up "
              "after the refused writes says nothing and is counted as inconclusive).")
RULE = ("random sequences (6-16 steps) of the ten setters and clearers of SummaryInfo plus set_codepage, for all three package "
        "types; each history uses UTF-8 and one other of the 26 code pages, switching in any order (incl. back to UTF-8), with "
        "strings from that page's repertoire of every length class mod 4 (0-9 characters, multi-byte and single-byte); getters "
        "are compared with an independent shadow record after every step, before and after save/reopen (all three close modes); "
        "the raw SummaryInformation stream of every saved file is parsed by an independent property-set parser "
        "(tools/psdec.py): header, FMTID, 4-aligned offsets pointing at typed values, no overlap, exact section size, values = "
        "getters.  non-trivial = at least one string set under a non-UTF-8 page; distinct = distinct command lists")
RULE = RULE + RULE_EXTRA
ASSUMPTIONS = ["strings are compared after save only when representable in the code page in force at save time (the property's "
               "own caveat); the generator draws strings from the repertoire of the history's page",
               "Python's codecs decode the sample repertoire strings like the Windows code pages (used only to compare the raw "
               "stream's text with the getters)"]
FMTID = bytes([0xe0, 0x85, 0x9f, 0xf2, 0xf9, 0x4f, 0x68, 0x10, 0xab, 0x91, 0x08, 0x00, 0x2b, 0x27, 0xb3, 0xd9])
SAMPLE = {932: "あ漢ｱ", 936: "中文", 949: "한글", 950: "中文", 951: "中文", 1250: "łž", 1251: "жЯ", 1252: "éÿþ€", 1253: "λΩ",
          1254: "ğİ", 1255: "שא", 1256: "عب", 1257: "ąž", 1258: "ơư", 10000: "é∑", 10007: "жЯ", 20127: "az", 28591: "éÿþ",
          28592: "łž", 28593: "ħĉ", 28594: "ąž", 28595: "жЯ", 28596: "عب", 28597: "λΩ", 28598: "שא", 65001: "é漢\U0001F600"}
STR_PROPS = ["title", "subject", "author", "comments", "app"]
PROP_ID = {"title": 2, "subject": 3, "author": 4, "comments": 6, "app": 18, "uuid": 9, "words": 15, "ctime": 12}
TICK = 100


class Shadow:
    def __init__(self, ptype):
        self.cp = 65001
        self.v = {"title": ["Installation Database", "Patch", "Transform"][ptype]}
        self.arch = None
        self.langs = []

    def view(self):
        g = lambda k: self.v.get(k)
        return [self.cp, g("title"), g("subject"), g("author"), g("comments"), g("app"), g("uuid"), g("words"), g("ctime"),
                self.arch, list(self.langs)]


def parse_summary(o):
    sx = X.parse_sx(o)
    s = lambda x: None if x == [] else "".join(map(chr, x[0]))
    return [sx[0], s(sx[1]), s(sx[2]), s(sx[3]), s(sx[4]), s(sx[5]),
            None if sx[6] == [] else list(sx[6][0]), None if sx[7] == [] else sx[7][0], None if sx[8] == [] else sx[8][0],
            s(sx[9]), list(sx[10])]


def text(rng, cp):
    base = SAMPLE[cp] + "aZ 9"
    n = rng.choice([0, 1, 2, 3, 4, 5, 6, 7, 8, 9, 13])
    s = "".join(rng.choice(base) for _ in range(n))
    # text whose stored bytes begin like a byte order mark (EF BB BF, FF FE, FE FF) must come back unchanged
    if rng.random() < 0.12:
        if cp == 65001:
            s = "\ufeff" + s
        elif cp in (1252, 28591):
            s = rng.choice(["\u00ff\u00fe", "\u00fe\u00ff", "\u00ef\u00bb\u00bf"]) + s
    return s


def long_cases(tier):
    """long summary streams: every value position relative to the container's 8 KiB stream buffer and 4,096-byte
    mini-stream cutoff (a value that is read in two pieces must still be read whole): a long comment shifts the
    properties that follow it (creating application, creation time, word count) byte by byte across the boundary"""
    cases = []
    for k, base in enumerate((8192, 4096, 16384)):
        for delta in range(-160, -100, 1 if base == 8192 or tier == "thorough" else 4):
            n = base + delta
            cmds = ["(create %d)" % (k % 3), "(sum_set comments %s)" % X.enc_str("c" * n), "(sum_set ctime 1489862796123456700)",
                    "(sum_set words 305419896)", "(sum_set app %s)" % X.enc_str("application name"), "(sum_get)",
                    "(reopen %s)" % ["flush", "into_inner", "drop"][(k + delta) % 3], "(sum_get)"]
            cases.append(Case("long-%d" % n, cmds, ("long",)))
    return cases


def gen_cases(rng, tier, info):
    cases = []
    n = 90 if tier == "quick" else 2500
    pages = sorted(SAMPLE)
    used = {}
    for j in range(n):
        page = pages[j % len(pages)]
        used[page] = used.get(page, 0) + 1
        cmds = ["(create %d)" % (j % 3), "(sum_get)"]
        RAW = "(raw)" if page in (65001, 20127) else "(x_raw)"      # the model encodes UTF-8 and US-ASCII only
        cur = 65001
        for _ in range(rng.randint(6, 16)):
            r = rng.random()
            if r < 0.18:
                cur = rng.choice([page, page, 65001])
                cmds.append("(sum_set codepage %d)" % cur)
            elif r < 0.3:
                cmds.append("(sum_clear %s)" % rng.choice(STR_PROPS + ["uuid", "words", "ctime", "arch", "langs"]))
            elif r < 0.65:
                # strings must be representable in the page that may be in force at save time
                cmds.append("(sum_set %s %s)" % (rng.choice(STR_PROPS), X.enc_str(text(rng, page))))
            elif r < 0.72:
                cmds.append("(sum_set arch %s)" % X.enc_str(rng.choice(["x64", "Intel", "Arm64", "Intel64", "é" if page in (1252, 65001, 28591) else "q"])))
            elif r < 0.8:
                cmds.append("(sum_set langs (%s))" % " ".join(str(rng.choice([1033, 0, 1036, 65535, 2052])) for _ in range(rng.randint(0, 3))))
            elif r < 0.86:
                cmds.append("(sum_set words %d)" % rng.choice([0, 2, -1, 2**31 - 1, -2**31]))
            elif r < 0.93:
                cmds.append("(sum_set ctime %d)" % rng.choice([0, 1489862796000000000, -14182980000000000, 10**18 + 12345600, 1, 199, -1,
                                                                      -300000000, -14182979875000000, -1700000000, -999999900, -11644473599500000000, 1500000000]))
            else:
                cmds.append("(sum_set uuid (%s))" % " ".join(str(rng.randint(0, 255)) for _ in range(16)))
            cmds.append("(sum_get)")
            if rng.random() < 0.3:
                cmds += ["(reopen %s)" % rng.choice(["flush", "into_inner", "drop"]), RAW, "(sum_get)"]
        cmds += ["(reopen %s)" % ["flush", "into_inner", "drop"][j % 3], RAW, "(sum_get)"]
        cases.append(Case("sum-%d-cp%d" % (j, page), cmds))
    # text whose stored bytes begin like a byte order mark, in every string property, across a reopen in each mode
    for page, marks in ((65001, ["\ufeff"]), (1252, ["\u00ff\u00fe", "\u00fe\u00ff", "\u00ef\u00bb\u00bf"]), (28591, ["\u00ff\u00fe", "\u00fe\u00ff"])):
        for k, mark in enumerate(marks):
            cmds = ["(create %d)" % (k % 3), "(sum_set codepage %d)" % page]
            for prop in STR_PROPS:
                cmds.append("(sum_set %s %s)" % (prop, X.enc_str(mark + "Jane " + prop)))
            cmds += ["(sum_get)", "(reopen %s)" % ["flush", "into_inner", "drop"][k % 3], "(raw)" if page in (65001, 20127) else "(x_raw)", "(sum_get)"]
            cases.append(Case("bom-%d-%d" % (page, k), cmds))
    # strings containing U+0000 (at the end, alone, in the middle, at the start): the length field says where a value ends
    for k, page in enumerate((65001, 1252, 932)):
        cmds = ["(create %d)" % k, "(sum_set codepage %d)" % page]
        vals = ["abc\x00", "\x00", "a\x00b", "\x00abc", "ab\x00\x00", "\x00\x00\x00\x00"]
        for prop, v in zip(STR_PROPS * 2, vals):
            cmds += ["(sum_set %s %s)" % (prop, X.enc_str(v)), "(sum_get)"]
        cmds += ["(reopen %s)" % ["flush", "into_inner", "drop"][k], "(raw)" if page in (65001, 20127) else "(x_raw)", "(sum_get)"]
        cases.append(Case("nul-%d" % page, cmds))
    # a save that fails (every write refused from some point on), further summary edits and nothing else, then a save that
    # succeeds: the reopened package shows the values last set
    for k, (arm, first_save) in enumerate(((0, True), (0, False), (2, True), (3, True), (2, False), (6, True), (4, False), (9, True))):
        cmds = ["(create %d)" % (k % 3), "(sum_set author %s)" % X.enc_str("Ann"), "(sum_set title %s)" % X.enc_str("First")]
        if first_save:
            cmds += ["(flush)", "(sum_set author %s)" % X.enc_str("Bob")]
        cmds += ["(x_arm %d 1)" % arm, "(flush)", "(x_disarm)", "(sum_set codepage 1252)", "(sum_set author %s)" % X.enc_str("Zo\u00e9"),
                 "(sum_set subject %s)" % X.enc_str("Caf\u00e9"), "(sum_clear title)", "(sum_set words 7)", "(sum_get)",
                 "(reopen %s)" % ["flush", "into_inner", "drop"][k % 3], "(x_raw)", "(sum_get)"]
        cases.append(Case("failed-save-%d" % k, cmds, ("impl_only", "failed-save")))
    cases += long_cases(tier)
    # the known finding: an architecture text containing ';'
    cases.append(Case("arch-semicolon", ["(create 0)", "(sum_set langs (1033))", "(sum_set arch %s)" % X.enc_str("x;y"), "(sum_get)"], ("known",)))
    info.update({"histories": n, "histories_per_code_page": used})
    return cases


def nontrivial(case):
    return "cp65001" not in case.name and "cp20127" not in case.name


def classify_known(v):
    return "arch_semicolon" if v.get("kind") == "arch_semicolon" else None


def step_shadow(sh, sx):
    name = sx[0]
    if name == "sum_set":
        p, v = sx[1], sx[2]
        if p == "codepage":
            sh.cp = v
        elif p in STR_PROPS:
            sh.v[p] = "".join(map(chr, v))
        elif p == "arch":
            a = "".join(map(chr, v))
            sh.arch = a if a else None
        elif p == "langs":
            sh.langs = list(v)
        elif p == "words":
            sh.v["words"] = v
        elif p == "ctime":
            sh.v["ctime"] = v
            sh.ctime_exact = False                     # returned to within the format's 100 ns resolution (C18)
        elif p == "uuid":
            sh.v["uuid"] = list(v)
    elif name == "sum_clear":
        p = sx[1]
        if p == "arch":
            sh.arch = None
        elif p == "langs":
            sh.langs = []
        else:
            sh.v.pop(p, None)


def check_raw(o, view):
    """independent parse of the saved summary stream"""
    out = []
    try:
        rsx = X.parse_sx(o)
        entries = {"".join(map(chr, e[0])): bytes(e[1]) for e in rsx if isinstance(e[1], list)}
    except Exception:
        return ["medium unreadable: %s" % o[:60]]
    b = entries.get("\x05SummaryInformation")
    if b is None:
        return ["no SummaryInformation stream in the saved file"]
    try:
        props, cp, problems, hdr = psdec.parse(b)
    except psdec.PsError as e:
        return ["the saved summary stream is not a well-formed property set: %s" % e]
    out += problems
    if hdr["fmtid"] != FMTID:
        out.append("FMTID is not the summary-information format id")
    if cp != view[0]:
        out.append("stream says code page %d, getter says %d" % (cp, view[0]))
    names = ["title", "subject", "author", "comments", "app"]
    for k, want in zip(names, view[1:6]):
        got = props.get(PROP_ID[k])
        gv = None if got is None else got[1]
        if isinstance(gv, bytes):
            continue        # no Python codec: structural checks only
        if gv != want:
            out.append("stream holds %s = %r, getter says %r" % (k, gv, want))
    if (props.get(15) or (0, None))[1] != view[7]:
        out.append("stream holds word count %r, getter says %r" % (props.get(15), view[7]))
    if 12 in props and view[8] is not None:
        ticks = props[12][1]
        if (ticks - 116444736000000000) * 100 != view[8]:
            out.append("stream holds creation time %d ticks, getter says %d ns" % (ticks, view[8]))
    return out


def oracle(ctx):
    bad = []
    inconclusive = []
    for c, outs in zip(ctx.cases, ctx.impl_out):
        sh = None
        last_view = None
        for i, (cmd, o) in enumerate(zip(c.cmds, outs)):
            sx = X.parse_sx(cmd)

            def report(kind, what):
                bad.append({"kind": kind, "what": what, "cmds": c.cmds[:i + 1], "impl": o[:300]})
            if "failed-save" in c.tags and (o in ("panic", "abort", "timeout") or (sx[0] == "reopen" and o != "(ok ())")):
                # how the container crate recovers from refused writes is the dependency's business (its allocator may
                # give up): the case says nothing then.  What is judged is a save that SUCCEEDS after the failed one
                inconclusive.append(c.name)
                break
            if o in ("panic", "abort", "timeout"):
                report("panic", "%s on %s" % (o, cmd))
                break
            if sx[0] == "create":
                sh = Shadow(sx[1])
            elif sx[0] in ("sum_set", "sum_clear"):
                step_shadow(sh, sx)
            elif sx[0] == "reopen":
                if o != "(ok ())":
                    report("reopen", "reopening after summary changes failed (%s)" % o)
                    break
            elif sx[0] in ("raw", "x_raw"):
                for p in check_raw(o, last_view or sh.view()):
                    report("wf", p)
            elif sx[0] == "sum_get":
                try:
                    got = parse_summary(o)
                except Exception:
                    report("panic", "getters unreadable: %s" % o[:80])
                    break
                want = sh.view()
                if not getattr(sh, "ctime_exact", True) and got[8] is not None and want[8] is not None and abs(got[8] - want[8]) < TICK:
                    sh.v["ctime"] = want[8] = got[8]   # from now on the returned tick value must come back exactly
                    sh.ctime_exact = True
                if "known" in c.tags:
                    if got != want:
                        report("arch_semicolon", "set_arch(\"x;y\") then arch() = %r, languages() = %r (expected 'x;y', [1033])" % (got[9], got[10]))
                    continue
                if got != want:
                    names = ["codepage", "title", "subject", "author", "comments", "creating application", "uuid", "word count",
                             "creation time", "arch", "languages"]
                    d = [(n, g, w) for n, g, w in zip(names, got, want) if g != w]
                    report("getter", "getters differ from what was set: %r (got, expected)" % d[:3])
                    break
                last_view = got
        else:
            continue
    ctx.extra_info = {"failed_save_cases_inconclusive": len(inconclusive)}
    return bad
