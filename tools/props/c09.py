"""C09 -- no input file can make the library panic."""
import struct
from orchestrate import Case
import exprgen as X
import pkggen as G
import msienc
import msidec
from pkgspec import mk

RULE = ("(a) structure-aware corruption of valid files built by the independent encoder (tools/msienc.py): every stream in turn "
        "emptied / zeroed / truncated at several points / extended / replaced by noise / removed; catalog cells nulled column "
        "by column; string references replaced by dangling and huge ones; pool header with unknown code page, flipped "
        "reference width, zero refcounts with text, over-long lengths, truncated entries; property set with bad byte-order "
        "mark, version, section offset, property count, offsets out of range, bad type words, string lengths beyond the "
        "stream; wrong CLSID; then on whatever opens: EVERY read operation (tables, columns, rows of every table, a join, "
        "summary getters, streams and their contents; the FFI layer get_information / get_table for every table, reached through its C symbols on a temporary file) and mutating operations (insert, update, delete incl. delete-all, "
        "create_table, drop_table, write_stream, summary change) each followed by flush.  Model and implementation must agree "
        "on ok / err per command and neither may panic.  (b) byte-level damage below the stream level (header, FAT, directory, "
        "sector data; truncation; zeroed runs) of saved packages, judged on the implementation only.  Debug and (thorough) "
        "Release.  non-trivial = the damaged file still opens or fails after the container was parsed; distinct = distinct "
        "command lists")
RULE = RULE + ("  (c) relabelled code pages: the pool header and the summary's code page property set to every supported page (and some unsupported ones) over bytes that are not ASCII.")
ASSUMPTIONS = ["cfb's parser of the sector-level file format is a dependency outside the model: byte-level damage is exercised on "
               "the implementation only", "hangs and memory exhaustion are detected by the driver's time and address-space limits, not by a theorem"]
IMPL_MEM_KB = 3_000_000
DRIVER_TIMEOUT = 900

T_COLS = [mk("K", "i16", pk=True), mk("V", ("str", 8), null=True), mk("N", "i32", null=True)]
U_COLS = [mk("A", ("str", 4), pk=True), mk("B", "i16", null=True)]


def base_entries(rng, long_refs):
    tables = {"T": (T_COLS, [[1, "a", 5], [2, "shared", None], [7, None, -3]]), "U": (U_COLS, [["x", 1], ["shared", None]])}
    clsid, entries, expected = msienc.encode_db(rng, 0, 65001, tables, BASE_SUMMARY, {"Bin": [1, 2, 3]}, long_refs=long_refs)
    return clsid, [(n, bytearray(b)) for n, b in entries]


BASE_SUMMARY = [(2, 30, "Title"), (4, 30, "Ann"), (15, 3, 2), (12, 64, 131000000000000000), (7, 30, "x64;1033"),
                (9, 30, "{12345678-90AB-CDEF-0123-456789ABCDEF}")]
# well-formed property sets whose VALUES are not what the getters expect (uuid(), arch(), languages(), word_count() ...)
ODD_TEXT = ["", "{", "}", "{}", "{{", "}{", "{\u00e9", "{12345678\u00e9", "{" + "F" * 36, "{12345678-90AB-CDEF-0123-456789ABCDE}", "\u00e9",
            ";", ";;", "x;", ";1033", "x;1,2,,3", "x;99999999999", "x;-1", "x;1033;1036", "x;\u00e9", ",", "\x00", "a\x00b"]


def probe_cmds():
    T, U = X.enc_str("T"), X.enc_str("U")
    join = "(select (sel (inner (sel (t %s) () ()) (sel (t %s) () ()) (bin eq (col %s) (col %s))) () ()))" % (T, U, X.enc_str("T.V"), X.enc_str("U.A"))
    return ["(tables)", "(rows)", join, "(select (sel (t %s) (%s) ((bin gt (col %s) (lit (i 0))))))" % (T, X.enc_str("V"), X.enc_str("K")),
            "(sum_get)", "(streams)", "(stream_data)", "(x_ffi_probe)",
            "(insert %s ((%s %s %s)))" % (T, X.enc_value(9), X.enc_value("new"), X.enc_value(1)), "(flush)",
            "(update %s ((%s %s)) ())" % (T, X.enc_str("V"), X.enc_value("upd")), "(flush)",
            "(delete %s ((bin eq (col %s) (lit (i 1)))))" % (T, X.enc_str("K")), "(flush)",
            "(delete %s ())" % U, "(flush)",
            "(create_table %s (%s))" % (X.enc_str("Zz"), G.enc_col(mk("K", "i16", pk=True))), "(flush)",
            "(drop_table %s)" % T, "(flush)", "(write_stream %s (1 2))" % X.enc_str("s"), "(sum_set author %s)" % X.enc_str("b"), "(flush)",
            "(rows)", "(reopen into_inner)", "(rows)"]


def corruptions(rng, entries, long_refs):
    """yield (label, clsid override or None, new entries)"""
    names = [n for n, _ in entries]
    dec = {msidec.decode_name(n)[0] if msidec.decode_name(n)[1] else n: i for i, n in enumerate(names)}

    def with_stream(i, data):
        e = [(n, bytes(b)) for n, b in entries]
        e[i] = (e[i][0], bytes(data))
        return e
    for i, (n, b) in enumerate(entries):
        label = msidec.decode_name(n)[0] if msidec.decode_name(n)[1] else n.replace("\u0005", "^E")
        yield "empty:" + label, None, with_stream(i, b"")
        yield "zero:" + label, None, with_stream(i, bytes(len(b)))
        yield "ones:" + label, None, with_stream(i, b"\xff" * len(b))
        for cut in sorted(set([1, 2, 3, 4, 5, 7, len(b) // 2, max(0, len(b) - 1), max(0, len(b) - 3)])):
            if cut < len(b):
                yield "trunc%d:%s" % (cut, label), None, with_stream(i, b[:cut])
        yield "extend:" + label, None, with_stream(i, bytes(b) + b"\x01\x00\x02")
        yield "noise:" + label, None, with_stream(i, bytes(rng.randint(0, 255) for _ in range(len(b))))
        yield "remove:" + label, None, [(m, bytes(x)) for j, (m, x) in enumerate(entries) if j != i]
        # every 16-bit word in turn set to 0, 0xffff, 0x8000 (cells nulled, references dangling / huge, lengths absurd)
        step = 2 if len(b) <= 400 else max(2, (len(b) // 40) & ~1)
        for off in range(0, max(0, len(b) - 1), step):
            for val in (0, 0xFFFF, 0x8000, 0x7FFF):
                d = bytearray(b)
                d[off:off + 2] = struct.pack("<H", val)
                if d != b:
                    yield "word%d=%x:%s" % (off, val, label), None, with_stream(i, d)
    # a table stream holding more rows than the reader accepts: the file opens, every select on that table is an error
    ui = dec["U"]
    yield "toomanyrows:U", None, with_stream(ui, b"\x01\x80" * 131100)
    # pool header variants
    pi = dec["_StringPool"]
    pb = entries[pi][1]
    for w in (0x12345, 1252 | 0x80000000 if not long_refs else 65001, 0xFFFFFFFF, 0x80000000):
        yield "poolhdr=%x" % w, None, with_stream(pi, struct.pack("<I", w) + bytes(pb[4:]))
    # property set
    si = dec["\u0005SummaryInformation"] if "\u0005SummaryInformation" in dec else names.index("\u0005SummaryInformation")
    sb = entries[si][1]
    for off, fmt, vals in ((0, "<H", (0, 0xFEFF)), (2, "<H", (2, 0xFFFF)), (6, "<H", (3, 0xFFFF)), (24, "<I", (0, 0xFFFFFFFF)),
                           (44, "<I", (0, 47, 49, 0xFFFFFFF0, len(sb))), (48, "<I", (0, 0xFFFFFFFF)),
                           (52, "<I", (0xFFFFFFFF, 1000, 0x10000000))):
        for v in vals:
            d = bytearray(sb)
            d[off:off + struct.calcsize(fmt)] = struct.pack(fmt, v)
            yield "ps@%d=%x" % (off, v), None, with_stream(si, d)
    # string property with an absurd length (allocation sized by an untrusted field)
    idx, nth = bytes(sb).find(struct.pack("<I", 30)), 0
    while idx > 0:
        if idx % 4 == 0:
            for v in (0, 1, 2, 0xFFFFFFFF, 0x7FFFFFFF, 0x100000):
                d = bytearray(sb)
                d[idx + 4:idx + 8] = struct.pack("<I", v)
                yield "pslen%d=%x" % (nth, v), None, with_stream(si, d)
            nth += 1
        idx = bytes(sb).find(struct.pack("<I", 30), idx + 1)
    # odd but well-formed values: every string property in turn, and string properties stored with another type
    for pid in (2, 3, 4, 6, 7, 9, 18):
        for k, txt in enumerate(ODD_TEXT):
            props = [q for q in BASE_SUMMARY if q[0] != pid] + [(pid, 30, txt)]
            yield "psval%d-%d" % (pid, k), None, with_stream(si, msienc.encode_summary(rng, props, 65001))
        for ty, v in ((3, 7), (2, -1), (64, 5), (0, None)):
            props = [q for q in BASE_SUMMARY if q[0] != pid] + [(pid, ty, v)]
            yield "pstype%d-%d" % (pid, ty), None, with_stream(si, msienc.encode_summary(rng, props, 65001))
    for pid, ty, v in ((15, 30, "two"), (12, 30, "now"), (12, 3, 5), (1, 30, "1252"), (1, 3, 1252), (15, 2, -1)):
        props = [q for q in BASE_SUMMARY if q[0] != pid] + [(pid, ty, v)]
        yield "pstype%d-%d" % (pid, ty), None, with_stream(si, msienc.encode_summary(rng, props, 65001))
    yield "clsid", [0] * 16, [(m, bytes(x)) for m, x in entries]
    yield "clsid2", list(range(16)), [(m, bytes(x)) for m, x in entries]


def gen_cases(rng, tier, info):
    cases = []
    kinds = {}
    probes = probe_cmds()
    for long_refs in (False, True):
        clsid, entries = base_entries(rng, long_refs)
        cases.append(Case("valid-%d" % long_refs, [msienc.enc_open_raw(clsid, [(n, bytes(b)) for n, b in entries])] + probes, ("valid",)))
        allc = list(corruptions(rng, entries, long_refs))
        if tier == "quick":
            # keep every corruption of the small catalog / pool / summary streams, sample the word sweeps
            allc = [c for j, c in enumerate(allc) if not c[0].startswith("word") or j % 5 == 0]
        for label, cl, ents in allc:
            kinds[label.split(":")[0].split("=")[0].rstrip("0123456789@")] = kinds.get(label.split(":")[0].split("=")[0].rstrip("0123456789@"), 0) + 1
            cases.append(Case("%s-%d" % (label, long_refs), [msienc.enc_open_raw(cl or clsid, ents)] + probes, ("struct",)))
    # well-formed files with odd but legal catalog contents: a value range whose minimum exceeds its maximum, a range of
    # one value, a range over the whole 32-bit domain -- every probe (incl. INSERT / UPDATE of integers) must answer
    for k, r in enumerate(((10, 1), (7, 7), (-2**31 + 1, 2**31 - 1), (2**31 - 1, -2**31 + 1))):
        t_cols = [mk("K", "i16", pk=True, rng=r if k % 2 else None), mk("V", ("str", 8), null=True), mk("N", "i32", null=True, rng=r)]
        tables = {"T": (t_cols, [[1, "a", None], [2, "shared", None]]), "U": (U_COLS, [["x", 1]])}
        clsid, ents, _ = msienc.encode_db(rng, 0, 65001, tables, BASE_SUMMARY, {}, long_refs=False)
        cases.append(Case("oddrange-%d" % k, [msienc.enc_open_raw(clsid, ents)] + probes +
                          ["(update %s ((%s %s)) ())" % (X.enc_str("T"), X.enc_str("N"), X.enc_value(5)), "(flush)", "(rows)"], ("struct",)))
    # text stored under one code page while the file names another: the pool header and the summary's code page
    # property relabelled to every supported page (and a few unsupported ones) over bytes that are not ASCII -- whatever
    # the label, the bytes decode to something (replacement characters) or the file is refused; nothing panics
    import psdec
    tables = {"T": (T_COLS, [[1, "\u00e9\u6f22", 5], [2, "shared", None], [7, "\u00ff\u00fe", -3]]), "U": (U_COLS, [["\u00fc", 1], ["shared", None]])}
    summ = [(2, 30, "T\u00eftle \u6f22"), (4, 30, "Ann\u00e9"), (6, 30, "\u00ff"), (15, 3, 2), (7, 30, "x64;1033")]
    pages = sorted(k for k in psdec.PY_CODEC if k) + [437, 1200, 12000, 54936, 65000]
    for cp in pages:
        clsid, ents, _ = msienc.encode_db(rng, 0, 65001, tables, summ, {}, long_refs=False)
        ents = [(n, bytearray(b)) for n, b in ents]
        names = [n for n, _ in ents]
        pi = [i for i, n in enumerate(names) if msidec.decode_name(n)[1] and msidec.decode_name(n)[0] == "_StringPool"][0]
        si = names.index("\u0005SummaryInformation")
        relabelled = [(n, bytes(b)) for n, b in ents]
        relabelled[pi] = (names[pi], struct.pack("<I", cp) + bytes(ents[pi][1][4:]))
        cases.append(Case("relabel-pool-%d" % cp, [msienc.enc_open_raw(clsid, relabelled).replace("(open_raw", "(x_open_raw", 1)] + probes, ("relabel", "impl_only")))
        relabelled = [(n, bytes(b)) for n, b in ents]
        relabelled[si] = (names[si], msienc.encode_summary(rng, [(1, 2, cp - 0x10000 if cp >= 0x8000 else cp)] + summ, 65001))
        cases.append(Case("relabel-summary-%d" % cp, [msienc.enc_open_raw(clsid, relabelled).replace("(open_raw", "(x_open_raw", 1)] + probes, ("relabel", "impl_only")))
    # byte-level damage below the stream level (implementation only)
    n_hist = 6 if tier == "quick" else 40
    per = 120 if tier == "quick" else 1500
    for j in range(n_hist):
        h = G.History(rng, j % 3, observe=None)
        h.add_table()
        for _ in range(rng.randint(3, 8)):
            h.random_op({"bogus": 0, "select": 0, "reopen": 0, "stream": 0.6})
        h.cmds.append("(flush)")
        for i in range(per):
            h.cmds.append("(x_mutate_open %d %d %d)" % (rng.randrange(1 << 30), rng.choice([1, 1, 2, 4, 16]), rng.choice([0, 0, 0, 1, 2, 3])))
        cases.append(Case("bytes-%d" % j, h.cmds, ("bytes",)))
    info.update({"structure_aware_corruptions": len([c for c in cases if "struct" in c.tags]), "by_kind": kinds,
                 "byte_level_mutations": n_hist * per})
    return cases


def nontrivial(case):
    return True


def classify_known(v):
    return v.get("known_class")


def oracle(ctx):
    bad = []
    opened = failed = 0
    for c, outs in zip(ctx.cases, ctx.impl_out):
        for i, (cmd, o) in enumerate(zip(c.cmds, outs)):
            if o.startswith("(panic "):
                # byte-level damage: the panic site tells rust-msi from its dependencies
                site = o[len("(panic "):-1]
                f = {"kind": "panic", "what": "%s: damaged file makes the library panic at %s (%s)" % (c.name, site, cmd),
                     "cmds": [x for x in c.cmds[:i + 1] if not x.startswith("(x_mutate_open")] + [cmd], "impl": o}
                if site.startswith("cfb-") and site.endswith("internal_minialloc.rs"):
                    f["known_class"] = "cfb_minialloc_panic"
                bad.append(f)
                continue
            if o in ("panic", "abort", "timeout") or "panic" in o.split()[:1]:
                what = {"panic": "panicked", "abort": "aborted (crash, stack overflow or memory exhaustion)", "timeout": "hung"}.get(o, "panicked")
                cmds = [x if len(x) < 6000 else x[:6000] + " ...)" for x in c.cmds[:i + 1]]
                bad.append({"kind": "panic", "what": "%s: the library %s on %s" % (c.name, what, cmd[:100]), "cmds": cmds, "impl": o[:100]})
                break
            if "(rows)" == cmd and "panic" in o:
                bad.append({"kind": "panic", "what": "%s: reading the rows of a table panicked" % c.name, "cmds": c.cmds[:i + 1] if len(c.cmds[0]) < 6000 else c.cmds[1:i + 1], "impl": o[:300]})
                break
        if c.tags and c.tags[0] == "struct":
            if outs[0] == "(ok ())":
                opened += 1
            else:
                failed += 1
        if c.tags and c.tags[0] == "valid" and outs[0] != "(ok ())":
            bad.append({"kind": "reference", "what": "the undamaged encoded file does not open", "cmds": c.cmds[:1], "impl": outs[0]})
    ctx.extra_info = {"damaged_files_that_opened": opened, "damaged_files_rejected": failed}
    return bad
