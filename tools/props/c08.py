"""C08 -- saved files are well-formed MSI databases with exact string accounting."""
from orchestrate import Case
import exprgen as X
import pkggen as G
from pkgspec import mk

RULE = ("the raw streams of the medium after flush at every prefix of random histories (inserts, updates, deletes freeing "
        "and reusing pool slots, drop_table on tables that still hold rows, strings shared between user tables and the "
        "catalog tables, strings longer than 64 KiB in thorough), decoded by an independent decoder of the format (msidec.py): "
        "whole column-major rows, offset-binary integers, live references, catalog completeness, refcount = number of "
        "referring cells over ALL tables, unused entries empty, no live empty entry, no text beyond the pool entries; "
        "non-trivial = the history frees at least one string; distinct = distinct command lists")
ASSUMPTIONS = ["the database code page is UTF-8 or one of four single-byte pages (1251, 1252, 1253, ISO 8859-2) in this check; the multi-byte pages are exercised by C01/C14 on the implementation only"]
KINDS = {"wf", "panic", "raw"}


def decode(cp, raw):
    import psdec
    return raw.decode("utf-8", "replace") if cp in (0, 65001) else raw.decode(psdec.PY_CODEC.get(cp, "latin-1"), "replace")


SB_PAGES = {1252: "\u00e9\u00ff\u20ac\u00bf", 1251: "\u0436\u042f\u0451", 28592: "\u0142\u017e", 1253: "\u03bb\u03a9"}


def gen_cases(rng, tier, info):
    cases = []
    n = 80 if tier == "quick" else 2000
    for j in range(n):
        h = G.History(rng, rng.choice([0, 1, 2]), observe=None)
        sb = None
        if j % 4 == 3:
            # a single-byte database code page with text from its repertoire: lengths and offsets in the pool are those
            # of the ENCODED text
            sb = sorted(SB_PAGES)[(j // 4) % len(SB_PAGES)]
            rep = SB_PAGES[sb]
            G.REP = lambda ch, rep=rep: ch if ord(ch) < 128 else rep[ord(ch) % len(rep)]
            h.cmds.append("(set_db_cp %d)" % sb)
            h.db.db_cp = sb
        h.add_table("T", kind="intkey")
        h.add_table("Shared", [mk("K", ("str", 20), pk=True), mk("V", ("str", 0), null=True)])
        # strings shared with the catalog ("T", "K", "Name", "Y" ...) and between tables
        h.insert("Shared", rows=[["T", "K"], ["Name", "Table"], ["Y", "shared"], ["shared", "Y"]])
        h.flush(); h.raw()
        for _ in range(rng.randint(5, 14)):
            r = rng.random()
            if r < 0.15 and len(h.table_names()) > 1:
                victim = rng.choice(h.table_names())
                h.drop_table(victim)            # often still holds rows
            else:
                h.random_op({"bogus": 0.1, "reopen": 0.3, "select": 0, "stream": 0.2, "delete": 2.5})
            h.flush(); h.raw()
        if tier == "thorough" and rng.random() < 0.2:
            h.add_table("Big", [mk("K", "i16", pk=True), mk("V", ("str", 0), null=True)])
            h.insert("Big", rows=[[1, "L" * 70000], [2, "L" * 70000]])
            h.flush(); h.raw()
            h.delete("Big", cond=("bin", "eq", ("col", "K"), ("lit", 1)))
            h.flush(); h.raw()
        h.reopen(); h.flush(); h.raw()
        G.REP = None
        cases.append(Case("wf-%d%s" % (j, "-cp%d" % sb if sb else ""), h.cmds))
    for name, h in G.scenario_histories(rng, raw=True):
        cases.append(Case("scn-" + name, h.cmds))
    # strings of exactly 65,534 / 65,535 / 65,536 / 65,537 encoded bytes: one pool record up to 65,535, two from 65,536 on
    for j, n in enumerate((65534, 65535, 65536, 65537)):
        h = G.History(rng, j % 3, observe=None)
        h.add_table("Big", [mk("K", "i16", pk=True), mk("V", ("str", 0), null=True)])
        h.insert("Big", rows=[[1, "L" * n], [2, "after"]])
        h.flush(); h.raw()
        h.delete("Big", cond=("bin", "eq", ("col", "K"), ("lit", 1)))
        h.flush(); h.raw(); h.reopen(); h.flush(); h.raw()
        cases.append(Case("boundary-%d" % n, h.cmds))
    # packages WITHOUT a _Validation table (foreign files): dropping a table must still remove its _Tables / _Columns rows
    # and release their strings
    import msienc
    from props import c02
    for j in range(6 if tier == "quick" else 120):
        tables = {"Keep": ([mk("K", "i16", pk=True), mk("V", ("str", 0), null=True)], [[1, "kept"], [2, "shared"]]),
                  "Gone": ([mk("Id", "i16", pk=True), mk("Name", ("str", 0), null=True)], [[1, "Gizmo"], [2, "shared"]])}
        opts = dict(long_refs=(j % 2 == 1), holes=0, dups=0, overcount=0, stale=0, validation=False, shuffle_catalog=False,
                    odd_int_sizes=False, layout="plain")
        clsid, entries, expected = msienc.encode_db(rng, j % 3, 65001, tables, [(2, 30, "t")], {}, **opts)
        db = c02.start_db(j % 3, 65001, tables, {}, opts, expected)
        h = G.History(rng, j % 3, observe=None)
        h.db = db.clone()
        h.cmds = [msienc.enc_open_raw(clsid, entries)]
        h.flush(); h.raw()
        if j % 3 == 1:
            h.add_table("New", [mk("K", "i16", pk=True), mk("S", ("str", 0), null=True)])
            h.insert("New", rows=[[1, "fresh"], [2, "Gizmo"]])
            h.flush(); h.raw()
        h.drop_table("Gone" if j % 3 != 2 else "Keep")
        h.flush(); h.raw()
        if j % 3 == 1:
            h.drop_table("New")
            h.flush(); h.raw()
        h.reopen()
        h.flush(); h.raw()
        c = Case("nv-%d" % j, h.cmds)
        c.start_db = db
        cases.append(c)
    info.update({"histories": n})
    return cases


def nontrivial(case):
    return any(c.startswith("(delete") or c.startswith("(drop_table") or c.startswith("(update") for c in case.cmds)


def oracle(ctx):
    bad = []
    for c, outs in zip(ctx.cases, ctx.impl_out):
        for f in G.walk(c.cmds, outs, decode=decode, start_db=getattr(c, "start_db", None)):
            if f["kind"] in KINDS:
                bad.append(f)
                break
    return bad
