"""C05 -- stored tables always keep unique, ordered keys and valid cells (query.rs, column.rs, table.rs)."""
from orchestrate import Case
import exprgen as X
import pkggen as G
from pkgspec import mk

RULE = ("histories that stress keys: updates assigning primary-key columns to a constant (several rows collide), to values "
        "that change the order, with and without WHERE; batch inserts in descending / duplicate key order; delete/insert "
        "cycles; composite keys with null and empty-string parts; the invariant (strictly ascending keys, every cell valid "
        "for its column) is evaluated on the implementation's own rows after every step and after every reopen; "
        "non-trivial = at least one key-assigning update or batch insert; distinct = distinct command lists")
ASSUMPTIONS = []
KINDS = {"invariant", "panic", "reopen"}


def gen_cases(rng, tier, info):
    cases = []
    n = 120 if tier == "quick" else 3000
    key_updates = 0
    for j in range(n):
        h = G.History(rng, rng.choice([0, 1, 2]))
        kind = rng.choice(["intkey", "composite", "strkey", "widerange", "pklast", "pkgap", "i32key"])
        t = h.add_table("T", kind=kind)
        cols = h.db.cols_of(t)
        pk = [c for c in cols if c["pk"]]
        for _ in range(rng.randint(6, 18)):
            r = rng.random()
            if r < 0.3:
                rows = [[G.gen_value(rng, c, 0.02) for c in cols] for _ in range(rng.randint(1, 5))]
                if rng.random() < 0.5:
                    rows.sort(key=lambda x: [X.vkey(v) for v in x], reverse=True)
                h.insert(t, rows=rows)
            elif r < 0.65:
                # assign key columns
                ups = [(c["name"], G.gen_value(rng, c, 0.0)) for c in rng.sample(pk, rng.randint(1, len(pk)))]
                if rng.random() < 0.3:
                    other = rng.choice(cols)
                    ups.append((other["name"], G.gen_value(rng, other, 0.0)))
                cond = None if rng.random() < 0.4 else G.gen_cond(rng, cols)
                h.update(t, ups=ups, cond=cond)
                key_updates += 1
            elif r < 0.8:
                h.delete(t)
            elif r < 0.9:
                h.update(t)
            else:
                h.reopen()
            h.obs()
        h.reopen()
        h.obs()
        cases.append(Case("keys-%d" % j, h.cmds))
    for name, h in G.scenario_histories(rng):
        cases.append(Case("scn-" + name, h.cmds))
    # null / empty-string key parts: the format has one value for both, so they must collide as keys
    fam = 0
    for first, second in ((None, ""), ("", None), (None, None), ("", "")):
        for how in ("insert-batch", "insert-after", "update-to", "update-where"):
            h = G.History(rng, 0)
            t = h.add_table("T", kind="composite")          # key (A int, B nullable string), C int
            if how == "insert-batch":
                h.insert(t, rows=[[1, first, 1], [1, second, 2]])
            elif how == "insert-after":
                h.insert(t, rows=[[1, first, 1], [2, "a", 2]]); h.obs()
                h.insert(t, rows=[[1, second, 3]])
            elif how == "update-to":
                h.insert(t, rows=[[1, first, 1], [1, "a", 2], [2, "a", 3]]); h.obs()
                h.update(t, ups=[("B", second)], cond=("bin", "eq", ("col", "C"), ("lit", 2)))
            else:
                h.insert(t, rows=[[1, first, 1], [1, "a", 2], [1, "b", 3]]); h.obs()
                h.update(t, ups=[("B", second), ("C", 9)], cond=("bin", "ge", ("col", "C"), ("lit", 2)))
            h.obs(); h.reopen(); h.obs()
            cases.append(Case("nullkey-%s-%r-%r" % (how, first, second), h.cmds))
            fam += 1
    info.update({"histories": n, "key_assigning_updates": key_updates, "null_or_empty_key_cases": fam})
    return cases


def nontrivial(case):
    return any(c.startswith("(update") for c in case.cmds)


def oracle(ctx):
    bad = []
    for c, outs in zip(ctx.cases, ctx.impl_out):
        for f in G.walk(c.cmds, outs):
            if f["kind"] in KINDS:
                bad.append(f)
                break
    return bad
