"""C04 -- rejected operations change nothing (package.rs, query.rs)."""
from orchestrate import Case
import exprgen as X
import pkggen as G
from pkgspec import mk

RULE = ("in states reached by random valid histories, every kind of invalid call (unknown / invalid / reserved table names, "
        "arity 0..33, invalid values, duplicate keys inside a batch and against the table, key-colliding updates, unknown "
        "columns in SET / WHERE / projections, late-failing column definitions: names of 33-64 characters, ranges containing "
        "i32::MIN, foreign keys that are not identifiers, enumerations joined beyond 255 characters, widths above 255, "
        "enum values with ';'), each followed by a full snapshot, then save + reopen + snapshot; non-trivial = the call "
        "is predicted to be rejected; distinct = distinct command lists")
ASSUMPTIONS = ["the medium never fails in this check (argument errors only)"]
KINDS = {"err-changed", "gate", "panic", "reopen", "wf", "raw"}


def late_failing_defs(rng):
    base = lambda: [mk("K", "i16", pk=True)]
    out = []
    out.append(("T33" + "x" * 30, base()))                                        # table name 33 chars
    out.append(("T" + "y" * 59, base()))                                          # 60 chars: still a valid stream name
    out.append(("Tcol", base() + [mk("c" * 33, "i16", null=True)]))
    out.append(("Tcol64", base() + [mk("d" * 64, ("str", 5), null=True)]))
    out.append(("Tmin", base() + [mk("R", "i32", null=True, rng=(5, -2**31))]))
    out.append(("Tmin2", base() + [mk("R", "i32", null=True, rng=(-2**31, 5))]))
    out.append(("Tfk", base() + [mk("F", "i16", null=True, fk=("not an identifier", 1))]))
    out.append(("Tfk2", base() + [mk("F", "i16", null=True, fk=("Other", 33))]))
    out.append(("Tfk3", base() + [mk("F", "i16", null=True, fk=("Other", 0))]))
    out.append(("Tenum", base() + [mk("E", ("str", 0), null=True, enum=["v%03d" % i + "x" * 10 for i in range(20)])]))
    out.append(("Tw", base() + [mk("W", ("str", 300), null=True)]))
    out.append(("Tw2", base() + [mk("W", ("str", 65535), null=True)]))
    out.append(("Tsemi", base() + [mk("E", ("str", 8), null=True, enum=["a;b", "c"])]))
    out.append(("Tempty", base() + [mk("E", ("str", 8), null=True, enum=["", "c"])]))
    out.append(("Tnopk", [mk("K", "i16")]))
    out.append(("Tdup", base() + [mk("K", "i32")]))
    out.append(("T34", [mk("K", "i16", pk=True)] + [mk("c%d" % i, "i16", null=True) for i in range(33)]))
    out.append(("Tbadcol", base() + [mk("9x", "i16")]))
    out.append(("Tnone", []))
    return out


def invalid_calls(h, rng):
    names = h.table_names()
    t = rng.choice(names) if names else None
    calls = []
    if t:
        cols = h.db.cols_of(t)
        good = [G.gen_value(rng, c, 0.0) for c in cols]
        for arity in (0, 1, len(cols) - 1, len(cols) + 1, 33):
            if arity != len(cols):
                calls.append(("insert", t, [[1] * arity]))
        bad = list(good)
        bad[rng.randrange(len(cols))] = rng.choice(["zzzzzzzzzzzzzzzzzzzzzzzzzzzzzzzzzzzz", 40000, -2**31, "é" * 300])
        calls.append(("insert", t, [good2(rng, cols), bad]))                # last row invalid
        r1 = good2(rng, cols)
        calls.append(("insert", t, [r1, good2(rng, cols), list(r1)]))       # duplicates an earlier row of the batch
        if h.db.tables[t]["rows"]:
            calls.append(("insert", t, [good2(rng, cols), list(h.db.tables[t]["rows"][0])]))   # duplicates a stored row
        pk = [c for c in cols if c["pk"]]
        calls.append(("update", t, [(pk[0]["name"], G.gen_value(rng, pk[0], 0.0))] + [(c["name"], G.gen_value(rng, c, 0.0)) for c in pk[1:]], None))
        calls.append(("update", t, [("Missing", 1)], None))
        calls.append(("update", t, [(cols[0]["name"], "a string in an int column" if cols[0]["type"] != ("str", 0) else 5)], None))
        calls.append(("update", t, [(cols[-1]["name"], G.gen_value(rng, cols[-1], 0.0))], ("bin", "eq", ("col", "Nope"), ("lit", 1))))
        calls.append(("delete", t, ("bin", "eq", ("col", "Nope"), ("lit", 1))))
        calls.append(("select", t, ["Nope"], None))
        calls.append(("select", t, [], ("col", "Nope")))
    # (DML aimed directly at the catalog tables is valid and destructive by design; it is outside the explored space)
    for n in ("Nope", "", "9x", "a b", "_StringPool"):
        calls.append(("insert", n, [[1]]))
        calls.append(("delete", n, None))
        calls.append(("drop", n))
    calls.append(("drop", "_Tables"))
    calls.append(("drop", "_Columns"))
    calls.append(("drop", "_Validation"))
    for tn, cols in late_failing_defs(rng):
        calls.append(("create", tn, cols))
    if names:
        calls.append(("create", rng.choice(names), [mk("K", "i16", pk=True)]))
    for n in ("", "䡀x", "a/b", "a\\b", "a:b", "!", "㠀", "x" * 63):
        calls.append(("wstream", n))
        calls.append(("rstream", n))
        calls.append(("dstream", n))
    calls.append(("rstream", "absent"))
    calls.append(("dstream", "absent"))
    return calls


def good2(rng, cols):
    return [G.gen_value(rng, c, 0.0) for c in cols]


def emit(h, call):
    k = call[0]
    if k == "insert":
        h.insert(call[1], rows=call[2])
    elif k == "update":
        h.update(call[1], ups=call[2], cond=call[3])
    elif k == "delete":
        h.delete(call[1], cond=call[2])
    elif k == "select":
        h.select(call[1], call[2], call[3])
    elif k == "drop":
        h.drop_table(call[1])
    elif k == "create":
        h.add_table(call[1], call[2])
    elif k == "wstream":
        h.write_stream(call[1], [1, 2, 3])
    elif k == "rstream":
        h.cmds.append("(read_stream %s)" % X.enc_str(call[1]))
    elif k == "dstream":
        h.remove_stream(call[1])


def gen_cases(rng, tier, info):
    cases = []
    n = 40 if tier == "quick" else 600
    n_calls = 0
    for j in range(n):
        h = G.History(rng, rng.choice([0, 1, 2]))
        h.add_table(kind=rng.choice(["intkey", "composite", "strkey"]))
        for _ in range(rng.randint(2, 8)):
            h.random_op({"bogus": 0, "reopen": 0.3})
        h.obs()
        calls = invalid_calls(h, rng)
        rng.shuffle(calls)
        for call in calls[: (25 if tier == "quick" else 60)]:
            emit(h, call)
            h.obs()
            n_calls += 1
        # nothing of a rejected call may reach the file either (string pool entries, streams): the saved bytes are
        # compared with the model's and decoded by the independent decoder (exact accounting)
        h.flush(); h.raw()
        h.reopen()
        h.obs()
        cases.append(Case("inv-%d" % j, h.cmds))
    for name, h in G.scenario_histories(rng, raw=True):
        cases.append(Case("scn-" + name, h.cmds))
    # files whose _Validation table describes tables that do not exist (real-world packages describe every standard table
    # there): creating such a table collides with those rows at the LAST of the three catalog inserts -- it must be refused
    # as a whole; dropping an absent table must not touch them either
    import msienc
    from props import c02
    for j in range(6 if tier == "quick" else 60):
        tables = {"Keep": ([mk("K", "i16", pk=True), mk("V", ("str", 0), null=True)], [[1, "kept"], [2, "x"]])}
        ghost_cols = [mk("Id", "i16", pk=True), mk("Name", ("str", 32), null=True, cat="Text"), mk("Extra", "i32", null=True)]
        orphans = [("Ghost", c) for c in ghost_cols[:2]] + [("Phantom", mk("P", "i16", pk=True))]
        opts = dict(long_refs=(j % 2 == 1), holes=0, dups=0, overcount=0, stale=0, validation=True, shuffle_catalog=False,
                    odd_int_sizes=False, layout="plain")
        clsid, entries, expected = msienc.encode_db(rng, j % 3, 65001, tables, [(2, 30, "t")], {}, orphan_validation=orphans, **opts)
        db = c02.start_db(j % 3, 65001, tables, {}, opts, expected)
        h = G.History(rng, j % 3)
        h.db = db.clone()
        h.cmds = [msienc.enc_open_raw(clsid, entries)]
        h.obs()
        variants = [ghost_cols, ghost_cols[:1], [mk("Other", "i16", pk=True)], ghost_cols[1:] + [mk("Z", "i16", pk=True)],
                    [mk("Id", ("str", 8), pk=True)], ghost_cols[::-1]]
        h.add_table("Ghost", variants[j % len(variants)]); h.obs()
        h.drop_table("Phantom"); h.obs()                     # absent: NotFound, and its _Validation row stays
        h.add_table("Phantom", [mk("Q", "i16", pk=True)]); h.obs()   # no colliding column: accepted
        h.drop_table("Phantom"); h.obs()                     # now the orphan row goes with it (DELETE ... WHERE Table = name)
        h.flush(); h.raw()
        h.reopen(); h.obs()
        c = Case("orphan-%d" % j, h.cmds)
        c.start_db = db
        cases.append(c)
    # a table that already holds the 65,536 rows the format allows: an INSERT with new strings is refused, and the saved
    # bytes (string pool included) are the same before and after the refused call (implementation only: bulk)
    T = X.enc_str("Full")
    cases.append(Case("full-table", [
        "(create 0)", "(create_table %s ((col (75) i32 0 0 1 () () () ()) (col (86) (str 0) 0 1 0 () () () ())))" % T,
        "(x_insert_range %s 1 65536 2)" % T, "(x_count %s)" % T, "(flush)", "(x_raw)",
        "(insert %s (((i 70000) (s (108 101 97 107 49))) ((i 70001) (s (108 101 97 107 50)))))" % T,
        "(x_count %s)" % T, "(flush)", "(x_raw)", "(reopen into_inner)", "(x_count %s)" % T], ("impl_only", "bulk")))
    info.update({"histories": n, "invalid_calls": n_calls})
    return cases


def nontrivial(case):
    return True


def oracle(ctx):
    bad = []
    for c, outs in zip(ctx.cases, ctx.impl_out):
        if "bulk" in c.tags:
            raws = [o for cmd, o in zip(c.cmds, outs) if cmd == "(x_raw)"]
            ins = [o for cmd, o in zip(c.cmds, outs) if cmd.startswith("(insert ")]
            cnt = [o for cmd, o in zip(c.cmds, outs) if cmd.startswith("(x_count")]
            if any(o in ("panic", "abort", "timeout") for o in outs):
                bad.append({"kind": "panic", "what": "full-table case: %s" % [o[:30] for o in outs if o in ("panic", "abort", "timeout")][:1], "cmds": c.cmds, "impl": "panic"})
            elif ins and ins[0] == "(ok ())":
                bad.append({"kind": "gate", "what": "an INSERT into a table of 65,536 rows was accepted", "cmds": c.cmds[:7], "impl": ins[0]})
            elif len(raws) == 2 and raws[0] != raws[1]:
                bad.append({"kind": "err-changed", "what": "an INSERT refused because the table is full changed the saved bytes (string pool / streams differ)",
                            "cmds": c.cmds[:10], "impl": "raw streams differ"})
            elif len(set(cnt)) != 1:
                bad.append({"kind": "err-changed", "what": "row count changed around a refused INSERT: %r" % cnt, "cmds": c.cmds, "impl": str(cnt)})
            continue
        for f in G.walk(c.cmds, outs, decode=lambda cp, raw: raw.decode("utf-8", "replace"), start_db=getattr(c, "start_db", None)):
            if f["kind"] in KINDS:
                bad.append(f)
                break
    return bad
