"""C03 -- insert, update, delete and select follow the relational model (query.rs, table.rs, package.rs)."""
import itertools
from orchestrate import Case
import exprgen as X
import pkggen as G
from pkgspec import mk, SpecDB, key_of

RULE = ("all operation sequences up to depth 3 (thorough: 4) over an alphabet of 11 operations on two tables (single integer "
        "key; composite integer + nullable string key) incl. reopen, each followed by a full snapshot; random histories of "
        "8-25 operations over random schemas with random WHERE trees; selects with projections and conditions; non-trivial = "
        "at least one successful mutation; distinct = distinct command lists")
ASSUMPTIONS = ["the cfb container is modelled as a name -> bytes map (DESIGN 2.3)"]
KINDS = {"rows", "panic", "select", "meta"}

T_COLS = [mk("K", "i16", pk=True), mk("V", ("str", 10), null=True), mk("N", "i32", null=True)]
U_COLS = [mk("A", "i16", pk=True), mk("B", ("str", 4), pk=True, null=True), mk("C", "i16", null=True)]


def alphabet():
    eq = lambda c, v: ("bin", "eq", ("col", c), ("lit", v))
    return [
        ("insert", "T", [[1, "a", None]]), ("insert", "T", [[2, "b", 5], [0, "", -1]]),
        ("insert", "U", [[1, None, 3]]), ("insert", "U", [[1, "a", None], [2, "a", 0]]),
        ("delete", "T", eq("K", 1)), ("delete", "U", ("un", "not", ("col", "B"))),
        ("update", "T", [("V", "x")], eq("K", 2)), ("update", "U", [("C", 9)], None),
        ("update", "T", [("N", None)], ("bin", "gt", ("col", "N"), ("lit", 0))),
        ("delete", "T", None), ("reopen",),
    ]


def base(h):
    h.add_table("T", [dict(c) for c in T_COLS])
    h.add_table("U", [dict(c) for c in U_COLS])


def apply(h, op):
    if op[0] == "insert":
        h.insert(op[1], rows=op[2])
    elif op[0] == "delete":
        h.delete(op[1], cond=op[2])
    elif op[0] == "update":
        h.update(op[1], ups=op[2], cond=op[3])
    else:
        h.reopen(h.rng.choice(["flush", "into_inner", "drop"]))
    h.obs()


def gen_cases(rng, tier, info):
    cases = []
    depth = 3 if tier == "quick" else 4
    alpha = alphabet()
    n_seq = 0
    for d in range(1, depth + 1):
        for seq in itertools.product(range(len(alpha)), repeat=d):
            if d == depth and tier == "quick" and rng.random() < 0.5:
                continue
            h = G.History(rng, rng.choice([0, 1, 2]))
            base(h)
            for i in seq:
                apply(h, alpha[i])
            cases.append(Case("seq-%s" % "".join("%x" % i for i in seq), h.cmds))
            n_seq += 1
    for name, h in G.scenario_histories(rng):
        cases.append(Case("scn-" + name, h.cmds))
    n_rand = 150 if tier == "quick" else 4000
    for j in range(n_rand):
        h = G.History(rng, rng.choice([0, 1, 2]))
        h.add_table()
        for _ in range(rng.randint(8, 25)):
            h.random_op({"stream": 0.2, "bogus": 0.2})
            h.obs()
        # selects with projection / condition on whatever exists
        for n in h.table_names():
            cols = h.db.cols_of(n)
            h.select(n, [c["name"] for c in rng.sample(cols, rng.randint(1, len(cols)))], G.gen_cond(rng, cols))
        cases.append(Case("rand-%d" % j, h.cmds))
    info.update({"enumerated_sequences": n_seq, "depth": depth, "alphabet": len(alpha), "random_histories": n_rand,
                 "exhaustive": tier == "thorough", "exhaustive_note": "all sequences up to the stated depth over the alphabet (quick samples half of the deepest level)"})
    return cases


def nontrivial(case):
    return any(c.startswith("(insert") or c.startswith("(update") or c.startswith("(delete") for c in case.cmds)


def check_selects(cmds, outs):
    """select = filter by the condition, ascending key order, projection in the requested order"""
    out = []
    db = None
    for i, (cmd, o) in enumerate(zip(cmds, outs)):
        sx = X.parse_sx(cmd)
        if sx[0] == "create":
            db = SpecDB(sx[1])
        # replaying the shadow state is done by the walker; here only plain selects right after a snapshot are judged
    return out


def oracle(ctx):
    bad = []
    for c, outs in zip(ctx.cases, ctx.impl_out):
        fs = G.walk(c.cmds, outs)
        for f in fs:
            if f["kind"] in KINDS:
                bad.append(f)
                break
        # selects: judged against the rows of the preceding snapshot
        last = None
        for i, (cmd, o) in enumerate(zip(c.cmds, outs)):
            if cmd == "(snapshot)":
                last = G.parse_snapshot(o)
            elif cmd.startswith("(select ") and last is not None:
                sx = X.parse_sx(cmd)[1]
                if sx[1][0] != "t":
                    continue
                tn = "".join(map(chr, sx[1][1]))
                names = ["".join(map(chr, n)) for n in sx[2]]
                cond = G.sx_to_cond(sx[3])
                cols = last["tables"].get(tn)
                rows = last["rows"].get(tn)
                if cols is None or not isinstance(rows, list):
                    continue
                cn = [x["name"] for x in cols]
                if any(n not in cn for n in names):
                    want = "err"
                else:
                    try:
                        keep = [r for r in rows if cond is None or X.truthy(X.ref_eval(cond, list(zip(cn, r))))]
                        want = [[r[cn.index(n)] for n in names] for r in keep] if names else keep
                    except X.MissingColumn:
                        want = "err"
                if o.startswith("(len_mismatch"):
                    bad.append({"kind": "select", "what": "Rows::len() disagrees with the rows yielded: %s" % o, "cmds": c.cmds[:i + 1], "impl": o})
                    continue
                got = "err" if o == "err" else (G.dec_rows(X.parse_sx(o)[1][1]) if o.startswith("(ok") else o)
                nn = lambda rs: [[None if v == "" else v for v in r] for r in rs] if isinstance(rs, list) else rs
                if nn(got) != nn(want):
                    bad.append({"kind": "select", "what": "%s returned %r, expected %r" % (cmd[:120], got if got == "err" else got[:5], want if want == "err" else want[:5]),
                                "cmds": c.cmds[:i + 1], "impl": o[:300]})
    return bad
