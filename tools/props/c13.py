"""C13 -- expression evaluation is total and follows the documented operators (expr.rs)."""
from orchestrate import Case
import exprgen as X

RULE = ("every depth-1 tree over the 18 operators x the 12 literals of the property text, each in three forms (all literals / "
        "all columns holding the same values / mixed), depth-2 trees (thorough: all unary-over-binary and a sample of "
        "binary-over-binary), random trees to depth 5; non-trivial = at least one operator; distinct = distinct commands")
RULE = RULE + ('  Also conditions of UPDATE / DELETE / SELECT given as a chain of restrictions (.with(a).with(b)) whose first member is true without being 1.')
ASSUMPTIONS = ["Row::new via the make_row hook builds the same Row the query engine builds"]


def forms(e):
    """literal form, column form (same values), on a row that has the columns"""
    ce, row = X.to_cols(e, None)
    return [(e, []), (ce, row)]


def gen_cases(rng, tier, info):
    trees = []
    for u in X.UNOPS:
        for a in X.LITS:
            trees.append(("un", u, ("lit", a)))
    for b in X.BINOPS + ["and", "or"]:
        for x in X.LITS:
            for y in X.LITS:
                l, r = ("lit", x), ("lit", y)
                trees.append(("bin", b, l, r) if b in X.BINOPS else (b, l, r))
    depth1 = len(trees)
    # depth 2: unary over every binary result, binary over unary
    for u in X.UNOPS:
        for b in X.BINOPS:
            for x in ([0, -1, 2, X.I32MIN, X.I32MAX, "a", None] if tier == "quick" else X.LITS):
                for y in ([1, -1, 32, X.I32MIN, "b"] if tier == "quick" else X.LITS):
                    trees.append(("un", u, ("bin", b, ("lit", x), ("lit", y))))
    n_rand = 1500 if tier == "quick" else 60000
    for _ in range(n_rand):
        trees.append(X.random_expr(rng, rng.randint(2, 5), [], X.LITS, 0.0))
    cmds = []
    for t in trees:
        for e, row in forms(t):
            cmds.append("(expr_eval %s %s)" % (X.enc_expr(e), X.enc_row(row)))
    # mixed literal/column form for binary depth-1 trees
    for t in trees[:depth1]:
        if t[0] in ("bin", "and", "or"):
            if t[0] == "bin":
                e = ("bin", t[1], ("col", "k"), t[3])
                v = t[2][1]
            else:
                e = (t[0], ("col", "k"), t[2])
                v = t[1][1]
            cmds.append("(expr_eval %s %s)" % (X.enc_expr(e), X.enc_row([("k", v)])))
    cases = [Case("eval-%d" % i, cmds[i:i + 400]) for i in range(0, len(cmds), 400)]
    # string addition is concatenation at EVERY length: results around 255 / 65,535 / 65,536 bytes (the 8- and 16-bit length
    # fields of the file format are not limits of the expression language), literal + literal (folded at construction),
    # literal + column and column + column (evaluated lazily), and repeated doubling
    big = []
    for total in (255, 256, 65535, 65536, 65537):
        for left in ((1, total - 1) if total > 256 or tier == "thorough" else (1,)):
            a, b = "x" * left, "y" * (total - left)
            big.append(("bin", "add", ("lit", a), ("lit", b)))
    dbl = ("lit", "ab")
    for _ in range(15):
        dbl = ("bin", "add", dbl, dbl)                 # 2^16 characters, built by doubling
    big.append(("bin", "eq", dbl, ("lit", "ab")))
    big.append(("bin", "lt", ("lit", "abab"), dbl))
    bcmds = []
    for t in big:
        for e, row in forms(t):
            bcmds.append("(expr_eval %s %s)" % (X.enc_expr(e), X.enc_row(row)))
    cases += [Case("concat-%d" % i, bcmds[i:i + 6]) for i in range(0, len(bcmds), 6)]
    # the SAME expression object evaluated on rows of different layouts (another table, a projection that reorders or drops
    # columns, a join result): a column is found by its name in each row
    lcmds = []
    names = ["Key", "Low", "High", "S"]
    for _ in range(60 if tier == "quick" else 2000):
        e = X.random_expr(rng, rng.randint(1, 3), names, [None, 0, 1, 5, "a"], 0.8)
        rows = []
        for _ in range(rng.randint(2, 4)):
            order = names[:]
            rng.shuffle(order)
            extra = ["Pad%d" % i for i in range(rng.randint(0, 2))]
            layout = extra[:1] + order + extra[1:]
            rows.append([(n, rng.choice([None, 0, 1, 2, 5, -3, "a", "b"])) for n in layout])
        lcmds.append("(x_expr_eval_rows %s (%s))" % (X.enc_expr(e), " ".join(X.enc_row(r) for r in rows)))
    cases += [Case("layouts-%d" % i, lcmds[i:i + 30]) for i in range(0, len(lcmds), 30)]
    # the documented truthiness where it is used: conditions of SELECT / UPDATE / DELETE, also given as a chain of
    # restrictions (each one is a condition in its own right: a value that is true without being 1 stays true)
    import pkggen as G
    for name, h in G.scenario_histories(rng):
        if name.startswith("chained-with"):
            cases.append(Case("scn-" + name, h.cmds, ("pkg",)))
    info.update({"trees": len(trees), "depth1_trees": depth1, "random_trees": n_rand, "commands": len(cmds),
                 "exhaustive": True, "exhaustive_note": "depth-1 trees over all 18 operators x 12 literals are complete"})
    return cases


def nontrivial(case):
    return True


def sx_to_expr(sx):
    k = sx[0]
    if k == "lit":
        return ("lit", X.dec_value(sx[1]))
    if k == "col":
        return ("col", "".join(chr(c) for c in sx[1]))
    if k == "un":
        return ("un", sx[1], sx_to_expr(sx[2]))
    if k == "bin":
        return ("bin", sx[1], sx_to_expr(sx[2]), sx_to_expr(sx[3]))
    return (k, sx_to_expr(sx[1]), sx_to_expr(sx[2]))


def oracle(ctx):
    bad = []
    for c, outs in zip(ctx.cases, ctx.impl_out):
        if "pkg" in c.tags:
            import pkggen as G
            bad.extend(G.walk(c.cmds, outs)[:1])
            continue
        for cmd, o in zip(c.cmds, outs):
            sx = X.parse_sx(cmd)
            if sx[0] == "x_expr_eval_rows":
                e = sx_to_expr(sx[1])
                wants = [X.ref_eval(e, [("".join(chr(ch) for ch in p[0]), X.dec_value(p[1])) for p in r]) for r in sx[2]]
                if o in ("panic", "abort", "timeout"):
                    bad.append({"what": "evaluating one expression on several rows panicked", "cmds": [cmd], "impl": o})
                    continue
                got = X.parse_sx(o)
                gots = [X.dec_value(g) for g in got[1]] if got[0] == "ok" else None
                if gots is None or len(gots) != len(wants) or any(g != w2 or type(g) != type(w2) for g, w2 in zip(gots, wants)):
                    bad.append({"what": "the same expression evaluated on rows of different layouts: got %r, the documented operators give %r" % (gots, wants),
                                "cmds": [cmd], "impl": o})
                continue
            if sx[0] != "expr_eval":
                continue
            e = sx_to_expr(sx[1])
            row = [("".join(chr(ch) for ch in p[0]), X.dec_value(p[1])) for p in sx[2]]
            want = X.ref_eval(e, row)
            if o in ("panic", "abort", "timeout"):
                bad.append({"what": "evaluation/construction panicked (documented result: %r)" % (want,), "cmds": [cmd], "impl": o})
                continue
            got = X.parse_sx(o)
            if got[0] != "ok" or X.dec_value(got[1]) != want or type(X.dec_value(got[1])) != type(want):
                bad.append({"what": "result differs from the documented operator table (want %r)" % (want,), "cmds": [cmd], "impl": o})
    return bad
