"""C14 -- code pages encode losslessly what they can represent and match their names (codepage.rs)."""
from orchestrate import Case
import exprgen as X

RULE = ("for each of the 26 code pages: ALL 1,112,064 scalar values through encode (per-character law: decodes back or is "
        "'?'), ALL scalars against the encoding the identifier names (reference list), all 1- and 2-byte sequences through "
        "decode; strings of length 1000..1060 with multi-byte / unmappable characters at offsets 1018..1030 for the "
        "concatenation law; BOM-prefixed and other representable strings for the decode round trip; identifier lookup on "
        "every table id, 0, neighbours and extremes; non-trivial = not the identifier test; distinct = distinct commands")
ASSUMPTIONS = ["encoding_rs encoder step contract (consumes characters in order, stops when the next one may not fit) - "
               "a Section hypothesis of C14_loop, validated by the boundary strings",
               "the reference list id -> encoding (WHATWG names; 28591 is served by windows-1252 in encoding_rs)"]
EXTRA_TRUSTED = ["harness/src/codepage.rs reference_encoding (spec side of the wiring check)"]
DRIVER_TIMEOUT = 1500

IDS = [932, 936, 949, 950, 951, 1250, 1251, 1252, 1253, 1254, 1255, 1256, 1257, 1258, 10000, 10007, 20127, 28591,
       28592, 28593, 28594, 28595, 28596, 28597, 28598, 65001]
SAMPLE = {932: "あ漢ｱ", 936: "中文€", 949: "한글", 950: "中文", 951: "中文", 1250: "łž", 1251: "жЯ", 1252: "éÿþ€", 1253: "λΩ",
          1254: "ğİ", 1255: "שא", 1256: "عب", 1257: "ąž", 1258: "ơư", 10000: "é∑", 10007: "жЯ", 20127: "az", 28591: "éÿþ",
          28592: "łž", 28593: "ħĉ", 28594: "ąž", 28595: "жЯ", 28596: "عب", 28597: "λΩ", 28598: "שא", 65001: "é漢\U0001F600﻿"}


def gen_cases(rng, tier, info):
    cases = []
    ids = []
    for i in IDS + [0]:
        ids += [i - 1, i, i + 1]
    ids += [-1, -932, 2**31 - 1, -2**31, 65535, 1200, 1201, 437, 850, 20866]
    cases.append(Case("ids", ["(cp_from_id %d)" % i for i in sorted(set(ids))]))
    for i in IDS:
        cmds = ["(x_cp_sweep %d)" % i, "(x_cp_ref %d)" % i, "(x_cp_decode2 %d)" % i]
        cases.append(Case("sweep-%d" % i, cmds, ("sweep",)))
    # concatenation across the 1024-byte buffer
    n_b = 0
    for i in IDS:
        cmds = []
        sample = SAMPLE[i] + "€\U0001F600?"          # representable + (often) unmappable + astral + literal '?'
        for pad in range(1016, 1030):
            for ch in sample:
                s = "a" * pad + ch * 3 + "b" * 5
                cmds.append("(x_cp_concat %d %s)" % (i, X.enc_str(s)))
        for _ in range(6 if tier == "quick" else 60):
            n = rng.randint(1000, 3100)
            s = "".join(rng.choice(sample + "abc") for _ in range(n))
            cmds.append("(x_cp_concat %d %s)" % (i, X.enc_str(s)))
        # decode(encode(s)) on representable strings incl. BOM-like prefixes
        for s in [SAMPLE[i], "ÿþab", "þÿab", "﻿ab", "ï»¿ab", "", "?", "a?b", SAMPLE[i] * 400]:
            cmds.append("(x_cp_roundtrip %d %s)" % (i, X.enc_str(s)))
        n_b += len(cmds)
        cases.append(Case("strings-%d" % i, cmds))
    # model-side codecs (US-ASCII and UTF-8): exact bytes / strings
    cmds = []
    for s in ["", "az", "é", "a€b", "\U0001F600", "﻿ab", "x" * 1030 + "é"]:
        for i in (20127, 65001, 0):
            cmds.append("(cp_encode %d %s)" % (i, X.enc_str(s)))
    byte_seqs = [[], [97], [0xEF, 0xBB, 0xBF, 97], [0xFF, 0xFE, 97, 0], [0xC3, 0xA9], [0xC3], [0xE2, 0x82], [0xE2, 0x82, 0xAC],
                 [0xF0, 0x9F, 0x98, 0x80], [0xF0, 0x9F], [0xC0, 0x80], [0xED, 0xA0, 0x80], [0xF4, 0x90, 0x80, 0x80], [0x80], [0xE0, 0x80, 0x80],
                 [0xF8, 0x88, 0x80, 0x80, 0x80], [0xE2, 0x28, 0xA1], [0xC3, 0xC3, 0xA9], [0xF0, 0x9F, 0x98, 0x41]]
    for _ in range(200 if tier == "quick" else 5000):
        byte_seqs.append([rng.choice([0x41, 0x80, 0xBF, 0xC2, 0xC3, 0xE0, 0xE2, 0xED, 0xEF, 0xF0, 0xF4, 0xF5, 0xA0, 0x9F, 0x90, 0x8F, 0xFF, 0xBB])
                          for _ in range(rng.randint(0, 6))])
    for b in byte_seqs:
        for i in (20127, 65001):
            cmds.append("(cp_decode %d (%s))" % (i, " ".join(map(str, b))))
    cases.append(Case("model-codecs", cmds))
    # single-byte pages: the model carries encoding_rs' own index tables (GenSingleByte.v); compared EXHAUSTIVELY with the
    # implementation: every byte value through decode, and every code point of the blocks any of the tables draws from
    # (plus unrepresentable ones) through encode
    MULTI = {932, 936, 949, 950, 951, 65001, 20127}
    blocks = list(range(0x80, 0x27C0)) + [0xF8FF, 0xFB01, 0xFB02, 0xFFFD, 0xFFFF, 0x10000, 0x3000, 0x4E00]
    n_sb = 0
    for i in IDS:
        if i in MULTI:
            continue
        cmds = ["(cp_decode %d (%s))" % (i, " ".join(map(str, range(256))))]
        for k in range(0, len(blocks), 1024):
            cmds.append("(cp_encode %d (%s))" % (i, " ".join(map(str, blocks[k:k + 1024]))))
        cmds.append("(cp_encode %d %s)" % (i, X.enc_str("a" * 1023 + SAMPLE[i] + "\u20ac" * 3)))
        cmds.append("(cp_decode %d (239 187 191 255 254 97))" % i)
        n_sb += 1
        cases.append(Case("single-byte-%d" % i, cmds, ("sb",)))
    info["single_byte_pages_on_the_model"] = n_sb
    info.update({"pages": len(IDS), "scalars_per_page": 1112064, "boundary_and_roundtrip_strings": n_b, "exhaustive": True,
                 "exhaustive_note": "all scalar values x all 26 pages (per-character law and reference wiring) and all 1/2-byte sequences are enumerated completely"})
    return cases


def nontrivial(case):
    return case.name != "ids"


def classify_known(v):
    return v.get("cls")


# residues inside encoding_rs (WHATWG-mandated lossy mappings), listed in known_findings.txt
JIS_LOSSY = {0xA5, 0x203E, 0x2212}
GBK_PUA = set(range(0xE78D, 0xE797)) | {0xE81E, 0xE826, 0xE82B, 0xE82C, 0xE832, 0xE843, 0xE854, 0xE864}


def oracle(ctx):
    bad = []
    for c, outs in zip(ctx.cases, ctx.impl_out):
        for cmd, o in zip(c.cmds, outs):
            if o in ("panic", "abort", "timeout"):
                bad.append({"what": "code page call panicked", "cmds": [cmd], "impl": o})
                continue
            sx = X.parse_sx(cmd)
            if sx[0] == "x_cp_sweep":
                r = X.parse_sx(o)
                if r[0] != 0:
                    chars = [e[0] for e in r[2]]
                    cls = None
                    if sx[1] == 932 and set(chars) <= JIS_LOSSY and r[0] <= 3:
                        cls = "whatwg_shift_jis_lossy"
                    if sx[1] == 936 and set(chars) <= GBK_PUA and r[0] <= len(GBK_PUA):
                        cls = "whatwg_gbk_pua"
                    bad.append({"what": "code page %d: %d characters encode to bytes that do not decode back (first: %s)"
                                        % (sx[1], r[0], ", ".join("U+%04X -> %r -> %r" % (e[0], e[1], e[2]) for e in r[2][:3])),
                                "cmds": [cmd, "(cp_encode %d (%d))" % (sx[1], r[2][0][0])], "impl": o, "cls": cls})
            elif sx[0] == "x_cp_ref":
                r = X.parse_sx(o)
                if r[0] != 0:
                    e = r[1][0]
                    bad.append({"what": "code page %d does not behave as the encoding its identifier names: %d characters differ "
                                        "(U+%04X encodes to %r, the named encoding gives %r)" % (sx[1], r[0], e[0], e[1], e[2]),
                                "cmds": [cmd, "(cp_encode %d (%d))" % (sx[1], e[0])], "impl": o})
            elif sx[0] == "x_cp_concat":
                if o != "1":
                    bad.append({"what": "encode(s) is not the concatenation of its characters' encodings (len %d)" % len(sx[2]),
                                "cmds": [cmd], "impl": o})
            elif sx[0] == "x_cp_roundtrip":
                r = X.parse_sx(o)
                if r[0] == 1 and r[1] != 1:
                    s = "".join(map(chr, sx[2]))
                    cls = None
                    bad.append({"what": "decode(encode(%r)) differs on code page %d although every character is representable" % (s[:20], sx[1]),
                                "cmds": [cmd], "impl": o, "cls": cls})
            elif sx[0] == "cp_decode" and sx[1] in (20127, 65001) and o.startswith("("):
                # independent reading of the two pages' names: US-ASCII is bytewise (one U+FFFD per byte >= 0x80),
                # UTF-8 is the standard decoder with replacement, and neither looks at byte order marks
                data = bytes(sx[2])
                want = [b if b < 128 else 0xFFFD for b in data] if sx[1] == 20127 else [ord(ch) for ch in data.decode("utf-8", "replace")]
                got = X.parse_sx(o)
                if got != want:
                    bad.append({"what": "code page %d decodes bytes %s to %s; %s gives %s" % (sx[1], list(data), got,
                                "US-ASCII (bytewise)" if sx[1] == 20127 else "UTF-8", want), "cmds": [cmd], "impl": o})
            elif sx[0] == "cp_encode" and sx[1] in (20127, 65001) and o.startswith("("):
                text = sx[2]
                if all(c < 0xD800 or 0xDFFF < c < 0x110000 for c in text):
                    want = [c if c < 128 else 63 for c in text] if sx[1] == 20127 else list("".join(map(chr, text)).encode("utf-8"))
                    got = X.parse_sx(o)
                    if got != want:
                        bad.append({"what": "code page %d encodes %s to %s, expected %s" % (sx[1], text[:12], got[:24], want[:24]), "cmds": [cmd], "impl": o})
            elif sx[0] == "cp_from_id":
                pass
    # identifier lookup: every table id maps to itself, 0 to UTF-8, nothing else resolves
    for c, outs in zip(ctx.cases, ctx.impl_out):
        if c.name != "ids":
            continue
        for cmd, o in zip(c.cmds, outs):
            i = X.parse_sx(cmd)[1]
            want = "(%d)" % i if i in IDS else ("(65001)" if i == 0 else "()")
            if o != want:
                bad.append({"what": "from_id(%d).id() gives %s, expected %s" % (i, o, want), "cmds": [cmd], "impl": o})
    return bad
