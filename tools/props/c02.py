"""C02 -- independently encoded MSI databases are read exactly (package.rs open, stringpool.rs, table.rs, propset.rs)."""
import codecs
from orchestrate import Case
import exprgen as X
import pkggen as G
import msienc
import psdec
from pkgspec import SpecDB, mk

RULE = ("databases produced by an independent encoder (tools/msienc.py, written from the format description): two- and "
        "three-byte string references, unused (empty, or still carrying stale text) / duplicate / over-counted pool entries, a > 64 KiB string (long-string escape), "
        "code pages UTF-8 / US-ASCII (also on the model) and 1252 / 932 / 1251 / 28592 (implementation only), catalog rows in "
        "any order, integer field sizes 1/2/4, with and without _Validation, summary property sets in three layouts (plain, "
        "shuffled table vs value order, gaps between values) with I1/I2/I4/LPSTR/FILETIME/EMPTY/NULL values, binary streams; "
        "each file is wrapped with the cfb crate only, opened by Package::open and its full snapshot compared with the "
        "encoder's abstract database; then API changes are applied (insert, update, delete, create_table, drop_table, "
        "write_stream, summary) and the saved bytes are decoded again by the independent decoder (tools/msidec.py): untouched "
        "content must be preserved.  non-trivial = at least two user tables or a non-default pool layout; distinct = distinct "
        "command lists")
RULE = RULE + ('  Creation times before 1970 with a fractional second, and in 1601, are among the FILETIME values.')
ASSUMPTIONS = ["the independent encoder and decoder are trusted as format descriptions (tools/msienc.py, tools/msidec.py, tools/psdec.py)",
               "row order of a foreign table is compared as encoded; catalog rows are compared as sets"]
SAMPLE = {65001: "é漢\U0001F600", 20127: "az", 1252: "éÿþ€", 932: "あ漢ｱ", 1251: "жЯ", 28592: "łž"}
MODEL_PAGES = (65001, 20127, 0)


def decode_cp(cp, raw):
    return raw.decode(psdec.PY_CODEC.get(cp, "utf-8"), "replace")


def gen_db(rng, j):
    cp = [65001, 65001, 20127, 0, 1252, 932, 1251, 28592][j % 8]
    page = 65001 if cp == 0 else cp
    txt = lambda: "".join(rng.choice(SAMPLE[page] + "ab1") for _ in range(rng.randint(1, 6)))
    tables = {}
    for ti in range(rng.randint(1, 3)):
        name = ["Alpha", "Beta", "Gamma"][ti]
        ncols = rng.randint(1, 5)
        cols = [mk("K", rng.choice(["i16", "i32"]), pk=True)]
        for ci in range(1, ncols):
            t = rng.choice(["i16", "i32", ("str", rng.choice([0, 8, 64, 255]))])
            c = mk("c%d" % ci, t, null=True, loc=rng.random() < 0.2)
            if isinstance(t, tuple) and rng.random() < 0.2:
                c["cat"] = rng.choice(["Text", "Formatted", "Identifier"])
            if t in ("i16", "i32") and rng.random() < 0.2:
                c["range"] = (-5, 100)
            cols.append(c)
        rows = []
        for k in sorted(rng.sample(range(1, 200), rng.randint(0, 8))):
            r = [k]
            for c in cols[1:]:
                if rng.random() < 0.2:
                    r.append(None)
                elif c["type"] in ("i16", "i32"):
                    r.append(rng.choice([0, 1, -1, 5, 100, -5, 32767 if not c["range"] else 7]))
                elif c["cat"] == "Identifier":
                    r.append(rng.choice(["a", "B_1", "x.y"]))
                else:
                    w = c["type"][1]
                    s = txt() if rng.random() < 0.7 else "shared"
                    r.append(s[:w] if w else s)
            rows.append(r)
        tables[name] = (cols, rows)
    if j % 11 == 3:
        tables["Big"] = ([mk("K", "i16", pk=True), mk("V", ("str", 0), null=True)], [[1, "L" * 70000], [2, "L" * 70000], [3, "z"]])
    summary = [(2, 30, "T" + txt()), (4, 30, txt()), (15, 3, rng.choice([0, 2, -7])), (12, 64, rng.choice([131000000000000000 + rng.randint(0, 10**9), 116444736000000000 - rng.randint(1, 10**9),
                                                                                             116444736000000000 - 15000000, rng.randint(1, 10**8)])),
               (7, 30, "x64;1033,1036"), (9, 30, "{12345678-90AB-CDEF-0123-456789ABCDEF}")]
    if j % 4 == 1:
        summary += [(18, 30, "app"), (3, 0, None), (6, 1, None), (19, 16, -3)]
    if page != 65001:
        summary.insert(0, (1, 2, page - 0x10000 if page >= 0x8000 else page))
    elif j % 5 == 0:
        summary.append((0, 0, None))           # no code page property at all: the default (UTF-8) applies
    streams = {"Bin.dat": [rng.randint(0, 255) for _ in range(rng.choice([0, 5, 300]))]} if rng.random() < 0.6 else {}
    opts = dict(long_refs=(j % 3 == 1), holes=rng.choice([0, 0.2]), dups=rng.choice([0, 0.3]), overcount=rng.choice([0, 0.3]), stale=rng.choice([0, 0.25]),
                validation=(j % 5 != 2), shuffle_catalog=(j % 4 == 3), odd_int_sizes=(j % 6 == 4),
                layout=["plain", "shuffled", "gaps"][j % 3])
    return cp, page, tables, summary, streams, opts


def start_db(ptype, page, tables, streams, opts, expected):
    db = SpecDB(ptype)
    db.db_cp = page
    db.has_validation = opts["validation"]
    for n, cols in expected["tables"].items():
        if n.startswith("_"):
            continue
        db.tables[n] = {"cols": [dict(c) for c in cols], "rows": [list(r) for r in expected["rows"][n]]}
    for r in expected["catalog_rows"]["_Columns"]:
        db.bits_override[(r[0], r[2])] = r[3] & 0xFFFF
    db.streams = {n: list(b) for n, b in streams.items()}
    db.orphan_validation = [list(r) for r in expected.get("orphan_validation", [])]
    return db


def gen_cases(rng, tier, info):
    cases = []
    n = 64 if tier == "quick" else 2000
    feats = {}
    for j in range(n):
        ptype = j % 3
        cp, page, tables, summary, streams, opts = gen_db(rng, j)
        # every fourth file describes, in _Validation, tables and columns that it does not contain (as real-world packages do)
        orph = []
        if j % 4 == 2 and opts["validation"]:
            orph = [("Ghost", mk("Id", "i16", pk=True)), ("Ghost", mk("Name", ("str", 32), null=True, cat="Text")),
                    (sorted(tables)[0], mk("NoSuchColumn", "i32", null=True)), ("Zeta", mk("K", "i16", pk=True))]
        clsid, entries, expected = msienc.encode_db(rng, ptype, cp, tables, summary, streams, orphan_validation=orph, **opts)
        for k, v in opts.items():
            if v:
                feats[k] = feats.get(k, 0) + 1
        model = page in MODEL_PAGES and "Big" not in tables
        opn = "open_raw" if model else "x_open_raw"
        db = start_db(ptype, page, tables, streams, opts, expected)
        h = G.History(rng, ptype)
        h.db = db.clone()
        h.cmds = ["(%s (%s) (%s))" % (opn, " ".join(map(str, clsid)),
                                      " ".join("(%s (%s))" % (X.enc_str(nm), " ".join(map(str, b))) for nm, b in entries)),
                  "(snapshot)", "(sum_get)"]
        G.ASCII_ONLY = page != 65001          # API-level additions stay inside every page's repertoire
        for _ in range(rng.randint(2, 6)):
            h.random_op({"reopen": 0.3, "select": 0.2, "bogus": 0.2, "stream": 0.5})
            h.obs()
        G.ASCII_ONLY = False
        h.reopen()
        h.obs()
        h.cmds.append("(raw)" if model else "(x_raw)")
        c = Case("enc-%d" % j, h.cmds, () if model else ("impl_only",))
        c.start_db, c.summary, c.page = db, summary, page
        cases.append(c)
    info.update({"databases": n, "features": feats})
    return cases


def nontrivial(case):
    return True


def expected_summary(summary, page):
    d = {pid: (ty, v) for pid, ty, v in summary}
    s = lambda pid: d[pid][1] if pid in d and d[pid][0] == 30 else None
    t = s(7)
    arch = langs = None
    if t is not None:
        arch = t.split(";", 1)[0] or None
        langs = [int(x) for x in t.split(";", 1)[1].split(",") if x.isdigit()] if ";" in t else []
    return [page, s(2), s(3), s(4), s(6), s(18), d[15][1] if 15 in d and d[15][0] == 3 else None,
            (d[12][1] - 116444736000000000) * 100 if 12 in d and d[12][0] == 64 else None, arch, langs or []]


def oracle(ctx):
    from props.c10 import parse_summary
    bad = []
    for c, outs in zip(ctx.cases, ctx.impl_out):
        cmds = [("(open_raw" + x[len("(x_open_raw"):]) if x.startswith("(x_open_raw") else ("(raw)" if x == "(x_raw)" else x) for x in c.cmds]
        fs = G.walk(cmds, outs, decode=decode_cp, start_db=c.start_db, sort_catalog=True, accounting=False)
        for f in fs:
            f["cmds"] = [x if len(x) < 4000 else x[:4000] + " ...)" for x in f["cmds"]]
            bad.append(f)
            break
        if outs[0] == "(ok ())" and len(outs) > 2 and cmds[2] == "(sum_get)":
            try:
                got = parse_summary(outs[2])
                got = got[:6] + got[7:]            # uuid compared through its text elsewhere
                want = expected_summary(c.summary, c.page)
                if got != want:
                    d = [(g, w) for g, w in zip(got, want) if g != w]
                    bad.append({"kind": "summary", "what": "summary getters on the encoded file: %r (got, expected)" % d[:3], "cmds": c.cmds[:1], "impl": outs[2][:300]})
            except Exception as e:
                bad.append({"kind": "summary", "what": "summary unreadable: %s (%s)" % (outs[2][:80], e), "cmds": c.cmds[:1], "impl": outs[2][:300]})
    return bad
