"""C06 -- a created table reopens with the schema it was created with (column.rs, package.rs, category.rs)."""
import itertools
from orchestrate import Case
import exprgen as X
import pkggen as G
from pkgspec import mk, enc_col, CAT_STR
from props.c07 import CATS

RULE = ("column lists over all builder options: every type, string widths {0,1,2,44,254,255,256,300,511,512,0x7ff,0x800,0x7fff,"
        "0x8000,65535}, every category, enumerations (incl. values with ';' and empty), ranges incl. the extreme integers, "
        "foreign keys, every flag combination, 1..32 columns, names up to the longest the name checks admit; every 16-bit type "
        "word through with_bitfield (hook); the schema is read with tables() right after create_table and after save + reopen; "
        "non-trivial = at least one non-default attribute; distinct = distinct command lists")
RULE = RULE + ('  Also create_table in a package WITHOUT a _Validation table (an independently encoded file): an enumeration, a value range, a category or a foreign key, each on its own, is refused; plain columns are accepted and reopen.')
ASSUMPTIONS = ["foreign keys are observable only through the hook (Column::foreign_key is crate-private)"]
KINDS = {"schema", "gate", "panic", "reopen", "err-changed"}


def gen_cases(rng, tier, info):
    cases = []
    # every type word: -32768..32767 through with_bitfield and back through bitfield (model vs implementation)
    probe = mk("P", "i16")
    cmds = []
    step = 1 if tier == "thorough" else 1
    for w in range(-32768, 32768, step):
        cmds.append("(col_of_bits %s %d)" % (enc_col(probe), w))
    for i in range(0, len(cmds), 4096):
        cases.append(Case("bits-%d" % i, cmds[i:i + 4096], ("bits",)))
    # col_bits over the flag cube x types x widths x binary category
    cmds = []
    widths = [0, 1, 2, 44, 254, 255, 256, 300, 511, 512, 0x7ff, 0x800, 0x7fff, 0x8000, 65535]
    for t in ["i16", "i32"] + [("str", w) for w in widths]:
        for loc, nul, pk in itertools.product([False, True], repeat=3):
            for cat in (None, "Binary", "Text"):
                cmds.append("(col_bits %s)" % enc_col(mk("C", t, null=nul, pk=pk, loc=loc, cat=cat)))
    cases.append(Case("colbits", cmds, ("bits",)))
    # schemas through create_table / tables / reopen
    n = 60 if tier == "quick" else 1500
    defs = []
    for w in widths:
        defs.append([mk("K", "i16", pk=True), mk("S", ("str", w), null=True)])
    for cat in CATS:
        defs.append([mk("K", ("str", 20), pk=True, cat=cat), mk("V", ("str", 0), null=True, cat=cat, loc=True)])
    for en in (["a"], ["a", "b"], ["a;b", "c"], ["", "c"], ["x" * 100, "y" * 100, "z" * 60], ["é", "日本"],
               [" lead", "trail ", " ", "in side"], ["\ta", "b\n"], ["A", "a"], ["1", "01", "+1"]):
        defs.append([mk("K", "i16", pk=True), mk("E", ("str", 0), null=True, enum=en)])
    for r in ((0, 0), (-5, 5), (5, -5), (-2**31 + 1, 2**31 - 1), (-2**31, 0), (0, 2**31 - 1), (-32768, 32767)):
        defs.append([mk("K", "i32", pk=True, rng=r), mk("R", "i16", null=True, rng=r)])
    defs.append([mk("K", "i16", pk=True, fk=("Other", 1)), mk("F", ("str", 8), null=True, fk=("T_2", 32))])
    defs.append([mk("c%d" % i, rng.choice(["i16", "i32", ("str", 10)]), pk=(i % 7 == 0), null=(i % 2 == 1)) for i in range(32)])
    defs.append([mk("c%d" % i, "i16", pk=True) for i in range(33)])
    defs.append([mk("K" + "x" * 31, "i16", pk=True), mk("V" + "y" * 30, ("str", 3), null=True)])
    for _ in range(n):
        defs.append(G.schema_family(rng, "random"))
    # two tables whose qualified column names coincide when joined with a dot ("Dir.Sub" + "Name" / "Dir" + "Sub.Name"): the
    # catalogs key their rows by the PAIR (table, column)
    for j in range(2):
        h = G.History(rng, j, observe="snapshot")
        h.add_table("Dir.Sub", [mk("Name", "i16", pk=True, rng=(1, 9)), mk("X", ("str", 4), null=True, cat="Identifier")]); h.obs()
        h.add_table("Dir", [mk("Sub.Name", ("str", 8), pk=True, cat="Text"), mk("Sub.X", "i32", null=True, rng=(-5, 5))]); h.obs()
        h.add_table("Dir.Sub.Name", [mk("K", "i16", pk=True)]); h.obs()
        h.reopen(["flush", "into_inner"][j]); h.obs()
        h.drop_table("Dir"); h.obs()
        h.reopen(); h.obs()
        cases.append(Case("dotted-names-%d" % j, h.cmds))
    # a package WITHOUT a _Validation table (a file made by another tool): a column attribute that only _Validation can
    # record -- an enumeration, a value range, a category, a foreign key, each on its own -- is refused rather than accepted
    # now and lost on the next open; plain columns are accepted and reopen
    import msienc
    import props.c02 as F
    for j in range(3):
        tables = {"Seed": ([mk("K", "i16", pk=True), mk("V", ("str", 8), null=True)], [[1, "a"]])}
        opts = dict(long_refs=(j == 1), holes=0, dups=0, overcount=0, stale=0, validation=False, shuffle_catalog=False,
                    odd_int_sizes=False, layout="plain")
        clsid, entries, expected = msienc.encode_db(rng, j, 65001, tables, [(2, 30, "t")], {}, **opts)
        db = F.start_db(j, 65001, tables, {}, opts, expected)
        h = G.History(rng, j, observe="snapshot")
        h.db = db.clone()
        h.cmds = [msienc.enc_open_raw(clsid, entries), "(snapshot)"]
        for k, col in enumerate([mk("E", ("str", 3), null=True, enum=["Sat", "Sun"]), mk("R", "i16", null=True, rng=(1, 9)),
                                 mk("C", ("str", 8), null=True, cat="Identifier"), mk("F", "i16", null=True, fk=("Seed", 1)),
                                 mk("P", ("str", 8), null=True), mk("E2", ("str", 0), enum=["x"])]):
            h.add_table("N%d" % k, [mk("K", "i16", pk=True), col])
            h.obs()
        h.reopen(["flush", "into_inner", "drop"][j])
        h.obs()
        c = Case("no-validation-%d" % j, h.cmds, ("foreign",))
        c.start_db = db
        cases.append(c)
    names = ["T", "Tab_1", "A" * 31, "A" * 32, "A" * 33, "Zz.9"]
    for j in range(0, len(defs), 4):
        h = G.History(rng, rng.choice([0, 1, 2]), observe="snapshot")
        for k, cols in enumerate(defs[j:j + 4]):
            h.add_table("%s%d" % (rng.choice(["T", "Tab_", "q."]), k) if rng.random() < 0.85 else rng.choice(names), cols)
            h.obs()
        h.reopen()
        h.obs()
        if rng.random() < 0.5 and h.table_names():
            h.drop_table(rng.choice(h.table_names()))
            h.obs()
            h.reopen()
            h.obs()
        cases.append(Case("schema-%d" % j, h.cmds))
    info.update({"type_words": 65536, "schema_definitions": len(defs), "exhaustive": True,
                 "exhaustive_note": "all 65,536 type words and the full flag cube x 17 types are enumerated"})
    return cases


def nontrivial(case):
    return True


def oracle(ctx):
    bad = []
    for c, outs in zip(ctx.cases, ctx.impl_out):
        if "bits" in c.tags:
            for cmd, o in zip(c.cmds, outs):
                if o in ("panic", "abort", "timeout"):
                    bad.append({"kind": "panic", "what": "type word handling panicked", "cmds": [cmd], "impl": o})
                    continue
                sx = X.parse_sx(cmd)
                if sx[0] == "col_of_bits" and o.startswith("(ok"):
                    # documented layout of the word: string bit, size byte, flag bits
                    w = sx[2] & 0xFFFF
                    col = X.parse_sx(o)[1]
                    t = col[2]
                    want_t = ["str", w & 0xFF] if w & 0x800 else {4: "i32", 2: "i16", 1: "i16"}.get(w & 0xFF)
                    got = (t, bool(col[3]), bool(col[4]), bool(col[5]))
                    want = (want_t, bool(w & 0x200), bool(w & 0x1000), bool(w & 0x2000))
                    if got != want:
                        bad.append({"kind": "schema", "what": "type word 0x%04x decodes to %r, the format says %r" % (w, got, want), "cmds": [cmd], "impl": o})
                elif sx[0] == "col_of_bits" and o == "err":
                    w = sx[2] & 0xFFFF
                    if (w & 0x800) or (w & 0xFF) in (1, 2, 4):
                        bad.append({"kind": "schema", "what": "type word 0x%04x refused" % w, "cmds": [cmd], "impl": o})
            continue
        if "foreign" in c.tags:
            import props.c02 as F
            for f in G.walk(c.cmds, outs, decode=F.decode_cp, start_db=c.start_db, sort_catalog=True, accounting=False):
                if f["kind"] in KINDS | {"open", "meta"}:
                    f["cmds"] = [x if len(x) < 4000 else x[:4000] + " ...)" for x in f["cmds"]]
                    bad.append(f)
                    break
            continue
        for f in G.walk(c.cmds, outs):
            if f["kind"] in KINDS:
                bad.append(f)
                break
    return bad
