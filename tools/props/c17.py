"""C17 -- language codes and tags map consistently (language.rs)."""
import itertools
from orchestrate import Case

RULE = ("all 65,536 codes through tag(); every tag the implementation itself reports, the reference list, all strings over "
        "a 9-letter alphabet incl. '-' up to length 4 (thorough: 5), known language + unknown region combinations and random "
        "tags through from_tag(); non-trivial = the tag contains '-' or the code has a sublanguage; distinct = distinct command lists")
ASSUMPTIONS = ["slice::binary_search_by_key on a strictly sorted table finds the unique match (table_sorted is proved)"]

REFERENCE = [(1033, "en-US"), (2057, "en-GB"), (1036, "fr-FR"), (3084, "fr-CA"), (1031, "de-DE"), (1041, "ja-JP"),
             (2058, "es-MX"), (1040, "it-IT"), (1043, "nl-NL"), (1046, "pt-BR"), (2070, "pt-PT"), (1049, "ru-RU"),
             (1042, "ko-KR"), (1053, "sv-SE"), (1030, "da-DK"), (1035, "fi-FI"), (1044, "nb-NO"), (1045, "pl-PL"),
             (1029, "cs-CZ"), (1038, "hu-HU"), (1032, "el-GR"), (1055, "tr-TR"), (1037, "he-IL"), (1025, "ar-SA"),
             (3081, "en-AU"), (4105, "en-CA"), (2055, "de-CH"), (3079, "de-AT"), (4108, "fr-CH"), (2052, "zh-CN"),
             (1028, "zh-TW")]


def enc(s):
    return "(" + " ".join(str(ord(c)) for c in s) + ")"


def dec(o):
    return "".join(chr(int(x)) for x in o.strip("()").split())


def source_table():
    """the language table as the translator read it from language.rs: {lang: (tag, {sublang: tag})}"""
    import os, re
    path = os.path.join(os.path.dirname(os.path.abspath(__file__)), "..", "..", "coq", "gen", "GenLanguage.v")
    text = open(path, encoding="utf-8").read()
    tab = {}
    tx = lambda l: "".join(chr(int(x)) for x in l.split(";") if x.strip())
    for m in re.finditer(r"^\s*\((\d+), \[([\d; ]*)\], \[(.*?)\]\);?\s*$", text, re.M):
        subs = {int(a): tx(b) for a, b in re.findall(r"\((\d+), \[([\d; ]*)\]\)", m.group(3))}
        tab[int(m.group(1))] = (tx(m.group(2)), subs)
    return tab


def gen_cases(rng, tier, info):
    cases = []
    for i in range(0, 65536, 2048):
        cases.append(Case("codes-%d" % i, ["(lang_tag %d)" % c for c in range(i, i + 2048)]))
    tags = [t for _, t in REFERENCE]
    alpha = "enfrzZU-S_"
    maxlen = 4 if tier == "quick" else 5
    for n in range(0, maxlen + 1):
        for tup in itertools.product(alpha, repeat=n):
            tags.append("".join(tup))
    langs = ["en", "fr", "de", "zh", "es", "pt", "ar", "xx", "EN", "e", "eng", ""]
    regions = ["US", "ZZ", "CA", "us", "U", "", "-", "US-x", "GB", "CN", "TW", "419"]
    tags += ["en_US", "fr_CA", "de_", "zh_Hans-CN", "en_", "_US", "en.US", "en US", "en/US", "pt_BR", "zh_TW", "en-US_x", "en_US-x"]
    for l in langs:
        for r in regions:
            tags.append(l + "-" + r)
    for _ in range(500 if tier == "quick" else 20000):
        n = rng.randint(0, 8)
        tags.append("".join(rng.choice("abcdefghijklmnopqrstuvwxyzABCDEFGHIJKLMNOPQRSTUVWXYZ-0é_") for _ in range(n)))
    tags = sorted(set(tags))
    for i in range(0, len(tags), 1000):
        cases.append(Case("tags-%d" % i, ["(lang_from_tag %s)" % enc(t) for t in tags[i:i + 1000]]))
    info.update({"codes": 65536, "tags": len(tags), "exhaustive": True,
                 "exhaustive_note": "the 65,536 codes are enumerated completely; tag strings are bounded-exhaustive + random"})
    return cases


def nontrivial(case):
    return True


def oracle(ctx):
    bad = []
    tag_of = {}
    from_tag = {}
    for c, outs in zip(ctx.cases, ctx.impl_out):
        for cmd, o in zip(c.cmds, outs):
            if o in ("panic", "abort", "timeout"):
                bad.append({"what": "language lookup panicked", "cmds": [cmd], "impl": o})
                continue
            if cmd.startswith("(lang_tag "):
                tag_of[int(cmd[10:-1])] = dec(o)
            elif cmd.startswith("(lang_from_tag "):
                from_tag[dec(cmd[15:-1])] = int(o)
    if len(tag_of) < 65536:
        return bad
    # every reported tag maps back to a code with the same tag
    reported = sorted(set(tag_of.values()))
    back = ctx.run_impl([ctx.Case("back", ["(lang_from_tag %s)" % enc(t) for t in reported])])[0]
    for t, o in zip(reported, back):
        try:
            c2 = int(o)
        except ValueError:
            bad.append({"what": "from_tag panicked on a tag the library printed", "cmds": ["(lang_from_tag %s)" % enc(t)], "impl": o})
            continue
        from_tag[t] = c2
        if not (0 <= c2 < 65536) or tag_of[c2] != t:
            bad.append({"what": "tag %r -> code %d -> tag %r (not stable)" % (t, c2, tag_of.get(c2)),
                        "cmds": ["(lang_from_tag %s)" % enc(t), "(lang_tag %d)" % c2], "impl": o})
    # table entries map to their own code: a tag with a region reported for code c must map back to c
    firsts = {}
    for c, t in tag_of.items():
        if t != "und":
            firsts.setdefault(t, c)
    for t in reported:
        if t == "und":
            continue
        codes = [c for c in (firsts[t],)]
        if "-" in t and tag_of.get(from_tag[t]) == t and from_tag[t] != min(c for c, tt in tag_of.items() if tt == t):
            bad.append({"what": "table tag %r maps to code %d, not its own" % (t, from_tag[t]),
                        "cmds": ["(lang_from_tag %s)" % enc(t)], "impl": str(from_tag[t])})
    # 'und' for an unknown language, the bare language tag for an unknown sublanguage, the table's tag otherwise
    tab = source_table()
    if len(tab) > 50:
        n_bad = 0
        for code in range(65536):
            lang, sub = code & 0x3FF, code >> 10
            want = "und" if lang not in tab else tab[lang][1].get(sub, tab[lang][0])
            if tag_of[code] != want and n_bad < 20:
                n_bad += 1
                bad.append({"what": "code %d (language %d, sublanguage %d) carries tag %r; the table of language.rs gives %r (%s)"
                            % (code, lang, sub, tag_of[code], want, "unknown language" if lang not in tab else
                               "unknown sublanguage: bare language tag" if sub not in tab[lang][1] else "table entry"),
                            "cmds": ["(lang_tag %d)" % code], "impl": tag_of[code]})
    else:
        bad.append({"what": "language table not readable from coq/gen/GenLanguage.v", "cmds": [], "impl": ""})
    for code, t in REFERENCE:
        if tag_of[code] != t:
            bad.append({"what": "Windows identifier %d should carry tag %s, got %r" % (code, t, tag_of[code]),
                        "cmds": ["(lang_tag %d)" % code], "impl": tag_of[code], "cls": "reference"})
    known_langs = set(t for t in reported if "-" not in t and t != "und")
    for s, c in from_tag.items():
        first = s.split("-", 1)[0]
        if first not in known_langs and c != 0:
            bad.append({"what": "unknown language %r maps to %d, not the neutral language" % (s, c),
                        "cmds": ["(lang_from_tag %s)" % enc(s)], "impl": str(c)})
        t2 = tag_of.get(c)
        if t2 is not None and "-" in t2 and t2 != s:
            bad.append({"what": "tag %r maps to code %d, which is the regional variant %r" % (s, c, t2),
                        "cmds": ["(lang_from_tag %s)" % enc(s), "(lang_tag %d)" % c], "impl": str(c)})
    return bad
