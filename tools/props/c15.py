"""C15 -- a successful flush means the data reached the medium, even when writes fail."""
from orchestrate import Case
import exprgen as X
import pkggen as G
from pkgspec import mk

RULE = ("fault enumeration on the real medium: for each of several scripts (create table, inserts with shared and long strings, "
        "update, delete, a 9,000-byte stream across the 8 KiB stream buffer, summary changes, an intermediate flush, a second "
        "table, drop_table) the script is first run fault-free to count its W write calls and record the reference state; "
        "then it is re-run with write call k failing, for k over 0..W-1 (quick: a stride sample of ~150 per script; thorough: "
        "every k), once transient and once persistent, closing by flush and by into_inner.  Whenever EVERY call including the "
        "close returned success, the bytes on the medium are reopened with the fault disarmed and must show exactly the "
        "reference state; no schedule may panic.  non-trivial = the fault was actually hit; distinct = distinct (script, k, "
        "persistence, mode)")
RULE = RULE + ('  Also sessions that OPEN an existing signed file (both signature entries added with the cfb crate) and call remove_digital_signature, alone and followed by table and summary changes, under the same fault enumeration.')
ASSUMPTIONS = ["the fault model is a failing Write::write call on the Read+Write+Seek medium (transient or persistent); short writes, "
               "failing reads/seeks during the write path and torn sectors are not enumerated",
               "cfb's own sector/FAT/directory writes are below the stream-level model of Io.v; they are exercised here, not proved"]
RELEASE_TOO = False
DRIVER_TIMEOUT = 1500


def scripts(rng):
    T = X.enc_str("T")
    U = X.enc_str("U")
    cols = "(" + " ".join(G.enc_col(c) for c in [mk("K", "i16", pk=True), mk("V", ("str", 0), null=True), mk("N", "i32", null=True)]) + ")"
    row = lambda k, v, n: "(%s %s %s)" % (X.enc_value(k), X.enc_value(v), X.enc_value(n))
    s1 = ["(create_table %s %s)" % (T, cols),
          "(insert %s (%s %s))" % (T, row(1, "alpha", 10), row(2, "shared", None)),
          "(insert %s (%s))" % (T, row(3, "shared", -7)),
          "(update %s ((%s %s)) ())" % (T, X.enc_str("V"), X.enc_value("changed")),
          "(delete %s ((bin eq (col %s) (lit (i 2)))))" % (T, X.enc_str("K"))]
    s2 = ["(create_table %s %s)" % (T, cols),
          "(insert %s (%s))" % (T, row(1, "x" * 3000, 1)),
          "(write_stream %s (%s))" % (X.enc_str("Bin.dat"), " ".join(str(i % 251) for i in range(9000))),
          "(sum_set author %s)" % X.enc_str("Jane"), "(flush)",
          "(create_table %s %s)" % (U, cols), "(insert %s (%s))" % (U, row(5, "alpha", None)),
          "(sum_set title %s)" % X.enc_str("Second title"), "(remove_stream %s)" % X.enc_str("Bin.dat")]
    s3 = ["(create_table %s %s)" % (T, cols), "(create_table %s %s)" % (U, cols),
          "(insert %s (%s %s))" % (U, row(1, "u1", None), row(2, "u2", 5)), "(drop_table %s)" % U,
          "(insert %s (%s))" % (T, row(9, "kept", 0)), "(set_db_cp 65001)", "(sum_clear title)"]
    many = ["(create_table %s %s)" % (T, cols)] + ["(insert %s (%s))" % (T, row(k, "s%d" % (k % 7), k)) for k in range(1, 40)]
    # nothing but Package::create (whose own final flush must not lose an error), and a session that only writes a stream:
    # no call re-arms the deferred write-back, so whatever create left unwritten would stay unwritten
    only_stream = ["(write_stream %s (%s))" % (X.enc_str("Blob"), " ".join(str(i % 7) for i in range(100)))]
    seek_stream = ["(x_write_seek %s (%s))" % (X.enc_str("Payload"), " ".join(str(i % 11) for i in range(300))),
                   "(x_write_seek %s (%s))" % (X.enc_str("Big"), " ".join(str(i % 13) for i in range(9000)))]
    # sessions on an EXISTING file (saved, signed with the cfb crate only, opened again): removing the signature -- two
    # container entries, one call -- then changing a table
    unsign = ["(remove_sig)"]
    unsign_dml = ["(remove_sig)", "(insert %s (%s))" % (T, row(9, "after", 1)), "(sum_set author %s)" % X.enc_str("Zed")]
    return {"dml": s1, "stream-flush": s2, "drop": s3, "many-inserts": many, "create-only": [], "stream-only": only_stream,
            "stream-seek": seek_stream, "signed-remove": unsign, "signed-remove-dml": unsign_dml}


def prefix(name):
    """commands that build the file a session starts from (None: the script starts from Package::create)"""
    if not name.startswith("signed"):
        return None
    T = X.enc_str("T")
    cols = "(" + " ".join(G.enc_col(c) for c in [mk("K", "i16", pk=True), mk("V", ("str", 0), null=True), mk("N", "i32", null=True)]) + ")"
    return ["(create 0)", "(create_table %s %s)" % (T, cols), "(insert %s ((%s %s %s)))" % (T, X.enc_value(1), X.enc_value("alpha"), X.enc_value(10)),
            "(write_stream %s (1 2 3))" % X.enc_str("Bin"), "(add_signature)"]


def run_cmds(name, k, persistent, mode, cmds):
    pre = prefix(name)
    if pre is None:
        return [fr(k, persistent, mode, cmds)]
    return pre + [fr(k, persistent, mode, cmds).replace("(x_fault_run", "(x_fault_on", 1)]


def fr(k, persistent, mode, cmds):
    return "(x_fault_run %d %d %s (%s))" % (k, 1 if persistent else 0, mode, " ".join(cmds))


def gen_cases(rng, tier, info):
    # phase 1 only: the fault-free reference runs; the fault schedules depend on their write counts (see oracle)
    cases = []
    for name, cmds in scripts(rng).items():
        for mode in ("flush", "into_inner"):
            cases.append(Case("ref-%s-%s" % (name, mode), run_cmds(name, -1, False, mode, cmds), ("ref", name, mode)))
    info.update({"scripts": len(scripts(rng))})
    return cases


def nontrivial(case):
    return True


def parse_run(o):
    sx = X.parse_sx(o)
    return {"results": sx[0], "close": sx[1], "hit": sx[2], "writes": sx[3], "snap": o[o.index(str(sx[3])) + len(str(sx[3])):] if False else sx[4]}


def classify_known(v):
    return None


def oracle(ctx):
    bad = []
    rng_scripts = scripts(None)
    extra = []
    refs = {}
    for c, outs in zip(ctx.cases, ctx.impl_out):
        o = outs[-1]
        if o in ("panic", "abort", "timeout"):
            bad.append({"kind": "panic", "what": "fault-free run: %s" % o, "cmds": c.cmds, "impl": o})
            continue
        r = parse_run(o)
        if any(x != "ok" for x in r["results"]) or r["close"] != "ok" or r["snap"] in ("unopenable", "open_panicked"):
            bad.append({"kind": "reference", "what": "the fault-free run of script %s did not succeed: %r close=%s" % (c.tags[1], r["results"], r["close"]),
                        "cmds": c.cmds, "impl": o[:300]})
            continue
        refs[(c.tags[1], c.tags[2])] = r
        W = r["writes"]
        stride = 1 if ctx.tier == "thorough" else max(1, W // 150)
        ks = sorted(set(list(range(0, W, stride)) + list(range(max(0, W - 12), W)) + list(range(0, min(W, 12)))))
        for k in ks:
            for persistent in (False, True):
                extra.append(ctx.Case("f-%s-%s-%d-%d" % (c.tags[1], c.tags[2], k, persistent),
                                      run_cmds(c.tags[1], k, persistent, c.tags[2], rng_scripts[c.tags[1]]), (c.tags[1], c.tags[2], k, persistent)))
    outs2 = ctx.run_impl(extra)
    hit = silent = 0
    for c, o in zip(extra, outs2):
        o = o[-1]
        name, mode, k, persistent = c.tags
        if o in ("panic", "abort", "timeout"):
            bad.append({"kind": "panic", "what": "%s under a write fault at call %d" % (o, k), "cmds": c.cmds, "impl": o})
            continue
        r = parse_run(o)
        if "panic" in r["results"] or r["close"] == "panic" or r["snap"] == "open_panicked":
            bad.append({"kind": "panic", "what": "a call panicked under a write fault at call %d (%s): %r close=%s" % (k, "persistent" if persistent else "once", r["results"], r["close"]),
                        "cmds": c.cmds, "impl": o[:200]})
            continue
        if r["hit"]:
            hit += 1
        all_ok = all(x == "ok" for x in r["results"]) and r["close"] == "ok" and len(r["results"]) == len(rng_scripts[name]) + 1
        if all_ok and r["snap"] != refs[(name, mode)]["snap"]:
            silent += 1
            bad.append({"kind": "lost", "what": "script %s, write call %d failing (%s), close by %s: every call returned success, yet reopening the "
                        "medium shows %s" % (name, k, "from then on" if persistent else "once", mode,
                                             "a file that cannot be opened" if r["snap"] == "unopenable" else "a different state"),
                        "cmds": c.cmds, "impl": o[:300]})
    ctx.extra_info = {"fault_schedules": len(extra), "fault_hit": hit, "silent_losses": silent}
    return bad
