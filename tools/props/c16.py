"""C16 -- opening and reading a package never modifies it (package.rs: finisher / flush / into_inner / Drop)."""
from orchestrate import Case
import pkggen as G

RULE = ("random histories (tables, rows, streams, summary values) for all three package types; after every few operations the "
        "package is saved, the saved bytes are opened on a fresh counting medium, EVERY read operation is used (package type, "
        "code page, table and column inspection, select of every table, inner and left joins incl. one with an unknown "
        "column, stream listing and reading, has_stream/read_stream of a missing stream, signature test, all summary getters) "
        "and the session is closed by flush / into_inner / drop in turn; the medium must have received 0 write calls and its "
        "bytes must be identical.  Also sessions on packages that were just created, on packages reopened twice, and on files "
        "written by an independent encoder (unused pool entries that still hold text, duplicates, over-counts, three-byte "
        "references, no _Validation, other property-set layouts).  "
        "The same sessions are run through the crate's path-based entry points msi::open_rw and msi::open on a file "
        "under build/: the file's bytes must be identical afterwards.  non-trivial = the package holds at least one user table; distinct = distinct command lists")
ASSUMPTIONS = ["sector-level behaviour of cfb on open is below the container model; it is observed on the real medium (write-call "
               "counter + byte comparison), not proved"]
MODES = ["flush", "into_inner", "drop"]


def gen_cases(rng, tier, info):
    cases = []
    n = 40 if tier == "quick" else 800
    sessions = 0
    for j in range(n):
        h = G.History(rng, j % 3, observe=None)
        if j % 7 == 0:
            for m in MODES:                      # a package that was only just created
                h.cmds.append("(readonly_session %s)" % m)
                sessions += 1
        h.add_table()
        for i in range(rng.randint(4, 14)):
            r = rng.random()
            if r < 0.12:
                h.cmds.append("(sum_set %s %s)" % rng.choice([("title", "(84 105)"), ("author", "(233 28450)"), ("words", "2"),
                                                              ("ctime", "1489862796000000000"), ("langs", "(1033 1036)"),
                                                              ("arch", "(120 54 52)")]))
            else:
                h.random_op({"bogus": 0.1, "stream": 1.0, "select": 0.3})
            if rng.random() < 0.35:
                h.cmds.append("(readonly_session %s)" % MODES[(i + j) % 3])
                sessions += 1
        if j % 3 == 1:
            h.cmds.append("(add_signature)")     # a signed package: reading it and closing it must leave the signature alone
        for m in MODES:
            h.cmds.append("(readonly_session %s)" % m)
            sessions += 1
        # the same through the crate's path-based entry points (msi::open_rw / msi::open on a file under build/)
        for how, m in (("rw", MODES[j % 3]), ("rw", MODES[(j + 1) % 3]), ("ro", "drop"), ("ro", "into_inner")):
            h.cmds.append("(x_readonly_path %s %s)" % (how, m))
            sessions += 1
        if j % 3 == 1:
            h.cmds.append("(has_sig)")
        h.cmds.append("(snapshot)")
        cases.append(Case("ro-%d" % j, h.cmds))
    # files written by another encoder (unused pool entries incl. ones still holding text, duplicates, three-byte refs ...)
    import msienc
    from pkgspec import mk
    import exprgen as X
    for j in range(12 if tier == "quick" else 200):
        tables = {"T": ([mk("K", "i16", pk=True), mk("V", ("str", 8), null=True)], [[1, "a"], [2, "shared"], [5, None]]),
                  "U": ([mk("A", ("str", 4), pk=True)], [["x"], ["shared"]])}
        summ = [(2, 30, "T"), (4, 30, "Ann")] + ([(0, 0, None)] if j % 2 == 0 else [])     # every other file has no code page property
        clsid, entries, _ = msienc.encode_db(rng, j % 3, 65001, tables, summ, {"Bin": [1, 2, 3]},
                                             long_refs=(j % 2 == 1), holes=0.3, dups=0.3, overcount=0.3, stale=0.5,
                                             validation=(j % 4 != 3), layout=["plain", "shuffled", "gaps"][j % 3],
                                             ragged=(("T",) if j % 3 == 1 else ("U", "T") if j % 6 == 2 else ()))
        cmds = [msienc.enc_open_raw(clsid, entries)]
        for m in MODES + MODES:
            cmds.append("(readonly_session %s)" % m)
            sessions += 1
        cmds += ["(x_readonly_path rw %s)" % MODES[j % 3], "(x_readonly_path ro drop)"]
        sessions += 2
        cases.append(Case("foreign-%d" % j, cmds, ("foreign",)))
    info.update({"histories": n, "read_only_sessions": sessions})
    return cases


def nontrivial(case):
    return any(c.startswith("(create_table") or c.startswith("(open_raw") for c in case.cmds)


def oracle(ctx):
    bad = []
    for c, outs in zip(ctx.cases, ctx.impl_out):
        for i, (cmd, o) in enumerate(zip(c.cmds, outs)):
            if cmd.startswith("(x_readonly_path"):
                if o in ("panic", "abort", "timeout", "(panic)"):
                    bad.append({"kind": "panic", "what": "%s in a read-only session opened by path" % o, "cmds": c.cmds[:i + 1], "impl": o})
                elif o != "(ok 1)":
                    bad.append({"kind": "modified", "what": "a read-only session through the path-based entry point (%s) left the file %s; "
                                "expected (ok 1): bytes identical" % (cmd, o), "cmds": c.cmds[:i + 1], "impl": o})
                continue
            if not cmd.startswith("(readonly_session"):
                continue
            if o in ("panic", "abort", "timeout"):
                bad.append({"kind": "panic", "what": "%s in a read-only session" % o, "cmds": c.cmds[:i + 1], "impl": o})
            elif o != "(ok (0 1))":
                bad.append({"kind": "modified", "what": "a read-only session (%s) reported (write calls, bytes identical) = %s; "
                            "expected (0 1)" % (cmd, o), "cmds": c.cmds[:i + 1], "impl": o})
    return bad
