"""C07 -- rows are accepted exactly when every value is valid for its column (column.rs, category.rs)."""
import itertools, re
from orchestrate import Case
import exprgen as X

RULE = ("(category, string) pairs: all strings over a per-category adversarial alphabet up to length 4-6, boundary numbers "
        "with signs / leading zeros, GUID mutations at every position incl. multi-byte and lower-case characters, cabinet "
        "names around the 8.3 limits in ASCII and multi-byte characters, random strings; (column, value) pairs: integers "
        "within +-2 of every 16/32-bit and declared-range boundary, strings around the declared width in characters, "
        "enumerations, every category; values built from UUIDs and language lists; non-trivial = not the empty string "
        "/ not null; distinct = distinct commands")
RULE = RULE + ('  Also through the package: UPDATEs whose condition selects no row (or whose table is empty) are validated all the same; string columns that carry a value range refuse integers inside that range.')
ASSUMPTIONS = ["str::parse::<i16/i32/u16> accept exactly [+-]?digits (unsigned: +?digits) within range",
               "Uuid::parse_str on a 36-byte slice accepts exactly 8-4-4-4-12 hex digits (uuid 1.x parser, read in source)"]

CATS = ["Text", "UpperCase", "LowerCase", "Integer", "DoubleInteger", "TimeDate", "Identifier", "Property", "Filename",
        "WildCardFilename", "Path", "Paths", "AnyPath", "DefaultDir", "RegPath", "Formatted", "FormattedSddlText",
        "Template", "Condition", "Guid", "Version", "Language", "Binary", "CustomSource", "Cabinet", "Shortcut"]

IDENT = re.compile(r"[A-Za-z_][A-Za-z0-9_.]*\Z")
GUID = re.compile(r"\{[0-9A-F]{8}-[0-9A-F]{4}-[0-9A-F]{4}-[0-9A-F]{4}-[0-9A-F]{12}\}\Z")


def dec_in(s, signed, lo, hi):
    m = re.match(r"([+-]?)([0-9]+)\Z", s)
    if not m:
        return False
    if m.group(1) == "-" and not signed:
        return False
    v = int(m.group(2))
    v = -v if m.group(1) == "-" else v
    return lo <= v <= hi


def ref_validate(cat, s):
    """the documented grammar of each category"""
    if cat == "UpperCase":
        return not re.search(r"[a-z]", s)
    if cat == "LowerCase":
        return not re.search(r"[A-Z]", s)
    if cat == "Integer":
        return dec_in(s, True, -32768, 32767)
    if cat == "DoubleInteger":
        return dec_in(s, True, -2**31, 2**31 - 1)
    if cat == "Identifier":
        return bool(IDENT.match(s))
    if cat == "Property":
        return bool(IDENT.match(s[1:] if s.startswith("%") else s))
    if cat == "Guid":
        return bool(GUID.match(s))
    if cat == "Version":
        parts = s.split(".")
        return len(parts) <= 4 and all(dec_in(p, False, 0, 65535) for p in parts)
    if cat == "Language":
        return all(dec_in(p, False, 0, 65535) for p in s.split(","))
    if cat == "Cabinet":
        if s.startswith("#"):
            return bool(IDENT.match(s[1:]))
        if "." in s:
            base, ext = s.rsplit(".", 1)
        else:
            base, ext = s, None
        return 1 <= len(base) <= 8 and (ext is None or len(ext) <= 3)
    return True


def ref_col_valid(col, v):
    if v is None:
        return col["null"]
    if isinstance(v, int):
        if col["range"] is not None and not (col["range"][0] <= v <= col["range"][1]):
            return False
        if col["type"] == "i16":
            return -32767 <= v <= 32767
        if col["type"] == "i32":
            return -2**31 + 1 <= v <= 2**31 - 1
        return False
    if col["type"] in ("i16", "i32"):
        return False
    w = col["type"][1]
    if col["cat"] is not None and not ref_validate(col["cat"], v):
        return False
    if col["enum"] and v not in col["enum"]:
        return False
    return w == 0 or len(v) <= w


def enc_col(col):
    t = col["type"] if isinstance(col["type"], str) else "(str %d)" % col["type"][1]
    rg = "((%d %d))" % col["range"] if col["range"] is not None else "()"
    fk = "((%s %d))" % (X.enc_str(col["fk"][0]), col["fk"][1]) if col.get("fk") else "()"
    cat = "(%s)" % X.enc_str(col["cat"]) if col["cat"] else "()"
    en = "(" + " ".join(X.enc_str(e) for e in col["enum"]) + ")"
    return "(col %s %s %d %d %d %s %s %s %s)" % (X.enc_str(col["name"]), t, int(col.get("loc", False)), int(col["null"]),
                                                int(col.get("pk", False)), rg, fk, cat, en)


def mkcol(t, null=False, rng=None, cat=None, enum=(), name="C", pk=False, loc=False, fk=None):
    return {"name": name, "type": t, "null": null, "range": rng, "cat": cat, "enum": list(enum), "pk": pk, "loc": loc, "fk": fk}


def words(alpha, maxlen):
    for n in range(0, maxlen + 1):
        for tup in itertools.product(alpha, repeat=n):
            yield "".join(tup)


def cat_strings(rng, tier):
    big = tier == "thorough"
    out = {}
    nums = []
    for b in (0, 1, 9, 32767, 32768, 65535, 65536, 2**31 - 1, 2**31, 2**32, 10**20):
        for d in (-1, 0, 1):
            for sign in ("", "+", "-", "--", "+-"):
                for pad in ("", "0", "000"):
                    nums.append("%s%s%d" % (sign, pad, b + d))
    signs = list(words("+-09 ", 5 if big else 4))
    out["Integer"] = nums + signs + ["٣", "1٣", " 1", "1 ", "1e3", "0x10"]
    out["DoubleInteger"] = out["Integer"]
    vl = list(words("09.,+-", 5 if big else 4)) + ["65535", "65536", "1.2.3.4", "1.2.3.4.5", "1.2.3.65536", "+1.+2", "-1", "1.-2",
                                                   "1033,1034", "1033,", ",1033", "1033,,1", "65535,65536", "1,2,3,4,5,6,7,8", "0.0.0.0", "00001.0"]
    out["Version"] = vl + nums[:200]
    out["Language"] = vl + nums[:200]
    ids = list(words("aZ_9.%é#", 4 if not big else 5))
    out["Identifier"] = ids + ["Foo.Bar", "_x", "9x", "a b", "a-b", "%", "%%a", "%a", "a%", "é", "aé"]
    out["Property"] = out["Identifier"]
    cab = list(words("a.#é9", 4 if not big else 5))
    for bl in (0, 1, 7, 8, 9):
        for el in (None, 0, 1, 3, 4):
            for ch in ("a", "é", "日"):
                base = ch * bl
                cab.append(base if el is None else base + "." + ch * el)
                cab.append(base + ".x" + ("" if el is None else "." + ch * el))
    cab += ["#a", "#", "#9", "#a.b", "#é", "hello.txt", "longfilename.long", "#123.456", "a..b", ".a", "a.", "........", "........."]
    out["Cabinet"] = cab
    ul = list(words("aAé1 ", 3))
    out["UpperCase"] = ul + ["HELLO, WORLD!", "Hello", "ÀÉ", "àé", "ß"]
    out["LowerCase"] = out["UpperCase"]
    g = "{12345678-90AB-CDEF-0123-456789ABCDEF}"
    gs = [g, g.lower(), g[1:-1], g[:-1], g[1:], g + "}", "{" + g, "", "{}", "{" + "é" * 18 + "}", "{" + "0" * 36 + "}",
          "{" + "-" * 36 + "}", "{00000000-0000-0000-0000-000000000000}", "{FFFFFFFF-FFFF-FFFF-FFFF-FFFFFFFFFFFF}",
          "{12345678-90AB-CDEF-0123-456789ABCDE}", "{12345678-90AB-CDEF-0123-456789ABCDEF0}",
          "{1234567890ABCDEF0123456789ABCDEF0000}", "{urn:uuid:12345678-90AB-CDEF-0123-4567}"]
    for i in range(len(g)):
        for ch in ("G", "a", "-", "0", "{", "}", " ", "é", "Ａ"):
            gs.append(g[:i] + ch + g[i + 1:])
    # byte length 38 with multi-byte characters in various places
    for i in range(1, 36):
        gs.append(g[:i] + "é" + g[i + 2:])
    out["Guid"] = gs
    rnd = []
    for _ in range(300 if not big else 5000):
        n = rng.randint(0, 12)
        rnd.append("".join(rng.choice("aZ09._%#{}-+,; é日\U0001F600") for _ in range(n)))
    return out, rnd


def gen_cases(rng, tier, info):
    per_cat, rnd = cat_strings(rng, tier)
    cmds = ["(cat_names)"]
    for c in CATS + ["GUID", "FormattedSDDLText", "guid", "Nope", ""]:
        cmds.append("(cat_from_str %s)" % X.enc_str(c))
    n_pairs = 0
    for cat in CATS:
        strs = list(per_cat.get(cat, [])) + rnd + ["", "a", "A", "1"]
        seen = set()
        for s in strs:
            if s in seen:
                continue
            seen.add(s)
            cmds.append("(cat_validate (%s) %s)" % (X.enc_str(cat)[1:-1], X.enc_str(s)))
            n_pairs += 1
    # (column, value) pairs
    cols = []
    for t in ("i16", "i32"):
        for null in (False, True):
            for r in (None, (-5, 5), (5, -5), (-2**31, 2**31 - 1), (-32768, 32767), (0, 0), (100, 40000)):
                cols.append(mkcol(t, null, r))
    ints = set()
    for b in (0, 5, -5, 100, 32767, -32767, -32768, 32768, 40000, 2**31 - 1, -2**31 + 1, -2**31, 65535):
        for d in (-2, -1, 0, 1, 2):
            if -2**31 <= b + d <= 2**31 - 1:
                ints.add(b + d)
    col_cmds = []
    for col in cols:
        for v in sorted(ints) + [None, "", "a"]:
            col_cmds.append("(col_valid %s %s)" % (enc_col(col), X.enc_value(v)))
    scols = []
    for w in (0, 1, 3, 5, 255):
        for null in (False, True):
            scols.append(mkcol(("str", w), null))
            scols.append(mkcol(("str", w), null, enum=["a", "bb", "ééé", ""]))
    # a string column may carry a value range (it is stored in _Validation like any other): integers stay invalid
    scols.append(mkcol(("str", 8), True, rng=(0, 10)))
    scols.append(mkcol(("str", 0), False, rng=(-5, 70000), cat="Text"))
    for cat in CATS:
        scols.append(mkcol(("str", 6), False, cat=cat))
        scols.append(mkcol(("str", 0), True, cat=cat, enum=["1", "A", "a.b", "{", "1.2"]))
    svals = [None, 0, 1, "", "a", "bb", "ééé", "éééé", "abc", "abcd", "日本語", "日本語日本", "abcde", "abcdef", "abcdefg", "1", "A", "a.b", "{", "1.2",
             "x" * 255, "x" * 256, "é" * 255, "é" * 256, "-1", "65536", "#a", "%a"]
    for col in scols:
        for v in svals:
            col_cmds.append("(col_valid %s %s)" % (enc_col(col), X.enc_value(v)))
    # values the library builds itself
    b_cmds = []
    for _ in range(60 if tier == "quick" else 2000):
        bs = [rng.randint(0, 255) for _ in range(16)]
        b_cmds.append("(value_of_uuid (%s))" % " ".join(map(str, bs)))
    b_cmds.append("(value_of_uuid (%s))" % " ".join(["0"] * 16))
    b_cmds.append("(value_of_uuid (%s))" % " ".join(["255"] * 16))
    for _ in range(60 if tier == "quick" else 2000):
        n = rng.randint(1, 5)
        b_cmds.append("(value_of_langs (%s))" % " ".join(str(rng.choice([0, 9, 1033, 65535, rng.randint(0, 65535)])) for _ in range(n)))
    b_cmds.append("(value_of_langs ())")
    b_cmds.append("(value_of_lang 1033)")
    b_cmds.append("(value_of_lang 0)")
    b_cmds.append("(value_of_lang 65535)")
    for s in ["a", "_", "9", "", "a.b", "a b", "é", "Foo_1.x"]:
        b_cmds.append("(col_name_valid %s)" % X.enc_str(s))
    allc = cmds + col_cmds + b_cmds
    cases = [Case("c07-%d" % i, allc[i:i + 500]) for i in range(0, len(allc), 500)]
    # the gate itself, through the package: INSERT / UPDATE statements with valid and invalid values, rejected batches,
    # one UPDATE assigning a column several times (every assignment must be valid; the last one is stored)
    import pkggen as G
    for name, h in G.scenario_histories(rng):
        cases.append(Case("scn-" + name, h.cmds, ("pkg",)))
    info.update({"category_string_pairs": n_pairs, "column_value_pairs": len(col_cmds), "builder_values": len(b_cmds)})
    return cases


def nontrivial(case):
    return True


def parse_col(sx):
    t = sx[2] if isinstance(sx[2], str) else ("str", sx[2][1])
    return {"name": "".join(map(chr, sx[1])), "type": t, "null": bool(sx[4]), "range": tuple(sx[6][0]) if sx[6] else None,
            "cat": "".join(map(chr, sx[8][0])) if sx[8] else None, "enum": ["".join(map(chr, e)) for e in sx[9]]}


def oracle(ctx):
    bad = []
    guid_col = enc_col(mkcol(("str", 38), False, cat="Guid"))
    lang_col = enc_col(mkcol(("str", 0), False, cat="Language"))
    follow = []
    import pkggen as G
    for c, outs in zip(ctx.cases, ctx.impl_out):
        if "pkg" in c.tags:
            for f in G.walk(c.cmds, outs):
                bad.append(f)
                break
            continue
        for cmd, o in zip(c.cmds, outs):
            if o in ("panic", "abort", "timeout"):
                bad.append({"what": "validator panicked", "cmds": [cmd], "impl": o})
                continue
            sx = X.parse_sx(cmd)
            if sx[0] == "cat_validate":
                cat = "".join(map(chr, sx[1]))
                s = "".join(map(chr, sx[2]))
                want = ref_validate(cat, s)
                if o != "(ok %d)" % int(want):
                    bad.append({"what": "Category::%s.validate(%r) should be %s by the documented grammar" % (cat, s, want),
                                "cmds": [cmd], "impl": o, "cat": cat, "string": s})
            elif sx[0] == "col_valid":
                col = parse_col(sx[1])
                v = X.dec_value(sx[2])
                want = ref_col_valid(col, v)
                if o != "(ok %d)" % int(want):
                    bad.append({"what": "is_valid_value(%r) on %r should be %s" % (v, col, want), "cmds": [cmd], "impl": o})
            elif sx[0] == "value_of_uuid":
                follow.append(("(col_valid %s %s)" % (guid_col, o), cmd))
            elif sx[0] == "value_of_langs" and sx[1]:
                follow.append(("(col_valid %s %s)" % (lang_col, o), cmd))
            elif sx[0] == "value_of_lang":
                follow.append(("(col_valid %s %s)" % (lang_col, o), cmd))
            elif sx[0] == "cat_names":
                names = ["".join(map(chr, n)) for n in X.parse_sx(o)]
                back = ctx.run_impl([ctx.Case("rt", ["(cat_from_str %s)" % X.enc_str(n) for n in names])])[0]
                want = [c if c != "FormattedSddlText" else "FormattedSddlText" for c in CATS]
                got = ["".join(map(chr, X.parse_sx(b)[0])) if b != "()" else None for b in back]
                if got != want:
                    bad.append({"what": "category names do not round-trip through FromStr: %r" % (list(zip(names, got)),), "cmds": [cmd], "impl": o})
    if follow:
        res = ctx.run_impl([ctx.Case("built", [f for f, _ in follow])])[0]
        for (f, cmd), o in zip(follow, res):
            if o != "(ok 1)":
                bad.append({"what": "a value built by the library is not valid for its category", "cmds": [cmd, f], "impl": o})
    return bad
