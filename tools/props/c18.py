"""C18 -- creation times convert without drift (timestamp.rs)."""
from orchestrate import Case

RULE = ("cases = system times (ns relative to 1970) at every tick boundary +-0..199 ns around 1601, 1970, the u64 tick "
        "maximum, the platform extremes, plus random times; tick values at boundaries plus random; non-trivial = the "
        "instant is not exactly on the epoch; distinct = distinct command lists")
RULE = RULE + ('  Both ends of the range also go through a real save and reopen (tick 0, times before 1601, the first and the last ticks): a creation time that was set is still set, and the same, afterwards.')
ASSUMPTIONS = ["SystemTime holds i64 seconds + nanoseconds (Linux); Duration arithmetic as documented by std"]
RELEASE_TOO = True

EPOCH = 116444736000000000
U64 = 2**64 - 1
LO = -EPOCH * 100
HI = (U64 - EPOCH) * 100 + 99
PMIN = -(2**63) * 10**9
PMAX = (2**63 - 1) * 10**9 + 999999999


def gen_cases(rng, tier, info):
    ts = set()
    for base in (LO, 0, HI, HI - 99, 1489862796 * 10**9, -14182980 * 10**9):
        for d in range(-200, 201):
            ts.add(base + d)
    for base in (PMIN, PMAX):
        for d in range(0, 3):
            ts.add(base + d if base < 0 else base - d)
    n = 3000 if tier == "quick" else 300000
    for _ in range(n):
        r = rng.random()
        if r < 0.6:
            ts.add(rng.randint(LO, HI))
        elif r < 0.8:
            ts.add(rng.randint(-10**19, 10**19))
        elif r < 0.9:
            ts.add(rng.randint(PMIN, PMAX))
        else:
            ts.add(rng.choice([LO, 0, HI]) + rng.randint(-10**6, 10**6))
    ts = sorted(t for t in ts if PMIN <= t <= PMAX)
    ks = set()
    for base in (0, EPOCH, U64):
        for d in range(-3, 4):
            if 0 <= base + d <= U64:
                ks.add(base + d)
    for _ in range(n // 3):
        ks.add(rng.randint(0, U64))
    ks = sorted(ks)
    cases = []
    chunk = 200
    for i in range(0, len(ts), chunk):
        cmds = []
        for t in ts[i:i + chunk]:
            cmds.append("(time_from %d)" % t)
        cases.append(Case("from-%d" % i, cmds))
    for i in range(0, len(ks), chunk):
        cases.append(Case("to-%d" % i, ["(time_to %d)" % k for k in ks[i:i + chunk]]))
    api = rng.sample(ts, min(len(ts), 300 if tier == "quick" else 3000))
    for i in range(0, len(api), 50):
        cases.append(Case("api-%d" % i, ["(time_rt %d)" % t for t in api[i:i + 50]]))
    info.update({"times": len(ts), "ticks": len(ks), "api_roundtrips": len(api)})
    from props import c10
    cases += c10.long_cases(tier)
    import exprgen as X
    for k, (page, text) in enumerate(((932, "\u65e5\u672c\u8a9e\u65e5\u672c\u8a9e"), (936, "\u4e2d\u6587\u4e2d\u6587\u4e2d"), (949, "\ud55c\uad6d\uc5b4"), (950, "\u4e2d\u6587\u5b57"),
                                    (1252, "\u00e9\u00e9\u00e9"), (65001, "\u65e5\u672c\u8a9e"))):
        for n in (1, 2, 3):
            cmds = ["(create %d)" % (k % 3), "(sum_set codepage %d)" % page, "(sum_set author %s)" % X.enc_str(text * n),
                    "(sum_set title %s)" % X.enc_str(text[:n]), "(sum_set ctime 1489862796123456700)", "(sum_set words 7)", "(sum_get)",
                    "(reopen %s)" % ["flush", "into_inner", "drop"][(k + n) % 3], "(sum_get)"]
            cases.append(Case("dbcs-%d-%d" % (page, n), cmds, ("long",)))
    # both ends of the range through a real save / reopen: the first instant of the Windows epoch (tick 0), times before it
    # (they saturate to tick 0), the first tick, the last ticks -- a creation time that was set is still set, and the same,
    # after the package has been saved and reopened
    for k, t in enumerate((LO, LO + 50, LO + 100, LO - 5 * 10**9, PMIN, HI, HI - 100, 0, -1)):
        cmds = ["(create %d)" % (k % 3), "(sum_set ctime %d)" % t, "(sum_get)", "(reopen %s)" % ["flush", "into_inner", "drop"][k % 3], "(sum_get)",
                "(sum_set author %s)" % X.enc_str("a"), "(reopen %s)" % ["drop", "flush", "into_inner"][k % 3], "(sum_get)"]
        cases.append(Case("ends-%d" % k, cmds, ("ends", t)))
    return cases


def nontrivial(case):
    return any(not c.endswith(" 0)") for c in case.cmds)


def oracle(ctx):
    """the property itself, evaluated on the implementation's outputs"""
    bad = []
    # creation times through a real save / reopen, with the FILETIME at every position relative to the stream buffer
    from props import c10
    import types
    pk = [(c, o) for c, o in zip(ctx.cases, ctx.impl_out) if "long" in c.tags]
    if pk:
        sub = types.SimpleNamespace(cases=[c for c, _ in pk], impl_out=[o for _, o in pk], model_out=[o for _, o in pk],
                                    run_impl=ctx.run_impl, run_model=ctx.run_model, profile=ctx.profile, tier=ctx.tier, Case=ctx.Case)
        bad += c10.oracle(sub)
    for c, outs in zip(ctx.cases, ctx.impl_out):
        if "ends" not in c.tags:
            continue
        t = c.tags[1]
        if any(o in ("panic", "abort", "timeout") for o in outs) or outs[3] != "(ok ())" or outs[6] != "(ok ())":
            bad.append({"what": "saving / reopening a package whose creation time is %d ns failed: %r" % (t, [o[:30] for o in outs]), "cmds": c.cmds, "impl": outs[-1][:100]})
            continue
        try:
            got = [c10.parse_summary(outs[i])[8] for i in (2, 4, 7)]
        except Exception:
            bad.append({"what": "summary unreadable", "cmds": c.cmds, "impl": outs[-1][:100]})
            continue
        want = min(max(t, LO), HI)
        if got[0] is None or abs(got[0] - want) >= 100 or got[1] != got[0] or got[2] != got[0]:
            bad.append({"what": "creation time %d ns (expected within one tick of %d): getter says %r, after save and reopen %r, after a second "
                        "save %r" % (t, want, got[0], got[1], got[2]), "cmds": c.cmds, "impl": outs[4][:200]})
    ctx_cases = [(c, o) for c, o in zip(ctx.cases, ctx.impl_out) if "long" not in c.tags and "ends" not in c.tags]
    pairs = []           # (t, from_time t) for monotonicity
    rts = []
    for c, outs in ctx_cases:
        for cmd, o in zip(c.cmds, outs):
            name, arg = cmd[1:-1].split()
            arg = int(arg)
            if o in ("panic", "abort", "timeout"):
                bad.append({"what": "conversion panicked/aborted", "cmds": [cmd], "impl": o})
                continue
            try:
                v = int(o)
            except ValueError:
                continue
            if name == "time_from":
                pairs.append((arg, v))
                if not (0 <= v <= U64):
                    bad.append({"what": "tick count outside u64", "cmds": [cmd], "impl": o})
                if arg <= LO and v != 0:
                    bad.append({"what": "no saturation at 1601", "cmds": [cmd], "impl": o})
                if arg >= HI and v != U64:
                    bad.append({"what": "no saturation at the tick maximum", "cmds": [cmd], "impl": o})
            elif name == "time_rt":
                if LO <= arg <= HI and abs(v - arg) >= 100:
                    bad.append({"what": "creation time drifted by %d ns" % (v - arg), "cmds": [cmd], "impl": o})
                rts.append(v)
            elif name == "time_to":
                pairs.append((None, None))
    pairs = sorted(p for p in pairs if p[0] is not None)
    for (t1, k1), (t2, k2) in zip(pairs, pairs[1:]):
        if k1 > k2:
            bad.append({"what": "not monotonic", "cmds": ["(time_from %d)" % t1, "(time_from %d)" % t2], "impl": "%d > %d" % (k1, k2)})
            break
    # setting a returned time again returns it unchanged; every tick is a fixed point
    if rts:
        again = ctx.run_impl([ctx.Case("idem", ["(time_rt %d)" % v for v in rts])])[0]
        for v, o in zip(rts, again):
            if o != str(v):
                bad.append({"what": "returned time is not a fixed point", "cmds": ["(time_rt %d)" % v], "impl": o})
    return bad
