#!/bin/sh
# regenerate coq/_CoqProject (options + every .v under theories gen props extract) and the Makefile
set -e
cd "$(dirname "$0")/../coq"
{
  echo "-Q theories MsiModel"
  echo "-Q gen MsiGen"
  echo "-Q props MsiProps"
  echo "-Q extract MsiExtract"
  echo "-arg -w -arg -notation-overridden,-deprecated-hint-without-locality,-deprecated-syntactic-definition,-extraction-opaque-accessed,-extraction-reserved-identifier"
  find theories gen props extract -name '*.v' | LC_ALL=C sort
} > _CoqProject.new
if ! cmp -s _CoqProject.new _CoqProject 2>/dev/null || [ ! -f Makefile ]; then
  mv _CoqProject.new _CoqProject
  coq_makefile -f _CoqProject -o Makefile >/dev/null 2>&1
else
  rm -f _CoqProject.new
fi
