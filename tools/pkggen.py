"""pkggen.py -- history generators for package-level properties and the walker that judges the
implementation's observations against the plain specification (pkgspec.SpecDB)."""
import exprgen as X
from pkgspec import SpecDB, enc_col, dec_col, col_view, mk, stream_name_valid
import msidec

INTS = [0, 1, -1, 2, 5, 7, 32767, -32767, 32768, -32768, 65535, 2**31 - 1, -2**31 + 1, -2**31]
STRS = ["", "a", "b", "ab", "A", "é", "日本", "x y", "abc", "Zz", "shared", "q" * 12, "\ufeffab", "\ufeff"]
ASCII_ONLY = False      # set by a generator whose history switches the database to US-ASCII: only representable text is stored


REP = None               # or a function char -> char mapping generated text into the repertoire of a single-byte page


def _rep(s):
    """keep a generated string inside the repertoire of the code page the history will use"""
    if ASCII_ONLY and isinstance(s, str):
        return "".join(ch if ord(ch) < 128 else "e" for ch in s)
    if REP and isinstance(s, str):
        return "".join(REP(ch) for ch in s)
    return s


def schema_family(rng, kind=None):
    kind = kind or rng.choice(["intkey", "composite", "strkey", "random", "intkey", "composite", "widerange", "pklast", "pkgap", "i32key", "casecols", "strrange"])
    if kind == "intkey":
        return [mk("K", "i16", pk=True), mk("V", ("str", 10), null=True), mk("N", "i32", null=True)]
    if kind == "composite":
        return [mk("A", "i16", pk=True), mk("B", ("str", 4), pk=True, null=True), mk("C", "i16", null=True)]
    if kind == "strkey":
        return [mk("S", ("str", 6), pk=True), mk("X", "i32", null=True, rng=(-5, 100))]
    if kind == "strrange":
        # a value range on a string column (it comes back from _Validation on reopen): integers stay invalid for it
        return [mk("K", "i16", pk=True), mk("S", ("str", 8), null=True, rng=(1, 10)), mk("N", "i16", null=True, rng=(1, 10))]
    if kind == "casecols":
        # column names are case-sensitive: two columns may differ in letter case only
        return [mk("K", "i16", pk=True), mk("val", "i32", null=True), mk("Val", "i32", null=True), mk("VAL", ("str", 6), null=True)]
    if kind == "pklast":
        # the key column is not the leading column: keys are the cells at the key positions, not a prefix of the row
        return [mk("L", ("str", 8), null=True), mk("Id", "i16", pk=True)]
    if kind == "pkgap":
        return [mk("A", "i16", pk=True), mk("V", ("str", 6), null=True), mk("B", "i16", pk=True), mk("W", "i32", null=True)]
    if kind == "i32key":
        # keys more than 2^31 apart: ordering and comparisons must not go through a difference
        return [mk("K", "i32", pk=True), mk("V", ("str", 6), null=True)]
    if kind == "widerange":
        # the declared range is wider than the storage type: the type's own bounds must still be enforced
        return [mk("K", "i16", pk=True, rng=(0, 100000)), mk("W", "i16", null=True, rng=(-40000, 40000)),
                mk("D", "i32", null=True, rng=(-2**31 + 1, 2**31 - 1))]
    cols = []
    n = rng.randint(1, 5)
    for i in range(n):
        t = rng.choice(["i16", "i32", ("str", rng.choice([0, 1, 3, 8, 64, 255]))])
        c = mk("c%d" % i, t, null=rng.random() < 0.5, pk=(i == 0 or rng.random() < 0.2), loc=rng.random() < 0.2)
        if t in ("i16", "i32") and rng.random() < 0.3:
            c["range"] = (rng.choice([-5, 0, 1]), rng.choice([5, 100, 32767]))
        if isinstance(t, tuple):
            r = rng.random()
            if r < 0.25:
                c["cat"] = rng.choice(["Identifier", "Text", "Formatted", "UpperCase", "Version", "Binary", "Guid"])
            elif r < 0.4:
                c["enum"] = sorted(set(_rep(x) for x in rng.sample(["a", "b", "ab", "é", "Zz"], rng.randint(1, 3))))
        cols.append(c)
    return cols


def gen_value(rng, col, p_invalid=0.1):
    if p_invalid and col["range"] and isinstance(col["type"], tuple) and rng.random() < 0.15:
        return rng.randint(col["range"][0], col["range"][1])        # inside the range, but not a string
    if rng.random() < p_invalid:
        return _rep(rng.choice([None, 0, "a", 32768, -2**31, "zzzzzzzzzzzzzzzzzzzzzzzz", "é" * 300, 40000]))
    if col["null"] and rng.random() < 0.25:
        return None
    t = col["type"]
    if t in ("i16", "i32"):
        lo, hi = (-32767, 32767) if t == "i16" else (-2**31 + 1, 2**31 - 1)
        if col["range"]:
            lo, hi = max(lo, col["range"][0]), min(hi, col["range"][1])
        cands = [v for v in INTS + [3, 4, 6, 8, 9, 10] if lo <= v <= hi]
        if col["range"] and rng.random() < 0.25:
            # inside the declared range but possibly outside the storage type
            wide = [v for v in (32768, 40000, 65537, -32768, -40000, 65536 + 7, -2**31, 2**31 - 1) if col["range"][0] <= v <= col["range"][1]]
            if wide:
                return rng.choice(wide)
        return rng.choice(cands) if cands else lo
    if col["enum"]:
        return rng.choice(col["enum"])
    w = t[1]
    cat = col["cat"]
    if cat == "Identifier":
        s = rng.choice(["a", "B_1", "x.y", "_q", "Abc"])
    elif cat == "UpperCase":
        s = rng.choice(["A", "ÀB", "X1", ""])
    elif cat == "Version":
        s = rng.choice(["1", "1.2", "1.2.3.4", "0.65535"])
    elif cat == "Guid":
        s = "{12345678-90AB-CDEF-0123-456789ABCDE%s}" % rng.choice("0123456789ABCDEF")
    else:
        s = rng.choice(STRS)
    if w and len(s) > w:
        s = s[:w]
    return _rep(s)


def gen_cond(rng, cols, depth=2):
    names = [c["name"] for c in cols]
    if depth == 2 and rng.random() < 0.2:
        # a chain of restrictions; the first may be a bare column (true for any non-null, non-zero, non-empty value)
        first = ("col", rng.choice(names)) if rng.random() < 0.5 else gen_cond(rng, cols, 1)
        return ("and", first, gen_cond(rng, cols, 1))
    if rng.random() < 0.5:
        c = rng.choice(cols)
        v = gen_value(rng, c, 0.0)
        op = rng.choice(["eq", "ne", "lt", "ge", "le", "gt"])
        return ("bin", op, ("col", c["name"]), ("lit", v))
    return X.random_expr(rng, depth, names, [None, 0, 1, -1, 2, 5, "", "a", "b"], 0.7)


def enc_rows(rows):
    return "(" + " ".join("(" + " ".join(X.enc_value(v) for v in r) + ")" for r in rows) + ")"


def enc_cond(c):
    return "()" if c is None else "(%s)" % X.enc_expr(c)


class History:
    """builds a command list while keeping a shadow SpecDB so that most operations are valid"""

    def __init__(self, rng, ptype=0, observe="snapshot"):
        self.rng = rng
        self.db = SpecDB(ptype)
        self.cmds = ["(create %d)" % ptype]
        self.observe = observe
        self.next_table = 0

    def obs(self):
        if self.observe:
            self.cmds.append("(%s)" % self.observe)

    def table_names(self):
        return sorted(self.db.tables)

    def add_table(self, name=None, cols=None, kind=None):
        if name is None:
            name = self.rng.choice(["T", "Tab", "U_1", "Long.Name", "x"]) + str(self.next_table)
            self.next_table += 1
        cols = cols or schema_family(self.rng, kind)
        self.cmds.append("(create_table %s (%s))" % (X.enc_str(name), " ".join(enc_col(c) for c in cols)))
        if self.db.predict_create_table(name, cols) == "ok":
            self.db.create_table(name, cols)
        return name

    def drop_table(self, name):
        self.cmds.append("(drop_table %s)" % X.enc_str(name))
        if self.db.predict_drop_table(name) == "ok":
            self.db.drop_table(name)

    def insert(self, name, rows=None, n=None, p_invalid=0.05):
        cols = self.db.cols_of(name) or [mk("K", "i16", pk=True)]
        if rows is None:
            rows = [[gen_value(self.rng, c, p_invalid) for c in cols] for _ in range(n or self.rng.randint(1, 3))]
        self.cmds.append("(insert %s %s)" % (X.enc_str(name), enc_rows(rows)))
        if self.db.predict_insert(name, rows) == "ok":
            self.db.insert(name, rows)

    def update(self, name, ups=None, cond="random"):
        cols = self.db.cols_of(name) or [mk("K", "i16", pk=True)]
        if ups is None:
            k = self.rng.randint(1, 2)
            ups = []
            for _ in range(k):
                c = self.rng.choice(cols)
                ups.append((c["name"], gen_value(self.rng, c, 0.05)))
        if cond == "random":
            cond = gen_cond(self.rng, cols) if self.rng.random() < 0.7 else None
        self.cmds.append("(update %s (%s) %s)" % (X.enc_str(name), " ".join("(%s %s)" % (X.enc_str(c), X.enc_value(v)) for c, v in ups), enc_cond(cond)))
        if self.db.predict_update(name, ups, cond) == "ok":
            self.db.update(name, ups, cond)

    def delete(self, name, cond="random"):
        cols = self.db.cols_of(name) or [mk("K", "i16", pk=True)]
        if cond == "random":
            cond = gen_cond(self.rng, cols) if self.rng.random() < 0.8 else None
        self.cmds.append("(delete %s %s)" % (X.enc_str(name), enc_cond(cond)))
        if self.db.predict_delete(name, cond) == "ok":
            self.db.delete(name, cond)

    def select(self, name, names=(), cond=None):
        self.cmds.append("(select (sel (t %s) (%s) %s))" % (X.enc_str(name), " ".join(X.enc_str(n) for n in names), enc_cond(cond)))

    def reopen(self, mode=None):
        self.cmds.append("(reopen %s)" % (mode or self.rng.choice(["flush", "into_inner", "drop"])))

    def flush(self):
        self.cmds.append("(flush)")

    def raw(self):
        self.cmds.append("(raw)")

    def write_stream(self, name, data):
        self.cmds.append("(write_stream %s (%s))" % (X.enc_str(name), " ".join(map(str, data))))
        if stream_name_valid(name):
            self.db.streams[name] = list(data)

    def remove_stream(self, name):
        self.cmds.append("(remove_stream %s)" % X.enc_str(name))
        if stream_name_valid(name) and name in self.db.streams:
            del self.db.streams[name]

    def random_op(self, weights=None):
        r = self.rng
        names = self.table_names()
        w = {"create": 1, "drop": 0.4, "insert": 4, "update": 2, "delete": 1.5, "select": 1, "reopen": 0.8, "stream": 0.6,
             "bogus": 0.3}
        if weights:
            w.update(weights)
        kinds = list(w)
        k = r.choices(kinds, [w[x] for x in kinds])[0]
        if not names and k in ("drop", "insert", "update", "delete", "select"):
            k = "create"
        if k == "create":
            if len(names) >= 3:
                self.drop_table(r.choice(names))
            else:
                self.add_table()
        elif k == "drop":
            self.drop_table(r.choice(names))
        elif k == "insert":
            self.insert(r.choice(names))
        elif k == "update":
            self.update(r.choice(names))
        elif k == "delete":
            self.delete(r.choice(names))
        elif k == "select":
            n = r.choice(names)
            cols = self.db.cols_of(n)
            proj = [c["name"] for c in r.sample(cols, r.randint(1, len(cols)))] if r.random() < 0.5 else []
            self.select(n, proj, gen_cond(r, cols) if r.random() < 0.6 else None)
        elif k == "reopen":
            self.reopen()
        elif k == "stream":
            nm = r.choice(["s1", "Bin.dat", "x", "ab", "é", "data_1"])
            if r.random() < 0.7:
                self.write_stream(nm, [r.randint(0, 255) for _ in range(r.choice([0, 1, 5, 70]))])
            else:
                self.remove_stream(nm)
        else:
            bad = r.choice(["insert", "update", "delete", "drop", "create"])
            if bad == "insert":
                self.insert("Nope" if r.random() < 0.5 or not names else r.choice(names),
                            rows=[[1]] if r.random() < 0.5 else [[1, 2, 3, 4, 5, 6, 7]])
            elif bad == "update":
                self.update(r.choice(names) if names else "Nope", ups=[("Missing", 1)], cond=None)
            elif bad == "delete":
                self.delete(r.choice(names) if names else "Nope", cond=("bin", "eq", ("col", "Missing"), ("lit", 1)))
            elif bad == "drop":
                self.drop_table(r.choice(["Nope", "_Tables", "_Columns", "_Validation", "9x", ""]))
            else:
                self.add_table(name=r.choice(["9x", "", "_StringPool", "_Tables", "a b"] + names), kind="intkey")


# ---- walker: the implementation's observations against the specification ------------------------------
def dec_rows(sx):
    return [[X.dec_value(v) for v in r] for r in sx]


def parse_snapshot(o):
    """wire snapshot -> dict (or None if it cannot be parsed)"""
    try:
        sx = X.parse_sx(o)
        pt, cp, tabs, rows, streams, summ = sx
        return {
            "ptype": pt, "db_cp": cp,
            "tables": {"".join(map(chr, t[0])): [dec_col(c) for c in t[1]] for t in tabs},
            "rows": {"".join(map(chr, t[0])): (dec_rows(t[1][1]) if isinstance(t[1], list) and t[1][0] == "ok" else t[1]) for t in rows},
            "streams": {"".join(map(chr, s[0])): (s[1][1] if isinstance(s[1], list) and s[1][0] == "ok" else s[1]) for s in streams},
            "summary": summ,
        }
    except Exception:
        return None


def expected_snapshot_view(db):
    return {"ptype": db.ptype, "db_cp": db.db_cp,
            "tables": {n: [col_view(c) for c in cols] for n, cols in db.expected_tables().items()},
            "rows": db.expected_rows(), "streams": {n: list(b) for n, b in db.streams.items()}}


def snapshot_view(snap):
    return {"ptype": snap["ptype"], "db_cp": snap["db_cp"],
            "tables": {n: [col_view(c) for c in cols] for n, cols in snap["tables"].items()},
            "rows": snap["rows"], "streams": snap["streams"]}


def sx_to_cond(sx):
    from props.c13 import sx_to_expr
    return None if not sx else sx_to_expr(sx[0])


def diff_views(exp, got, sort_catalog=False):
    out = []
    for key in ("ptype", "db_cp"):
        if exp[key] != got[key]:
            out.append(("meta", "%s is %r, expected %r" % (key, got[key], exp[key])))
    if exp["tables"] != got["tables"]:
        for n in sorted(set(exp["tables"]) | set(got["tables"])):
            if exp["tables"].get(n) != got["tables"].get(n):
                out.append(("schema", "table %s is described as %r, expected %r" % (n, got["tables"].get(n), exp["tables"].get(n))))
                break
    def nn(rows):
        # the empty string and null are the single value the format has for both
        return [[None if v == "" else v for v in r] for r in rows] if isinstance(rows, list) else rows
    def cat_sorted(n, rows):
        # a foreign encoder may store catalog rows in any order; they are compared as sets then
        if sort_catalog and n in ("_Tables", "_Columns", "_Validation") and isinstance(rows, list):
            return sorted(rows, key=lambda r: [X.vkey(v) for v in r])
        return rows
    for n in sorted(set(exp["rows"]) | set(got["rows"])):
        if cat_sorted(n, nn(exp["rows"].get(n))) != cat_sorted(n, nn(got["rows"].get(n))):
            out.append(("rows", "table %s holds %r, the relational model says %r" % (n, got["rows"].get(n), exp["rows"].get(n))))
            break
    if exp["streams"] != got["streams"]:
        out.append(("streams", "streams are %r, expected %r" % ({k: (v[:8] if isinstance(v, list) else v) for k, v in got["streams"].items()},
                                                               {k: v[:8] for k, v in exp["streams"].items()})))
    return out


def invariant_problems(db, snap, every_table=False):
    """C05: unique ascending keys and valid cells, judged on the implementation's own rows and schemas"""
    from props.c07 import ref_col_valid
    from pkgspec import key_of
    out = []
    for n, cols in snap["tables"].items():
        rows = snap["rows"].get(n)
        if not isinstance(rows, list) or (n not in db.tables and not every_table) or n.startswith("_"):
            continue
        keys = [key_of(cols, r) for r in rows]
        for a, b in zip(keys, keys[1:]):
            if not a < b:
                out.append("table %s: keys not strictly ascending (%r then %r)" % (n, a, b))
                break
        for r in rows:
            for c, v in zip(cols, r):
                if not (ref_col_valid(c, v) or (v is None and isinstance(c["type"], tuple) and ref_col_valid(c, ""))):
                    out.append("table %s: cell %r is not valid for column %s" % (n, v, c["name"]))
                    break
    return out


def walk(cmds, outs, decode=None, start_db=None, sort_catalog=False, accounting=True):
    """returns a list of findings {kind, what, cmds, impl}"""
    findings = []
    db = None
    prev_snap = None        # last snapshot (for 'an error changes nothing' and reopen checks)
    last_was_err = False
    last_was_reopen = False
    diverged = False
    for i, (cmd, o) in enumerate(zip(cmds, outs)):
        sx = X.parse_sx(cmd)
        name = sx[0]

        def report(kind, what):
            findings.append({"kind": kind, "what": what, "cmds": cmds[:i + 1], "impl": o[:400]})
        if o in ("panic", "abort", "timeout"):
            report("panic", "%s on %s" % (o, cmd[:120]))
            if name not in ("snapshot", "rows", "raw", "select", "tables", "streams"):
                return findings
            continue
        if name == "create":
            db = SpecDB(sx[1])
            if o != "(ok ())":
                report("gate", "create failed")
                return findings
            prev_snap = None
            continue
        if name in ("open_raw", "x_open_raw") and start_db is not None:
            db = start_db.clone()
            if o != "(ok ())":
                report("open", "opening the independently encoded file failed (%s)" % o)
                return findings
            prev_snap = None
            continue
        if db is None:
            continue
        ok = o == "(ok ())"
        pred = None
        if name == "create_table":
            tn = "".join(map(chr, sx[1]))
            cols = [dec_col(c) for c in sx[2]]
            pred = db.predict_create_table(tn, cols)
            if ok and pred == "ok":
                db.create_table(tn, cols)
        elif name == "drop_table":
            tn = "".join(map(chr, sx[1]))
            pred = db.predict_drop_table(tn)
            if ok and pred == "ok":
                db.drop_table(tn)
        elif name == "insert":
            tn = "".join(map(chr, sx[1]))
            rows = dec_rows(sx[2])
            pred = db.predict_insert(tn, rows)
            if ok and pred == "ok":
                db.insert(tn, rows)
        elif name == "update":
            tn = "".join(map(chr, sx[1]))
            ups = [("".join(map(chr, u[0])), X.dec_value(u[1])) for u in sx[2]]
            cond = sx_to_cond(sx[3])
            pred = db.predict_update(tn, ups, cond)
            if ok and pred == "ok":
                db.update(tn, ups, cond)
        elif name == "delete":
            tn = "".join(map(chr, sx[1]))
            cond = sx_to_cond(sx[2])
            pred = db.predict_delete(tn, cond)
            if ok and pred == "ok":
                db.delete(tn, cond)
        elif name == "write_stream":
            nm = "".join(map(chr, sx[1]))
            pred = "ok" if stream_name_valid(nm) else "err"
            if ok and pred == "ok":
                db.streams[nm] = list(sx[2])
        elif name == "remove_stream":
            nm = "".join(map(chr, sx[1]))
            pred = "ok" if stream_name_valid(nm) and nm in db.streams else "err"
            if ok and pred == "ok":
                del db.streams[nm]
        elif name == "set_db_cp":
            db.db_cp = sx[1]
        if pred in ("ok", "err"):
            got = "ok" if ok else ("err" if o == "err" else o)
            if got != pred:
                report("gate", "%s returned %s; the specification says %s" % (cmd[:160], got, pred))
                if got == "ok":
                    # the shadow state is no longer meaningful; the invariant of the implementation's own rows is still
                    # judged on the next snapshot, then the walk stops
                    diverged = True
            last_was_err = (got == "err")
            last_was_reopen = False
            continue
        if name == "select" and not diverged and sx[1][1][0] == "t":
            # a filter / projection of one user table: exactly the rows of the specification that satisfy the condition
            tn = "".join(map(chr, sx[1][1][1]))
            if tn in db.tables:
                cols = db.tables[tn]["cols"]
                cn = [c["name"] for c in cols]
                proj = ["".join(map(chr, n)) for n in sx[1][2]]
                cond = sx_to_cond(sx[1][3])
                if any(n not in cn for n in proj) or (cond is not None and not db.expr_cols_ok(cols, cond)):
                    want = "err"
                else:
                    idx = [cn.index(n) for n in proj] if proj else list(range(len(cn)))
                    want = sorted(([r[k] for k in idx] for r in db.tables[tn]["rows"] if db.matched(cols, r, cond)), key=lambda r: [X.vkey(v) for v in r])
                if o == "err":
                    got = "err"
                else:
                    try:
                        got = sorted(([None if v == "" else v for v in r] for r in dec_rows(X.parse_sx(o)[1][1])), key=lambda r: [X.vkey(v) for v in r])
                    except Exception:
                        got = o[:80]
                if got != want:
                    report("select", "%s returned %r; the rows of the table that satisfy the condition are %r" % (cmd[:160], got if got == "err" else got[:5], want if want == "err" else want[:5]))
            continue
        if name == "reopen":
            if o != "(ok ())":
                report("reopen", "reopening the saved package failed (%s)" % o)
                return findings
            last_was_reopen = True
            last_was_err = False
            continue
        if name == "snapshot":
            snap = parse_snapshot(o)
            if snap is None:
                report("panic", "snapshot unreadable: %s" % o[:100])
                continue
            if diverged:
                for p in invariant_problems(db, snap, every_table=True):
                    report("invariant", p)
                return findings
            view = snapshot_view(snap)
            for kind, what in diff_views(expected_snapshot_view(db), view, sort_catalog):
                if last_was_err and prev_snap is not None and snapshot_view(prev_snap) != view:
                    report("err-changed", "a rejected call changed the package: " + what)
                elif last_was_reopen:
                    report("reopen", "after save and reopen: " + what)
                else:
                    report(kind, what)
            if last_was_reopen and prev_snap is not None and prev_snap["summary"] != snap["summary"]:
                report("summary", "summary values changed across save/reopen: %r -> %r" % (prev_snap["summary"], snap["summary"]))
            for p in invariant_problems(db, snap):
                report("invariant", p)
            prev_snap = snap
            last_was_err = False
            last_was_reopen = False
            continue
        if name == "raw" and decode is not None:
            try:
                rsx = X.parse_sx(o)
                entries = {"".join(map(chr, e[0])): bytes(e[1]) for e in rsx if isinstance(e[1], list)}
            except Exception:
                report("raw", "medium unreadable: %s" % o[:80])
                continue
            for p in msidec.check_saved_file(entries, db.expected_tables(), db.expected_rows(), decode, accounting, sort_catalog):
                report("wf", p)
            continue
    return findings


# ---- deterministic scenarios: the interplay of string sharing, slot reuse, rejected statements and saves ----------------
def scenario_histories(rng, raw=False):
    """a fixed family of short histories (independent of the random stream): shared strings assigned by one UPDATE and
    released row by row, UPDATE to the value a cell already holds, pool slots freed, saved and reused, UPDATEs rejected
    for a duplicate key after some matching rows, each with a save / reopen at every step.  raw=True also records the
    saved bytes after every flush."""
    from pkgspec import mk
    out = []
    K = lambda v: ("bin", "eq", ("col", "K"), ("lit", v))
    modes = ["flush", "into_inner", "drop"]

    def step(h, j):
        h.obs()
        if raw:
            h.flush(); h.raw()
        h.reopen(modes[j % 3]); h.obs()
        if raw:
            h.flush(); h.raw()
    for j in range(3):
        # one UPDATE gives every row the same new string; rows then go one by one
        h = History(rng, j)
        h.add_table("T", [mk("K", "i16", pk=True), mk("V", ("str", 0), null=True), mk("W", ("str", 0), null=True)])
        h.insert("T", rows=[[1, "a", "x"], [2, "b", "x"], [3, "c", None], [4, "a", "same"]])
        step(h, j)
        h.update("T", ups=[("V", "same")], cond=None); step(h, j)
        h.delete("T", cond=K(1)); step(h, j)
        h.update("T", ups=[("V", "same"), ("W", "same")], cond=None); step(h, j)        # V already holds it
        h.delete("T", cond=K(2)); step(h, j)
        h.update("T", ups=[("W", "x")], cond=K(3)); step(h, j)
        h.delete("T", cond=None); step(h, j)
        out.append(("shared-update-%d" % j, h))
        # a slot is freed, the file saved, the slot reused by another string, by the same string, by a longer one
        h = History(rng, j)
        h.add_table("T", [mk("K", "i16", pk=True), mk("V", ("str", 0), null=True)])
        h.insert("T", rows=[[1, "first"], [2, "second"], [3, "third"]]); step(h, j)
        h.delete("T", cond=K(2)); step(h, j)
        h.insert("T", rows=[[4, "reuse"]]); step(h, j)
        h.update("T", ups=[("V", None)], cond=K(1)); step(h, j)
        h.insert("T", rows=[[5, "first"], [6, "a much longer string than the one that was here before"]]); step(h, j)
        h.update("T", ups=[("V", "third")], cond=None); step(h, j)
        out.append(("slot-reuse-%d" % j, h))
        # UPDATEs of the key that must be rejected as a whole, wherever the conflicting row sits
        h = History(rng, j)
        h.add_table("T", [mk("K", "i16", pk=True), mk("V", ("str", 0), null=True)])
        h.insert("T", rows=[[1, "a"], [2, "b"], [3, "c"], [4, "d"]]); step(h, j)
        h.update("T", ups=[("K", 4), ("V", "moved")], cond=("bin", "le", ("col", "K"), ("lit", 2))); step(h, j)   # two rows -> one key
        h.update("T", ups=[("K", 3), ("V", "moved")], cond=K(1)); step(h, j)          # collides with a later row
        h.update("T", ups=[("K", 1), ("V", "moved")], cond=K(4)); step(h, j)          # collides with an earlier row
        h.update("T", ups=[("K", 9), ("V", "moved")], cond=("bin", "ge", ("col", "K"), ("lit", 3))); step(h, j)
        h.update("T", ups=[("K", 7)], cond=K(2)); step(h, j)                            # accepted: order changes
        h.insert("T", rows=[[8, "n1"], [9, "n2"], [8, "dup"]]); step(h, j)              # rejected batch with new strings
        out.append(("key-updates-%d" % j, h))
        # one UPDATE assigning the same column more than once: every assignment is validated, the last one is stored
        h = History(rng, j)
        h.add_table("T", [mk("K", "i16", pk=True), mk("N", "i16", null=True, rng=(0, 10)), mk("S", ("str", 4), null=True, cat="Identifier")])
        h.insert("T", rows=[[1, 5, "ab"], [2, None, None]]); step(h, j)
        h.update("T", ups=[("N", 7), ("N", 70000)], cond=None); step(h, j)             # valid, then not storable
        h.update("T", ups=[("N", 3), ("N", 11)], cond=K(1)); step(h, j)                 # valid, then outside the declared range
        h.update("T", ups=[("S", "ok"), ("S", "not an identifier")], cond=None); step(h, j)
        h.update("T", ups=[("S", None), ("S", 3)], cond=None); step(h, j)               # null, then an integer in a string column
        h.update("T", ups=[("N", 99), ("N", 4)], cond=None); step(h, j)                 # invalid first, valid last: still refused
        h.update("T", ups=[("N", 1), ("N", 2), ("S", "x"), ("N", 9)], cond=K(2)); step(h, j)   # all valid: the last one wins
        h.update("T", ups=[("K", 2), ("K", 3)], cond=K(1)); step(h, j)                  # key assigned twice: 1 -> 3
        out.append(("repeat-assign-%d" % j, h))
        # a batch whose LATER rows have the wrong number of values (too many, too few, none)
        h = History(rng, j)
        h.add_table("T", [mk("K", "i16", pk=True), mk("V", ("str", 6), null=True)])
        h.insert("T", rows=[[1, "One"], [2, "Two", "extra"]]); step(h, j)
        h.insert("T", rows=[[3, "Thr"], [4]]); step(h, j)
        h.insert("T", rows=[[5, "Fiv"], []]); step(h, j)
        h.insert("T", rows=[[6, "Six"], [7, "Sev"], [8, "Eig", 9, 10]]); step(h, j)
        h.insert("T", rows=[[9, "Nin"], [10, "Ten"]]); step(h, j)
        out.append(("ragged-batch-%d" % j, h))
        # a key string that sits in the pool twice (its first slot was freed and reused before the existing entry):
        # key collisions are collisions of VALUES
        h = History(rng, j)
        h.add_table("T", [mk("K", ("str", 8), pk=True), mk("V", ("str", 8), null=True)])
        h.insert("T", rows=[["a", "x"], ["b", None]]); step(h, j)
        h.update("T", ups=[("V", None)], cond=("bin", "eq", ("col", "K"), ("lit", "a"))); step(h, j)
        h.update("T", ups=[("V", "b")], cond=("bin", "eq", ("col", "K"), ("lit", "a"))); step(h, j)
        h.update("T", ups=[("K", "b")], cond=("bin", "eq", ("col", "K"), ("lit", "a"))); step(h, j)   # must be refused
        h.insert("T", rows=[["b", "again"]]); step(h, j)                                            # must be refused
        h.update("T", ups=[("K", "c")], cond=("bin", "eq", ("col", "K"), ("lit", "a"))); step(h, j)
        out.append(("dup-pool-key-%d" % j, h))
        # conditions given as a chain of restrictions (the wire form (and a b) is handed over as .with(a).with(b)): rows
        # that satisfy only the first, only the second, a first restriction that is true without being 1
        h = History(rng, j)
        h.add_table("T", [mk("K", "i16", pk=True), mk("F", "i16", null=True), mk("S", ("str", 6), null=True)])
        h.insert("T", rows=[[1, 2, "x"], [2, 0, "y"], [3, 6, None], [4, None, ""], [5, 1, "z"], [6, 4, "x"]]); step(h, j)
        lt = lambda v: ("bin", "lt", ("col", "K"), ("lit", v))
        h.select("T", [], ("and", ("col", "F"), lt(4))); h.select("T", ["K"], ("and", ("col", "S"), lt(6)))
        h.select("T", [], ("and", ("and", ("col", "F"), ("col", "S")), lt(6)))
        h.update("T", ups=[("S", "both")], cond=("and", ("col", "F"), lt(4))); step(h, j)
        h.update("T", ups=[("F", 9)], cond=("and", ("col", "S"), ("bin", "gt", ("col", "K"), ("lit", 4)))); step(h, j)
        h.delete("T", cond=("and", ("bin", "ge", ("col", "K"), ("lit", 2)), ("bin", "eq", ("col", "F"), ("lit", 0)))); step(h, j)
        h.delete("T", cond=("and", ("col", "F"), ("bin", "eq", ("col", "K"), ("lit", 3)))); step(h, j)
        h.delete("T", cond=("and", ("and", ("col", "S"), ("col", "F")), lt(2))); step(h, j)
        out.append(("chained-with-%d" % j, h))
        # an UPDATE whose condition selects no row (or whose table is empty) is still validated as a whole
        h = History(rng, j)
        h.add_table("T", [mk("K", "i16", pk=True), mk("N", "i16", null=True, rng=(0, 10)), mk("S", ("str", 4), cat="Identifier"),
                          mk("E", ("str", 0), null=True, enum=["a", "b"])])
        h.add_table("E", [mk("K", "i16", pk=True), mk("N", "i32", null=True)])
        none = K(99)
        for ups in ([("N", 11)], [("N", 70000)], [("N", -32768)], [("S", None)], [("S", 3)], [("N", "a")], [("S", "toolong")],
                    [("S", "not id")], [("E", "c")], [("K", None)], [("Nope", 1)], [("N", 5)]):
            h.update("T", ups=ups, cond=none)
        h.update("E", ups=[("N", -2**31)], cond=K(1)); h.update("E", ups=[("N", "s")], cond=None); h.update("E", ups=[("K", 40000)], cond=("lit", 0))
        step(h, j)
        h.insert("T", rows=[[1, 5, "ab", "a"], [2, None, "c", None]]); step(h, j)
        for ups in ([("N", 11)], [("N", 70000)], [("S", None)], [("S", 3)], [("S", "toolong")], [("S", "not id")], [("E", "c")],
                    [("K", None)], [("K", -32768)], [("N", 5), ("S", "q")]):
            h.update("T", ups=ups, cond=none)
            h.update("T", ups=ups, cond=("lit", 0))
        step(h, j)
        out.append(("nomatch-invalid-%d" % j, h))
        # a STRING column that carries a value range: an integer inside that range is still not a string
        h = History(rng, j)
        h.add_table("T", [mk("K", "i16", pk=True), mk("S", ("str", 8), null=True, rng=(1, 10)), mk("V", ("str", 0), null=True)])
        h.insert("T", rows=[[1, "one", "keep"], [2, "two", "shared"], [3, None, "shared"]]); step(h, j)
        h.insert("T", rows=[[4, 5, "int in range"]]); step(h, j)
        h.insert("T", rows=[[5, "five", "ok"], [6, 1, "int"]]); step(h, j)
        h.update("T", ups=[("S", 5)], cond=None); step(h, j)
        h.update("T", ups=[("V", "changed"), ("S", 10)], cond=K(2)); step(h, j)
        h.update("T", ups=[("S", 11)], cond=K(1)); step(h, j)
        h.update("T", ups=[("S", "str")], cond=K(1)); step(h, j)
        out.append(("string-range-%d" % j, h))
    return out
