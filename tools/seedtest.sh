#!/bin/sh
# tools/seedtest.sh <seed-id> <property> [<property> ...]
# Applies seeded/<seed-id>/patch.diff to /repo, runs the quick check of each property, prints the verdict lines, and
# always restores /repo afterwards.  (Development aid: not part of any registered check.)
set -u
cd "$(dirname "$0")/.."
id="$1"; shift
if ! git -C /repo diff --quiet; then echo "seedtest: /repo has uncommitted changes"; exit 2; fi
git -C /repo apply "$(pwd)/seeded/$id/patch.diff" || { echo "seedtest: patch does not apply"; exit 2; }
mkdir -p build/evidence-keep && cp evidence/*.json build/evidence-keep/ 2>/dev/null
trap 'git -C /repo checkout -- . ; cp build/evidence-keep/*.json evidence/ 2>/dev/null; python3 tools/translate.py >/dev/null; echo "seedtest: /repo, coq/gen and evidence restored"' EXIT
for p in "$@"; do
  ./check "$p" --tier quick > "build/seed-$id-$p.log" 2>&1
  echo "== $id vs $p: exit $?"
  grep -E "^VIOLATION|^KNOWN-FINDING|quick: (PASS|FAIL)|^BROKEN|^MISMATCH" "build/seed-$id-$p.log" | cut -c1-400 | head -8
done
