#!/bin/sh
# tools/seedreconfirm.sh <id> <rebased patch>: re-confirm a stored seeded change that had to be ported to a newer /repo HEAD
# (after a fix: commit touched the same lines), in the scratch worktree /tmp/mut/rebase, and replace seeded/<id>/patch.diff
# (the original is kept as patch.orig.diff).
set -u
id="$1"; patch="$2"; w=/tmp/mut/rebase
cd "$w" || exit 2
git checkout -q -- . ; git reset -q --hard HEAD; rm -f tests/zz_demo.rs
git apply "$patch" || { echo "patch does not apply"; exit 2; }
export CARGO_NET_OFFLINE=true
base=$(cargo test --workspace --no-fail-fast --offline 2>&1 | grep -E "^test result" | awk '{p+=$4; f+=$6} END {print p" passed "f" failed"}')
cp /verif/seeded/$id/demo_test.rs tests/zz_demo.rs
with=$(cargo test --offline --test zz_demo 2>&1 | grep -E "^test result" | head -1)
git apply -R "$patch"
without=$(cargo test --offline --test zz_demo 2>&1 | grep -E "^test result" | head -1)
rm -f tests/zz_demo.rs
echo "baseline with change: $base"; echo "demo with change:    $with"; echo "demo without change: $without"
[ -f /verif/seeded/$id/patch.orig.diff ] || cp /verif/seeded/$id/patch.diff /verif/seeded/$id/patch.orig.diff
cp "$patch" /verif/seeded/$id/patch.diff
printf '{"baseline_with_change": "%s", "demo_with_change": "%s", "demo_without_change": "%s", "ported_to": "%s"}\n' "$base" "$with" "$without" "$(git rev-parse --short HEAD)" > /verif/seeded/$id/confirm.json
