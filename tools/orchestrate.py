#!/usr/bin/env python3
"""orchestrate.py -- the check protocol of DESIGN.md section 2.8.

  ./check Cnn [--tier quick|thorough] [--replay FILE]

1 hygiene grep  2 translate (source -> coq/gen)  3 make props/Cnn.vo + extraction,
Print Assumptions against the allow-list  4 build both drivers  5 corpus + generated
cases on model and implementation, diff  6 spec oracle on the implementation's own
outputs  7 decision, known findings, evidence.
"""
import argparse, fcntl, hashlib, importlib, json, os, random, re, subprocess, sys, time
from concurrent.futures import ThreadPoolExecutor

VERIF = os.path.dirname(os.path.dirname(os.path.abspath(__file__)))
REPO = os.environ.get("VERIF_REPO", "/repo")
BUILD = os.path.join(VERIF, "build")
COQ = os.path.join(VERIF, "coq")
sys.path.insert(0, os.path.join(VERIF, "tools"))

ALLOWED_AXIOMS = {
    # standard-library axioms that may appear (named in DESIGN.md 2.10); none is
    # expected -- every property theorem is closed under the global context.
}
HYGIENE_RE = re.compile(
    r"\b(Admitted|admit|Axiom|Axioms|Parameter|Parameters|Conjecture|Conjectures|Abort All)\b|"
    r"Unset\s+Guard|Unset\s+Positivity|Unset\s+Universe|bypass_check|type-in-type|impredicative-set|Admit\s+Obligations"
)
TRUSTED_BASE = [
    "Coq 8.16.1 kernel incl. vm_compute (no native_compute)",
    "axioms: none declared; Print Assumptions of every property theorem must be 'Closed under the global context'",
    "tools/translate.py (anchored transcription of constants/tables/flags from /repo/src into coq/gen) and tools/arbitrate.py (a datum the translator cannot read, or reads differently, keeps its baseline value only if the implementation's observations on the whole fixed-seed case set of the properties using it are identical to the recorded baseline ones)",
    "extraction: ExtrOcamlBasic only, no Extract Constant/Inductive of our own; OCaml 4.13.1; ocaml/driver.ml",
    "correspondence harness: harness/ (Rust driver on /repo working tree with --cfg msi_verif), tools/ generators and differ",
    "modelled not verified: cfb, encoding_rs, uuid, byteorder, Rust std",
]


def log(msg):
    print(msg, flush=True)


def run(cmd, timeout, cwd=None, env=None, stdin=None):
    e = dict(os.environ)
    e.update({"CARGO_NET_OFFLINE": "true"})
    if env:
        e.update(env)
    try:
        p = subprocess.run(cmd, cwd=cwd, env=e, input=stdin, stdout=subprocess.PIPE, stderr=subprocess.STDOUT,
                           timeout=timeout, text=True, errors="replace")
        return p.returncode, p.stdout
    except subprocess.TimeoutExpired as ex:
        out = ex.stdout or ""
        if isinstance(out, bytes):
            out = out.decode("utf-8", "replace")
        return 124, out + "\n[timeout after %ss]" % timeout


# --------------------------------------------------------------------------- #
def strip_coq_comments(text):
    out, depth, i = [], 0, 0
    while i < len(text):
        if text.startswith("(*", i):
            depth += 1
            i += 2
        elif text.startswith("*)", i) and depth > 0:
            depth -= 1
            i += 2
        else:
            if depth == 0:
                out.append(text[i])
            i += 1
    return "".join(out)


def hygiene():
    bad = []
    for root, _, files in os.walk(COQ):
        for f in files:
            if not f.endswith(".v"):
                continue
            p = os.path.join(root, f)
            text = strip_coq_comments(open(p, encoding="utf-8").read())
            # strings are irrelevant in this development; scan code only
            for n, line in enumerate(text.split("\n"), 1):
                if HYGIENE_RE.search(line):
                    bad.append("%s:%d: %s" % (os.path.relpath(p, VERIF), n, line.strip()))
            # Variable/Hypothesis only inside sections
            depth = 0
            for n, line in enumerate(text.split("\n"), 1):
                if re.match(r"\s*Section\s+\w+", line):
                    depth += 1
                elif re.match(r"\s*End\s+\w+", line) and depth > 0:
                    depth -= 1
                elif re.match(r"\s*(Variable|Variables|Hypothesis|Hypotheses|Context)\b", line) and depth == 0:
                    bad.append("%s:%d: %s (outside a Section)" % (os.path.relpath(p, VERIF), n, line.strip()))
    return bad


def translate():
    rc, out = run([sys.executable, os.path.join(VERIF, "tools", "translate.py")], 3000)
    return rc == 0, out.strip()


def coq_build(targets, timeout):
    rc, out = run(["sh", os.path.join(VERIF, "tools", "coqproject.sh")], 60)
    if rc != 0:
        return False, out
    rc, out = run(["make", "-j16"] + targets, timeout, cwd=COQ)
    return rc == 0, out


def prop_modules(prop):
    """props/Cnn.v plus any props/Cnn_*.v (further statement files of the same property)"""
    import glob
    extra = sorted(os.path.basename(f)[:-2] for f in glob.glob(os.path.join(COQ, "props", prop + "_*.v")))
    return [prop] + extra


def datum_relevant(prop, failures_text):
    """does a datum the translator could not settle matter to this property?  It does if the arbitration table names the
    property among the datum's users, or if the datum's name occurs in a file the property's statement files (transitively)
    require -- the model files its theorems are about.  (A datum the property does not depend on keeps its baseline value
    in coq/gen; this property's model and proofs are unaffected by it.)"""
    import arbitrate
    data = re.findall(r"(Gen\w+\.v)\.(\w+)", failures_text)
    if not data:
        return True
    # transitive Require closure of the property's statement files
    def reqs(path):
        try:
            text = strip_coq_comments(open(path, encoding="utf-8").read())
        except OSError:
            return []
        out = []
        for lib, mods in re.findall(r"From\s+(MsiModel|MsiGen|MsiProps)\s+Require\s+(?:Import\s+|Export\s+)?([^.]*(?:\.[A-Za-z][^.]*)*)\.", text):
            d = {"MsiModel": "theories", "MsiGen": "gen", "MsiProps": "props"}[lib]
            for m in mods.split():
                out.append(os.path.join(COQ, d, m.split(".")[-1] + ".v"))
        return out
    seen, todo = set(), [os.path.join(COQ, "props", m + ".v") for m in prop_modules(prop)]
    todo += [os.path.join(COQ, "theories", "Dispatch.v"), os.path.join(COQ, "theories", "PackageCmd.v")]     # the executable model
    while todo:
        f = todo.pop()
        if f in seen:
            continue
        seen.add(f)
        todo.extend(reqs(f))
    texts = {}
    for fname, name in data:
        if prop in arbitrate.policy_for(fname, name)[1]:
            return True
        for f in seen:
            if os.path.basename(f).startswith("Gen"):
                continue
            if f not in texts:
                try:
                    texts[f] = open(f, encoding="utf-8").read()
                except OSError:
                    texts[f] = ""
            if re.search(r"\b%s\b" % re.escape(name), texts[f]):
                return True
    return False


def theorems_of(prop):
    names = []
    for m in prop_modules(prop):
        text = strip_coq_comments(open(os.path.join(COQ, "props", m + ".v"), encoding="utf-8").read())
        names += re.findall(r"^\s*Theorem\s+(\w+)", text, re.M)
    return names


def print_assumptions(prop, names):
    """re-run Print Assumptions for every theorem (cheap: loads the .vo only)"""
    d = os.path.join(BUILD, "pa")
    os.makedirs(d, exist_ok=True)
    f = os.path.join(d, "PA_%s.v" % prop)
    with open(f, "w") as fh:
        fh.write("From MsiProps Require Import %s.\n" % " ".join(prop_modules(prop)))
        for n in names:
            fh.write('Goal True. idtac "@@%s". Abort.\nPrint Assumptions %s.\n' % (n, n))
    rc, out = run(["coqc", "-noglob", "-Q", "theories", "MsiModel", "-Q", "gen", "MsiGen", "-Q", "props", "MsiProps",
                   "-o", os.path.join(d, "PA_%s.vo" % prop), f], 300, cwd=COQ)
    res = {}
    if rc != 0:
        return None, out
    cur = None
    buf = []
    for line in out.split("\n"):
        if line.startswith("@@"):
            if cur:
                res[cur] = "\n".join(buf).strip()
            cur = line[2:].strip()
            buf = []
        elif cur is not None:
            buf.append(line)
    if cur:
        res[cur] = "\n".join(buf).strip()
    return res, out


def assumptions_ok(text):
    if "Closed under the global context" in text:
        return True, []
    axs = re.findall(r"^(\S+)\s*:", text, re.M)
    bad = [a for a in axs if a not in ALLOWED_AXIOMS]
    return (len(bad) == 0 and len(axs) > 0), axs


def build_ocaml():
    d = os.path.join(BUILD, "ocaml")
    ml = os.path.join(d, "msimodel.ml")
    drv_src = os.path.join(VERIF, "ocaml", "driver.ml")
    exe = os.path.join(d, "model_driver")
    if not os.path.exists(ml):
        return False, "msimodel.ml missing (extraction did not run)"
    stamp = os.path.join(d, ".stamp")
    h = hashlib.sha256(open(ml, "rb").read() + open(drv_src, "rb").read()).hexdigest()
    if os.path.exists(exe) and os.path.exists(stamp) and open(stamp).read() == h:
        return True, "cached"
    run(["cp", drv_src, os.path.join(d, "driver.ml")], 10)
    rc, out = run(["ocamlfind", "ocamlopt", "-O3", "-w", "-a", "msimodel.mli", "msimodel.ml", "driver.ml", "-o", "model_driver"],
                  600, cwd=d)
    if rc == 0:
        open(stamp, "w").write(h)
    return rc == 0, out


def build_harness(release=False):
    h = os.path.join(VERIF, "harness")
    lock_src = os.path.join(REPO, "Cargo.lock")
    lock_dst = os.path.join(h, "Cargo.lock")
    if os.path.exists(lock_src) and not os.path.exists(lock_dst):
        run(["cp", lock_src, lock_dst], 10)
    cmd = ["cargo", "build", "--offline", "--bin", "impl_driver"] + (["--release"] if release else [])
    rc, out = run(cmd, 1200, cwd=h, env={"RUSTFLAGS": "--cfg msi_verif", "CARGO_TARGET_DIR": os.path.join(BUILD, "cargo")})
    exe = os.path.join(BUILD, "cargo", "release" if release else "debug", "impl_driver")
    return rc == 0, out, exe


# --------------------------------------------------------------------------- #
class Case:
    def __init__(self, name, cmds, tags=()):
        self.name = name
        self.cmds = list(cmds)
        self.tags = tuple(tags)


class Ctx:
    def __init__(self, cases, impl_out, model_out, run_model, run_impl, profile, tier):
        self.cases, self.impl_out, self.model_out = cases, impl_out, model_out
        self.run_model, self.run_impl, self.profile, self.tier = run_model, run_impl, profile, tier
        self.Case = Case


def run_driver(exe, cases, timeout, env=None, mem_kb=None):
    """Run cases through a driver.  Returns list (per case) of list of output lines.
    A crash/timeout is attributed to the case where output stopped ('abort' lines)."""
    results = [None] * len(cases)
    start = 0
    guard = 0
    while start < len(cases) and guard < 200:
        guard += 1
        script = []
        for c in cases[start:]:
            script.append("(reset)")
            script.extend(c.cmds)
        pre = []
        if mem_kb:
            pre = ["sh", "-c", "ulimit -v %d; exec \"$0\" \"$@\"" % mem_kb]
        elif exe.endswith("model_driver"):
            # the extracted model recurses over lists of up to 65,536 rows: give it the stack it needs
            pre = ["sh", "-c", "ulimit -s unlimited 2>/dev/null || ulimit -s 1000000 2>/dev/null; exec \"$0\" \"$@\""]
        rc, out = run(pre + [exe], timeout, stdin="\n".join(script) + "\n", env=env)
        lines = out.split("\n")
        if lines and lines[-1] == "":
            lines.pop()
        idx = 0
        i = start
        complete = True
        while i < len(cases):
            need = 1 + len(cases[i].cmds)
            chunk = lines[idx:idx + need]
            if len(chunk) == need and chunk[0] == "(reset)" and not any(l.startswith("[timeout") for l in chunk):
                results[i] = chunk[1:]
                idx += need
                i += 1
            else:
                got = [l for l in chunk[1:] if not l.startswith("[timeout") and not l.startswith("thread ")]
                kind = "timeout" if rc == 124 else "abort"
                results[i] = got + [kind] * (len(cases[i].cmds) - len(got))
                results[i] = results[i][:len(cases[i].cmds)]
                i += 1
                complete = False
                break
        if complete:
            break
        start = i
    for j in range(len(cases)):
        if results[j] is None:
            results[j] = ["abort"] * len(cases[j].cmds)
    return results


def run_sharded(exe, cases, timeout=600, shards=16, env=None, mem_kb=None):
    if not cases:
        return []
    k = max(1, min(shards, (len(cases) + 19) // 20))
    parts = [list(range(i, len(cases), k)) for i in range(k)]
    out = [None] * len(cases)

    def work(ix):
        sub = [cases[i] for i in ix]
        r = run_driver(exe, sub, timeout, env=env, mem_kb=mem_kb)
        return ix, r

    with ThreadPoolExecutor(max_workers=k) as ex:
        for ix, r in ex.map(work, parts):
            for i, rr in zip(ix, r):
                out[i] = rr
    return out


def lines_agree(model_line, impl_line):
    if model_line == impl_line:
        return True
    if model_line.startswith("(oneof "):
        # model returned a set of admissible observations
        inner = model_line[len("(oneof "):-1]
        depth, cur, alts = 0, [], []
        for tok in re.findall(r"\(|\)|[^\s()]+", inner):
            cur.append(tok)
            if tok == "(":
                depth += 1
            elif tok == ")":
                depth -= 1
            if depth == 0:
                alts.append(" ".join(cur).replace("( ", "(").replace(" )", ")"))
                cur = []
        return impl_line in alts
    if model_line == "(any)":
        return True
    return False


# --------------------------------------------------------------------------- #
# Extraction cross-check: a few cases are ALSO evaluated inside Coq (vm_compute on the very definitions the theorems are
# about) and must give the observations the extracted OCaml driver printed -- this exercises extraction, the OCaml
# driver's parsing / printing, and the wire format.
def wire_to_coq(text):
    toks = text.replace("(", " ( ").replace(")", " ) ").split()
    pos = [0]

    def one():
        t = toks[pos[0]]
        pos[0] += 1
        if t == "(":
            items = []
            while toks[pos[0]] != ")":
                items.append(one())
            pos[0] += 1
            return "SL [" + "; ".join(items) + "]"
        if re.match(r"-?\d+$", t):
            return "SI (%s)%%Z" % t
        return 'SY "%s"' % t
    return one()


def coq_term_to_wire(term):
    """printed Coq value of type list sx -> list of wire lines"""
    toks = re.findall(r'SL|SY|SI|"[^"]*"|\[|\]|;|\(|\)|-?\d+', term)
    pos = [0]

    def sx():
        t = toks[pos[0]]
        pos[0] += 1
        if t == "(":
            v = sx()
            pos[0] += 1
            return v
        if t == "SI":
            n = toks[pos[0]]
            pos[0] += 1
            if n == "(":
                n = toks[pos[0]]
                pos[0] += 2
            return n
        if t == "SY":
            v = toks[pos[0]][1:-1]
            pos[0] += 1
            return v
        if t == "SL":
            return "(" + " ".join(lst()) + ")"
        raise ValueError("unexpected token %r" % t)

    def lst():
        assert toks[pos[0]] == "["
        pos[0] += 1
        out = []
        while toks[pos[0]] != "]":
            if toks[pos[0]] == ";":
                pos[0] += 1
                continue
            out.append(sx())
        pos[0] += 1
        return out
    return lst()


def coq_crosscheck(cases, model_out, limit):
    picked = [(i, c) for i, c in enumerate(cases)
              if 2 <= len(c.cmds) <= 40 and sum(map(len, c.cmds)) < 6000 and not any(x.startswith("(x_") for x in c.cmds)][:limit]
    if not picked:
        return 0, []
    d = os.path.join(BUILD, "pa")
    os.makedirs(d, exist_ok=True)
    f = os.path.join(d, "CrossCheck.v")
    with open(f, "w") as fh:
        fh.write("From MsiModel Require Import Base Sexp PackageCmd Dispatch.\nOpen Scope string_scope.\nSet Printing Width 1000000.\nSet Printing Depth 1000000.\n")
        for i, c in picked:
            fh.write('Goal True. idtac "@@%d". Abort.\n' % i)
            fh.write("Eval vm_compute in run_script init_state [%s].\n" % "; ".join(wire_to_coq(x) for x in c.cmds))
    rc, out = run(["coqc", "-noglob", "-Q", "theories", "MsiModel", "-Q", "gen", "MsiGen", "-o", os.path.join(d, "CrossCheck.vo"), f], 900, cwd=COQ)
    if rc != 0:
        return len(picked), [("coq-crosscheck", "coqc failed: " + out[-400:])]
    problems = []
    for chunk in out.split("@@")[1:]:
        idx, _, rest = chunk.partition("\n")
        i = int(idx.strip())
        m = re.search(r"=\s*(\[.*\])\s*:\s*list sx", rest, re.S)
        if not m:
            problems.append(("coq-crosscheck", "case %s: no value printed" % cases[i].name))
            continue
        got = coq_term_to_wire(m.group(1))
        if got != model_out[i]:
            k = next((j for j, (a, b) in enumerate(zip(got, model_out[i])) if a != b), min(len(got), len(model_out[i])))
            problems.append(("coq-crosscheck", "case %s command %d: Coq says %s, the extracted driver printed %s" % (
                cases[i].name, k, (got[k] if k < len(got) else "-")[:150], (model_out[i][k] if k < len(model_out[i]) else "-")[:150])))
    return len(picked), problems


# --------------------------------------------------------------------------- #
def load_known():
    path = os.path.join(VERIF, "known_findings.txt")
    findings = []
    if os.path.exists(path):
        for line in open(path, encoding="utf-8"):
            line = line.strip()
            if line.startswith("finding:"):
                m = re.match(r"finding:\s+property=(\S+)\s+class=(\S+)\s+(.*)", line)
                if m:
                    findings.append({"property": m.group(1), "cls": m.group(2), "what": m.group(3)})
    return findings


def write_evidence(prop, tier, seed, coverage, wall, violations, assumptions):
    os.makedirs(os.path.join(VERIF, "evidence"), exist_ok=True)
    ev = {
        "property_id": prop,
        "tier": tier,
        "seed": seed,
        "level": "proof",
        "coverage": coverage,
        "assumptions": assumptions,
        "wall_s": round(wall, 2),
        "violations": violations,
    }
    with open(os.path.join(VERIF, "evidence", prop + ".json"), "w") as f:
        json.dump(ev, f, indent=1, sort_keys=True)
        f.write("\n")


def write_replay(prop, seed, payload):
    d = os.path.join(BUILD, "replay")
    os.makedirs(d, exist_ok=True)
    path = os.path.join(d, "%s-%d.json" % (prop, seed))
    with open(path, "w") as f:
        json.dump(payload, f, indent=1)
        f.write("\n")
    return path


def main():
    ap = argparse.ArgumentParser()
    ap.add_argument("prop")
    ap.add_argument("--tier", default=os.environ.get("VERIF_TIER") or "quick", choices=["quick", "thorough"])
    ap.add_argument("--replay")
    args = ap.parse_args()
    prop = args.prop
    tier = args.tier
    seed = int(os.environ.get("VERIF_SEED") or 1)
    t0 = time.time()
    os.makedirs(BUILD, exist_ok=True)
    lock = open(os.path.join(BUILD, ".lock"), "w")
    fcntl.flock(lock, fcntl.LOCK_EX)

    mod = importlib.import_module("props.%s" % prop.lower())
    broken = []          # (what, detail): proof obligations / translator / correspondence that no longer check
    notes = []

    # 1 hygiene
    bad = hygiene()
    if bad:
        broken.append(("hygiene", "; ".join(bad[:5])))

    # 2 translator
    ok, out = translate()
    log(out)
    if not ok:
        fails = "\n".join(l for l in out.split("\n") if l.startswith("translate: FAILED"))
        if datum_relevant(prop, fails):
            broken.append(("translator", out))
        else:
            notes.append("translator: a datum that neither this property's theorems nor its model use could not be settled; its baseline value "
                         "stays in coq/gen (%s)" % fails[:300])
    notes.extend(l for l in out.split("\n") if l.startswith("translate: note:"))
    try:
        import arbitrate
        if arbitrate.golden().get("_generator_key") != arbitrate.generator_key():
            notes.append("arbitration unavailable: tools/baseline/golden.json was recorded with other generators")
    except Exception as e:
        notes.append("arbitration unavailable: %s" % e)

    # 3 proofs
    names = theorems_of(prop)
    discharged = 0
    pa_detail = {}
    ok_model, out = coq_build(["extract/Extract.vo"], 3000)
    if not ok_model:
        broken.append(("model-build", out[-1500:]))
        log(out[-3000:])
    ok_thm, out = coq_build(["props/%s.vo" % m for m in prop_modules(prop)], 3000)
    if not ok_thm:
        m = re.search(r'File "([^"]+)", line (\d+)', out)
        where = "%s:%s" % (m.group(1), m.group(2)) if m else "?"
        broken.append(("theorem", "props/%s.vo does not compile (first error at %s): %s" % (prop, where, out[-800:])))
        log(out[-3000:])
    else:
        pa, raw = print_assumptions(prop, names)
        if pa is None:
            broken.append(("print-assumptions", raw[-800:]))
        else:
            for n in names:
                good, axs = assumptions_ok(pa.get(n, ""))
                pa_detail[n] = "closed" if good and not axs else ("axioms: " + ",".join(axs) if axs else "missing")
                if good:
                    discharged += 1
                else:
                    broken.append(("assumptions", "%s depends on %s" % (n, pa_detail[n])))
    if tier == "thorough" and ok_thm:
        cmd = ["coqchk", "-silent", "-o", "-Q", "theories", "MsiModel", "-Q", "gen", "MsiGen", "-Q", "props", "MsiProps",
               ] + ["MsiProps.%s" % m for m in prop_modules(prop)]
        rc, out = run(cmd, 2400, cwd=COQ)
        if rc != 0 and not out.strip():
            rc, out = run(cmd, 2400, cwd=COQ)        # killed without a message (resource pressure): once more
        notes.append("coqchk rc=%d: %s" % (rc, " ".join(out.split())[-300:]))
        if rc != 0:
            broken.append(("coqchk", "rc=%d %s" % (rc, out[-800:])))
    log("theorems: %d/%d discharged" % (discharged, len(names)))

    # 4 drivers
    ok_ml, out = (False, "skipped") if not ok_model else build_ocaml()
    if not ok_ml:
        broken.append(("ocaml-driver", out[-800:]))
    ok_rs, out, impl_exe = build_harness(False)
    if not ok_rs:
        broken.append(("harness-build", out[-1500:]))
        log(out[-3000:])
    impl_exes = [("debug", impl_exe)] if ok_rs else []
    if tier == "thorough" and ok_rs and getattr(mod, "RELEASE_TOO", True):
        ok_rel, out, rel_exe = build_harness(True)
        if ok_rel:
            impl_exes.append(("release", rel_exe))
        else:
            broken.append(("harness-build-release", out[-800:]))
    model_exe = os.path.join(BUILD, "ocaml", "model_driver")

    # replay of a recorded failing input: run exactly those commands on both drivers and judge them again
    if args.replay:
        rp = json.load(open(args.replay))
        v = rp.get("violation") or {}
        cmds = v.get("cmds") or []
        if not cmds:
            log("replay %s names no failing input (%s): re-running the whole check instead" % (args.replay, rp.get("kind")))
        else:
            c = Case("replay", cmds, tuple(v.get("tags", ())))
            mo = run_sharded(os.path.join(BUILD, "ocaml", "model_driver"), [c], 900) if ok_ml else [["?"] * len(cmds)]
            io = run_sharded(impl_exe, [c], 900) if ok_rs else [["?"] * len(cmds)]
            for cmd, a, b in zip(cmds, mo[0], io[0]):
                log("cmd   %s\n  model %s\n  impl  %s%s" % (cmd[:300], a[:300], b[:300], "" if lines_agree(a, b) else "   <-- differ"))
            ctx = Ctx([c], io, mo, lambda cs: run_sharded(os.path.join(BUILD, "ocaml", "model_driver"), cs, 900),
                      lambda cs: run_sharded(impl_exe, cs, 900), "debug", tier)
            found = mod.oracle(ctx) if ok_rs else []
            known = load_known()
            unlisted = []
            for f in found:
                cls = mod.classify_known(f) if hasattr(mod, "classify_known") else None
                hit = [k for k in known if cls and k["cls"] == cls]
                if hit:
                    log("KNOWN-FINDING: property=%s %s" % (prop, hit[0]["what"]))
                else:
                    unlisted.append(f)
            for f in unlisted[:5]:
                log("oracle: %s" % str(f.get("what"))[:400])
            differ = any(not lines_agree(a, b) for a, b in zip(mo[0], io[0]) if not a == "(any)")
            found = unlisted
            if found or differ or broken:
                log("VIOLATION property=%s replay=%s" % (prop, args.replay))
                sys.exit(1)
            log("replay: the recorded input no longer fails")
            sys.exit(0)

    # 5 cases: corpus first, then generated
    rng = random.Random(seed * 1000003 + sum(map(ord, prop)))
    cases = []
    cdir = os.path.join(VERIF, "corpus", prop)
    if os.path.isdir(cdir):
        for f in sorted(os.listdir(cdir)):
            if f.endswith(".script"):
                cmds = [l.strip() for l in open(os.path.join(cdir, f)) if l.strip() and not l.startswith(";")]
                cases.append(Case("corpus/" + f, cmds, ("corpus",)))
    gen_info = {}
    cases += mod.gen_cases(rng, tier, gen_info)
    log("cases: %d (%d commands)" % (len(cases), sum(len(c.cmds) for c in cases)))

    violations = []      # concrete failing inputs (dicts)
    known_hits = []
    mismatches = []
    evaluations = 0
    per_profile = {}
    if ok_ml and impl_exes:
        mem_kb = getattr(mod, "IMPL_MEM_KB", None)
        tmo = getattr(mod, "DRIVER_TIMEOUT", 900)
        model_env = {"MSI_PROFILE": "debug"}
        model_out = {}
        for pname, exe in impl_exes:
            model_out[pname] = run_sharded(model_exe, cases, tmo, env={"MSI_PROFILE": pname})
            impl_out = run_sharded(exe, cases, tmo, mem_kb=mem_kb)
            per_profile[pname] = impl_out
            for ci, c in enumerate(cases):
                for li, cmd in enumerate(c.cmds):
                    evaluations += 1
                    if "impl_only" in c.tags:
                        continue        # outside the executable model (e.g. a multi-byte code page): judged by the oracle only
                    ml, il = model_out[pname][ci][li], impl_out[ci][li]
                    if il == "(harness_error)" or ml == "badcmd" or il == "badcmd":
                        broken.append(("harness", "case %s cmd %s -> model %s impl %s" % (c.name, cmd[:200], ml[:100], il[:100])))
                        continue
                    if not lines_agree(ml, il):
                        mismatches.append({"profile": pname, "case": c.name, "index": li, "cmd": cmd,
                                           "model": ml, "impl": il, "cmds": c.cmds[:li + 1]})
        # extraction cross-check on the debug-profile model outputs
        n_cc, cc_problems = coq_crosscheck(cases, model_out["debug"], 3 if tier == "quick" else 25)
        notes.append("extraction cross-check: %d cases re-evaluated inside Coq (vm_compute), %d disagreements" % (n_cc, len(cc_problems)))
        broken.extend(cc_problems)
        # 6 direct oracle on the implementation's outputs
        known = [k for k in load_known()]
        for pname, exe in impl_exes:
            ctx = Ctx(cases, per_profile[pname], model_out[pname],
                      lambda cs, _p=pname: run_sharded(model_exe, cs, tmo, env={"MSI_PROFILE": _p}),
                      lambda cs, _e=exe: run_sharded(_e, cs, tmo, mem_kb=mem_kb), pname, tier)
            res = mod.oracle(ctx)
            extra = getattr(ctx, "extra_info", None)
            if extra:
                gen_info.update({("%s_%s" % (pname, k)): v for k, v in extra.items()})
                evaluations += int(extra.get("fault_schedules", 0)) + int(extra.get("extra_evaluations", 0))
            for v in res:
                v["profile"] = pname
                cls = mod.classify_known(v) if hasattr(mod, "classify_known") else None
                hit = None
                if cls:
                    for k in known:
                        if k["cls"] == cls:
                            hit = k
                if hit:
                    known_hits.append((hit, v))
                else:
                    violations.append(v)
    else:
        notes.append("correspondence not run (driver build failed)")

    # 7 decision
    for k, v in {id(h[0]): h for h in known_hits}.values():
        log("KNOWN-FINDING: property=%s %s" % (prop, k["what"]))
    exit_code = 0
    replay = None
    # a mismatch explained by a known finding is not an alarm; others are
    unexplained = []
    for m in mismatches:
        if hasattr(mod, "mismatch_known") and mod.mismatch_known(m, load_known()):
            continue
        unexplained.append(m)
    if violations:
        v = violations[0]
        replay = write_replay(prop, seed, {"property": prop, "kind": "failing-input", "seed": seed, "tier": tier,
                                           "violation": v, "more": violations[1:10],
                                           "how": "feed 'cmds' to build/cargo/debug/impl_driver (after a (reset) line)"})
        log("VIOLATION property=%s replay=%s" % (prop, replay))
        exit_code = 1
    elif unexplained or broken:
        detail = {"property": prop, "kind": "no-failing-input-found", "seed": seed, "tier": tier,
                  "broken": [{"what": w, "detail": d} for w, d in broken],
                  "correspondence_mismatches": unexplained[:20],
                  "note": "the listed theorem / translator step / correspondence no longer checks; the oracle found no "
                          "concrete input on which the property itself fails"}
        replay = write_replay(prop, seed, detail)
        for w, d in broken[:5]:
            log("BROKEN %s: %s" % (w, d[:400]))
        for m in unexplained[:5]:
            log("MISMATCH [%s] %s #%d %s\n   model: %s\n   impl:  %s" % (m["profile"], m["case"], m["index"], m["cmd"][:300],
                                                                      m["model"][:300], m["impl"][:300]))
        log("VIOLATION property=%s replay=%s no-failing-input-found" % (prop, replay))
        exit_code = 1

    distinct = set()
    nontriv = 0
    for ci, c in enumerate(cases):
        key = "\n".join(c.cmds)
        if key in distinct:
            continue
        distinct.add(key)
        if mod.nontrivial(c):
            nontriv += 1
    def short(cmd):
        return cmd if len(cmd) <= 600 else cmd[:600] + " ...[%d characters]" % len(cmd)
    samples = [{"case": c.name, "cmds": [short(x) for x in c.cmds[:6]]} for c in cases[:2] + cases[-2:]]
    coverage = {
        "obligations": len(names),
        "discharged": discharged,
        "checker_cmd": "make -C coq props/%s.vo && coqc Print Assumptions for %s (thorough: coqchk -o)" % (prop, ",".join(names)),
        "trusted_base": TRUSTED_BASE + getattr(mod, "EXTRA_TRUSTED", []),
        "theorems": pa_detail,
        "evaluations": evaluations,
        "distinct_nontrivial": nontriv,
        "rule": mod.RULE,
        "samples": samples,
        "exhaustive": bool(gen_info.get("exhaustive", False)),
        "generator": gen_info,
        "correspondence_mismatches": len(mismatches),
        "oracle_violations": len(violations),
        "known_finding_hits": len(known_hits),
        "profiles": [p for p, _ in impl_exes],
        "notes": notes,
    }
    write_evidence(prop, tier, seed, coverage, time.time() - t0, len(violations) + (1 if exit_code and not violations else 0),
                   getattr(mod, "ASSUMPTIONS", []))
    log("%s %s: %s in %.1fs (theorems %d/%d, %d evaluations, %d mismatches, %d oracle violations, %d known)" % (
        prop, tier, "PASS" if exit_code == 0 else "FAIL", time.time() - t0, discharged, len(names), evaluations,
        len(mismatches), len(violations), len(known_hits)))
    sys.exit(exit_code)


if __name__ == "__main__":
    main()
