#!/usr/bin/env python3
"""mkprops.py -- one-off helper (not part of any check): writes coq/props/Cnn.v from a list of proved lemmas.

  tools/mkprops.py Cnn spec.txt

spec.txt:
  # title line(s) for the header comment
  import: Base Value ...              (modules of MsiModel)
  genimport: GenConsts ...            (modules of MsiGen; optional)
  coqimport: Sorting.Sorted Permutation   (optional)
  scope: N_scope
  thm: C01_rows_roundtrip = rows_roundtrip | comment text
  text: (* free Coq text copied verbatim *)

For every `thm:` line the statement is obtained from Coq itself (Check @lemma) so that the props file states the
full type; the generated file is then committed and is the pin: editing a statement there is a visible diff."""
import os, re, subprocess, sys

V = os.path.dirname(os.path.dirname(os.path.abspath(__file__)))
COQ = os.path.join(V, "coq")


def coq_type(imports, genimports, coqimports, scope, names):
    src = ""
    if coqimports:
        src += "From Coq Require Import %s.\n" % " ".join(coqimports)
    src += "From MsiModel Require Import %s.\n" % " ".join(imports)
    if genimports:
        src += "From MsiGen Require Import %s.\n" % " ".join(genimports)
    if scope:
        src += "Open Scope %s.\n" % scope
    src += "Set Printing Width 118.\nSet Printing Depth 1000.\n"
    for n in names:
        src += 'Goal True. idtac "@@%s". Abort.\nCheck @%s.\n' % (n, n)
    d = os.path.join(V, "build", "pa")
    os.makedirs(d, exist_ok=True)
    f = os.path.join(d, "MkProps.v")
    open(f, "w").write(src)
    p = subprocess.run(["coqc", "-noglob", "-Q", "theories", "MsiModel", "-Q", "gen", "MsiGen", "-o", os.path.join(d, "MkProps.vo"), f],
                       cwd=COQ, stdout=subprocess.PIPE, stderr=subprocess.STDOUT, text=True)
    if p.returncode != 0:
        sys.exit(p.stdout)
    out = {}
    cur, buf = None, []
    for line in p.stdout.split("\n"):
        if line.startswith("@@"):
            if cur:
                out[cur] = "\n".join(buf)
            cur, buf = line[2:].strip(), []
        elif cur is not None:
            buf.append(line)
    if cur:
        out[cur] = "\n".join(buf)
    res = {}
    for n, t in out.items():
        t = t.strip()
        m = re.match(r"@?%s\s*:\s*" % re.escape(n), t) or re.match(r"@?[\w.]+\s*\n?\s*:\s*", t)
        res[n] = t[m.end():] if m else t
    return res


def main():
    prop, spec = sys.argv[1], sys.argv[2]
    header, imports, genimports, coqimports, scope, items = [], [], [], [], None, []
    for line in open(spec, encoding="utf-8"):
        line = line.rstrip("\n")
        if line.startswith("# "):
            header.append(line[2:])
        elif line.startswith("import:"):
            imports += line.split(":", 1)[1].split()
        elif line.startswith("genimport:"):
            genimports += line.split(":", 1)[1].split()
        elif line.startswith("coqimport:"):
            coqimports += line.split(":", 1)[1].split()
        elif line.startswith("scope:"):
            scope = line.split(":", 1)[1].strip()
        elif line.startswith("thm:"):
            body = line.split(":", 1)[1]
            lhs, _, comment = body.partition("|")
            new, lemma = [x.strip() for x in lhs.split("=")]
            items.append(("thm", new, lemma, comment.strip()))
        elif line.startswith("text:"):
            items.append(("text", line.split(":", 1)[1].strip()))
    types = coq_type(imports, genimports, coqimports, scope, [i[2] for i in items if i[0] == "thm"])
    out = ["(* %s" % header[0]] + ["   %s" % h for h in header[1:]] + ["   Statements only; every proof is `exact <lemma>` from theories/. *)"]
    if coqimports:
        out.append("From Coq Require Import %s." % " ".join(coqimports))
    out.append("From MsiModel Require Import %s." % " ".join(imports))
    if genimports:
        out.append("From MsiGen Require Import %s." % " ".join(genimports))
    if scope:
        out.append("Open Scope %s." % scope)
    out.append("")
    names = []
    for it in items:
        if it[0] == "text":
            out.append(it[1])
            continue
        _, new, lemma, comment = it
        if comment:
            out.append("(* %s *)" % comment)
        t = types[lemma].rstrip()
        out.append("Theorem %s :\n  %s." % (new, t.replace("\n", "\n  ")))
        out.append("Proof. exact %s. Qed." % lemma)
        out.append("")
        names.append(new)
    for n in names:
        out.append("Print Assumptions %s." % n)
    open(os.path.join(COQ, "props", prop + ".v"), "w").write("\n".join(out) + "\n")
    print("wrote props/%s.v with %d theorems" % (prop, len(names)))


if __name__ == "__main__":
    main()
