"""pkgspec.py -- the plain relational / map specification of a package (spec_step of DESIGN 2.4),
written independently of the model: tables are Python lists of rows, streams a dict, summary a dict.
Used (a) by the generators as a shadow state, (b) as the direct oracle on the implementation's
observations when searching for a failing input."""
import re
import exprgen as X
from props.c07 import ref_col_valid, ref_validate, CATS

IDENT = re.compile(r"[A-Za-z_][A-Za-z0-9_.]*\Z")
PACKABLE = set("0123456789ABCDEFGHIJKLMNOPQRSTUVWXYZabcdefghijklmnopqrstuvwxyz._")
RESERVED_STREAM_CHARS = set("/\\:!")
I32MAX = 2**31 - 1


def utf16_units(s):
    return sum(2 if ord(c) > 0xFFFF else 1 for c in s)


def encoded_units(name, is_table):
    n = 1 if is_table else 0
    i = 0
    while i < len(name):
        c = name[i]
        if c in PACKABLE:
            if i + 1 < len(name) and name[i + 1] in PACKABLE:
                i += 2
            else:
                i += 1
            n += 1
        else:
            n += utf16_units(c)
            i += 1
    return n


def stream_name_valid(name):
    if name == "" or name[0] == "䡀":
        return False
    if any(0x3800 <= ord(c) <= 0x4840 or c in RESERVED_STREAM_CHARS for c in name):
        return False
    return encoded_units(name, False) <= 31


def table_name_valid(name):
    return bool(IDENT.match(name)) and encoded_units(name, True) <= 31


def col_bits(col):
    t = col["type"]
    if t == "i16":
        bits = 0x2
    elif t == "i32":
        bits = 0x4
    else:
        bits = 0x800 | t[1]
    bits |= 0x100
    if col.get("loc"):
        bits |= 0x200
    if col["null"]:
        bits |= 0x1000
    if t == "i16":
        nonbinary = True
    elif t == "i32":
        nonbinary = False
    elif t[1] == 0:
        nonbinary = col["cat"] != "Binary"
    else:
        nonbinary = True
    if nonbinary:
        bits |= 0x400
    if col.get("pk"):
        bits |= 0x2000
    return bits


CAT_STR = {c: c for c in CATS}
CAT_STR["Guid"] = "GUID"
CAT_STR["FormattedSddlText"] = "FormattedSDDLText"


def validation_row(tname, col):
    rng = col["range"]
    fk = col.get("fk")
    return [tname, col["name"], "Y" if col["null"] else "N", rng[0] if rng else None, rng[1] if rng else None,
            fk[0] if fk else None, fk[1] if fk else None, CAT_STR[col["cat"]] if col["cat"] else None,
            ";".join(col["enum"]) if col["enum"] else None, None]


def mk(name, t, null=False, pk=False, rng=None, cat=None, enum=(), loc=False, fk=None):
    return {"name": name, "type": t, "null": null, "pk": pk, "range": rng, "cat": cat, "enum": list(enum), "loc": loc, "fk": fk}


TABLES_COLS = [mk("Name", ("str", 64), pk=True)]
COLUMNS_COLS = [mk("Table", ("str", 64), pk=True), mk("Number", "i16", pk=True), mk("Name", ("str", 64)), mk("Type", "i16")]
VALIDATION_COLS = [
    mk("Table", ("str", 32), pk=True, cat="Identifier"), mk("Column", ("str", 32), pk=True, cat="Identifier"),
    mk("Nullable", ("str", 4), enum=["Y", "N"]), mk("MinValue", "i32", null=True, rng=(-I32MAX, I32MAX)),
    mk("MaxValue", "i32", null=True, rng=(-I32MAX, I32MAX)), mk("KeyTable", ("str", 255), null=True, cat="Identifier"),
    mk("KeyColumn", "i16", null=True, rng=(1, 32)), mk("Category", ("str", 32), null=True, enum=[CAT_STR[c] for c in CATS]),
    mk("Set", ("str", 255), null=True, cat="Text"), mk("Description", ("str", 255), null=True, cat="Text")]


def key_of(cols, row):
    return [X.vkey(row[i]) for i, c in enumerate(cols) if c["pk"]]


def norm(v):
    return None if v == "" else v


def storable(tname, cols):
    """can the catalog tables describe this table?"""
    rows = [[tname, i + 1, c["name"], col_bits(c)] for i, c in enumerate(cols)]
    for r in rows:
        if not all(ref_col_valid(cc, v) for cc, v in zip(COLUMNS_COLS, r)):
            return False
    if not ref_col_valid(TABLES_COLS[0], tname):
        return False
    for c in cols:
        if not all(ref_col_valid(cc, v) for cc, v in zip(VALIDATION_COLS, validation_row(tname, c))):
            return False
        if isinstance(c["type"], tuple) and c["type"][1] > 255:
            return False
        if any(e == "" or ";" in e for e in c["enum"]):
            return False
    return True


class SpecDB:
    def __init__(self, ptype=0):
        self.ptype = ptype
        self.db_cp = 65001
        self.tables = {}          # user tables: name -> {"cols": [...], "rows": [[...]]}
        self.has_validation = True
        self.orphan_validation = []   # _Validation rows of a foreign file that describe tables which do not exist
        self.bits_override = {}   # (table, column) -> type word as a foreign encoder wrote it (e.g. integer field size 1)
        self.streams = {}
        self.summary = {"codepage": 65001, "title": ["Installation Database", "Patch", "Transform"][ptype], "subject": None,
                        "author": None, "comments": None, "app": None, "uuid": None, "words": None, "ctime": None,
                        "template": None}

    def clone(self):
        import copy
        return copy.deepcopy(self)

    # ---- predictions: "ok" / "err" ------------------------------------------------------
    def all_table_names(self):
        return set(self.tables) | {"_Tables", "_Columns"} | ({"_Validation"} if self.has_validation else set())

    def cols_of(self, name):
        if name in self.tables:
            return self.tables[name]["cols"]
        return {"_Tables": TABLES_COLS, "_Columns": COLUMNS_COLS, "_Validation": VALIDATION_COLS if self.has_validation else None}.get(name)

    def predict_create_table(self, name, cols):
        if not table_name_valid(name) or name in ("_StringPool", "_StringData"):
            return "err"
        if not (1 <= len(cols) <= 32) or not any(c["pk"] for c in cols):
            return "err"
        names = [c["name"] for c in cols]
        if any(not IDENT.match(n) for n in names) or len(set(names)) != len(names):
            return "err"
        if name in self.all_table_names():
            return "err"
        if not self.has_validation and any(c["range"] or c["cat"] or c["enum"] or c.get("fk") for c in cols):
            return "err"      # nowhere to record these attributes: refused rather than silently lost
        if any(r[0] == name and r[1] in names for r in self.orphan_validation):
            return "err"      # _Validation already describes such a column: refused as a whole, nothing may change
        return "ok" if storable(name, cols) else "err"

    def predict_drop_table(self, name):
        if name in ("_Tables", "_Columns", "_Validation") or not table_name_valid(name):
            return "err"
        return "ok" if name in self.tables else "err"

    def expr_cols_ok(self, cols, e):
        names = {c["name"] for c in cols}

        def go(x):
            k = x[0]
            if k == "lit":
                return True
            if k == "col":
                return x[1] in names
            if k == "un":
                return go(x[2])
            if k == "bin":
                return go(x[2]) and go(x[3])
            return go(x[1]) and go(x[2])
        return go(e)

    def predict_insert(self, name, rows):
        cols = self.cols_of(name)
        if cols is None or name not in self.tables:
            return "err" if cols is None else "unmodelled"
        t = self.tables[name]
        for r in rows:
            if len(r) != len(cols) or not all(ref_col_valid(c, v) for c, v in zip(cols, r)):
                return "err"
        keys = [key_of(cols, x) for x in t["rows"]]
        for r in rows:
            k = key_of(cols, [norm(v) for v in r])
            if k in keys:
                return "err"
            keys.append(k)
        if len(keys) > 65536:
            return "err"
        return "ok"

    def matched(self, cols, row, cond):
        if cond is None:
            return True
        return X.truthy(X.ref_eval(cond, [(c["name"], v) for c, v in zip(cols, row)]))

    def predict_update(self, name, ups, cond):
        if name not in self.tables:
            return "err" if self.cols_of(name) is None else "unmodelled"
        t = self.tables[name]
        cols = t["cols"]
        byname = {c["name"]: c for c in cols}
        for cn, v in ups:
            if cn not in byname or not ref_col_valid(byname[cn], v):
                return "err"
        if cond is not None and not self.expr_cols_ok(cols, cond):
            return "err"
        new = self.updated_rows(t, ups, cond)
        keys = [key_of(cols, r) for r in new]
        for i, k in enumerate(keys):
            if k in keys[:i]:
                return "err"
        return "ok"

    def updated_rows(self, t, ups, cond):
        cols = t["cols"]
        idx = {c["name"]: i for i, c in enumerate(cols)}
        out = []
        for r in t["rows"]:
            r2 = list(r)
            if self.matched(cols, r, cond):
                for cn, v in ups:
                    r2[idx[cn]] = norm(v)
            out.append(r2)
        return out

    def predict_delete(self, name, cond):
        if name not in self.tables:
            return "err" if self.cols_of(name) is None else "unmodelled"
        if cond is not None and not self.expr_cols_ok(self.tables[name]["cols"], cond):
            return "err"
        return "ok"

    # ---- transitions (applied when the call succeeded) -----------------------------------
    def create_table(self, name, cols):
        self.tables[name] = {"cols": cols, "rows": []}

    def drop_table(self, name):
        del self.tables[name]
        self.orphan_validation = [r for r in self.orphan_validation if r[0] != name]    # DELETE FROM _Validation WHERE Table = name

    def insert(self, name, rows):
        t = self.tables[name]
        t["rows"] = sorted(t["rows"] + [[norm(v) for v in r] for r in rows], key=lambda r: key_of(t["cols"], r))

    def update(self, name, ups, cond):
        t = self.tables[name]
        new = self.updated_rows(t, ups, cond)
        if any(t["cols"][[c["name"] for c in t["cols"]].index(cn)]["pk"] for cn, _ in ups):
            new = sorted(new, key=lambda r: key_of(t["cols"], r))
        t["rows"] = new

    def delete(self, name, cond):
        t = self.tables[name]
        t["rows"] = [r for r in t["rows"] if not self.matched(t["cols"], r, cond)]

    # ---- expected observations --------------------------------------------------------------
    def expected_rows(self):
        """{table name: rows} including the catalog tables"""
        out = {n: t["rows"] for n, t in self.tables.items()}
        listed = dict(self.tables)
        if self.has_validation:
            listed["_Validation"] = {"cols": VALIDATION_COLS}
        out["_Tables"] = sorted([[n] for n in listed], key=lambda r: key_of(TABLES_COLS, r))
        crow, vrow = [], []
        for n, t in listed.items():
            for i, c in enumerate(t["cols"]):
                b = self.bits_override.get((n, c["name"]), col_bits(c))
                crow.append([n, i + 1, c["name"], b - 0x10000 if b >= 0x8000 else b])
                vrow.append(validation_row(n, c))
        out["_Columns"] = sorted(crow, key=lambda r: key_of(COLUMNS_COLS, r))
        if self.has_validation:
            out["_Validation"] = sorted(vrow + [list(r) for r in self.orphan_validation], key=lambda r: key_of(VALIDATION_COLS, r))
        return out

    def expected_tables(self):
        out = {n: t["cols"] for n, t in self.tables.items()}
        out["_Tables"] = TABLES_COLS
        out["_Columns"] = COLUMNS_COLS
        if self.has_validation:
            out["_Validation"] = VALIDATION_COLS
        return out


# ---- wire helpers ----------------------------------------------------------------------------
def enc_col(col):
    t = col["type"] if isinstance(col["type"], str) else "(str %d)" % col["type"][1]
    rg = "((%d %d))" % tuple(col["range"]) if col["range"] is not None else "()"
    fk = "((%s %d))" % (X.enc_str(col["fk"][0]), col["fk"][1]) if col.get("fk") else "()"
    cat = "(%s)" % X.enc_str(col["cat"]) if col["cat"] else "()"
    en = "(" + " ".join(X.enc_str(e) for e in col["enum"]) + ")"
    return "(col %s %s %d %d %d %s %s %s %s)" % (X.enc_str(col["name"]), t, int(bool(col.get("loc"))), int(col["null"]),
                                                int(bool(col.get("pk"))), rg, fk, cat, en)


def dec_col(sx):
    t = sx[2] if isinstance(sx[2], str) else ("str", sx[2][1])
    return {"name": "".join(map(chr, sx[1])), "type": t, "loc": bool(sx[3]), "null": bool(sx[4]), "pk": bool(sx[5]),
            "range": tuple(sx[6][0]) if sx[6] else None, "fk": ("".join(map(chr, sx[7][0][0])), sx[7][0][1]) if sx[7] else None,
            "cat": "".join(map(chr, sx[8][0])) if sx[8] else None, "enum": ["".join(map(chr, e)) for e in sx[9]]}


def col_view(c):
    """the attributes the property talks about (foreign keys are not observable through the public API)"""
    return (c["name"], tuple(c["type"]) if isinstance(c["type"], tuple) else c["type"], bool(c.get("loc")), bool(c["null"]),
            bool(c.get("pk")), tuple(c["range"]) if c["range"] else None, c["cat"], tuple(c["enum"]))
