"""msienc.py -- an independent ENCODER of MSI database files, written from the format description (not from rust-msi):
string pool with two- or three-byte references, unused / duplicate / over-counted entries, long-string escape; column-major
table streams with 1/2/4-byte integer field sizes; catalog tables in any row order, with or without _Validation; summary
property set in any layout.  Produces the raw (entry name, bytes) list of a compound file plus the abstract database the
file denotes.  Used by C02 (reader vs independent encoder) and as the base for the structure-aware corruptions of C09."""
import struct
import msidec
import psdec
from pkgspec import col_bits, validation_row, TABLES_COLS, COLUMNS_COLS, VALIDATION_COLS, mk

CLSID = {0: "000C1084-0000-0000-C000-000000000046", 1: "000C1086-0000-0000-C000-000000000046", 2: "000C1082-0000-0000-C000-000000000046"}
FMTID = bytes([0xe0, 0x85, 0x9f, 0xf2, 0xf9, 0x4f, 0x68, 0x10, 0xab, 0x91, 0x08, 0x00, 0x2b, 0x27, 0xb3, 0xd9])


def clsid_bytes(ptype):
    """the 16 bytes the cfb crate hands to Uuid::from_bytes (big-endian fields as printed)"""
    return list(bytes.fromhex(CLSID[ptype].replace("-", "")))


class Pool:
    def __init__(self, rng, cp, long_refs, holes=0.0, dups=0.0, overcount=0.0, stale=0.0):
        self.rng, self.cp, self.long = rng, cp, long_refs
        self.entries = []           # [text, refcount]
        self.holes, self.dups, self.overcount, self.stale = holes, dups, overcount, stale

    def ref(self, text):
        if text is None or text == "":
            return 0
        if self.rng.random() < self.holes:
            self.entries.append(["", 0])                     # an unused entry
        if self.rng.random() < self.stale:
            self.entries.append([self.rng.choice(["stale", "x", "leftover text"]), 0])   # unused, but its text was never cleared
        if self.rng.random() >= self.dups:
            for i, e in enumerate(self.entries):
                if e[0] == text and e[1] > 0 and e[1] < 60000:
                    e[1] += 1
                    return i + 1
        self.entries.append([text, 1])                        # a new (possibly duplicate) entry
        return len(self.entries)

    def streams(self):
        codec = psdec.PY_CODEC[self.cp]
        pool = struct.pack("<I", self.cp | (0x80000000 if self.long else 0))
        data = b""
        for text, rc in self.entries:
            b = text.encode(codec)
            if rc > 0 and self.rng.random() < self.overcount:
                rc += self.rng.randint(1, 3)                   # over-counted references are legal
            if len(b) >= 0x10000:
                pool += struct.pack("<HH", 0, len(b) >> 16)
            pool += struct.pack("<HH", len(b) & 0xFFFF, rc)
            data += b
        return pool, data


def int_bits(col, rng, odd_sizes):
    """the type word; integer field sizes 1 and 2 both mean two stored bytes, 4 means four"""
    bits = col_bits(col)
    if odd_sizes and col["type"] == "i16" and rng.random() < 0.5:
        bits = (bits & ~0xFF) | 1
    return bits


def encode_table(cols, rows, pool):
    out = b""
    refs = [[pool.ref(v) if isinstance(c["type"], tuple) else v for c, v in zip(cols, r)] for r in rows]
    for j, c in enumerate(cols):
        for r in refs:
            v = r[j]
            if c["type"] == "i16":
                out += struct.pack("<H", 0 if v is None else (v + 0x8000) & 0xFFFF)
            elif c["type"] == "i32":
                out += struct.pack("<I", 0 if v is None else (v + 0x80000000) & 0xFFFFFFFF)
            elif pool.long:
                out += struct.pack("<HB", v & 0xFFFF, v >> 16)
            else:
                out += struct.pack("<H", v)
    return out


def sort_rows(cols, rows):
    import exprgen as X
    return sorted(rows, key=lambda r: [X.vkey(v) for c, v in zip(cols, r) if c["pk"]])


def encode_summary(rng, props, cp, layout="plain"):
    """props: list of (id, type, value); layout: plain | shuffled (property table order) | gaps (extra padding between values)"""
    codec = psdec.PY_CODEC[cp]
    items = [p for p in props if p[0] != 0]
    omit = any(p[0] == 0 for p in props)            # marker (0, ...): leave the code page property out (default = UTF-8)
    if not omit and not any(p[0] == 1 for p in items):
        items.insert(0, (1, 2, cp - 0x10000 if cp >= 0x8000 else cp))
    vals = []
    for pid, ty, v in items:
        if ty in (0, 1):
            b = struct.pack("<I", ty)
        elif ty == 16:
            b = struct.pack("<Ib", 16, v) + b"\0\0\0"
        elif ty == 2:
            b = struct.pack("<Ih", 2, v) + b"\0\0"
        elif ty == 3:
            b = struct.pack("<Ii", 3, v)
        elif ty == 30:
            s = v.encode(codec) + b"\0"
            b = struct.pack("<II", 30, len(s)) + s
            b += b"\0" * (-len(b) % 4)
        elif ty == 64:
            b = struct.pack("<IQ", 64, v)
        vals.append((pid, b))
    n = len(vals)
    order = list(range(n))
    if layout == "shuffled":
        rng.shuffle(order)                                   # values laid out in a different order than the table
    body = b""
    offs = {}
    pos = 8 + 8 * n
    for i in order:
        if layout == "gaps" and rng.random() < 0.5:
            body += b"\0" * 4
            pos += 4
        offs[i] = pos
        body += vals[i][1]
        pos += len(vals[i][1])
    table_order = list(range(n))
    if layout in ("shuffled", "gaps"):
        rng.shuffle(table_order)
    table = b"".join(struct.pack("<II", vals[i][0], offs[i]) for i in table_order)
    version = 1 if any(t == 16 for _, t, _ in items) else 0
    sect = struct.pack("<II", pos, n) + table + body
    return struct.pack("<HHHH", 0xFFFE, version, 10, 2) + b"\0" * 16 + struct.pack("<I", 1) + FMTID + struct.pack("<I", 48) + sect


def encode_db(rng, ptype, cp, tables, summary, streams, long_refs=False, holes=0.0, dups=0.0, overcount=0.0, stale=0.0,
              validation=True, shuffle_catalog=False, odd_int_sizes=False, layout="plain", orphan_validation=(), ragged=()):
    """tables: {name: (cols, rows)} (rows need not be sorted) -> (clsid, [(entry name, bytes)], expected)"""
    pool = Pool(rng, cp, long_refs, holes, dups, overcount, stale)
    tnames = sorted(tables)
    cat_tables = list(tnames) + (["_Validation"] if validation else [])
    schemas = dict((n, tables[n][0]) for n in tnames)
    if validation:
        schemas["_Validation"] = VALIDATION_COLS
    trows = [[n] for n in cat_tables]
    crows, vrows = [], []
    bits_used = {}
    for n in cat_tables:
        for i, c in enumerate(schemas[n]):
            b = int_bits(c, rng, odd_int_sizes and n != "_Validation")
            bits_used[(n, c["name"])] = b
            crows.append([n, i + 1, c["name"], b - 0x10000 if b >= 0x8000 else b])
            if validation:
                vrows.append(validation_row(n, c))
    # _Validation rows describing tables that are NOT in the file (real-world packages describe every standard table)
    orphans = [validation_row(tn, c) for tn, c in orphan_validation] if validation else []
    vrows += orphans
    if shuffle_catalog:
        rng.shuffle(crows)
        rng.shuffle(trows)
        rng.shuffle(vrows)
    else:
        trows, crows, vrows = sort_rows(TABLES_COLS, trows), sort_rows(COLUMNS_COLS, crows), sort_rows(VALIDATION_COLS, vrows)
    entries = []
    expected_rows = {}
    for n in tnames:
        cols, rows = tables[n]
        rows = rows if shuffle_catalog else sort_rows(cols, rows)
        data = encode_table(cols, rows, pool)
        if n in ragged:
            data += b"\x01\x80"          # bytes after the last whole row: readers take the whole rows and ignore the rest
        entries.append((msidec.encode_name(n, True), data))
        expected_rows[n] = [[None if v == "" else v for v in r] for r in rows]
    entries.append((msidec.encode_name("_Tables", True), encode_table(TABLES_COLS, trows, pool)))
    entries.append((msidec.encode_name("_Columns", True), encode_table(COLUMNS_COLS, crows, pool)))
    if validation:
        entries.append((msidec.encode_name("_Validation", True), encode_table(VALIDATION_COLS, vrows, pool)))
    p, d = pool.streams()
    entries.append((msidec.encode_name("_StringPool", True), p))
    entries.append((msidec.encode_name("_StringData", True), d))
    entries.append(("\u0005SummaryInformation", encode_summary(rng, summary, summary_cp(summary, 65001), layout)))
    for n, b in streams.items():
        entries.append((msidec.encode_name(n, False), bytes(b)))
    exp_tables = {}
    for n in tnames:
        cols = []
        for c in schemas[n]:
            c2 = dict(c)
            if not validation:
                c2.update({"range": None, "cat": None, "enum": [], "fk": None})
            cols.append(c2)
        exp_tables[n] = cols
    exp_tables["_Tables"], exp_tables["_Columns"] = TABLES_COLS, COLUMNS_COLS
    if validation:
        exp_tables["_Validation"] = VALIDATION_COLS
    expected = {"ptype": ptype, "db_cp": 65001 if cp == 0 else cp, "tables": exp_tables, "rows": expected_rows,
                "catalog_rows": {"_Tables": trows, "_Columns": crows, "_Validation": vrows},
                "streams": {n: list(b) for n, b in streams.items()}, "long_refs": long_refs, "orphan_validation": orphans}
    return clsid_bytes(ptype), entries, expected


def summary_cp(summary, default):
    for pid, ty, v in summary:
        if pid == 1:
            return v & 0xFFFF
    return default


def enc_open_raw(clsid, entries):
    import exprgen as X
    return "(open_raw (%s) (%s))" % (" ".join(map(str, clsid)),
                                     " ".join("(%s (%s))" % (X.enc_str(n), " ".join(map(str, b))) for n, b in entries))
