#!/bin/sh
# tools/seedconfirm.sh <id>: confirm a candidate seeded change in its scratch worktree /tmp/mut/<id>:
# existing tests pass with it; the demonstration fails with it and passes without it.  Then store it under seeded/<id>/.
set -u
id="$1"; w=/tmp/mut/$id
cd "$w" || exit 2
export CARGO_NET_OFFLINE=true
git diff -- src ffi/src > /tmp/mut/$id.patch
[ -s /tmp/mut/$id.patch ] || { echo "no change in src"; exit 2; }
base=$(cargo test --workspace --no-fail-fast --offline 2>&1 | grep -E "^test result" | awk '{p+=$4; f+=$6} END {print p" passed "f" failed"}')
echo "baseline with change: $base"
cp demo/demo_test.rs tests/zz_demo.rs
with=$(cargo test --offline --test zz_demo 2>&1 | grep -E "^test result" | head -1)
git apply -R /tmp/mut/$id.patch        # (git stash is shared between worktrees: never use it here)
without=$(cargo test --offline --test zz_demo 2>&1 | grep -E "^test result" | head -1)
git apply /tmp/mut/$id.patch
rm -f tests/zz_demo.rs
echo "demo with change:    $with"
echo "demo without change: $without"
mkdir -p /verif/seeded/$id
cp /tmp/mut/$id.patch /verif/seeded/$id/patch.diff
cp demo/demo_test.rs /verif/seeded/$id/demo_test.rs
cp meta.json /verif/seeded/$id/meta.agent.json 2>/dev/null
printf '{"baseline_with_change": "%s", "demo_with_change": "%s", "demo_without_change": "%s"}\n' "$base" "$with" "$without" > /verif/seeded/$id/confirm.json
