#!/usr/bin/env python3
"""arbitrate.py -- behavioural arbitration for the translator.

tools/translate.py reads constants, tables and behaviour flags off the Rust text.  A behaviour-preserving rewrite of
that text (a match turned into or-patterns, a literal given a name, a helper extracted) can make an extraction fail or
misread without the datum having changed.  For every datum the translator could not read, or read differently from
the committed baseline (tools/baseline/gen), this module asks the *implementation*: the probe of a datum is the complete
quick-tier case set (fixed seed, corpus included, exhaustive sweeps included) of the properties whose models use it, run
on the harness built from /repo's working tree.  If the implementation's observations on that whole set are
byte-identical to the ones recorded for the baseline (tools/baseline/golden.json), the datum is unchanged as far as any
check can observe and the baseline value is kept; otherwise the translator's own reading stands (and, where it has none,
the translator fails, which the check reports like a broken proof).

Datum policies (see POLICY below):
  trust     -- `const NAME: T = literal;` and flags for which the translator found positive evidence: a differing
               reading is believed without arbitration; only a *missing* reading is arbitrated.
  arbitrate -- data recovered from the shape of code (match tables, builder chains, fingerprints): missing and
               differing readings are both arbitrated.

    arbitrate.py --mkbaseline      (clean tree only) rewrite tools/baseline/gen and tools/baseline/golden.json
    arbitrate.py --probe Cnn       print the probe hash of one property
"""
import hashlib, importlib, json, os, random, re, subprocess, sys

HERE = os.path.dirname(os.path.abspath(__file__))
VERIF = os.path.dirname(HERE)
REPO = os.environ.get("VERIF_REPO", "/repo")
BASE = os.path.join(HERE, "baseline")
BUILD = os.path.join(VERIF, "build")
FIXED_SEED = 424242
PROBE_ORACLE = {"C07", "C15", "C17", "C18"}       # oracles that run further commands on the implementation

# gen file / datum name pattern -> (policy, properties whose case sets observe it)
POLICY = [
    ("GenExpr.v", r".*", "arbitrate", ["C19"]),
    ("GenColumn.v", r"FROM_BITFIELD_INT_SIZES|COLTYPE_.*", "arbitrate", ["C06"]),
    ("GenColumn.v", r"COL_.*", "trust", ["C06"]),
    ("GenCategory.v", r".*", "arbitrate", ["C07"]),
    ("GenCodePage.v", r"CP_DECODE_SNIFFS_BOM", "trust", ["C14", "C01"]),
    ("GenCodePage.v", r".*", "arbitrate", ["C14", "C10"]),
    ("GenStreamName.v", r".*_STREAM_NAME|TABLE_PREFIX", "trust", ["C11"]),
    ("GenStreamName.v", r".*", "arbitrate", ["C11", "C20"]),
    ("GenLanguage.v", r"LANGUAGES|LANG_MASK|SUBLANG_SHIFT|LANG_NEUTRAL|SUBLANG_NEUTRAL", "trust", ["C17"]),
    ("GenLanguage.v", r".*", "arbitrate", ["C17"]),
    ("GenCatalog.v", r".*_SCHEMA|RESERVED_TABLE_NAMES|CREATE_TABLE_.*|DEFAULT_TITLE_.*", "arbitrate", ["C06", "C04", "C20", "C01"]),
    ("GenCatalog.v", r".*", "trust", ["C06", "C04", "C20", "C01"]),
    ("GenConsts.v", r"TS_.*", "arbitrate", ["C18"]),
    ("GenConsts.v", r"UNIX_EPOCH_TIMESTAMP", "trust", ["C18"]),
    ("GenConsts.v", r"MAX_ROWS_READ", "arbitrate", ["C20", "C09"]),
    ("GenConsts.v", r"MAX_ROWS_INSERT", "trust", ["C20"]),
    ("GenConsts.v", r"MAX_STRING_REF|LONG_STRING_REFS_BIT", "trust", ["C20", "C08"]),
    ("GenConsts.v", r"PROPSET_.*", "trust", ["C10"]),
    ("GenConsts.v", r"SUMMARY_OS.*", "arbitrate", ["C10"]),
    ("GenConsts.v", r"BYTE_ORDER_MARK|PROPERTY_.*|FMTID", "trust", ["C10"]),
    ("GenConsts.v", r"POOL_.*|OPEN_UNWRAPS_CATALOG_CELLS|FFI_GET_TABLE_EXPECTS", "trust", ["C09"]),
    ("GenIo.v", r"SUMMARY_MUT_ARMS", "trust", ["C10", "C15"]),
    ("GenIo.v", r"QUERY_WITH_CONJOINS", "trust", ["C03", "C13"]),
    ("GenIo.v", r".*", "trust", ["C15"]),
    ("GenSingleByte.v", r".*", "trust", ["C14"]),
]


def policy_for(fname, name):
    for f, pat, pol, props in POLICY:
        if f == fname and re.fullmatch(pat, name):
            return pol, props
    return "trust", []


# --------------------------------------------------------------------------- #
def parse_defs(text):
    """-> (header, [(name, definition text)]) ; a definition runs to the next line starting a definition"""
    lines = text.split("\n")
    header, defs, cur, name = [], [], None, None
    for ln in lines:
        m = re.match(r"(Definition|Inductive)\s+(\w+)", ln)
        if m:
            if cur is not None:
                defs.append((name, "\n".join(cur).rstrip()))
            cur, name = [ln], m.group(2)
        elif cur is None:
            header.append(ln)
        else:
            cur.append(ln)
    if cur is not None:
        defs.append((name, "\n".join(cur).rstrip()))
    return "\n".join(header), defs


def norm(d):
    return re.sub(r"\s+", " ", re.sub(r"\(\*.*?\*\)", "", d, flags=re.S)).strip()


def load_baseline():
    out = {}
    gdir = os.path.join(BASE, "gen")
    if not os.path.isdir(gdir):
        return None
    for f in sorted(os.listdir(gdir)):
        if f.endswith(".v"):
            with open(os.path.join(gdir, f), encoding="utf-8") as fh:
                out[f] = fh.read()
    return out


def tree_key():
    """hash of everything a probe result depends on"""
    h = hashlib.sha256()
    roots = [os.path.join(REPO, "src"), os.path.join(REPO, "ffi", "src"), os.path.join(VERIF, "harness", "src"),
             os.path.join(VERIF, "tools"), os.path.join(VERIF, "corpus")]
    files = [os.path.join(REPO, "Cargo.toml"), os.path.join(REPO, "Cargo.lock"), os.path.join(REPO, "ffi", "Cargo.toml"),
             os.path.join(VERIF, "harness", "Cargo.toml")]
    for r in roots:
        for d, dn, fn in os.walk(r):
            dn[:] = sorted(x for x in dn if x not in ("__pycache__", "baseline"))
            for f in sorted(fn):
                if f.endswith((".rs", ".py", ".script", ".toml")):
                    files.append(os.path.join(d, f))
    for p in files:
        try:
            with open(p, "rb") as fh:
                h.update(p.encode() + b"\0" + fh.read() + b"\0")
        except FileNotFoundError:
            pass
    return h.hexdigest()


def generator_key():
    """hash of what determines the probe inputs and how they are run (generators, corpus, harness)"""
    h = hashlib.sha256()
    files = []
    for r in (os.path.join(VERIF, "tools"), os.path.join(VERIF, "corpus"), os.path.join(VERIF, "harness", "src")):
        for d, dn, fn in os.walk(r):
            dn[:] = sorted(x for x in dn if x not in ("__pycache__", "baseline", "propspecs"))
            files += [os.path.join(d, f) for f in sorted(fn) if f.endswith((".rs", ".py", ".script")) and f not in ("arbitrate.py", "translate.py", "mkmanifest.py", "mkprops.py")]
    for p in files:
        with open(p, "rb") as fh:
            h.update(os.path.relpath(p, VERIF).encode() + b"\0" + fh.read() + b"\0")
    return h.hexdigest()


def probe(prop, impl_exe):
    """hash of the implementation's observations on the fixed-seed quick case set of `prop`"""
    sys.path.insert(0, HERE)
    import orchestrate as O
    mod = importlib.import_module("props.%s" % prop.lower())
    rng = random.Random(FIXED_SEED * 1000003 + sum(map(ord, prop)))
    cases = []
    cdir = os.path.join(VERIF, "corpus", prop)
    if os.path.isdir(cdir):
        for f in sorted(os.listdir(cdir)):
            if f.endswith(".script"):
                cmds = [l.strip() for l in open(os.path.join(cdir, f)) if l.strip() and not l.startswith(";")]
                cases.append(O.Case("corpus/" + f, cmds, ("corpus",)))
    cases += mod.gen_cases(rng, "quick", {})
    mem_kb = getattr(mod, "IMPL_MEM_KB", None)
    tmo = getattr(mod, "DRIVER_TIMEOUT", 900)
    outs = O.run_sharded(impl_exe, cases, tmo, mem_kb=mem_kb)
    h = hashlib.sha256()
    n = 0

    def feed(cs, rs):
        nonlocal n
        for c, r in zip(cs, rs):
            h.update(("#" + c.name + "\n").encode())
            for cmd, o in zip(c.cmds, r):
                h.update(hashlib.sha256(cmd.encode()).digest())
                h.update((o + "\n").encode())
                n += 1
    feed(cases, outs)
    if prop in PROBE_ORACLE:
        def run_impl(cs):
            r = O.run_sharded(impl_exe, cs, tmo, mem_kb=mem_kb)
            feed(cs, r)
            return r

        def run_model(cs):
            raise RuntimeError("no model in a probe")
        ctx = O.Ctx(cases, outs, outs, run_model, run_impl, "debug", "quick")
        try:
            mod.oracle(ctx)
        except Exception:
            pass
    return h.hexdigest(), n


def probe_subprocess(prop, impl_exe):
    env = dict(os.environ, PYTHONHASHSEED="0", VERIF_IMPL_EXE=impl_exe)
    p = subprocess.run([sys.executable, os.path.abspath(__file__), "--probe", prop], env=env, stdout=subprocess.PIPE,
                       stderr=subprocess.PIPE, universal_newlines=True, timeout=3000)
    m = re.search(r"PROBE (\w+) ([0-9a-f]{64}) (\d+)", p.stdout)
    if not m:
        raise RuntimeError("probe %s failed: %s %s" % (prop, p.stdout[-300:], p.stderr[-300:]))
    return m.group(2), int(m.group(3))


def build_impl():
    exe = os.environ.get("VERIF_IMPL_EXE")
    if exe and os.path.exists(exe):
        return exe
    sys.path.insert(0, HERE)
    import orchestrate as O
    ok, out, exe = O.build_harness(False)
    if not ok:
        raise RuntimeError("harness does not build: %s" % out[-400:])
    return exe


def golden():
    with open(os.path.join(BASE, "golden.json")) as fh:
        return json.load(fh)


def probes_match(props):
    """do the implementation's observations on the case sets of `props` equal the recorded baseline ones?
    -> (bool, detail); results are cached per source tree"""
    gold = golden()
    if gold.get("_generator_key") != generator_key():
        return False, "the golden record was made with other generators (run tools/arbitrate.py --mkbaseline on the clean tree)"
    cache_path = os.path.join(BUILD, "arbitration-cache.json")
    key = tree_key()
    try:
        cache = json.load(open(cache_path))
    except Exception:
        cache = {}
    if cache.get("key") != key:
        cache = {"key": key, "probes": {}}
    exe = None
    detail = []
    ok = True
    for p in props:
        if p not in gold:
            return False, "no golden record for %s" % p
        if p not in cache["probes"]:
            exe = exe or build_impl()
            cache["probes"][p] = list(probe_subprocess(p, exe))
            os.makedirs(BUILD, exist_ok=True)
            json.dump(cache, open(cache_path, "w"))
        same = cache["probes"][p][0] == gold[p]["sha256"]
        detail.append("%s:%s(%d observations)" % (p, "same" if same else "DIFFERENT", cache["probes"][p][1]))
        ok = ok and same
    return ok, " ".join(detail)


def decide(candidates, errors):
    """candidates: {file: text or None}; errors: {file: [msg]} -> (final {file: text}, notes [str], failures [str])"""
    base = load_baseline()
    notes, failures, final = [], [], {}
    if base is None:
        for f, t in candidates.items():
            if t is None:
                failures.append("%s: %s" % (f, "; ".join(errors.get(f, ["not generated"]))))
            else:
                final[f] = t
        return final, notes, failures
    verdicts = {}
    for f, btext in base.items():
        bh, bdefs = parse_defs(btext)
        cdefs = dict(parse_defs(candidates.get(f) or "")[1])
        out = [bh.rstrip("\n")]
        for name, bdef in bdefs:
            c = cdefs.get(name)
            if c is not None and norm(c) == norm(bdef):
                out.append(bdef)
                continue
            pol, props = policy_for(f, name)
            if c is not None and pol == "trust":
                out.append(c)
                notes.append("%s.%s changed (read from the source)" % (f, name))
                continue
            if not props:
                if c is None:
                    failures.append("%s.%s: not readable and no probe" % (f, name))
                    out.append(bdef)
                else:
                    out.append(c)
                continue
            k = tuple(props)
            if k not in verdicts:
                try:
                    verdicts[k] = probes_match(props)
                except Exception as e:
                    verdicts[k] = (False, "probe failed: %s" % e)
            same, detail = verdicts[k]
            why = "; ".join(m for m in errors.get(f, []) if name in m) or ("read differently" if c is not None else "not readable")
            if same:
                out.append(bdef)
                notes.append("%s.%s: %s in the changed source; baseline value kept because the implementation's observations on the "
                             "whole case set of %s are identical to the baseline's [%s]" % (f, name, why, "+".join(props), detail))
            elif c is not None:
                out.append(c)
                notes.append("%s.%s changed (%s) [%s]" % (f, name, why, detail))
            else:
                out.append(bdef)
                failures.append("anchor missing: %s.%s (%s) and the implementation's behaviour differs from the baseline [%s]" % (f, name, why, detail))
        final[f] = "\n".join(out) + "\n"
    return final, compress(notes), failures


def compress(notes):
    """one note per (file, explanation) instead of one per datum"""
    groups, order = {}, []
    for n in notes:
        m = re.match(r"(\w+\.v)\.(\w+)(: | )(.*)$", n, re.S)
        if not m:
            order.append((None, n))
            continue
        expl = re.sub(r"^(?:[A-Za-z_0-9 ]+: )+", "", m.group(4))
        expl = re.sub(r"(precedence|spelling) of [\w:]+", r"\1 of an operator", expl)
        k = (m.group(1), expl)
        if k not in groups:
            groups[k] = []
            order.append((k, None))
        groups[k].append(m.group(2))
    out = []
    for k, n in order:
        if k is None:
            out.append(n)
        else:
            names = groups[k]
            out.append("%s {%s}: %s" % (k[0], ", ".join(names[:6]) + (", ... %d data" % len(names) if len(names) > 6 else ""), k[1]))
    return out


def mkbaseline():
    if subprocess.run(["git", "-C", REPO, "diff", "--quiet"]).returncode != 0:
        print("mkbaseline: /repo has uncommitted changes")
        sys.exit(2)
    sys.path.insert(0, HERE)
    import translate as T
    cands, errs = T.candidates()
    bad = [f for f, t in cands.items() if t is None] + [m for ms in errs.values() for m in ms]
    if bad:
        print("mkbaseline: translator incomplete on the clean tree: %s" % bad)
        sys.exit(2)
    os.makedirs(os.path.join(BASE, "gen"), exist_ok=True)
    for f, t in cands.items():
        with open(os.path.join(BASE, "gen", f), "w", encoding="utf-8") as fh:
            fh.write(t)
    exe = build_impl()
    props = sorted({p for _, _, _, ps in POLICY for p in ps})
    gold = {}
    for p in props:
        a = probe_subprocess(p, exe)
        b = probe_subprocess(p, exe)
        if a != b:
            print("mkbaseline: probe %s is not deterministic (%s vs %s)" % (p, a, b))
            sys.exit(2)
        gold[p] = {"sha256": a[0], "observations": a[1]}
        print("golden %s %s %d" % (p, a[0][:16], a[1]))
    gold["_repo_head"] = subprocess.run(["git", "-C", REPO, "rev-parse", "HEAD"], stdout=subprocess.PIPE, universal_newlines=True).stdout.strip()
    gold["_seed"] = FIXED_SEED
    gold["_generator_key"] = generator_key()
    with open(os.path.join(BASE, "golden.json"), "w") as fh:
        json.dump(gold, fh, indent=1, sort_keys=True)
    print("mkbaseline: ok")


if __name__ == "__main__":
    if len(sys.argv) >= 2 and sys.argv[1] == "--mkbaseline":
        mkbaseline()
    elif len(sys.argv) >= 3 and sys.argv[1] == "--probe":
        hx, n = probe(sys.argv[2], build_impl())
        print("PROBE %s %s %d" % (sys.argv[2], hx, n))
    else:
        print(__doc__)
