#!/bin/sh
# tools/harmall.sh: run every behaviour-preserving change under harmless/ against the quick checks of the properties whose
# code it touches (meta.json "property" plus harmless/<id>/also) and write harmless/RESULTS.md.  Expected: every check passes.
cd "$(dirname "$0")/.."
out=harmless/RESULTS.md
{
echo "# Behaviour-preserving changes vs checks"
echo
echo "Each row: a refactoring written by an independent agent that saw only the property text (harmless/<id>/patch.diff,"
echo "meta.json with its argument why behaviour is unchanged), applied to /repo; the quick checks must still pass."
echo
echo "| change | touches | check | exit | result | translator notes |"
echo "|---|---|---|---|---|---|"
} > $out
for d in harmless/[HJ]*/; do
  id=$(basename $d)
  prop=$(python3 -c "import json;print(json.load(open('$d/meta.json'))['property'])")
  also=$(cat $d/also 2>/dev/null)
  files=$(python3 -c "import json;print(' '.join(json.load(open('$d/meta.json'))['files']))")
  tools/harmtest.sh $id $prop $also > build/harmall-$id.log 2>&1
  for p in $prop $also; do
    ex=$(grep "== $id vs $p: exit" build/harmall-$id.log | sed 's/.*exit //')
    res=$(grep -E "^$p quick: (PASS|FAIL)" build/harm-$id-$p.log | cut -c1-120)
    notes=$(grep -c "translate: note" build/harm-$id-$p.log)
    echo "| $id | $files | $p | $ex | $res | $notes |" >> $out
  done
done
cat $out | tail -25
