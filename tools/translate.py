#!/usr/bin/env python3
"""translate.py -- regenerate coq/gen/*.v from /repo's current working tree.

Only *data* is translated (constants, static tables, match tables, operator
precedences, catalog schemas, I/O statement lists).  Every extraction is
anchored; a missing anchor raises TranslateError (handled by the caller like a
broken proof), it is never guessed.  Files are rewritten only when their
content changes so that make does not rebuild needlessly.
"""
import os, re, sys

REPO = os.environ.get("VERIF_REPO", "/repo")
OUT = os.path.join(os.path.dirname(os.path.abspath(__file__)), "..", "coq", "gen")


class TranslateError(Exception):
    pass


ERRORS = []          # messages of the extractions that failed in the current generator


class attempt:
    """`with attempt("NAME"):` -- one datum (or a few coupled ones).  A failed extraction leaves the datum out of the
    generated text and records why; tools/arbitrate.py then decides from the implementation's behaviour whether the
    baseline value still stands."""

    def __init__(self, what):
        self.what = what

    def __enter__(self):
        return self

    def __exit__(self, et, ev, tb):
        if et is None:
            return False
        if issubclass(et, (TranslateError, AttributeError, ValueError, IndexError, KeyError, TypeError)):
            ERRORS.append("%s: %s" % (self.what, ev if et is TranslateError else "%s %s" % (et.__name__, ev)))
            return True
        return False


def src(rel):
    with open(os.path.join(REPO, rel), encoding="utf-8") as f:
        return f.read()


def strip_tests(text):
    i = text.find("#[cfg(test)]")
    return text if i < 0 else text[:i]


def rust_int(tok):
    tok = tok.strip().replace("_", "")
    neg = tok.startswith("-")
    if neg:
        tok = tok[1:].strip()
    tok = re.sub(r"(u8|u16|u32|u64|i16|i32|i64|usize)$", "", tok)
    v = int(tok, 16) if tok.startswith("0x") else int(tok)
    return -v if neg else v


def const(text, name, where):
    m = re.search(r"const\s+%s\s*:\s*[A-Za-z0-9_&' ]+=\s*([^;]+);" % re.escape(name), text)
    if not m:
        raise TranslateError("anchor missing: const %s in %s" % (name, where))
    return m.group(1).strip()


def _match_braces(text, j):
    """text[j] == '{' -> index of the matching '}' (string and char literals and comments are skipped)"""
    depth, k, n = 0, j, len(text)
    while k < n:
        ch = text[k]
        if ch == '"':
            k += 1
            while k < n and text[k] != '"':
                k += 2 if text[k] == "\\" else 1
        elif ch == "'" and k + 2 < n and (text[k + 2] == "'" or (text[k + 1] == "\\" and "'" in text[k + 2:k + 12])):
            k = text.index("'", k + 2)
        elif text.startswith("//", k):
            e = text.find("\n", k)
            k = n if e < 0 else e
        elif ch == "{":
            depth += 1
        elif ch == "}":
            depth -= 1
            if depth == 0:
                return k
        k += 1
    return -1


def fn_spans(text, name):
    """[(start of 'fn', index of '{', index of matching '}')] for every definition of fn `name` that has a body"""
    out = []
    for m in re.finditer(r"\bfn\s+%s\b\s*(?:<[^{;(]*>)?\s*\(" % re.escape(name), text):
        k, depth, n = m.end(), 1, len(text)
        while k < n and depth:                       # the parameter list
            depth += {"(": 1, ")": -1}.get(text[k], 0)
            k += 1
        sq = 0
        while k < n and not (sq == 0 and text[k] in "{;"):
            sq += {"[": 1, "]": -1}.get(text[k], 0)
            k += 1
        if k >= n or text[k] == ";":
            continue                                  # a declaration without body (trait method)
        e = _match_braces(text, k)
        if e > 0:
            out.append((m.start(), k, e))
    return out


def impl_span(text, scope):
    """span of the first `impl ... scope ... { }` block"""
    for m in re.finditer(r"\bimpl\b[^{;]*\b%s\b[^{;]*\{" % re.escape(scope), text):
        j = m.end() - 1
        k = _match_braces(text, j)
        if k > 0:
            return j, k
    return None


def fn_body(text, sig, where, scope=None):
    """body (braces included) of a function.  `sig` is either the bare name or the beginning of the signature as it
    was when the translator was written; only the name is required to survive: an exact match of `sig` is preferred,
    then a definition inside `impl <scope>`, then the only / first definition of that name."""
    m = re.search(r"fn\s+(\w+)", sig)
    name = m.group(1) if m else sig
    spans = fn_spans(text, name)
    if not spans:
        raise TranslateError("anchor missing: fn %s in %s" % (name, where))
    i = text.find(sig) if m else -1
    pick = None
    if i >= 0:
        pick = next((sp for sp in spans if sp[0] <= i + sig.index("fn") <= sp[1]), None)
    if pick is None and scope:
        isp = impl_span(text, scope)
        if isp:
            pick = next((sp for sp in spans if isp[0] < sp[0] < isp[1]), None)
    if pick is None:
        pick = spans[0]
    return text[pick[1]:pick[2] + 1]


def closure(text, body, depth=3):
    """`body` followed by the bodies of the functions of the same file that it calls (transitively, `depth` levels):
    a property of a function survives the extraction of a private helper"""
    seen, out, frontier = set(), [body], [body]
    defined = set(re.findall(r"\bfn\s+(\w+)", text))
    for _ in range(depth):
        nxt = []
        for b in frontier:
            for callee in set(re.findall(r"\b(\w+)\s*(?:::<[^>]*>)?\(", b)):
                if callee in defined and callee not in seen:
                    seen.add(callee)
                    for sp in fn_spans(text, callee):
                        t = text[sp[1]:sp[2] + 1]
                        if t not in out:
                            out.append(t)
                            nxt.append(t)
        frontier = nxt
    return "\n".join(out)


def coq_str(s):
    """Rust string literal contents -> Coq list N of code points."""
    return "[" + "; ".join(str(ord(c)) for c in s) + "]"


def unescape(lit):
    """contents of a Rust "..." literal (only the escapes this crate uses)."""
    out = []
    i = 0
    while i < len(lit):
        c = lit[i]
        if c == "\\":
            n = lit[i + 1]
            if n == "u":
                j = lit.index("}", i)
                out.append(chr(int(lit[i + 3:j], 16)))
                i = j + 1
                continue
            if n == "x":
                out.append(chr(int(lit[i + 2:i + 4], 16)))
                i += 4
                continue
            out.append({"n": "\n", "t": "\t", "\\": "\\", '"': '"', "0": "\0", "r": "\r", "'": "'"}[n])
            i += 2
            continue
        out.append(c)
        i += 1
    return "".join(out)


def write_if_changed(name, body):
    path = os.path.join(OUT, name)
    header = "(* GENERATED by tools/translate.py from %s -- do not edit *)\n" % REPO
    text = header + body
    try:
        with open(path, encoding="utf-8") as f:
            if f.read() == text:
                return False
    except FileNotFoundError:
        pass
    os.makedirs(OUT, exist_ok=True)
    with open(path, "w", encoding="utf-8") as f:
        f.write(text)
    return True


# --------------------------------------------------------------------------- #
def strip_comments(body):
    return re.sub(r"//[^\n]*", "", body)


def flat(body):
    return re.sub(r"\s+", " ", strip_comments(body))


DISCARDS = [r"let _ =", r"\.ok\(\)", r"\.unwrap_or", r"if let Err", r"\.is_err\(\)", r"\.is_ok\(\)", r"drop\("]


def boolean(v):
    return "true" if v else "false"


def gen_consts():
    out = ["From Coq Require Import NArith ZArith List.", "Import ListNotations.", "Open Scope N_scope.", ""]
    ts = strip_tests(src("src/internal/timestamp.rs"))
    with attempt("UNIX_EPOCH_TIMESTAMP"):
        out.append("Definition UNIX_EPOCH_TIMESTAMP : N := %d." % rust_int(const(ts, "UNIX_EPOCH_TIMESTAMP", "timestamp.rs")))
    # the literal factors used by the two conversion helpers
    with attempt("TS_D2T_FACTORS"):
        body = fn_body(ts, "duration_to_timestamp_delta", "timestamp.rs")
        nums = [rust_int(x) for x in re.findall(r"\b\d[\d_]*\b", body)]
        if not nums:
            raise TranslateError("no literal factors in duration_to_timestamp_delta")
        out.append("Definition TS_D2T_FACTORS : list N := [%s]." % "; ".join(map(str, nums)))
    with attempt("TS_T2D_FACTORS"):
        body = fn_body(ts, "timestamp_delta_to_duration", "timestamp.rs")
        nums = [rust_int(x) for x in re.findall(r"\b\d[\d_]*\b", re.sub(r"u(32|64)", "", body))]
        if not nums:
            raise TranslateError("no literal factors in timestamp_delta_to_duration")
        out.append("Definition TS_T2D_FACTORS : list N := [%s]." % "; ".join(map(str, nums)))
    sp = strip_tests(src("src/internal/stringpool.rs"))
    for nm in ("MAX_STRING_REF", "LONG_STRING_REFS_BIT"):
        with attempt(nm):
            out.append("Definition %s : N := %d." % (nm, rust_int(const(sp, nm, "stringpool.rs"))))
    tb = strip_tests(src("src/internal/table.rs"))
    with attempt("MAX_ROWS_READ"):
        m = re.search(r"if num_rows > (\d[\d_]*) \{", tb)
        if not m:
            raise TranslateError("anchor missing: row limit in read_rows")
        out.append("Definition MAX_ROWS_READ : N := %d." % rust_int(m.group(1)))
    qy = strip_tests(src("src/internal/query.rs"))
    with attempt("MAX_ROWS_INSERT"):
        m = re.search(r"rows_map\.len\(\) \+ (?:self\.)?new_rows\.len\(\) > (\d[\d_]*)", qy)
        if not m:
            raise TranslateError("anchor missing: row limit of Insert::exec (rows_map.len() + new_rows.len() > N)")
        out.append("Definition MAX_ROWS_INSERT : option N := Some %d.  (* row limit enforced by Insert::exec, if any *)" % rust_int(m.group(1)))
    ps = strip_tests(src("src/internal/propset.rs"))
    for nm in ("BYTE_ORDER_MARK", "PROPERTY_CODEPAGE"):
        with attempt(nm):
            out.append("Definition %s : N := %d." % (nm, rust_int(const(ps, nm, "propset.rs"))))
    # does PropertySet::set reinterpret the i16 code page id as u16 (needed for 65001)?
    with attempt("PROPSET_SET_CODEPAGE_AS_U16"):
        setb = closure(ps, fn_body(ps, "pub fn set(&mut self, property_name: u32", "propset.rs", scope="PropertySet"))
        if "as u16" in setb or "u16::from_ne_bytes" in setb:
            out.append("Definition PROPSET_SET_CODEPAGE_AS_U16 : bool := true.")
        elif re.search(r"as i32", setb) and "from_id" in setb:
            out.append("Definition PROPSET_SET_CODEPAGE_AS_U16 : bool := false.")
        else:
            raise TranslateError("PROPSET_SET_CODEPAGE_AS_U16: conversion of the stored code page id not recognised")
    with attempt("PROPSET_OFFSETS_FROM_ENCODED"):
        wr = closure(ps, fn_body(ps, "pub fn write<W: Write>(&self, mut writer: W)", "propset.rs", scope="PropertySet"))
        out.append("Definition PROPSET_OFFSETS_FROM_ENCODED : bool := %s.  (* offsets taken from the bytes actually written *)"
                   % ("false" if "size_including_padding()" in wr else "true"))
    sm = strip_tests(src("src/internal/summary.rs"))
    for nm in ("PROPERTY_TITLE", "PROPERTY_SUBJECT", "PROPERTY_AUTHOR", "PROPERTY_COMMENTS", "PROPERTY_TEMPLATE", "PROPERTY_UUID",
               "PROPERTY_CREATION_TIME", "PROPERTY_WORD_COUNT", "PROPERTY_CREATING_APP"):
        with attempt(nm):
            out.append("Definition %s : N := %d." % (nm, rust_int(const(sm, nm, "summary.rs"))))
    with attempt("FMTID"):
        m = re.search(r'const FMTID: \[u8; 16\] =\s*\*b"([^"]*)";', sm)
        if not m:
            raise TranslateError("anchor missing: FMTID")
        out.append("Definition FMTID : list N := [%s]." % "; ".join(str(ord(c)) for c in unescape(m.group(1))))
    with attempt("SUMMARY_OS SUMMARY_OS_VERSION"):
        m = re.search(r"PropertySet::new\(\s*OperatingSystem::(\w+),\s*(\d+),\s*FMTID,?\s*\)", sm)
        if not m:
            raise TranslateError("anchor missing: SummaryInfo::new property set parameters")
        out.append("Definition SUMMARY_OS : N := %d.\nDefinition SUMMARY_OS_VERSION : N := %s." % ({"Win16": 0, "Macintosh": 1, "Win32": 2}[m.group(1)], m.group(2)))
    # failure behaviour of the string pool and of the catalog reader (C09): presence of the construct is the evidence
    with attempt("POOL_DECREF_PANICS"):
        dec = closure(sp, fn_body(sp, "pub fn decref(&mut self", "stringpool.rs", scope="StringPool"))
        out.append("Definition POOL_DECREF_PANICS : bool := %s.  (* decref panics on a dangling reference / zero refcount *)"
                   % boolean(re.search(r"\bpanic!|\bunreachable!|\.unwrap\(\)|\.expect\(|\bassert!", strip_comments(dec))))
    with attempt("POOL_INCREF_ASSERTS_EMPTY"):
        inc = fn_body(sp, "pub fn incref(&mut self", "stringpool.rs", scope="StringPool")
        out.append("Definition POOL_INCREF_ASSERTS_EMPTY : bool := %s.  (* incref debug-asserts that an unused entry has no text *)"
                   % boolean("debug_assert" in strip_comments(inc)))
    pk = strip_tests(src("src/internal/package.rs"))
    with attempt("OPEN_UNWRAPS_CATALOG_CELLS"):
        opn = fn_body(pk, "pub fn open(inner: F)", "package.rs")
        fl = re.sub(r"\s+", "", strip_comments(opn))
        # cells read without a preceding null test: row[i], value_refs[i].to_value(..), is_nullable
        n_unwrap = len(re.findall(r"(?:row\[\d\]|value_refs\[\d\]\.to_value\(&string_pool\)|is_nullable)\.as_(?:str|int)\(\)\.unwrap\(\)", fl))
        out.append("Definition OPEN_UNWRAPS_CATALOG_CELLS : bool := %s.  (* %d unguarded unwrap() on catalog cells in Package::open *)"
                   % (boolean(n_unwrap > 0), n_unwrap))
    with attempt("FFI_GET_TABLE_EXPECTS"):
        ffi = strip_tests(src("ffi/src/lib.rs"))
        gt = fn_body(ffi, "fn get_table(", "ffi/src/lib.rs")
        out.append("Definition FFI_GET_TABLE_EXPECTS : bool := %s.  (* get_table calls expect()/unwrap() on the select result *)"
                   % boolean(re.search(r"\.(expect|unwrap)\(", strip_comments(gt))))
    with attempt("FFI_INFO_TIME_UNGUARDED"):
        ffi = strip_tests(src("ffi/src/lib.rs"))
        gi = strip_comments(fn_body(ffi, "fn get_information(", "ffi/src/lib.rs"))
        unguarded = "to_rfc2822" in gi and not re.search(r"\.year\(\)\s*(<=|<|>=|>)\s*\d", gi)
        out.append("Definition FFI_INFO_TIME_UNGUARDED : bool := %s.  (* get_information calls to_rfc2822 (panics beyond the year 9999) without a guard on the year *)"
                   % boolean(unguarded))
    return "\n".join(out) + "\n"


def tokenize_rust(text):
    toks = []
    for m in re.finditer(r'"((?:[^"\\]|\\.)*)"|(-?\s*0x[0-9a-fA-F_]+|-?\s*\d[\d_]*)|(&\[|\[|\]|\(|\)|,)', text):
        if m.group(1) is not None:
            toks.append(("s", unescape(m.group(1))))
        elif m.group(2) is not None:
            toks.append(("i", rust_int(m.group(2))))
        else:
            toks.append(("p", m.group(3)))
    return toks


def parse_rust_value(toks, i):
    k, v = toks[i]
    if k in ("s", "i"):
        return v, i + 1
    if v in ("(", "&[", "["):
        close = ")" if v == "(" else "]"
        items = []
        i += 1
        while toks[i] != ("p", close):
            if toks[i] == ("p", ","):
                i += 1
                continue
            item, i = parse_rust_value(toks, i)
            items.append(item)
        return (tuple(items) if v == "(" else items), i + 1
    raise TranslateError("unexpected token %r" % (toks[i],))


def gen_language():
    text = strip_tests(src("src/internal/language.rs"))
    out = ["From Coq Require Import NArith List.", "Import ListNotations.", "Open Scope N_scope.", ""]
    for name in ("LANG_MASK", "SUBLANG_SHIFT", "LANG_NEUTRAL", "SUBLANG_NEUTRAL"):
        with attempt(name):
            out.append("Definition %s : N := %d." % (name, rust_int(const(text, name, "language.rs"))))
    # the sublanguage used by from_tag when the region is not in the table
    with attempt("SUBLANG_FALLBACK"):
        m = re.search(r"for &\(sublang_code, sublang_tag\) in sublangs\.iter\(\) \{.*?\}\s*\}\s*return Language::new\(\s*lang_code,\s*(\w+),?\s*\);", text, re.S)
        if not m:
            raise TranslateError("anchor missing: from_tag fallback sublanguage")
        fb = m.group(1)
        out.append("Definition SUBLANG_FALLBACK : N := %d.  (* %s *)" % (rust_int(const(text, fb, "language.rs")), fb))
    with attempt("LANGUAGES"):
        m = re.search(r"(?:const|static) LANGUAGES\s*:[^=]*=\s*(&\[.*?\n\];)", text, re.S)
        if not m:
            raise TranslateError("anchor missing: const LANGUAGES in language.rs")
        table, _ = parse_rust_value(tokenize_rust(m.group(1)), 0)
        rows = []
        for ent in table:
            if not (isinstance(ent, tuple) and len(ent) == 3):
                raise TranslateError("LANGUAGES entry shape: %r" % (ent,))
            code, tag, subs = ent
            rows.append("  (%d, %s, [%s])" % (code, coq_str(tag), "; ".join("(%d, %s)" % (c, coq_str(t)) for c, t in subs)))
        out.append("Definition LANGUAGES : list (N * list N * list (N * list N)) := [\n%s\n]." % ";\n".join(rows))
    return "\n".join(out) + "\n"


BINOPS = ["Eq", "Ne", "Lt", "Le", "Gt", "Ge", "Add", "Sub", "Mul", "Div", "BitAnd", "BitOr", "BitXor", "Shl", "Shr"]


def gen_expr():
    text = strip_tests(src("src/internal/expr.rs"))
    out = ["From Coq Require Import NArith List.", "Import ListNotations.", "Open Scope N_scope.", ""]
    for op in BINOPS:
        with attempt("PREC_%s" % op):
            prec = fn_body(text, "fn precedence(&self)", "expr.rs")
            m = re.search(r"BinOp::%s\s*=>\s*(\d+)" % op, prec)
            if not m:
                raise TranslateError("anchor missing: precedence of BinOp::%s" % op)
            out.append("Definition PREC_%s : N := %s." % (op, m.group(1)))
    fmt = ""
    with attempt("format_with_precedence"):
        fmt = fn_body(text, "fn format_with_precedence(", "expr.rs")
    with attempt("PREC_AND PREC_OR PREC_UNARY_ARG"):
        m_and = re.search(r"Ast::And\(.*?let op_prec = (\d+);", fmt, re.S)
        m_or = re.search(r"Ast::Or\(.*?let op_prec = (\d+);", fmt, re.S)
        m_un = re.search(r"Ast::UnOp\(.*?arg\.format_with_precedence\(formatter, (\d+)\)", fmt, re.S)
        if not (m_and and m_or and m_un):
            raise TranslateError("anchor missing: AND/OR/unary precedence constants in format_with_precedence")
        out.append("Definition PREC_AND : N := %s." % m_and.group(1))
        out.append("Definition PREC_OR : N := %s." % m_or.group(1))
        out.append("Definition PREC_UNARY_ARG : N := %s." % m_un.group(1))
    with attempt("PREC_NOT_PAREN_ABOVE"):
        unarm = fmt[fmt.index("Ast::UnOp("):fmt.index("Ast::BinOp(")]
        m = re.search(r"UnOp::BoolNot\)\s*&&\s*parent_prec\s*>\s*(\d+)", unarm)
        if not m:
            raise TranslateError("anchor missing: parenthesis rule of NOT")
        out.append("Definition PREC_NOT_PAREN_ABOVE : N := %s." % m.group(1))
    # every binary arm must pass op_prec to the left child and op_prec + 1 to the right one, and
    # parenthesise exactly when op_prec < parent_prec
    with attempt("PRINTER_SHAPE"):
        n_lt = len(re.findall(r"if op_prec < parent_prec", fmt))
        n_l = len(re.findall(r"arg1\.format_with_precedence\(formatter, op_prec\)", fmt))
        n_r = len(re.findall(r"arg2\.format_with_precedence\(formatter, op_prec \+ 1\)", fmt))
        if not (n_lt and n_l and n_r):
            raise TranslateError("anchor missing: shape of the binary arms of format_with_precedence")
        out.append("Definition PRINTER_SHAPE : list N := [%d; %d; %d].  (* paren tests, left-child calls, right-child calls *)" % (n_lt, n_l, n_r))
    for op in BINOPS:
        with attempt("TEXT_%s" % op):
            m = re.search(r'BinOp::%s\s*=>\s*formatter\.write_str\("([^"]*)"\)' % op, fmt)
            if not m:
                raise TranslateError("anchor missing: spelling of BinOp::%s" % op)
            out.append("Definition TEXT_%s : list N := %s." % (op, coq_str(unescape(m.group(1)))))
    for nm, pat in (("AND", r'write_str\("( AND )"\)'), ("OR", r'write_str\("( OR )"\)'), ("NOT", r'UnOp::BoolNot\s*=>\s*formatter\.write_str\("([^"]*)"\)'),
                    ("NEG", r'UnOp::Neg\s*=>\s*formatter\.write_str\("([^"]*)"\)'), ("BITNOT", r'UnOp::BitNot\s*=>\s*formatter\.write_str\("([^"]*)"\)')):
        with attempt("TEXT_%s" % nm):
            m = re.search(pat, fmt)
            if not m:
                raise TranslateError("anchor missing: spelling of %s" % nm)
            out.append("Definition TEXT_%s : list N := %s." % (nm, coq_str(unescape(m.group(1)))))
    return "\n".join(out) + "\n"


def gen_category():
    text = strip_tests(src("src/internal/category.rs"))
    out = ["From Coq Require Import NArith List.", "Import ListNotations.", "Open Scope N_scope.", ""]
    with attempt("CAT_ALL_IDENTS"):
        body = fn_body(text, "pub(crate) fn all()", "category.rs")
        idents = re.findall(r"Category::(\w+)", body)
        if not idents:
            raise TranslateError("anchor missing: Category::all() entries")
        out.append("Definition CAT_ALL_IDENTS : list (list N) := [%s]." % "; ".join(coq_str(i) for i in idents))
    with attempt("CAT_AS_STR"):
        body = fn_body(text, "pub(crate) fn as_str(&self)", "category.rs")
        pairs = re.findall(r'Category::(\w+)\s*=>\s*"([^"]*)"', body)
        if not pairs:
            raise TranslateError("anchor missing: Category::as_str arms")
        out.append("Definition CAT_AS_STR : list (list N * list N) := [%s]." % "; ".join("(%s, %s)" % (coq_str(a), coq_str(unescape(b))) for a, b in pairs))
    with attempt("CAT_FROM_STR"):
        body = fn_body(text, "fn from_str(string: &str)", "category.rs")
        pairs = re.findall(r'"([^"]*)"\s*=>\s*Ok\(Category::(\w+)\)', body)
        if not pairs:
            raise TranslateError("anchor missing: Category::from_str arms")
        out.append("Definition CAT_FROM_STR : list (list N * list N) := [%s]." % "; ".join("(%s, %s)" % (coq_str(unescape(a)), coq_str(b)) for a, b in pairs))
    body = ""
    with attempt("Category::validate"):
        body = fn_body(text, "pub fn validate(&self, string: &str)", "category.rs")
    with attempt("CAT_VALIDATED"):
        arms = re.findall(r"^\s{12}Category::(\w+)\s*=>", body, re.M)
        if not arms:
            raise TranslateError("anchor missing: arms of Category::validate")
        out.append("Definition CAT_VALIDATED : list (list N) := [%s]." % "; ".join(coq_str(a) for a in arms))
    # numeric limits that appear in the validators
    with attempt("CAT_VALIDATE_NUMBERS"):
        nums = sorted(set(int(x) for x in re.findall(r"(?<!\w)(\d+)(?!\w)", body)))
        if not nums:
            raise TranslateError("anchor missing: literals of Category::validate")
        out.append("Definition CAT_VALIDATE_NUMBERS : list N := [%s]." % "; ".join(map(str, nums)))
    with attempt("CAT_CABINET_IN_CHARS"):
        cab = body[body.index("Category::Cabinet =>"):]
        in_chars = len(re.findall(r"parts\[[01]\]\.chars\(\)\.count\(\)", cab))
        in_bytes = len(re.findall(r"parts\[[01]\]\.len\(\)", cab))
        if in_chars + in_bytes != 2:
            raise TranslateError("anchor missing: Cabinet length tests")
        out.append("Definition CAT_CABINET_IN_CHARS : bool := %s.  (* base/extension measured in characters (true) or bytes *)" % boolean(in_chars == 2))
    with attempt("CAT_PARSE_TYPES"):
        types = re.findall(r"parse::<(\w+)>", body)
        if not types:
            raise TranslateError("anchor missing: parse::<T> calls of Category::validate")
        out.append("Definition CAT_PARSE_TYPES : list (list N) := [%s]." % "; ".join(coq_str(t) for t in types))
    return "\n".join(out) + "\n"


def gen_column():
    text = strip_tests(src("src/internal/column.rs"))
    out = ["From Coq Require Import NArith ZArith List.", "Import ListNotations.", "Open Scope N_scope.", ""]
    for name in ("COL_FIELD_SIZE_MASK", "COL_LOCALIZABLE_BIT", "COL_STRING_BIT", "COL_NULLABLE_BIT", "COL_PRIMARY_KEY_BIT",
                 "COL_VALID_BIT", "COL_NONBINARY_BIT"):
        with attempt(name):
            out.append("Definition %s : N := %d." % (name, rust_int(const(text, name, "column.rs"))))
    with attempt("COLTYPE_INT16_BITS COLTYPE_INT32_BITS"):
        body = fn_body(text, "fn bitfield(&self) -> i32 {\n        match *self", "column.rs", scope="ColumnType")
        m16 = re.search(r"ColumnType::Int16 => (0x[0-9a-f]+|\d+)", body)
        m32 = re.search(r"ColumnType::Int32 => (0x[0-9a-f]+|\d+)", body)
        if not (m16 and m32):
            raise TranslateError("anchor missing: ColumnType::bitfield integer sizes")
        out.append("Definition COLTYPE_INT16_BITS : N := %d." % rust_int(m16.group(1)))
        out.append("Definition COLTYPE_INT32_BITS : N := %d." % rust_int(m32.group(1)))
    with attempt("FROM_BITFIELD_INT_SIZES"):
        body = fn_body(text, "fn from_bitfield(type_bits: i32)", "column.rs")
        sizes = re.findall(r"field_size == (\d+)\s*\{[^}]*?Ok\(ColumnType::(\w+)\)", body, re.S)
        if not sizes:
            raise TranslateError("anchor missing: integer field sizes of ColumnType::from_bitfield")
        out.append("Definition FROM_BITFIELD_INT_SIZES : list (N * N) := [%s].  (* field size, 16 or 32 *)" %
                   "; ".join("(%s, %s)" % (a, b[3:]) for a, b in sizes))
    return "\n".join(out) + "\n"


def gen_codepage():
    text = strip_tests(src("src/internal/codepage.rs"))
    out = ["From Coq Require Import NArith ZArith List.", "Import ListNotations.", "Open Scope N_scope.", ""]
    with attempt("CP_FROM_ID"):
        body = fn_body(text, "pub fn from_id(id: i32)", "codepage.rs")
        pairs = re.findall(r"(\d+)\s*=>\s*Some\(CodePage::(\w+)(?:\(\))?\)", body)
        if len(pairs) < 2:
            raise TranslateError("anchor missing: from_id table")
        m = re.search(r"#\[default\]\s*(\w+),", text)
        default = m.group(1) if m else None
        rows = []
        for i, v in pairs:
            if v == "default":
                if not default:
                    raise TranslateError("anchor missing: #[default] variant of CodePage")
                v = default
            rows.append("(%s, %s)" % (i, coq_str(v)))
        out.append("Definition CP_FROM_ID : list (N * list N) := [%s]." % "; ".join(rows))
    with attempt("CP_ID"):
        body = fn_body(text, "pub fn id(&self)", "codepage.rs")
        pairs = re.findall(r"CodePage::(\w+)\s*=>\s*(\d+)", body)
        if len(pairs) < 2:
            raise TranslateError("anchor missing: id table")
        out.append("Definition CP_ID : list (list N * N) := [%s]." % "; ".join("(%s, %s)" % (coq_str(v), i) for v, i in pairs))
    with attempt("CP_ENCODING"):
        body = fn_body(text, "fn encoding(&self)", "codepage.rs")
        rows = []
        for m in re.finditer(r"((?:CodePage::\w+\s*\|?\s*)+)=>\s*&?encoding_rs::(\w+?)(?:_INIT)?,", body):
            for v in re.findall(r"CodePage::(\w+)", m.group(1)):
                rows.append("(%s, %s)" % (coq_str(v), coq_str(m.group(2))))
        if len(rows) < 2:
            raise TranslateError("anchor missing: encoding table")
        out.append("Definition CP_ENCODING : list (list N * list N) := [%s]." % "; ".join(rows))
    with attempt("CP_DECODE_SNIFFS_BOM"):
        dec = closure(text, fn_body(text, "pub fn decode(&self, bytes: &[u8])", "codepage.rs"))
        if "decode_without_bom_handling" in dec:
            out.append("Definition CP_DECODE_SNIFFS_BOM : bool := false.")
        elif re.search(r"\.decode\(|decode_with_bom_removal", dec):
            out.append("Definition CP_DECODE_SNIFFS_BOM : bool := true.")
        else:
            raise TranslateError("CP_DECODE_SNIFFS_BOM: decoder call not recognised")
    enc = ""
    with attempt("CodePage::encode"):
        enc = closure(text, fn_body(text, "pub fn encode(&self, string: &str)", "codepage.rs"))
    with attempt("CP_ENCODE_BUFFER"):
        m = re.search(r"let mut buffer = \[0; (\d+)\];", enc)
        if not m:
            raise TranslateError("anchor missing: encode buffer size")
        out.append("Definition CP_ENCODE_BUFFER : N := %s." % m.group(1))
    with attempt("CP_REPLACEMENT"):
        m = re.search(r"EncoderResult::Unmappable\(_\) => \{?\s*\w+\.push\(b'(.)'\)", enc)
        if not m:
            raise TranslateError("anchor missing: replacement byte")
        out.append("Definition CP_REPLACEMENT : N := %d." % ord(m.group(1)))
    return "\n".join(out) + "\n"


def gen_streamname():
    text = strip_tests(src("src/internal/streamname.rs"))
    out = ["From Coq Require Import NArith List.", "Import ListNotations.", "Open Scope N_scope.", ""]
    for nm in ("DIGITAL_SIGNATURE_STREAM_NAME", "MSI_DIGITAL_SIGNATURE_EX_STREAM_NAME", "SUMMARY_INFO_STREAM_NAME",
               "DOCUMENT_SUMMARY_INFO_STREAM_NAME"):
        with attempt(nm):
            m = re.search(r'pub const %s: &str =\s*"([^"]*)";' % nm, text)
            if not m:
                raise TranslateError("anchor missing: %s" % nm)
            out.append("Definition %s : list N := %s." % (nm, coq_str(unescape(m.group(1)))))
    with attempt("TABLE_PREFIX"):
        m = re.search(r"const TABLE_PREFIX: char = '([^']*)';", text)
        if not m:
            raise TranslateError("anchor missing: TABLE_PREFIX")
        out.append("Definition TABLE_PREFIX : N := %d." % ord(unescape(m.group(1))))
    with attempt("SN_PAIR_LO SN_PAIR_HI SN_SINGLE_LO SN_SINGLE_HI"):
        dec = fn_body(text, "pub fn decode(name: &str)", "streamname.rs")
        rs = re.findall(r"\((0x[0-9a-fA-F]+)\.\.(0x[0-9a-fA-F]+)\)\.contains", dec)
        if len(rs) != 2:
            raise TranslateError("anchor missing: decode ranges")
        out.append("Definition SN_PAIR_LO : N := %d.\nDefinition SN_PAIR_HI : N := %d." % (int(rs[0][0], 16), int(rs[0][1], 16)))
        out.append("Definition SN_SINGLE_LO : N := %d.\nDefinition SN_SINGLE_HI : N := %d." % (int(rs[1][0], 16), int(rs[1][1], 16)))
    with attempt("SN_ENC_PAIR_BASE SN_ENC_SHIFT SN_ENC_SINGLE_BASE"):
        enc = fn_body(text, "pub fn encode(name: &str, is_table: bool)", "streamname.rs")
        m1 = re.search(r"(0x[0-9a-fA-F]+) \+ \(value2 << (\d+)\) \+ value1", enc)
        m2 = re.search(r"let encoded = (0x[0-9a-fA-F]+) \+ value1;", enc)
        if not (m1 and m2):
            raise TranslateError("anchor missing: encode arithmetic")
        out.append("Definition SN_ENC_PAIR_BASE : N := %d.\nDefinition SN_ENC_SHIFT : N := %s.\nDefinition SN_ENC_SINGLE_BASE : N := %d."
                   % (int(m1.group(1), 16), m1.group(2), int(m2.group(1), 16)))
    val = ""
    with attempt("streamname::is_valid"):
        val = fn_body(text, "pub fn is_valid(name: &str, is_table: bool)", "streamname.rs")
    with attempt("SN_MAX_UNITS"):
        m = re.search(r"encode_utf16\(\)\.count\(\) <= (\d+)", val)
        if not m:
            raise TranslateError("anchor missing: is_valid length limit")
        out.append("Definition SN_MAX_UNITS : N := %s." % m.group(1))
    # characters is_valid refuses outright (absent in the original source)
    with attempt("SN_RESERVED_RANGES SN_RESERVED_CHARS"):
        ranges, chars = [], []
        if "is_reserved_char" in val and "fn is_reserved_char" in text:
            body = fn_body(text, "fn is_reserved_char(ch: char)", "streamname.rs")
            ranges = [(int(a, 16), int(b, 16)) for a, b in re.findall(r"\((0x[0-9a-fA-F]+)\.\.=(0x[0-9a-fA-F]+)\)\.contains", body)]
            m = re.search(r"matches!\(ch,([^)]*)\)", body)
            if m:
                chars = [ord(unescape(c)) for c in re.findall(r"'((?:\\.|[^'\\])+)'", m.group(1))]
        if not val or not (ranges or chars):
            raise TranslateError("anchor missing: reserved characters of is_valid")
        out.append("Definition SN_RESERVED_RANGES : list (N * N) := [%s]." % "; ".join("(%d, %d)" % r for r in ranges))
        out.append("Definition SN_RESERVED_CHARS : list N := [%s]." % "; ".join(map(str, chars)))
    return "\n".join(out) + "\n"


def parse_builder_chain(expr, where):
    """Column::build("X").primary_key().nullable().range(a, b).enum_values(&[..]).id_string(32) -> dict"""
    m = re.match(r'\s*Column::build\("([^"]*)"\)(.*)$', expr.strip(), re.S)
    if not m:
        raise TranslateError("catalog column expression not understood in %s: %s" % (where, expr[:60]))
    col = {"name": m.group(1), "pk": False, "null": False, "loc": False, "range": None, "cat": None, "enum": None, "type": None}
    rest = m.group(2)
    for call in re.finditer(r"\.(\w+)\(([^()]*(?:\([^()]*\))?[^()]*)\)", rest):
        f, a = call.group(1), call.group(2).strip()
        if f == "primary_key":
            col["pk"] = True
        elif f == "nullable":
            col["null"] = True
        elif f == "localizable":
            col["loc"] = True
        elif f == "range":
            col["range"] = tuple(x.strip() for x in a.split(","))
        elif f == "enum_values":
            col["enum"] = a
        elif f in ("int16", "int32"):
            col["type"] = (f, 0)
        elif f == "string":
            col["type"] = ("str", rust_int(a))
        elif f == "id_string":
            col["type"] = ("str", rust_int(a)); col["cat"] = "Identifier"
        elif f == "text_string":
            col["type"] = ("str", rust_int(a)); col["cat"] = "Text"
        elif f == "formatted_string":
            col["type"] = ("str", rust_int(a)); col["cat"] = "Formatted"
        elif f == "binary":
            col["type"] = ("str", 0); col["cat"] = "Binary"
        else:
            raise TranslateError("unknown builder call .%s in %s" % (f, where))
    if col["type"] is None:
        raise TranslateError("no column type in %s: %s" % (where, expr[:60]))
    return col


def coq_schema(cols, env):
    rows = []
    for c in cols:
        t = {"int16": "0", "int32": "1", "str": "2"}[c["type"][0]]
        if c["range"] is None:
            rg = "None"
        else:
            lo, hi = (env.get(x, None) if x in env else rust_int(x) for x in c["range"])
            rg = "Some (%d, %d)%%Z" % (lo, hi)
        cat = "Some %s" % coq_str(c["cat"]) if c["cat"] else "None"
        if c["enum"] is None:
            en = "SchemaEnumNone"
        elif c["enum"].strip().startswith("&["):
            vals = re.findall(r'"([^"]*)"', c["enum"])
            en = "SchemaEnumList [%s]" % "; ".join(coq_str(v) for v in vals)
        else:
            en = "SchemaEnumCategories"
        rows.append("  (%s, %s, %d, %s, %s, %s, %s, %s)" % (coq_str(c["name"]), t, c["type"][1], "true" if c["pk"] else "false",
                                                       "true" if c["null"] else "false", rg, cat, en))
    return "[\n" + ";\n".join(rows) + "\n]"


def gen_catalog():
    text = strip_tests(src("src/internal/package.rs"))
    out = ["From Coq Require Import NArith ZArith List.", "Import ListNotations.", "Open Scope N_scope.", "",
           "Inductive schema_enum := SchemaEnumNone | SchemaEnumList (l : list (list N)) | SchemaEnumCategories.",
           "(* name, type (0 int16, 1 int32, 2 string), width, primary key, nullable, range, category ident, enum *)",
           "Definition schema_col := (list N * N * N * bool * bool * option (Z * Z) * option (list N) * schema_enum)%type.", ""]
    for nm in ("INSTALLER_PACKAGE_CLSID", "PATCH_PACKAGE_CLSID", "TRANSFORM_PACKAGE_CLSID", "COLUMNS_TABLE_NAME", "TABLES_TABLE_NAME",
               "VALIDATION_TABLE_NAME", "STRING_DATA_TABLE_NAME", "STRING_POOL_TABLE_NAME"):
        with attempt(nm):
            m = re.search(r'const %s: &str =\s*"([^"]*)";' % nm, text)
            if not m:
                raise TranslateError("anchor missing: %s" % nm)
            out.append("Definition %s : list N := %s." % (nm, coq_str(m.group(1))))
    with attempt("MAX_NUM_TABLE_COLUMNS"):
        out.append("Definition MAX_NUM_TABLE_COLUMNS : N := %d." % rust_int(const(text, "MAX_NUM_TABLE_COLUMNS", "package.rs")))
    for v in ("Installer", "Patch", "Transform"):
        with attempt("DEFAULT_TITLE_%s" % v):
            body = fn_body(text, "fn default_title(&self)", "package.rs")
            m = re.search(r'PackageType::%s => "([^"]*)"' % v, body)
            if not m:
                raise TranslateError("anchor missing: default title of %s" % v)
            out.append("Definition DEFAULT_TITLE_%s : list N := %s." % (v, coq_str(m.group(1))))

    def vec_items(fn_sig):
        body = fn_body(text, fn_sig, "package.rs")
        i = body.index("vec![")
        depth, j = 0, i + 4
        for k in range(i + 4, len(body)):
            if body[k] == "[":
                depth += 1
            elif body[k] == "]":
                depth -= 1
                if depth == 0:
                    j = k
                    break
        inner = body[i + 5:j]
        items, cur, d = [], "", 0
        for ch in inner:
            if ch in "([":
                d += 1
            elif ch in ")]":
                d -= 1
            if ch == "," and d == 0:
                if cur.strip():
                    items.append(cur)
                cur = ""
            else:
                cur += ch
        if cur.strip():
            items.append(cur)
        return body, items

    env = {}
    with attempt("TABLES_SCHEMA"):
        _, titems = vec_items("fn make_tables_table(")
        out.append("Definition TABLES_SCHEMA : list schema_col := %s." % coq_schema([parse_builder_chain(x, "make_tables_table") for x in titems], env))
    with attempt("COLUMNS_SCHEMA"):
        _, citems = vec_items("fn make_columns_table(")
        out.append("Definition COLUMNS_SCHEMA : list schema_col := %s." % coq_schema([parse_builder_chain(x, "make_columns_table") for x in citems], env))
    with attempt("VALIDATION_SCHEMA"):
        vbody, vitems = vec_items("fn make_validation_columns()")
        for name, val in re.findall(r"let (\w+) = (-?0x[0-9a-fA-F_]+|-?\d[\d_]*);", vbody):
            env[name] = rust_int(val)
        out.append("Definition VALIDATION_SCHEMA : list schema_col := %s." % coq_schema([parse_builder_chain(x, "make_validation_columns") for x in vitems], env))
    with attempt("RESERVED_TABLE_NAMES"):
        body = fn_body(text, "fn is_reserved_table_name(", "package.rs")
        names = re.findall(r"table_name == (\w+)", body)
        if not names:
            raise TranslateError("anchor missing: names tested by is_reserved_table_name")
        out.append("Definition RESERVED_TABLE_NAMES : list (list N) := [%s]." % "; ".join(names))
    body = ""
    with attempt("create_table_with_name"):
        body = closure(text, fn_body(text, "fn create_table_with_name(", "package.rs"), depth=1)
    # extra reserved names refused by create_table (absent in the original source)
    with attempt("CREATE_TABLE_EXTRA_RESERVED"):
        extra = re.findall(r"table_name == (STRING_\w+_TABLE_NAME)", body)
        if not extra:
            raise TranslateError("anchor missing: string pool names refused by create_table")
        out.append("Definition CREATE_TABLE_EXTRA_RESERVED : list (list N) := [%s]." % "; ".join(extra))
    with attempt("CREATE_TABLE_MAX_STRING_WIDTH"):
        m = re.search(r"if max_len > (\d+)", body)
        if not m:
            raise TranslateError("anchor missing: string width limit of create_table")
        out.append("Definition CREATE_TABLE_MAX_STRING_WIDTH : option N := Some %s." % m.group(1))
    with attempt("CREATE_TABLE_CHECKS_ENUM_VALUES"):
        if not re.search(r"v\.is_empty\(\) \|\| v\.contains\(';'\)", body):
            raise TranslateError("anchor missing: enumeration value check of create_table")
        out.append("Definition CREATE_TABLE_CHECKS_ENUM_VALUES : bool := true.")
    # does create_table dry-run the three catalog inserts (Insert::check) before it changes anything?
    with attempt("CREATE_TABLE_DRY_RUNS"):
        fl = re.sub(r"\s+", "", body)
        if re.search(r"Insert::into\(\w+\)\.rows\([^;]*\)\.check\(", fl) and "fn check<" in strip_tests(src("src/internal/query.rs")):
            out.append("Definition CREATE_TABLE_DRY_RUNS : bool := true.  (* create_table dry-runs the three catalog inserts (Insert::check) before changing anything *)")
        else:
            raise TranslateError("anchor missing: dry runs of the catalog inserts in create_table")
    # in a package without _Validation: are range / foreign key / category / enumeration refused (cells 3..8 of the row)?
    with attempt("CREATE_TABLE_REFUSES_UNRECORDABLE"):
        fl = re.sub(r"\s+", "", body)
        if not re.search(r"table_name!=VALIDATION_TABLE_NAME&&!self\.tables\.contains_key\(VALIDATION_TABLE_NAME\)&&validation_rows\.iter\(\)\.any\(\|row\|row\[3\.\.9\]\.iter\(\)\.any\(\|value\|!value\.is_null\(\)\)\)", fl):
            raise TranslateError("anchor missing: refusal of unrecordable attributes without _Validation")
        out.append("Definition CREATE_TABLE_REFUSES_UNRECORDABLE : bool := true.  (* without _Validation *)")
    return "\n".join(out) + "\n"


# --------------------------------------------------------------------------- #
# I/O discipline of the write paths (C15).  Three-valued: `true` when the discipline is recognised, `false` when the
# text positively shows a discarded result or a missing flush, otherwise the datum is left out (arbitrated by behaviour).
def flush_flag(name, text, sig, where, what, scope=None):
    top = fn_body(text, sig, where, scope=scope)
    b = flat(closure(text, top))
    if not re.search(r"\.flush\(\)", b):
        return "Definition %s : bool := false.  (* %s: no flush *)" % (name, what)
    if any(re.search(r"\.flush\(\)\s*" + d.replace("let _ =", "XX"), b) for d in DISCARDS) or re.search(r"let _ = [^;]*\.flush\(\)", b):
        return "Definition %s : bool := false.  (* %s: flush result discarded *)" % (name, what)
    t = flat(top).strip()
    if re.search(r"\.flush\(\)\s*\?\s*;\s*Ok\(\(\)\)\s*}\s*$", t) or re.search(r"\.flush\(\)\s*}\s*$", t):
        return "Definition %s : bool := true.  (* %s *)" % (name, what)
    raise TranslateError("%s: position of the flush in %s not recognised" % (name, what))


def propagation_flag(name, body, calls, what):
    b = flat(body)
    bad = [d for d in DISCARDS if re.search(d, b)]
    if bad:
        return "Definition %s : bool := false.  (* %s: result discarded (%s) *)" % (name, what, bad[0])
    for c in calls:
        found = re.findall(r"%s\([^;]*?\)\s*(\?)?\s*[;)]" % re.escape(c), b)
        if not found:
            raise TranslateError("%s: call %s not found in %s" % (name, c, what))
        if any(q != "?" for q in found):
            raise TranslateError("%s: a call of %s in %s is not followed by `?`" % (name, c, what))
    return "Definition %s : bool := true.  (* %s *)" % (name, what)


def gen_io():
    out = ["From Coq Require Import Bool.", ""]
    tb = strip_tests(src("src/internal/table.rs"))
    sp = strip_tests(src("src/internal/stringpool.rs"))
    ps = strip_tests(src("src/internal/propset.rs"))
    pk = strip_tests(src("src/internal/package.rs"))
    qy = strip_tests(src("src/internal/query.rs"))
    with attempt("IO_WRITE_ROWS_FLUSHES"):
        out.append(flush_flag("IO_WRITE_ROWS_FLUSHES", tb, "fn write_rows<", "table.rs", "Table::write_rows"))
    with attempt("IO_WRITE_POOL_FLUSHES"):
        out.append(flush_flag("IO_WRITE_POOL_FLUSHES", sp, "pub fn write_pool<", "stringpool.rs", "StringPool::write_pool"))
    with attempt("IO_WRITE_DATA_FLUSHES"):
        out.append(flush_flag("IO_WRITE_DATA_FLUSHES", sp, "pub fn write_data<", "stringpool.rs", "StringPool::write_data"))
    with attempt("IO_PROPSET_WRITE_FLUSHES"):
        out.append(flush_flag("IO_PROPSET_WRITE_FLUSHES", ps, "pub fn write<W: Write>(&self, mut writer: W)", "propset.rs", "PropertySet::write", scope="PropertySet"))
    with attempt("IO_FINISH_PROPAGATES"):
        fin = closure(pk, fn_body(pk, "fn finish(&self, package: &mut Package<F>)", "package.rs", scope="FinishImpl"))
        out.append(propagation_flag("IO_FINISH_PROPAGATES", fin, ["summary_info.write", "write_pool", "write_data", "create_stream"],
                                    "FinishImpl::finish uses ? on every write"))
    with attempt("IO_FLUSH_PROPAGATES"):
        fl = fn_body(pk, "pub fn flush(&mut self)", "package.rs")
        b = flat(closure(pk, fl))
        bad = [d for d in DISCARDS if re.search(d, b)]
        if bad:
            out.append("Definition IO_FLUSH_PROPAGATES : bool := false.  (* Package::flush: result discarded (%s) *)" % bad[0])
        elif re.search(r"finisher\.finish\(self\)\?;", flat(fl)) and re.search(r"self\.comp_mut\(\)\.flush\(\)\s*}", flat(fl)):
            out.append("Definition IO_FLUSH_PROPAGATES : bool := true.  (* Package::flush returns the finisher's and the container's errors *)")
        else:
            raise TranslateError("IO_FLUSH_PROPAGATES: shape of Package::flush not recognised")
    with attempt("IO_CREATE_PROPAGATES"):
        cr = flat(fn_body(pk, "pub fn create(inner: F", "package.rs"))
        if re.search(r"\.flush\(\)\s*\?\s*;", cr):
            out.append("Definition IO_CREATE_PROPAGATES : bool := true.  (* Package::create returns the error of its own final flush *)")
        elif re.search(r"\.flush\(\)\s*(?:\.ok\(\)|\.unwrap_or|\.is_err\(\)|;)", cr) or re.search(r"let _ = [^;]*\.flush\(\)", cr):
            out.append("Definition IO_CREATE_PROPAGATES : bool := false.  (* Package::create discards the result of its final flush *)")
        else:
            raise TranslateError("IO_CREATE_PROPAGATES: the final flush of Package::create not recognised")
    with attempt("IO_EXEC_PROPAGATES"):
        q = flat(qy)
        n_exec = len(re.findall(r"\.write_rows\(", q))
        n_prop = len(re.findall(r"\.write_rows\([^;]*\)\?;", q))
        if n_exec == 0:
            raise TranslateError("IO_EXEC_PROPAGATES: no write_rows call in query.rs")
        if re.search(r"let _ = [^;]*\.write_rows\(|\.write_rows\([^;]*\)\s*(?:\.ok\(\)|\.unwrap_or)|\.write_rows\([^;?]*\);", q):
            out.append("Definition IO_EXEC_PROPAGATES : bool := false.  (* a write_rows result is discarded *)")
        elif n_exec == n_prop:
            out.append("Definition IO_EXEC_PROPAGATES : bool := true.  (* Insert/Update/Delete::exec use ? on write_rows (%d of %d) *)" % (n_prop, n_exec))
        else:
            raise TranslateError("IO_EXEC_PROPAGATES: %d of %d write_rows calls recognised as propagated" % (n_prop, n_exec))
    with attempt("IO_REMOVE_SIG_PROPAGATES"):
        # remove_digital_signature removes up to two container entries: each removal's error must reach the caller
        rs = flat(fn_body(pk, "pub fn remove_digital_signature(&mut self)", "package.rs"))
        n_rm = len(re.findall(r"\.remove_stream\(", rs))
        n_prop = len(re.findall(r"\.remove_stream\([^;]*?\)\s*\?\s*;", rs))
        tail_ok = re.search(r"Ok\(\(\)\)\s*}\s*$", rs) is not None
        if n_rm == 0:
            raise TranslateError("IO_REMOVE_SIG_PROPAGATES: no remove_stream call in remove_digital_signature")
        if n_rm == n_prop and tail_ok:
            out.append("Definition IO_REMOVE_SIG_PROPAGATES : bool := true.  (* remove_digital_signature uses ? on each removal (%d of %d) *)" % (n_prop, n_rm))
        elif re.search(r"let _ = [^;]*\.remove_stream\(|\.remove_stream\([^;]*\)\s*(?:\.ok\(\)|\.unwrap_or)|(?:result|res|r)\s*=\s*[^;]*\.remove_stream\(", rs):
            out.append("Definition IO_REMOVE_SIG_PROPAGATES : bool := false.  (* the result of a removal is discarded or overwritten *)")
        else:
            raise TranslateError("IO_REMOVE_SIG_PROPAGATES: %d of %d removals recognised as propagated" % (n_prop, n_rm))
    with attempt("SUMMARY_MUT_ARMS"):
        # summary_info_mut marks the summary modified and arms the deferred save on EVERY call
        sm = flat(fn_body(pk, "pub fn summary_info_mut(&mut self)", "package.rs"))
        marks = re.search(r"self\.is_summary_info_modified\s*=\s*true\s*;", sm) is not None
        arms = re.search(r"self\.set_finisher\(\)\s*;", sm) is not None
        cond = re.search(r"\b(if|match|while)\b", sm) is not None
        if marks and arms and not cond:
            out.append("Definition SUMMARY_MUT_ARMS : bool := true.  (* summary_info_mut: modified flag and finisher set unconditionally *)")
        elif cond and (marks or arms):
            out.append("Definition SUMMARY_MUT_ARMS : bool := false.  (* summary_info_mut marks / arms only under a condition *)")
        elif not marks or not arms:
            raise TranslateError("SUMMARY_MUT_ARMS: shape of summary_info_mut not recognised")
    with attempt("QUERY_WITH_CONJOINS"):
        # Select / Update / Delete::with: a further restriction is AND-ed to the one already there
        q = flat(qy)
        bodies = [m.end() for m in re.finditer(r"pub fn with\(mut self, condition: Expr\)", q)]
        if len(bodies) != 3:
            raise TranslateError("QUERY_WITH_CONJOINS: %d with() methods found, 3 expected" % len(bodies))
        good = 0
        for b in bodies:
            body = q[b:b + 400]
            body = body[:body.index(" self }") + 7] if " self }" in body else body
            if re.search(r"Some\(expr\.and\(condition\)\)", body) and re.search(r"Some\(condition\)", body):
                good += 1
        if good == 3:
            out.append("Definition QUERY_WITH_CONJOINS : bool := true.  (* with(): Some(expr.and(condition)) / Some(condition), 3 of 3 *)")
        else:
            raise TranslateError("QUERY_WITH_CONJOINS: %d of 3 with() bodies recognised" % good)
    return "\n".join(out) + "\n"


def gen_singlebyte():
    """the single-byte index tables of the encoding_rs release that Cargo.lock pins (src/data.rs in the cargo registry):
    128 code points per encoding for the bytes 0x80..0xFF, 0 = unmapped"""
    lock = src("Cargo.lock")
    m = re.search(r'name = "encoding_rs"\s*\nversion = "([^"]+)"', lock)
    if not m:
        raise TranslateError("anchor missing: encoding_rs in Cargo.lock")
    ver = m.group(1)
    import glob
    home = os.environ.get("CARGO_HOME") or os.path.join(os.path.expanduser("~"), ".cargo")
    paths = sorted(glob.glob(os.path.join(home, "registry", "src", "*", "encoding_rs-%s" % ver, "src", "data.rs")))
    if not paths:
        raise TranslateError("anchor missing: encoding_rs-%s/src/data.rs in the cargo registry" % ver)
    text = open(paths[0], encoding="utf-8").read()
    i = text.find("pub static SINGLE_BYTE_DATA")
    if i < 0:
        raise TranslateError("anchor missing: SINGLE_BYTE_DATA in encoding_rs data.rs")
    j = text.index("{", text.index("=", i))
    block = text[j:_match_braces(text, j) + 1]
    rows = []
    for name, body in re.findall(r"(\w+): \[(.*?)\],\n", block, re.S):
        nums = [rust_int(x) for x in re.findall(r"0x[0-9A-Fa-f]+|\b\d+\b", body)]
        if len(nums) != 128:
            raise TranslateError("single-byte table %s has %d entries" % (name, len(nums)))
        rows.append("  (%s, [%s])" % (coq_str(name.upper()), "; ".join(map(str, nums))))
    if len(rows) < 20:
        raise TranslateError("only %d single-byte tables found" % len(rows))
    out = ["From Coq Require Import NArith List.", "Import ListNotations.", "Open Scope N_scope.", "",
           "(* encoding_rs %s *)" % ver,
           "Definition SB_TABLES : list (list N * list N) := [\n%s\n]." % ";\n".join(rows)]
    return "\n".join(out) + "\n"


GENERATORS = {"GenSingleByte.v": gen_singlebyte, "GenCatalog.v": gen_catalog, "GenStreamName.v": gen_streamname, "GenCodePage.v": gen_codepage, "GenColumn.v": gen_column, "GenCategory.v": gen_category, "GenConsts.v": gen_consts, "GenLanguage.v": gen_language, "GenExpr.v": gen_expr, "GenIo.v": gen_io}


def candidates():
    """-> ({file: text or None}, {file: [reasons of the extractions that failed]})"""
    texts, errors = {}, {}
    header = "(* GENERATED by tools/translate.py from %s -- do not edit *)\n" % REPO
    for name, fn in GENERATORS.items():
        del ERRORS[:]
        try:
            texts[name] = header + fn()
        except (TranslateError, OSError, ValueError, IndexError, KeyError, AttributeError) as e:
            texts[name] = None
            ERRORS.append("%s" % e)
        errors[name] = list(ERRORS)
    return texts, errors


def main():
    import arbitrate
    cands, errs = candidates()
    final, notes, failures = arbitrate.decide(cands, errs)
    changed = []
    for name, text in final.items():
        body = text.split("\n", 1)[1] if text.startswith("(* GENERATED") else text
        if write_if_changed(name, body):
            changed.append(name)
    for n in notes:
        print("translate: note: %s" % n)
    if failures:
        print("translate: FAILED: %s" % " | ".join(failures))
        sys.exit(3)
    print("translate: ok (%d files, changed: %s)" % (len(final), ",".join(changed) or "none"))


if __name__ == "__main__":
    sys.path.insert(0, os.path.dirname(os.path.abspath(__file__)))
    try:
        main()
    except TranslateError as e:
        print("translate: FAILED: %s" % e)
        sys.exit(3)
