(* driver.ml -- runs the extracted model on a command script.
   stdin: one s-expression per line; stdout: one observation per line.
   The line "(reset)" re-initialises the model state (start of a case).
   Everything semantic lives in the extracted [Msimodel.dispatch]; this file
   only converts between text and the extracted inductive types. *)
module S = Stdlib.String
module L = Stdlib.List
type ostring = string
open Msimodel

(* ---- integers: OCaml text <-> extracted positive/Z (arbitrary size) ---- *)
let rec pos_of_int (i : int) : positive =
  if i = 1 then XH
  else if i land 1 = 1 then XI (pos_of_int (i lsr 1))
  else XO (pos_of_int (i lsr 1))

(* decimal digit array (most significant first) -> bits, least significant first *)
let bits_of_decimal (s : ostring) : bool list =
  let d = Array.init (S.length s) (fun i -> Char.code s.[i] - 48) in
  let n = Array.length d in
  let start = ref 0 in
  let bits = ref [] in
  while !start < n do
    let carry = ref 0 in
    for i = !start to n - 1 do
      let cur = !carry * 10 + d.(i) in
      d.(i) <- cur / 2;
      carry := cur mod 2
    done;
    bits := (!carry = 1) :: !bits;
    while !start < n && d.(!start) = 0 do incr start done
  done;
  L.rev !bits

let rec pos_of_bits (b : bool list) : positive =
  match b with
  | [] -> failwith "pos_of_bits"
  | [ true ] -> XH
  | true :: r -> XI (pos_of_bits r)
  | false :: r -> XO (pos_of_bits r)

let z_of_string (s : ostring) : z =
  let neg = S.length s > 0 && s.[0] = '-' in
  let body = if neg then S.sub s 1 (S.length s - 1) else s in
  if S.length body = 0 then failwith "empty int";
  S.iter (fun c -> if c < '0' || c > '9' then failwith ("bad int " ^ s)) body;
  if S.length body <= 17 then begin
    let i = int_of_string body in
    if i = 0 then Z0 else if neg then Zneg (pos_of_int i) else Zpos (pos_of_int i)
  end else begin
    let rec strip = function false :: r when r <> [] -> false :: strip r | l -> l in
    ignore strip;
    let bits = bits_of_decimal body in
    (* drop trailing (most significant) zeros *)
    let rec trim l = match L.rev l with false :: r -> trim (L.rev r) | _ -> l in
    let bits = trim bits in
    if bits = [] then Z0
    else if neg then Zneg (pos_of_bits bits) else Zpos (pos_of_bits bits)
  end

let rec int_of_pos_opt (p : positive) (depth : int) : int option =
  if depth > 60 then None
  else
    match p with
    | XH -> Some 1
    | XO q -> (match int_of_pos_opt q (depth + 1) with Some v -> Some (2 * v) | None -> None)
    | XI q -> (match int_of_pos_opt q (depth + 1) with Some v -> Some (2 * v + 1) | None -> None)

let string_of_pos (p : positive) : ostring =
  match int_of_pos_opt p 0 with
  | Some v -> string_of_int v
  | None ->
      (* big: collect bits msb first, then double-and-add on a decimal array *)
      let rec bits p acc = match p with XH -> true :: acc | XO q -> bits q (false :: acc) | XI q -> bits q (true :: acc) in
      let bl = bits p [] in
      let digits = ref [ 0 ] in
      (* digits least significant first *)
      L.iter
        (fun b ->
          let carry = ref (if b then 1 else 0) in
          digits :=
            L.map
              (fun d ->
                let v = (d * 2) + !carry in
                carry := v / 10;
                v mod 10)
              !digits;
          if !carry > 0 then digits := !digits @ [ !carry ])
        bl;
      S.concat "" (L.rev_map string_of_int !digits)

let string_of_z (x : z) : ostring =
  match x with Z0 -> "0" | Zpos p -> string_of_pos p | Zneg p -> "-" ^ string_of_pos p

(* ---- Coq strings ------------------------------------------------------- *)
let ascii_of_char (c : char) : ascii =
  let n = Char.code c in
  let b i = n land (1 lsl i) <> 0 in
  Ascii (b 0, b 1, b 2, b 3, b 4, b 5, b 6, b 7)

let char_of_ascii (a : ascii) : char =
  match a with
  | Ascii (b0, b1, b2, b3, b4, b5, b6, b7) ->
      let v b i = if b then 1 lsl i else 0 in
      Char.chr (v b0 0 + v b1 1 + v b2 2 + v b3 3 + v b4 4 + v b5 5 + v b6 6 + v b7 7)

let coq_string (s : ostring) : Msimodel.string =
  let r = ref EmptyString in
  for i = S.length s - 1 downto 0 do
    r := String (ascii_of_char s.[i], !r)
  done;
  !r

let rec ocaml_string (s : Msimodel.string) (b : Buffer.t) : unit =
  match s with
  | EmptyString -> ()
  | String (a, r) ->
      Buffer.add_char b (char_of_ascii a);
      ocaml_string r b

(* ---- s-expressions ----------------------------------------------------- *)
let parse_line (s : ostring) : sx =
  let n = S.length s in
  let pos = ref 0 in
  let skip () = while !pos < n && (s.[!pos] = ' ' || s.[!pos] = '\t' || s.[!pos] = '\r') do incr pos done in
  let rec one () : sx =
    skip ();
    if !pos >= n then failwith "unexpected end";
    let c = s.[!pos] in
    if c = '(' then begin
      incr pos;
      let items = ref [] in
      let fin = ref false in
      while not !fin do
        skip ();
        if !pos >= n then failwith "unclosed";
        if s.[!pos] = ')' then (incr pos; fin := true) else items := one () :: !items
      done;
      SL (L.rev !items)
    end else begin
      let st = !pos in
      while !pos < n && s.[!pos] <> ' ' && s.[!pos] <> '(' && s.[!pos] <> ')' do incr pos done;
      let tok = S.sub s st (!pos - st) in
      if tok = "" then failwith "empty token";
      let c0 = tok.[0] in
      if (c0 >= '0' && c0 <= '9') || (c0 = '-' && S.length tok > 1) then SI (z_of_string tok)
      else SY (coq_string tok)
    end
  in
  one ()

let rec print_sx (b : Buffer.t) (x : sx) : unit =
  match x with
  | SI z -> Buffer.add_string b (string_of_z z)
  | SY s -> ocaml_string s b
  | SL l ->
      Buffer.add_char b '(';
      L.iteri
        (fun i y ->
          if i > 0 then Buffer.add_char b ' ';
          print_sx b y)
        l;
      Buffer.add_char b ')'

let () =
  let st = ref init_state in
  let out = Buffer.create 65536 in
  (try
     while true do
       let line = input_line stdin in
       if line = "" then ()
       else if line = "(reset)" then begin
         st := init_state;
         (match Sys.getenv_opt "MSI_PROFILE" with
          | Some "release" -> let st', _ = dispatch !st (parse_line "(profile release)") in st := st'
          | _ -> ());
         Buffer.add_string out "(reset)\n"
       end else begin
         let c = parse_line line in
         let st', o = dispatch !st c in
         st := st';
         print_sx out o;
         Buffer.add_char out '\n'
       end;
       if Buffer.length out > 60000 then begin
         print_string (Buffer.contents out);
         Buffer.clear out
       end
     done
   with End_of_file -> ());
  print_string (Buffer.contents out)
